package apps

// Engine "pfm" (C43): packet-forward middleware on four real ibctesting chains in a line
// (0 - 1 - 2 - 3, one transfer channel between neighbours, testing/simapp wiring:
// transfer <- PFM <- rate limiting).  A scenario is a multi-hop forward started by a plain
// MsgTransfer whose memo nests the forward instructions; every hop is relayed through core IBC with
// real proofs and ends in success, an error acknowledgement (invalid final receiver / unknown next
// channel) or a number of timeouts (retried by PFM up to `retries`).
// Observed: whether the final receiver was paid, and the complete bank state (all balances, all
// supplies) and ICS-20 total-escrow table of all four chains before and after.

import (
	"encoding/json"
	"fmt"
	"sort"
	"strings"
	"time"

	sdkmath "cosmossdk.io/math"

	abci "github.com/cometbft/cometbft/abci/types"

	sdk "github.com/cosmos/cosmos-sdk/types"
	authtypes "github.com/cosmos/cosmos-sdk/x/auth/types"
	banktypes "github.com/cosmos/cosmos-sdk/x/bank/types"

	packetforward "github.com/cosmos/ibc-go/v11/modules/apps/packet-forward-middleware"
	transfertypes "github.com/cosmos/ibc-go/v11/modules/apps/transfer/types"
	clienttypes "github.com/cosmos/ibc-go/v11/modules/core/02-client/types"
	channeltypes "github.com/cosmos/ibc-go/v11/modules/core/04-channel/types"
	ibctesting "github.com/cosmos/ibc-go/v11/testing"
)

type pfmEnv struct {
	L      [4]*ibctesting.TestChain
	P      [3]*ibctesting.Path // P[i] joins L[i] (EndpointA) and L[i+1] (EndpointB)
	seeded map[string]bool
}

var pfmOnce *pfmEnv

func newPfmEnv() *pfmEnv {
	if pfmOnce != nil {
		return pfmOnce
	}
	e := &pfmEnv{seeded: map[string]bool{}}
	for i := 0; i < 4; i++ {
		e.L[i] = ChainN(i + 1)
	}
	for i := 0; i < 3; i++ {
		e.P[i] = ibctesting.NewTransferPath(e.L[i], e.L[i+1])
		e.P[i].Setup()
	}
	for _, m := range []string{"distribution", "fee_collector", "bonded_tokens_pool", "not_bonded_tokens_pool", "mint"} {
		pfmNoisyAddrs = append(pfmNoisyAddrs, authtypes.NewModuleAddress(m).String())
	}
	pfmOnce = e
	return e
}

// ends returns (endpoint on x, endpoint on y) for neighbouring chains x, y.
func (e *pfmEnv) ends(x, y int) (*ibctesting.Endpoint, *ibctesting.Endpoint) {
	if y == x+1 {
		return e.P[x].EndpointA, e.P[x].EndpointB
	}
	return e.P[y].EndpointB, e.P[y].EndpointA
}

// denomAt is the ICS-20 denomination on chain x of chain j's native token.
func (e *pfmEnv) denomAt(j, x int) transfertypes.Denom {
	var hops []transfertypes.Hop
	if x > j {
		for k := x - 1; k >= j; k-- {
			hops = append(hops, transfertypes.NewHop("transfer", e.P[k].EndpointB.ChannelID))
		}
	} else {
		for k := x; k < j; k++ {
			hops = append(hops, transfertypes.NewHop("transfer", e.P[k].EndpointA.ChannelID))
		}
	}
	return transfertypes.NewDenom(sdk.DefaultBondDenom, hops...)
}

func (e *pfmEnv) addr(i int) sdk.AccAddress { return e.L[i].SenderAccount.GetAddress() }

// sendPlain performs one ordinary ICS-20 transfer x -> y and relays it completely.
func (e *pfmEnv) sendPlain(x, y int, coin sdk.Coin) {
	ex, _ := e.ends(x, y)
	msg := transfertypes.NewMsgTransfer("transfer", ex.ChannelID, coin, e.addr(x).String(), e.addr(y).String(), e.L[y].GetTimeoutHeight(), 0, "")
	res, err := e.L[x].SendMsgs(msg)
	if err != nil {
		panic(err)
	}
	pk, err := ibctesting.ParseV1PacketFromEvents(res.Events)
	if err != nil {
		panic(err)
	}
	p := e.pathOf(x, y)
	if err := p.RelayPacket(pk); err != nil {
		panic(err)
	}
}

func (e *pfmEnv) pathOf(x, y int) *ibctesting.Path {
	if y == x+1 {
		return e.P[x]
	}
	return e.P[y]
}

// seed makes sure the sender account of chain x owns plenty of chain j's token.
func (e *pfmEnv) seed(j, x int) {
	key := fmt.Sprintf("%d-%d", j, x)
	if e.seeded[key] || j == x {
		return
	}
	step := 1
	if x < j {
		step = -1
	}
	amt := sdkmath.NewInt(1000000)
	for k := j; k != x; k += step {
		e.sendPlain(k, k+step, sdk.NewCoin(e.denomAt(j, k).IBCDenom(), amt))
	}
	e.seeded[key] = true
}

type pfmSnap struct {
	bal    map[string]string // chain|addr|denom -> amount
	supply map[string]string // chain|denom
	escrow map[string]string // chain|denom (ICS-20 total escrow)
}

func (e *pfmEnv) snap() pfmSnap {
	s := pfmSnap{bal: map[string]string{}, supply: map[string]string{}, escrow: map[string]string{}}
	for i, c := range e.L {
		ctx := c.GetContext()
		app := SimApp(c)
		for _, b := range app.BankKeeper.GetAccountsBalances(ctx) {
			for _, coin := range b.Coins {
				s.bal[fmt.Sprintf("%d|%s|%s", i, b.Address, coin.Denom)] = coin.Amount.String()
			}
		}
		app.BankKeeper.IterateTotalSupply(ctx, func(coin sdk.Coin) bool {
			s.supply[fmt.Sprintf("%d|%s", i, coin.Denom)] = coin.Amount.String()
			return false
		})
		for _, coin := range app.TransferKeeper.GetAllTotalEscrowed(ctx) {
			s.escrow[fmt.Sprintf("E%d|%s", i, coin.Denom)] = coin.Amount.String()
		}
	}
	return s
}

// escrowMismatch: C31 on the four chains - for every denomination, the ICS-20 tracked total escrow equals
// the sum of the balances of the chain's transfer escrow accounts (nothing but IBC moves funds there)
func (e *pfmEnv) escrowMismatch() []string {
	var out []string
	for i, c := range e.L {
		ctx := c.GetContext()
		app := SimApp(c)
		held := map[string]sdkmath.Int{}
		var chans []string
		if i < len(e.P) {
			chans = append(chans, e.P[i].EndpointA.ChannelID)
		}
		if i > 0 {
			chans = append(chans, e.P[i-1].EndpointB.ChannelID)
		}
		for _, ch := range chans {
			for _, coin := range app.BankKeeper.GetAllBalances(ctx, transfertypes.GetEscrowAddress("transfer", ch)) {
				if cur, ok := held[coin.Denom]; ok {
					held[coin.Denom] = cur.Add(coin.Amount)
				} else {
					held[coin.Denom] = coin.Amount
				}
			}
		}
		tracked := map[string]sdkmath.Int{}
		for _, coin := range app.TransferKeeper.GetAllTotalEscrowed(ctx) {
			tracked[coin.Denom] = coin.Amount
		}
		denoms := map[string]bool{}
		for d := range held {
			denoms[d] = true
		}
		for d := range tracked {
			denoms[d] = true
		}
		for d := range denoms {
			h, t := sdkmath.ZeroInt(), sdkmath.ZeroInt()
			if v, ok := held[d]; ok {
				h = v
			}
			if v, ok := tracked[d]; ok {
				t = v
			}
			if !h.Equal(t) {
				out = append(out, fmt.Sprintf("chain %d denom %s: tracked total escrow %s, escrow accounts hold %s", i, d, t, h))
			}
		}
	}
	sort.Strings(out)
	return out
}

// pfmNoise: inflation / staking rewards move the native staking token of every chain on every block
func pfmNoise(k string) bool {
	for _, a := range pfmNoisyAddrs {
		if strings.Contains(k, "|"+a+"|") {
			return true
		}
	}
	return strings.HasSuffix(k, "|"+sdk.DefaultBondDenom) && strings.Count(k, "|") == 1 && !strings.HasPrefix(k, "E")
}

var pfmNoisyAddrs []string

func diffMaps(a, b map[string]string) []string {
	var out []string
	keys := map[string]bool{}
	for k := range a {
		keys[k] = true
	}
	for k := range b {
		keys[k] = true
	}
	for k := range keys {
		va, vb := a[k], b[k]
		if va == "" {
			va = "0"
		}
		if vb == "" {
			vb = "0"
		}
		if va != vb && !pfmNoise(k) {
			out = append(out, k+": "+va+" -> "+vb)
		}
	}
	sort.Strings(out)
	return out
}

type pfmFlight struct {
	pk       channeltypes.Packet
	from, to int
	hop      int // index of the hop this packet travels (0 = first)
}

type pfmScenario struct {
	origin, start int
	route         []int // chains visited after start
	amount        int64
	badReceiver   bool  // final receiver is not an address => error ack at the last chain
	badChannelAt  int   // hop index whose forward names a channel that does not exist (-1: none)
	timeouts      []int // per hop: how many times the packet of that hop times out before being delivered
	retries       int
}

func (e *pfmEnv) memo(sc pfmScenario, receiver string) string {
	// build from the innermost forward outwards: the packet arriving at route[i] carries forward -> route[i+1]
	var next map[string]any
	for i := len(sc.route) - 2; i >= 0; i-- {
		ex, _ := e.ends(sc.route[i], sc.route[i+1])
		ch := ex.ChannelID
		if sc.badChannelAt == i+1 {
			ch = "channel-4242"
		}
		rcv := "pfm-intermediate"
		if i == len(sc.route)-2 {
			rcv = receiver
		}
		fw := map[string]any{"receiver": rcv, "port": "transfer", "channel": ch, "timeout": "10m", "retries": sc.retries}
		if next != nil {
			fw["next"] = next
		}
		next = map[string]any{"forward": fw}
	}
	if next == nil {
		return ""
	}
	bz, _ := json.Marshal(next)
	return string(bz)
}

type pfmResult struct {
	class     string // delivered | refunded | stuck
	diff      []string
	overrides []string // non-empty balances of PFM override-receiver accounts afterwards
	steps     []string
}

// run executes one scenario on the real chains.
func (e *pfmEnv) run(sc pfmScenario) (res pfmResult) {
	e.seed(sc.origin, sc.start)
	before := e.snap()
	last := sc.route[len(sc.route)-1]
	receiver := sdk.AccAddress([]byte(fmt.Sprintf("pfm-final-receiver-%02d", last))[:20]).String()
	if sc.badReceiver {
		receiver = "definitely-not-an-address"
	}
	firstRcv := receiver
	if len(sc.route) > 1 {
		firstRcv = "pfm-intermediate"
	}
	coin := sdk.NewCoin(e.denomAt(sc.origin, sc.start).IBCDenom(), sdkmath.NewInt(sc.amount))
	ex, _ := e.ends(sc.start, sc.route[0])
	msg := transfertypes.NewMsgTransfer("transfer", ex.ChannelID, coin, e.addr(sc.start).String(), firstRcv, clienttypes.ZeroHeight(),
		uint64(e.L[sc.start].GetContext().BlockTime().Add(10*time.Minute).UnixNano()), e.memo(sc, receiver))
	txr, err := e.L[sc.start].SendMsgs(msg)
	if err != nil {
		res.class = "send-failed"
		res.steps = append(res.steps, err.Error())
		return
	}
	pk, err := ibctesting.ParseV1PacketFromEvents(txr.Events)
	if err != nil {
		panic(err)
	}
	queue := []pfmFlight{{pk: pk, from: sc.start, to: sc.route[0], hop: 0}}
	timeoutsLeft := append([]int{}, sc.timeouts...)
	// acks to deliver: (packet, ack bytes, chain that sent the packet, chain that wrote the ack)
	type ackItem struct {
		pk       channeltypes.Packet
		ack      []byte
		from, to int
	}
	var acks []ackItem
	chainOfChannel := func(chainIdx int, channel string) int {
		// neighbour of chainIdx reached through its channel `channel`
		for _, nb := range []int{chainIdx - 1, chainIdx + 1} {
			if nb < 0 || nb > 3 {
				continue
			}
			a, _ := e.ends(chainIdx, nb)
			if a.ChannelID == channel {
				return nb
			}
		}
		return -1
	}
	handleEvents := func(chainIdx int, events []abci.Event, hop int) {
		sent, _ := ibctesting.ParseIBCV1Packets(channeltypes.EventTypeSendPacket, events)
		for _, p := range sent {
			to := chainOfChannel(chainIdx, p.SourceChannel)
			queue = append(queue, pfmFlight{pk: p, from: chainIdx, to: to, hop: hop})
		}
		written, _ := ibctesting.ParseIBCV1Packets(channeltypes.EventTypeWriteAck, events)
		if len(written) > 0 {
			ackBz, err := ibctesting.ParseAckFromEvents(events)
			if err == nil {
				for _, p := range written {
					from := chainOfChannel(chainIdx, p.DestinationChannel)
					acks = append(acks, ackItem{pk: p, ack: ackBz, from: from, to: chainIdx})
				}
			}
		}
	}
	for guard := 0; (len(queue) > 0 || len(acks) > 0) && guard < 60; guard++ {
		if len(acks) > 0 {
			a := acks[0]
			acks = acks[1:]
			src, _ := e.ends(a.from, a.to)
			_ = src.UpdateClient()
			r, err := src.AcknowledgePacketWithResult(a.pk, a.ack)
			if err != nil {
				res.steps = append(res.steps, fmt.Sprintf("ack on %d failed: %v", a.from, err))
				continue
			}
			res.steps = append(res.steps, fmt.Sprintf("ack %d<-%d seq %d", a.from, a.to, a.pk.Sequence))
			handleEvents(a.from, r.Events, 0)
			continue
		}
		f := queue[0]
		queue = queue[1:]
		if f.to < 0 {
			res.steps = append(res.steps, "packet sent on an unknown channel")
			continue
		}
		src, dst := e.ends(f.from, f.to)
		if f.hop < len(timeoutsLeft) && timeoutsLeft[f.hop] > 0 {
			timeoutsLeft[f.hop]--
			// let the packet expire on the destination, then time it out on the source
			e.L[0].Coordinator.IncrementTimeBy(11 * time.Minute)
			e.L[0].Coordinator.CommitBlock(e.L[f.to])
			_ = src.UpdateClient()
			r, err := src.TimeoutPacketWithResult(f.pk)
			if err != nil {
				res.steps = append(res.steps, fmt.Sprintf("timeout on %d failed: %v", f.from, err))
				continue
			}
			res.steps = append(res.steps, fmt.Sprintf("timeout %d->%d seq %d", f.from, f.to, f.pk.Sequence))
			handleEvents(f.from, r.Events, f.hop)
			continue
		}
		_ = dst.UpdateClient()
		r, err := dst.RecvPacketWithResult(f.pk)
		if err != nil {
			res.steps = append(res.steps, fmt.Sprintf("recv on %d failed: %v", f.to, err))
			continue
		}
		res.steps = append(res.steps, fmt.Sprintf("recv %d->%d seq %d", f.from, f.to, f.pk.Sequence))
		handleEvents(f.to, r.Events, f.hop+1)
	}
	after := e.snap()
	res.diff = append(append(diffMaps(before.bal, after.bal), diffMaps(before.supply, after.supply)...), diffMaps(before.escrow, after.escrow)...)
	// classification
	rcvKey := ""
	for k := range after.bal {
		if strings.HasPrefix(k, fmt.Sprintf("%d|%s|", last, receiver)) && before.bal[k] != after.bal[k] {
			rcvKey = k
		}
	}
	senderKey := fmt.Sprintf("%d|%s|%s", sc.start, e.addr(sc.start).String(), coin.Denom)
	switch {
	case rcvKey != "":
		res.class = "delivered"
	case before.bal[senderKey] == after.bal[senderKey]:
		res.class = "refunded"
	default:
		res.class = "stuck"
	}
	// PFM override receivers: hash of "<channel>/<original sender>" — any balance left there is a violation
	curSender := e.addr(sc.start).String()
	for i := 0; i < len(sc.route)-1; i++ {
		c := sc.route[i]
		prev := sc.start
		if i > 0 {
			prev = sc.route[i-1]
		}
		here, _ := e.ends(c, prev)
		ov, err := packetforward.GetReceiver(SimApp(e.L[c]).AccountKeeper.AddressCodec(), here.ChannelID, curSender)
		if err != nil {
			break
		}
		for k, v := range after.bal {
			if strings.HasPrefix(k, fmt.Sprintf("%d|%s|", c, ov)) && v != "0" && before.bal[k] != v {
				res.overrides = append(res.overrides, k+"="+v)
			}
		}
		curSender = ov
	}
	return res
}

var _ = banktypes.ModuleName
