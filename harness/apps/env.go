package apps

import (
	"sync"

	sdk "github.com/cosmos/cosmos-sdk/types"

	ibctesting "github.com/cosmos/ibc-go/v11/testing"
	"github.com/cosmos/ibc-go/v11/testing/simapp"
)

// One coordinator per process, built lazily; engines that only need a store + codec use chain A's
// genesis context and never commit (every history runs on a cache branch).
var (
	coordOnce sync.Once
	coord     *ibctesting.Coordinator
)

func Coord() *ibctesting.Coordinator {
	coordOnce.Do(func() {
		coord = ibctesting.NewCoordinator(T(), 4)
	})
	return coord
}

func ChainN(i int) *ibctesting.TestChain { return Coord().GetChain(ibctesting.GetChainID(i)) }

func SimApp(c *ibctesting.TestChain) *simapp.SimApp { return c.App.(*simapp.SimApp) }

// Branch returns a cache branch of ctx that is simply dropped at the end of a history.
func Branch(ctx sdk.Context) sdk.Context {
	c, _ := ctx.CacheContext()
	return c
}
