package apps

// Engine "ratelimit" (C41): the real rate-limiting keeper, v1 middleware and v2 middleware
// (modules/apps/rate-limiting) run on a chain context.  What is NOT ibc-go rate-limiting code is
// scripted by the harness so that it is ground truth the model receives as a parameter: the bank
// supply (`GetChannelValue`), which channel / client ids exist (`AddRateLimit`), the next send
// sequence, the application underneath the middleware (its acknowledgement) and the ICS4 wrapper
// above the keeper.  The store, codec, collections schema and every line of keeper / middleware
// logic are the real ones.  Each op runs like a transaction: on a cache context that is written only
// if the handler returned no error (receive: only if the acknowledgement is not an error ack,
// as core's RecvPacket does).

import (
	"context"
	"errors"
	"fmt"
	"math/big"
	"sort"
	"time"

	sdkmath "cosmossdk.io/math"

	"github.com/cosmos/cosmos-sdk/runtime"
	sdk "github.com/cosmos/cosmos-sdk/types"
	authtypes "github.com/cosmos/cosmos-sdk/x/auth/types"
	govtypes "github.com/cosmos/cosmos-sdk/x/gov/types"

	ratelimiting "github.com/cosmos/ibc-go/v11/modules/apps/rate-limiting"
	rlkeeper "github.com/cosmos/ibc-go/v11/modules/apps/rate-limiting/keeper"
	rltypes "github.com/cosmos/ibc-go/v11/modules/apps/rate-limiting/types"
	rlv2 "github.com/cosmos/ibc-go/v11/modules/apps/rate-limiting/v2"
	transfertypes "github.com/cosmos/ibc-go/v11/modules/apps/transfer/types"
	clienttypes "github.com/cosmos/ibc-go/v11/modules/core/02-client/types"
	channeltypes "github.com/cosmos/ibc-go/v11/modules/core/04-channel/types"
	channeltypesv2 "github.com/cosmos/ibc-go/v11/modules/core/04-channel/v2/types"
	porttypes "github.com/cosmos/ibc-go/v11/modules/core/05-port/types"
	ibcexported "github.com/cosmos/ibc-go/v11/modules/core/exported"

	. "verif/harness/lib"
)

// ---------------------------------------------------------------- scripted surroundings

type rlChan struct {
	channels map[string]bool
	nextSeq  uint64
	hasSeq   bool
	sent     int
	acks     int
}

func (c *rlChan) SendPacket(_ sdk.Context, _, _ string, _ clienttypes.Height, _ uint64, _ []byte) (uint64, error) {
	c.sent++
	return c.nextSeq, nil
}
func (c *rlChan) WriteAcknowledgement(_ sdk.Context, _ ibcexported.PacketI, _ ibcexported.Acknowledgement) error {
	c.acks++
	return nil
}
func (c *rlChan) GetAppVersion(_ sdk.Context, _, _ string) (string, bool) { return "ics20-1", true }
func (c *rlChan) GetChannel(_ sdk.Context, port, ch string) (channeltypes.Channel, bool) {
	if port == transfertypes.PortID && c.channels[ch] {
		return channeltypes.Channel{State: channeltypes.OPEN}, true
	}
	return channeltypes.Channel{}, false
}
func (c *rlChan) GetChannelClientState(_ sdk.Context, _, _ string) (string, ibcexported.ClientState, error) {
	return "", nil, errors.New("unused")
}
func (c *rlChan) GetNextSequenceSend(_ sdk.Context, _, _ string) (uint64, bool) {
	return c.nextSeq, c.hasSeq
}

type rlClient struct{ clients map[string]bool }

func (c *rlClient) GetClientState(_ sdk.Context, _ string) (ibcexported.ClientState, bool) {
	return nil, false
}
func (c *rlClient) GetClientStatus(_ sdk.Context, id string) ibcexported.Status {
	if c.clients[id] {
		return ibcexported.Active
	}
	return ibcexported.Unknown
}

// rlApp is the application under the v1 middleware; only the packet callbacks are reachable.
type rlApp struct {
	porttypes.IBCModule
	ack string // success | error | async
}

func (a *rlApp) OnRecvPacket(_ sdk.Context, _ string, _ channeltypes.Packet, _ sdk.AccAddress) ibcexported.Acknowledgement {
	switch a.ack {
	case "success":
		return channeltypes.NewResultAcknowledgement([]byte{1})
	case "error":
		return channeltypes.NewErrorAcknowledgement(errors.New("scripted application error"))
	}
	return nil
}
func (a *rlApp) OnAcknowledgementPacket(_ sdk.Context, _ string, _ channeltypes.Packet, _ []byte, _ sdk.AccAddress) error {
	return nil
}
func (a *rlApp) OnTimeoutPacket(_ sdk.Context, _ string, _ channeltypes.Packet, _ sdk.AccAddress) error {
	return nil
}
func (a *rlApp) UnmarshalPacketData(_ sdk.Context, _, _ string, _ []byte) (any, string, error) {
	return nil, "", errors.New("unused")
}

type rlAppV2 struct{ ack string }

func (a *rlAppV2) OnSendPacket(_ sdk.Context, _, _ string, _ uint64, _ channeltypesv2.Payload, _ sdk.AccAddress) error {
	return nil
}
func (a *rlAppV2) OnRecvPacket(_ sdk.Context, _, _ string, _ uint64, _ channeltypesv2.Payload, _ sdk.AccAddress) channeltypesv2.RecvPacketResult {
	switch a.ack {
	case "success":
		return channeltypesv2.RecvPacketResult{Status: channeltypesv2.PacketStatus_Success, Acknowledgement: []byte{1}}
	case "error":
		return channeltypesv2.RecvPacketResult{Status: channeltypesv2.PacketStatus_Failure}
	}
	return channeltypesv2.RecvPacketResult{Status: channeltypesv2.PacketStatus_Async}
}
func (a *rlAppV2) OnTimeoutPacket(_ sdk.Context, _, _ string, _ uint64, _ channeltypesv2.Payload, _ sdk.AccAddress) error {
	return nil
}
func (a *rlAppV2) OnAcknowledgementPacket(_ sdk.Context, _, _ string, _ uint64, _ []byte, _ channeltypesv2.Payload, _ sdk.AccAddress) error {
	return nil
}

type rlChanV2 struct{ pkt *channeltypesv2.Packet }

func (c *rlChanV2) GetAsyncPacket(_ sdk.Context, _ string, _ uint64) (channeltypesv2.Packet, bool) {
	if c.pkt == nil {
		return channeltypesv2.Packet{}, false
	}
	return *c.pkt, true
}
func (c *rlChanV2) WriteAcknowledgement(_ sdk.Context, _ string, _ uint64, _ channeltypesv2.Acknowledgement) error {
	return nil
}

// ---------------------------------------------------------------- executor

type rlExec struct {
	base   sdk.Context
	ctx    sdk.Context
	k      *rlkeeper.Keeper
	ms     rltypes.MsgServer
	mw     *ratelimiting.IBCMiddleware
	mw2    rlv2.IBCMiddleware
	app    *rlApp
	app2   *rlAppV2
	ch     *rlChan
	ch2    *rlChanV2
	cl     *rlClient
	supply map[string]sdkmath.Int
	auth   string
}

type supplyBank struct{ e *rlExec }

func (b supplyBank) GetSupply(_ context.Context, denom string) sdk.Coin {
	if v, ok := b.e.supply[denom]; ok {
		return sdk.Coin{Denom: denom, Amount: v}
	}
	return sdk.Coin{Denom: denom, Amount: sdkmath.ZeroInt()}
}

var RlChannels = []string{"channel-0", "channel-1"}
var RlClients = []string{"07-tendermint-0"}

func newRlExec() *rlExec {
	chain := ChainN(1)
	app := SimApp(chain)
	e := &rlExec{supply: map[string]sdkmath.Int{}}
	e.ch = &rlChan{channels: map[string]bool{}, hasSeq: true}
	for _, c := range RlChannels {
		e.ch.channels[c] = true
	}
	e.cl = &rlClient{clients: map[string]bool{}}
	for _, c := range RlClients {
		e.cl.clients[c] = true
	}
	e.auth = authtypes.NewModuleAddress(govtypes.ModuleName).String()
	e.k = rlkeeper.NewKeeper(app.AppCodec(), app.AccountKeeper.AddressCodec(),
		runtime.NewKVStoreService(app.GetKey(rltypes.StoreKey)), e.ch, e.cl, supplyBank{e}, e.auth)
	e.ms = rlkeeper.NewMsgServerImpl(e.k)
	e.app = &rlApp{}
	e.mw = ratelimiting.NewIBCMiddleware(e.k)
	e.mw.SetUnderlyingApplication(e.app)
	e.mw.SetICS4Wrapper(e.ch)
	e.app2 = &rlAppV2{}
	e.ch2 = &rlChanV2{}
	e.mw2 = rlv2.NewIBCMiddleware(*e.k, e.app2, e.ch2, e.ch2)
	e.base = chain.GetContext()
	e.ctx = Branch(e.base)
	return e
}

func rlErrClass(err error) string {
	switch {
	case err == nil:
		return "ok"
	case errors.Is(err, rltypes.ErrDenomIsBlacklisted):
		return "err:blacklisted"
	case errors.Is(err, rltypes.ErrQuotaExceeded):
		return "err:quota"
	case errors.Is(err, rltypes.ErrZeroChannelValue):
		return "err:zero-value"
	case errors.Is(err, rltypes.ErrRateLimitAlreadyExists):
		return "err:exists"
	case errors.Is(err, rltypes.ErrChannelNotFound):
		return "err:no-channel"
	case errors.Is(err, rltypes.ErrRateLimitNotFound):
		return "err:not-found"
	}
	return "err:other"
}

func (e *rlExec) state(ctx sdk.Context) M {
	lims := []M{}
	for _, rl := range e.k.GetAllRateLimits(ctx) {
		lims = append(lims, M{"denom": rl.Path.Denom, "chan": rl.Path.ChannelOrClientId,
			"maxSend": rl.Quota.MaxPercentSend.String(), "maxRecv": rl.Quota.MaxPercentRecv.String(), "dur": U(rl.Quota.DurationHours),
			"in": rl.Flow.Inflow.String(), "out": rl.Flow.Outflow.String(), "value": rl.Flow.ChannelValue.String()})
	}
	sort.Slice(lims, func(i, j int) bool {
		return lims[i]["denom"].(string)+"|"+lims[i]["chan"].(string) < lims[j]["denom"].(string)+"|"+lims[j]["chan"].(string)
	})
	ps, err := e.k.GetAllPendingSendPackets(ctx)
	if err != nil {
		panic(err)
	}
	pr, err := e.k.GetAllPendingReceivePackets(ctx)
	if err != nil {
		panic(err)
	}
	sort.Strings(ps)
	sort.Strings(pr)
	bl := e.k.GetAllBlacklistedDenoms(ctx)
	sort.Strings(bl)
	wl := []string{}
	for _, w := range e.k.GetAllWhitelistedAddressPairs(ctx) {
		wl = append(wl, w.Sender+"|"+w.Receiver)
	}
	sort.Strings(wl)
	ep, err := e.k.GetHourEpoch(ctx)
	if err != nil {
		panic(err)
	}
	return M{"limits": lims, "pendSend": ps, "pendRecv": pr, "blacklist": bl, "whitelist": wl,
		"epoch": U(ep.EpochNumber), "epochStart": I(ep.EpochStartTime.UnixNano())}
}

// tx runs fn on a cache context and writes it iff commit(result) holds.
func (e *rlExec) tx(fn func(ctx sdk.Context) (string, bool)) string {
	cctx, write := e.ctx.CacheContext()
	r, commit := fn(cctx)
	if commit {
		write()
	}
	return r
}

func (e *rlExec) packetData(in M) []byte {
	if Bool(in, "bad") {
		return []byte(`{"denom": 5`)
	}
	d := transfertypes.FungibleTokenPacketData{Denom: S(in, "pdenom"), Amount: S(in, "amt"), Sender: S(in, "sender"), Receiver: S(in, "receiver")}
	return d.GetBytes()
}

// v1Packet builds the packet for direction dir ("send": our channel is the source).
func (e *rlExec) v1Packet(in M, dir string) channeltypes.Packet {
	p := channeltypes.Packet{Sequence: N(in, "seq"), SourcePort: "transfer", DestinationPort: "transfer",
		TimeoutHeight: clienttypes.NewHeight(1, 1000), Data: e.packetData(in)}
	if dir == "send" {
		p.SourceChannel, p.DestinationChannel = S(in, "chan"), S(in, "cpChan")
	} else {
		p.SourceChannel, p.DestinationChannel = S(in, "cpChan"), S(in, "chan")
	}
	return p
}

func (e *rlExec) payload(in M) channeltypesv2.Payload {
	d := transfertypes.FungibleTokenPacketData{Denom: S(in, "pdenom"), Amount: S(in, "amt"), Sender: S(in, "sender"), Receiver: S(in, "receiver")}
	enc := SD(in, "enc", transfertypes.EncodingJSON)
	bz, err := transfertypes.MarshalPacketData(d, transfertypes.V1, enc)
	if err != nil {
		panic(err)
	}
	if Bool(in, "bad") {
		bz = []byte{0xff, 0x01}
	}
	return channeltypesv2.NewPayload("transfer", "transfer", transfertypes.V1, enc, bz)
}

func (e *rlExec) quotaOf(in M) (sdkmath.Int, sdkmath.Int, uint64) {
	return sdkmath.NewIntFromBigInt(Big(in, "maxSend")), sdkmath.NewIntFromBigInt(Big(in, "maxRecv")), N(in, "dur")
}

func (e *rlExec) signer(in M) string {
	if s := SD(in, "signer", ""); s != "" {
		return s
	}
	return e.auth
}

func (e *rlExec) Do(in M) any {
	f := S(in, "f")
	extra := M{}
	var r string
	switch f {
	case "reset":
		e.ctx = Branch(e.base)
		e.supply = map[string]sdkmath.Int{}
		for _, s := range List(in, "sup") {
			e.supply[S(s, "denom")] = sdkmath.NewIntFromBigInt(Big(s, "amt"))
		}
		err := e.k.SetHourEpoch(e.ctx, rltypes.HourEpoch{EpochNumber: N(in, "epochNum"),
			EpochStartTime: time.Unix(0, I64(in, "epochStart")).UTC(), Duration: time.Duration(I64(in, "epochDur")), EpochStartHeight: 1})
		if err != nil {
			panic(err)
		}
		r = "ok"
	case "supply":
		e.supply[S(in, "denom")] = sdkmath.NewIntFromBigInt(Big(in, "amt"))
		r = "ok"
	case "send":
		r = e.tx(func(ctx sdk.Context) (string, bool) {
			var err error
			switch {
			case Bool(in, "v2"):
				err = e.mw2.OnSendPacket(ctx, S(in, "chan"), S(in, "cpChan"), N(in, "seq"), e.payload(in), sdk.AccAddress("signer______________"))
			case SD(in, "via", "") == "mw":
				p := e.v1Packet(in, "send")
				e.ch.nextSeq = p.Sequence
				_, err = e.mw.SendPacket(ctx, p.SourcePort, p.SourceChannel, p.TimeoutHeight, 0, p.Data)
			default:
				err = e.k.SendRateLimitedPacketWithSequence(ctx, e.v1Packet(in, "send"))
			}
			if err != nil && Bool(in, "bad") {
				return "err:parse", false
			}
			return rlErrClass(err), err == nil
		})
	case "recv":
		e.app.ack, e.app2.ack = S(in, "app"), S(in, "app")
		r = e.tx(func(ctx sdk.Context) (string, bool) {
			var cls string
			if Bool(in, "v2") {
				res := e.mw2.OnRecvPacket(ctx, S(in, "cpChan"), S(in, "chan"), N(in, "seq"), e.payload(in), nil)
				switch res.Status {
				case channeltypesv2.PacketStatus_Success:
					cls = "success"
				case channeltypesv2.PacketStatus_Failure:
					cls = "error"
				case channeltypesv2.PacketStatus_Async:
					cls = "async"
				default:
					cls = "none"
				}
			} else {
				ack := e.mw.OnRecvPacket(ctx, "ics20-1", e.v1Packet(in, "recv"), nil)
				switch {
				case ack == nil:
					cls = "async"
				case ack.Success():
					cls = "success"
				default:
					cls = "error"
				}
			}
			extra["ack"] = cls
			return "ack:" + cls, cls != "error"
		})
	case "ack":
		var ackBz []byte
		if Bool(in, "success") {
			ackBz = channeltypes.NewResultAcknowledgement([]byte{1}).Acknowledgement()
		} else if Bool(in, "v2") && Bool(in, "universal") {
			ackBz = channeltypesv2.ErrorAcknowledgement[:]
		} else {
			ackBz = channeltypes.NewErrorAcknowledgement(errors.New("x")).Acknowledgement()
		}
		r = e.tx(func(ctx sdk.Context) (string, bool) {
			var err error
			switch {
			case Bool(in, "v2"):
				err = e.mw2.OnAcknowledgementPacket(ctx, S(in, "chan"), S(in, "cpChan"), N(in, "seq"), ackBz, e.payload(in), nil)
			case SD(in, "via", "") == "mw":
				err = e.mw.OnAcknowledgementPacket(ctx, "ics20-1", e.v1Packet(in, "send"), ackBz, nil)
			default:
				err = e.k.AcknowledgeRateLimitedPacket(ctx, e.v1Packet(in, "send"), ackBz)
			}
			return rlErrClass(err), err == nil
		})
	case "timeout":
		r = e.tx(func(ctx sdk.Context) (string, bool) {
			var err error
			switch {
			case Bool(in, "v2"):
				err = e.mw2.OnTimeoutPacket(ctx, S(in, "chan"), S(in, "cpChan"), N(in, "seq"), e.payload(in), nil)
			case SD(in, "via", "") == "mw":
				err = e.mw.OnTimeoutPacket(ctx, "ics20-1", e.v1Packet(in, "send"), nil)
			default:
				err = e.k.TimeoutRateLimitedPacket(ctx, e.v1Packet(in, "send"))
			}
			return rlErrClass(err), err == nil
		})
	case "writeAck":
		r = e.tx(func(ctx sdk.Context) (string, bool) {
			var err error
			if Bool(in, "v2") {
				pkt := channeltypesv2.NewPacket(N(in, "seq"), S(in, "cpChan"), S(in, "chan"), 1, e.payload(in))
				e.ch2.pkt = &pkt
				var ack channeltypesv2.Acknowledgement
				if Bool(in, "success") {
					ack = channeltypesv2.NewAcknowledgement([]byte{1})
				} else {
					ack = channeltypesv2.NewAcknowledgement(channeltypesv2.ErrorAcknowledgement[:])
				}
				err = e.mw2.WriteAcknowledgement(ctx, S(in, "chan"), N(in, "seq"), ack)
			} else {
				var ack ibcexported.Acknowledgement
				if Bool(in, "success") {
					ack = channeltypes.NewResultAcknowledgement([]byte{1})
				} else {
					ack = channeltypes.NewErrorAcknowledgement(errors.New("forward failed"))
				}
				err = e.mw.WriteAcknowledgement(ctx, e.v1Packet(in, "recv"), ack)
			}
			return rlErrClass(err), err == nil
		})
	case "beginBlock":
		for _, s := range List(in, "sup") {
			e.supply[S(s, "denom")] = sdkmath.NewIntFromBigInt(Big(s, "amt"))
		}
		e.k.BeginBlocker(e.ctx.WithBlockTime(time.Unix(0, I64(in, "time")).UTC()))
		r = "ok"
	case "add":
		e.supply[S(in, "denom")] = sdkmath.NewIntFromBigInt(Big(in, "supply"))
		ms, mr, d := e.quotaOf(in)
		r = e.tx(func(ctx sdk.Context) (string, bool) {
			_, err := e.ms.AddRateLimit(ctx, &rltypes.MsgAddRateLimit{Signer: e.signer(in), Denom: S(in, "denom"), ChannelOrClientId: S(in, "chan"),
				MaxPercentSend: ms, MaxPercentRecv: mr, DurationHours: d})
			return rlErrClass(err), err == nil
		})
	case "update":
		e.supply[S(in, "denom")] = sdkmath.NewIntFromBigInt(Big(in, "supply"))
		ms, mr, d := e.quotaOf(in)
		r = e.tx(func(ctx sdk.Context) (string, bool) {
			_, err := e.ms.UpdateRateLimit(ctx, &rltypes.MsgUpdateRateLimit{Signer: e.signer(in), Denom: S(in, "denom"), ChannelOrClientId: S(in, "chan"),
				MaxPercentSend: ms, MaxPercentRecv: mr, DurationHours: d})
			return rlErrClass(err), err == nil
		})
	case "remove":
		r = e.tx(func(ctx sdk.Context) (string, bool) {
			_, err := e.ms.RemoveRateLimit(ctx, &rltypes.MsgRemoveRateLimit{Signer: e.signer(in), Denom: S(in, "denom"), ChannelOrClientId: S(in, "chan")})
			return rlErrClass(err), err == nil
		})
	case "resetLimit":
		e.supply[S(in, "denom")] = sdkmath.NewIntFromBigInt(Big(in, "supply"))
		r = e.tx(func(ctx sdk.Context) (string, bool) {
			_, err := e.ms.ResetRateLimit(ctx, &rltypes.MsgResetRateLimit{Signer: e.signer(in), Denom: S(in, "denom"), ChannelOrClientId: S(in, "chan")})
			return rlErrClass(err), err == nil
		})
	case "blacklist":
		if Bool(in, "on") {
			e.k.AddDenomToBlacklist(e.ctx, S(in, "denom"))
		} else {
			e.k.RemoveDenomFromBlacklist(e.ctx, S(in, "denom"))
		}
		r = "ok"
	case "whitelist":
		if Bool(in, "on") {
			e.k.SetWhitelistedAddressPair(e.ctx, rltypes.WhitelistedAddressPair{Sender: S(in, "sender"), Receiver: S(in, "receiver")})
		} else {
			e.k.RemoveWhitelistedAddressPair(e.ctx, S(in, "sender"), S(in, "receiver"))
		}
		r = "ok"
	default:
		return M{"bad": "unknown op " + f}
	}
	out := M{"r": r, "state": e.state(e.ctx)}
	for k, v := range extra {
		out[k] = v
	}
	return out
}

// ---------------------------------------------------------------- generator

var rlBaseDenoms = []string{"uaaa", "ubbb"}

// rlGen keeps just enough bookkeeping to produce mostly-meaningful histories (it is NOT a model:
// expected outcomes come from the Lean model only).
type rlGen struct {
	r       *Rng
	do      func(M) any
	denoms  []string // rate-limiter denoms in play
	supply  map[string]*big.Int
	sendSeq map[string]uint64
	recvSeq map[string]uint64
	sent    []M // packets sent and not yet finalised (may be re-used for replays)
	done    []M // finalised packets (for duplicate acks / timeouts)
	asyncs  []M // async receives awaiting WriteAcknowledgement
	last    M   // last state
	time    int64
	v2ok    bool
}

func pow10(n int) *big.Int { return new(big.Int).Exp(big.NewInt(10), big.NewInt(int64(n)), nil) }

func (g *rlGen) genSupply() *big.Int {
	switch g.r.Intn(12) {
	case 0:
		return big.NewInt(0)
	case 1:
		return big.NewInt(int64(1 + g.r.Intn(99)))
	case 2:
		return new(big.Int).SetUint64(Boundary64[g.r.Intn(len(Boundary64))])
	case 3:
		return new(big.Int).Add(pow10(20+g.r.Intn(20)), big.NewInt(int64(g.r.Intn(1000))))
	default:
		return big.NewInt(int64(1000 + g.r.Intn(100000)))
	}
}

func (g *rlGen) supplies() []M {
	out := []M{}
	for _, d := range g.denoms {
		out = append(out, M{"denom": d, "amt": g.supply[d].String()})
	}
	return out
}

func (g *rlGen) pct() string {
	switch g.r.Intn(14) {
	case 0:
		return "0"
	case 1:
		return "100"
	case 2:
		return "-5"
	case 3:
		return "250"
	case 4:
		return "1"
	default:
		return fmt.Sprint(1 + g.r.Intn(60))
	}
}

func (g *rlGen) chanID() string {
	switch g.r.Intn(12) {
	case 0:
		return "channel-7" // does not exist
	case 1:
		return "07-tendermint-9" // does not exist
	case 2, 3:
		return "07-tendermint-0"
	case 4, 5, 6:
		return "channel-1"
	default:
		return "channel-0"
	}
}

// existing picks a path that currently has a limit (mostly), else a random one.
func (g *rlGen) existing() (string, string) {
	st, _ := g.last["state"].(M)
	lims, _ := st["limits"].([]M)
	if len(lims) > 0 && g.r.Chance(0.75) {
		l := Pick(g.r, lims)
		return l["denom"].(string), l["chan"].(string)
	}
	return Pick(g.r, g.denoms), g.chanID()
}

func isClient(id string) bool { return len(id) > 3 && id[:3] == "07-" }

func (g *rlGen) limitOf(denom, ch string) M {
	st, _ := g.last["state"].(M)
	lims, _ := st["limits"].([]M)
	for _, l := range lims {
		if l["denom"] == denom && l["chan"] == ch {
			return l
		}
	}
	return nil
}

func bigOf(s any) *big.Int {
	b, _ := new(big.Int).SetString(s.(string), 10)
	return b
}

// amount picks a packet amount, preferring the neighbourhood of the remaining quota.
func (g *rlGen) amount(denom, ch, dir string) string {
	if l := g.limitOf(denom, ch); l != nil && g.r.Chance(0.6) {
		pct := bigOf(l["maxSend"])
		net := new(big.Int).Sub(bigOf(l["out"]), bigOf(l["in"]))
		if dir == "recv" {
			pct = bigOf(l["maxRecv"])
			net.Neg(net)
		}
		thr := new(big.Int).Quo(new(big.Int).Mul(bigOf(l["value"]), pct), big.NewInt(100))
		rem := new(big.Int).Sub(thr, net)
		switch g.r.Intn(6) {
		case 0:
			rem.Add(rem, big.NewInt(1))
		case 1:
			rem.Sub(rem, big.NewInt(1))
		case 2:
			rem.Quo(rem, big.NewInt(2))
		case 3:
			rem.Quo(rem, big.NewInt(3))
		}
		if rem.Sign() > 0 {
			return rem.String()
		}
	}
	switch g.r.Intn(20) {
	case 0:
		return "0"
	case 1:
		return "-" + fmt.Sprint(1+g.r.Intn(500))
	case 2:
		return new(big.Int).SetUint64(Boundary64[g.r.Intn(len(Boundary64))]).String()
	case 3:
		return pow10(25).String()
	default:
		return fmt.Sprint(1 + g.r.Intn(2000))
	}
}

var rlAddrs = []string{"cosmos1sender", "cosmos1other", "cosmos1recv", "0xabc"}

// packet builds a fresh packet request skeleton for direction dir on channel ch.
func (g *rlGen) packet(dir string) M {
	ch := g.chanID()
	for ch == "channel-7" || ch == "07-tendermint-9" {
		ch = g.chanID()
	}
	v2 := isClient(ch)
	cp := "channel-5"
	if v2 {
		cp = "07-tendermint-4"
	}
	base := Pick(g.r, rlBaseDenoms)
	var pdenom string
	if dir == "send" {
		// native token, or a voucher (trace prefix => the limiter hashes it)
		if g.r.Chance(0.25) {
			pdenom = "transfer/" + ch + "/uccc"
		} else {
			pdenom = base
		}
	} else {
		// returning native token (prefix of the counterparty channel is stripped) or a foreign token
		if g.r.Chance(0.6) {
			pdenom = "transfer/" + cp + "/" + base
		} else {
			pdenom = "uccc"
		}
	}
	p := M{"chan": ch, "cpChan": cp, "pdenom": pdenom, "sender": Pick(g.r, rlAddrs), "receiver": Pick(g.r, rlAddrs)}
	if v2 {
		p["v2"] = true
		if g.r.Chance(0.3) {
			p["enc"] = Pick(g.r, []string{transfertypes.EncodingProtobuf, transfertypes.EncodingABI})
		}
	}
	// what the rate limiter will key on (ParsePacketInfo is C42's subject; here it is an input)
	pk := channeltypes.Packet{SourcePort: "transfer", DestinationPort: "transfer"}
	d := rltypes.PACKET_SEND
	if dir == "send" {
		pk.SourceChannel, pk.DestinationChannel = ch, cp
	} else {
		pk.SourceChannel, pk.DestinationChannel = cp, ch
		d = rltypes.PACKET_RECV
	}
	pk.Data = transfertypes.FungibleTokenPacketData{Denom: pdenom, Amount: "1", Sender: "a", Receiver: "b"}.GetBytes()
	info, err := rlkeeper.ParsePacketInfo(pk, d)
	if err != nil {
		panic(err)
	}
	p["denom"] = info.Denom
	known := false
	for _, x := range g.denoms {
		known = known || x == info.Denom
	}
	if !known {
		g.denoms = append(g.denoms, info.Denom)
		g.supply[info.Denom] = g.genSupply()
	}
	return p
}

func cp(m M) M {
	o := M{}
	for k, v := range m {
		o[k] = v
	}
	return o
}

func (g *rlGen) exec(in M) {
	out := g.do(in)
	if m, ok := out.(M); ok && m["state"] != nil {
		g.last = m
	}
}

func (g *rlGen) v2valid(p M) bool {
	// the v2 middleware converts through transfertypes.UnmarshalPacketData, which validates
	a := bigOf(p["amt"])
	return a != nil && a.Sign() > 0 && a.BitLen() <= 256
}

func (g *rlGen) history(nops int) {
	r := g.r
	g.denoms = append([]string{}, rlBaseDenoms...)
	g.supply = map[string]*big.Int{}
	for _, d := range g.denoms {
		g.supply[d] = g.genSupply()
	}
	g.sendSeq, g.recvSeq = map[string]uint64{}, map[string]uint64{}
	g.sent, g.done, g.asyncs = nil, nil, nil
	hour := int64(time.Hour)
	start := int64(1700000000)*1e9 + int64(r.Intn(1000))
	g.time = start + int64(r.Intn(3000))*1e9
	epochNum := uint64(r.Intn(30))
	dur := hour
	if r.Chance(0.05) {
		dur = 0
	}
	g.exec(M{"f": "reset", "engine": "ratelimit", "epochNum": U(epochNum), "epochStart": I(start), "epochDur": I(dur), "sup": g.supplies()})
	// most histories start by limiting one or two paths
	for i := 0; i < 1+r.Intn(2); i++ {
		d := Pick(r, g.denoms)
		ch := Pick(r, []string{"channel-0", "channel-0", "channel-1", "07-tendermint-0"})
		g.exec(M{"f": "add", "denom": d, "chan": ch, "maxSend": fmt.Sprint(5 + r.Intn(50)), "maxRecv": fmt.Sprint(5 + r.Intn(50)),
			"dur": U(uint64(1 + r.Intn(3))), "supply": g.supply[d].String(), "chanExists": true})
	}
	for i := 0; i < nops; i++ {
		switch w := r.Intn(100); {
		case w < 24: // send
			p := g.packet("send")
			ch := p["chan"].(string)
			g.sendSeq[ch]++
			p["f"], p["seq"] = "send", U(g.sendSeq[ch])
			p["amt"] = g.amount(p["denom"].(string), ch, "send")
			if r.Chance(0.04) && len(g.sent) > 0 { // replayed sequence (outside C08, still must correspond)
				q := Pick(r, g.sent)
				p["seq"], p["chan"], p["cpChan"] = q["seq"], q["chan"], q["cpChan"]
				if q["v2"] != nil {
					p["v2"] = true
				} else {
					delete(p, "v2")
					delete(p, "enc")
				}
			}
			if p["v2"] == nil && r.Chance(0.3) {
				p["via"] = "mw"
			}
			if r.Chance(0.02) {
				p["bad"] = true
			}
			if p["v2"] != nil && !g.v2valid(p) {
				p["amt"] = fmt.Sprint(1 + r.Intn(500))
			}
			g.exec(p)
			if p["bad"] == nil {
				g.sent = append(g.sent, p)
			}
		case w < 44: // recv
			p := g.packet("recv")
			ch := p["chan"].(string)
			g.recvSeq[ch]++
			p["f"], p["seq"] = "recv", U(g.recvSeq[ch])
			p["amt"] = g.amount(p["denom"].(string), ch, "recv")
			p["app"] = Pick(r, []string{"success", "success", "success", "error", "async", "async"})
			if bigOf(p["amt"]).Sign() <= 0 && r.Chance(0.8) {
				p["app"] = "error" // what ICS-20 answers for a non-positive amount
			}
			if r.Chance(0.02) {
				p["bad"] = true
			}
			if p["v2"] != nil && !g.v2valid(p) {
				p["amt"] = fmt.Sprint(1 + r.Intn(500))
			}
			g.exec(p)
			if p["app"] == "async" && p["bad"] == nil && g.last["ack"] == "async" {
				g.asyncs = append(g.asyncs, p)
			}
		case w < 56: // ack
			if len(g.sent) == 0 {
				continue
			}
			j := r.Intn(len(g.sent))
			p := cp(g.sent[j])
			p["f"], p["success"] = "ack", r.Chance(0.5)
			delete(p, "bad")
			if p["v2"] != nil && r.Chance(0.5) {
				p["universal"] = true
			}
			if r.Chance(0.05) { // acknowledgement data that does not match the sent amount (outside C06)
				p["amt"] = fmt.Sprint(1 + r.Intn(3000))
			}
			if r.Chance(0.85) {
				g.done = append(g.done, g.sent[j])
				g.sent = append(g.sent[:j], g.sent[j+1:]...)
			}
			g.exec(p)
		case w < 65: // timeout
			fromSent := !r.Chance(0.15)
			src := g.sent
			if !fromSent {
				src = g.done
			}
			if len(src) == 0 {
				continue
			}
			j := r.Intn(len(src))
			p := cp(src[j])
			p["f"] = "timeout"
			delete(p, "bad")
			if fromSent && r.Chance(0.85) {
				g.done = append(g.done, g.sent[j])
				g.sent = append(g.sent[:j], g.sent[j+1:]...)
			}
			g.exec(p)
		case w < 71: // async acknowledgement written later
			if len(g.asyncs) == 0 {
				continue
			}
			j := r.Intn(len(g.asyncs))
			p := cp(g.asyncs[j])
			p["f"], p["success"] = "writeAck", r.Chance(0.5)
			delete(p, "app")
			if r.Chance(0.8) {
				g.asyncs = append(g.asyncs[:j], g.asyncs[j+1:]...)
			}
			g.exec(p)
		case w < 78: // block time advances (sometimes across the hour boundary)
			switch r.Intn(4) {
			case 0:
				g.time += int64(r.Intn(600)) * 1e9
			case 1:
				g.time += hour
			case 2:
				g.time = g.time - g.time%hour + hour + int64(r.Intn(3)) - 1 // right at an hour boundary
			default:
				g.time += int64(r.Intn(7200)) * 1e9
			}
			if r.Chance(0.3) {
				d := Pick(r, g.denoms)
				g.supply[d] = g.genSupply()
			}
			g.exec(M{"f": "beginBlock", "time": I(g.time), "sup": g.supplies()})
		case w < 85: // add
			d := Pick(r, g.denoms)
			ch := g.chanID()
			if r.Chance(0.2) {
				g.supply[d] = g.genSupply()
			}
			exists := ch != "channel-7" && ch != "07-tendermint-9"
			g.exec(M{"f": "add", "denom": d, "chan": ch, "maxSend": g.pct(), "maxRecv": g.pct(), "dur": U(uint64(r.Intn(4))),
				"supply": g.supply[d].String(), "chanExists": exists})
		case w < 89: // update
			d, ch := g.existing()
			if r.Chance(0.3) {
				g.supply[d] = g.genSupply()
			}
			g.exec(M{"f": "update", "denom": d, "chan": ch, "maxSend": g.pct(), "maxRecv": g.pct(), "dur": U(uint64(r.Intn(4))),
				"supply": g.supply[d].String()})
		case w < 92:
			d, ch := g.existing()
			g.exec(M{"f": "remove", "denom": d, "chan": ch})
		case w < 95:
			d, ch := g.existing()
			if r.Chance(0.3) {
				g.supply[d] = g.genSupply()
			}
			g.exec(M{"f": "resetLimit", "denom": d, "chan": ch, "supply": g.supply[d].String()})
		case w < 97:
			g.exec(M{"f": "blacklist", "denom": Pick(r, g.denoms), "on": r.Chance(0.6)})
		case w < 99:
			g.exec(M{"f": "whitelist", "sender": Pick(r, rlAddrs), "receiver": Pick(r, rlAddrs), "on": r.Chance(0.6)})
		default:
			d := Pick(r, g.denoms)
			g.supply[d] = g.genSupply()
			g.exec(M{"f": "supply", "denom": d, "amt": g.supply[d].String()})
		}
	}
}

func init() {
	Register(Engine{
		Name:       "ratelimit",
		MaxMonitor: 100000,
		Props:      []string{"C41"},
		New:        func() Executor { return newRlExec() },
		Monitor:    rlMonitor,
		Gen: func(r *Rng, n int, do func(M) any) {
			g := &rlGen{r: r, do: do}
			for i := 0; i < n; i++ {
				g.history(8 + r.Intn(50))
			}
		},
	})
}
