package apps

// Engine "gmp" (C39): the real 27-gmp keeper and IBC module on an ibctesting chain.
//   addr   types.BuildAddressPredictable on (client id, sender, salt) triples — compared byte for byte
//          with the model's length-prefixed key hashed by the model's own SHA-256;
//   recv   keeper.OnRecvPacket (account lookup/creation + authenticateTx + execution) on a history
//          context; messages are real bank messages, which ones took effect is read off balances; a
//          failed receive is rolled back as core does for a failed payload;
//   send   IBCModule.OnSendPacket (sender must equal the transaction signer).

import (
	"encoding/hex"
	"errors"
	"sort"
	"strings"

	errorsmod "cosmossdk.io/errors"
	sdkmath "cosmossdk.io/math"

	sdk "github.com/cosmos/cosmos-sdk/types"
	banktypes "github.com/cosmos/cosmos-sdk/x/bank/types"

	"github.com/cosmos/gogoproto/proto"

	gmp "github.com/cosmos/ibc-go/v11/modules/apps/27-gmp"
	gmptypes "github.com/cosmos/ibc-go/v11/modules/apps/27-gmp/types"
	channeltypesv2 "github.com/cosmos/ibc-go/v11/modules/core/04-channel/v2/types"
	ibcerrors "github.com/cosmos/ibc-go/v11/modules/core/errors"

	. "verif/harness/lib"
)

type gmpExec struct {
	base  sdk.Context
	ctx   sdk.Context
	known map[string]bool
}

func newGmpExec() *gmpExec {
	c := ChainN(1)
	e := &gmpExec{base: c.GetContext()}
	e.ctx = Branch(e.base)
	return e
}

func gmpRecipient(i int) sdk.AccAddress {
	b := make([]byte, 20)
	b[0], b[1], b[19] = 0xEC, 0x39, byte(i+1)
	return sdk.AccAddress(b)
}

func (e *gmpExec) Do(in M) any {
	chain := ChainN(1)
	app := SimApp(chain)
	switch S(in, "f") {
	case "reset":
		e.ctx = Branch(e.base)
		e.known = map[string]bool{}
		return M{"ok": true}
	case "addr":
		id := gmptypes.NewAccountIdentifier(string(B(in, "client")), string(B(in, "sender")), B(in, "salt"))
		a, err := gmptypes.BuildAddressPredictable(&id)
		if err != nil {
			return Err("invalid")
		}
		return Ok(Hex(a))
	case "recv":
		client, sender, salt := string(B(in, "client")), string(B(in, "sender")), B(in, "salt")
		ctx, write := e.ctx.CacheContext()
		id := gmptypes.NewAccountIdentifier(client, sender, salt)
		predicted, err := gmptypes.BuildAddressPredictable(&id)
		if err != nil {
			return M{"bad": "harness generated an invalid triple"}
		}
		// what the keeper will use: the stored address if the triple is known
		addrStr, err := app.GMPKeeper.GetOrComputeICS27Address(ctx, &id)
		if err != nil {
			panic(err)
		}
		acct := sdk.MustAccAddressFromBech32(addrStr)
		_ = predicted
		// fund the account (a plain bank transfer; it also creates the base account, which the keeper adopts)
		fund := sdk.NewCoins(sdk.NewCoin(sdk.DefaultBondDenom, sdkmath.NewInt(100000)))
		if err := app.BankKeeper.SendCoins(e.ctx, chain.SenderAccount.GetAddress(), acct, fund); err != nil {
			panic(err)
		}
		// the packet is delivered through IBCModule.OnRecvPacket with a source client id that differs from the
		// destination client id; "srcacct" is the account of (SOURCE client, sender, salt) - another triple,
		// which this packet must never be able to act for
		srcClient := "07-tendermint-4242"
		if srcClient == client {
			srcClient = "07-tendermint-4243"
		}
		srcID := gmptypes.NewAccountIdentifier(srcClient, sender, salt)
		srcAddrStr, err := app.GMPKeeper.GetOrComputeICS27Address(ctx, &srcID)
		if err != nil {
			panic(err)
		}
		srcAcct := sdk.MustAccAddressFromBech32(srcAddrStr)
		if err := app.BankKeeper.SendCoins(e.ctx, chain.SenderAccount.GetAddress(), srcAcct, fund); err != nil {
			panic(err)
		}
		ctx, write = e.ctx.CacheContext()
		who := func(s string) sdk.AccAddress {
			switch s {
			case "acct":
				return acct
			case "srcacct":
				return srcAcct
			}
			return chain.SenderAccount.GetAddress()
		}
		var msgs []proto.Message
		list := List(in, "msgs")
		for i, m := range list {
			amt := sdkmath.NewInt(int64(i + 1))
			if !Bool(m, "handlerOk") {
				amt = sdkmath.NewInt(999999999999)
			}
			coins := sdk.NewCoins(sdk.NewCoin(sdk.DefaultBondDenom, amt))
			signers := Strs(m, "signers")
			if len(signers) == 1 && S(m, "kind") == "send" {
				msgs = append(msgs, banktypes.NewMsgSend(who(signers[0]), gmpRecipient(i), coins))
				continue
			}
			var ins []banktypes.Input
			for _, s := range signers {
				ins = append(ins, banktypes.NewInput(who(s), coins))
			}
			msgs = append(msgs, &banktypes.MsgMultiSend{Inputs: ins, Outputs: []banktypes.Output{banktypes.NewOutput(gmpRecipient(i), coins)}})
		}
		payload, err := gmptypes.SerializeCosmosTx(app.AppCodec(), msgs)
		if err != nil {
			panic(err)
		}
		data := gmptypes.NewGMPPacketData(sender, "", salt, payload, "")
		bal := func(a sdk.AccAddress) sdkmath.Int {
			return app.BankKeeper.GetBalance(ctx, a, sdk.DefaultBondDenom).Amount
		}
		before := make([]sdkmath.Int, len(list))
		for i := range before {
			before[i] = bal(gmpRecipient(i))
		}
		// error class from the keeper on a throw-away branch; the state-changing delivery goes through the module
		ctxK, _ := e.ctx.CacheContext()
		_, err = app.GMPKeeper.OnRecvPacket(ctxK, &data, client)
		pbz, perr := gmptypes.MarshalPacketData(&data, gmptypes.Version, gmptypes.EncodingProtobuf)
		if perr != nil {
			panic(perr)
		}
		res := gmp.NewIBCModule(app.GMPKeeper).OnRecvPacket(ctx, srcClient, client, 1,
			channeltypesv2.NewPayload(gmptypes.PortID, gmptypes.PortID, gmptypes.Version, gmptypes.EncodingProtobuf, pbz), chain.SenderAccount.GetAddress())
		moduleOK := res.Status == channeltypesv2.PacketStatus_Success
		effects := []int{}
		for i := range before {
			if !bal(gmpRecipient(i)).Equal(before[i]) {
				effects = append(effects, i)
			}
		}
		cls := "ok"
		if err != nil {
			switch {
			case errors.Is(err, gmptypes.ErrInvalidPayload):
				cls = "err:invalid-payload"
			case errors.Is(err, ibcerrors.ErrUnauthorized):
				cls = "err:unauthorized"
			case errors.Is(err, gmptypes.ErrInvalidMsgRoute):
				cls = "err:invalid-route"
			default:
				cls = "err:msg"
			}
		} else {
			write()
		}
		// the address the keeper has on record for the triple (or would derive)
		rec, err2 := app.GMPKeeper.GetOrComputeICS27Address(e.ctx, &id)
		if err2 != nil {
			panic(err2)
		}
		recBz := sdk.MustAccAddressFromBech32(rec)
		if err == nil {
			e.known[hex.EncodeToString(recBz)] = true
		}
		known := []string{}
		for k := range e.known {
			known = append(known, k)
		}
		sort.Strings(known)
		if moduleOK != (cls == "ok") {
			// the module did not do what the keeper does for (destination client, sender, salt)
			cls = "module-keeper-disagree:" + cls
		}
		return M{"r": cls, "address": hex.EncodeToString(recBz), "effects": effects, "known": known}
	case "send":
		signer := sdk.AccAddress([]byte(S(in, "signer") + "_signer_address__")[:20])
		mk := func(s string) string {
			if s == "bad" {
				return "not-bech32"
			}
			return sdk.AccAddress([]byte(s + "_signer_address__")[:20]).String()
		}
		data := gmptypes.NewGMPPacketData(mk(S(in, "sender")), "", []byte("salt"), []byte("payload"), "")
		bz, err := gmptypes.MarshalPacketData(&data, gmptypes.Version, gmptypes.EncodingProtobuf)
		if err != nil {
			panic(err)
		}
		if !Bool(in, "dataOk") {
			bz = []byte{0xff, 0xff, 0x01}
		}
		sp := gmptypes.PortID
		if !Bool(in, "portsOk") {
			sp = "transfer"
		}
		src := "07-tendermint-0"
		if !Bool(in, "clientIdsOk") {
			src = "notaclientid"
		}
		pl := channeltypesv2.NewPayload(sp, gmptypes.PortID, gmptypes.Version, gmptypes.EncodingProtobuf, bz)
		ctx, _ := e.ctx.CacheContext()
		err = gmp.NewIBCModule(app.GMPKeeper).OnSendPacket(ctx, src, "07-tendermint-1", 1, pl, signer)
		cls := "ok"
		if err != nil {
			cs, code, _ := errorsmod.ABCIInfo(err, false)
			switch {
			case errors.Is(err, channeltypesv2.ErrInvalidPacket):
				cls = "err:invalid-packet"
			case errors.Is(err, ibcerrors.ErrUnauthorized):
				cls = "err:unauthorized"
			case cs == "sdk" && code == ibcerrors.ErrInvalidType.ABCICode(), errors.Is(err, ibcerrors.ErrInvalidType):
				cls = "err:invalid-data"
			default:
				if Bool(in, "dataOk") {
					cls = "err:invalid-sender"
				} else {
					cls = "err:invalid-data"
				}
			}
		}
		return M{"r": cls}
	}
	return M{"bad": "unknown op"}
}

// ---------------------------------------------------------------- generator

var gmpClients = []string{"07-tendermint-0", "07-tendermint-12", "08-wasm-3", "10-attestations-1"}

func gmpBytes(r *Rng) []byte {
	switch r.Intn(8) {
	case 0:
		return []byte{}
	case 1:
		return []byte{0}
	case 2:
		return r.Bytes(1 + r.Intn(3))
	case 3:
		return []byte("cosmos1sender")
	case 4:
		return append([]byte{0, 0, 0, 0, 0, 0, 0, byte(r.Intn(4))}, r.Bytes(r.Intn(4))...) // looks like a length prefix
	case 5:
		return r.Bytes(40 + r.Intn(300))
	default:
		return []byte(r.Str("abc01-", 1+r.Intn(6)))
	}
}

// gmpBlank: strings.TrimSpace(sender) == "" (such senders are refused before any derivation)
func gmpBlank(b []byte) bool {
	return strings.TrimSpace(string(b)) == ""
}

func gmpSender(r *Rng) []byte {
	for {
		b := gmpBytes(r)
		if !gmpBlank(b) && len(b) <= 2048 {
			return b
		}
	}
}

// gmpShift builds a second triple whose raw concatenation equals the first one's (boundary moved)
func gmpShift(r *Rng, client string, sender, salt []byte) (string, []byte, []byte) {
	all := append(append([]byte{}, sender...), salt...)
	if len(all) < 2 {
		return client, sender, salt
	}
	cut := 1 + r.Intn(len(all)-1)
	return client, all[:cut], all[cut:]
}

func gmpMsgs(r *Rng) []M {
	n := 1 + r.Intn(3)
	if r.Chance(0.08) {
		n = 0
	}
	msgs := []M{}
	for i := 0; i < n; i++ {
		m := M{"kind": "send", "signers": []string{Pick(r, []string{"acct", "acct", "acct", "acct", "acct", "other"})}, "handlerOk": !r.Chance(0.12)}
		if r.Chance(0.06) {
			m["signers"] = []string{"srcacct"}
		}
		switch r.Intn(14) {
		case 0:
			m["kind"], m["signers"], m["handlerOk"] = "multisend", []string{}, false
		case 1:
			m["kind"], m["signers"], m["handlerOk"] = "multisend", []string{"acct", Pick(r, []string{"acct", "other"})}, false
		case 2:
			m["kind"], m["signers"], m["handlerOk"] = "multisend", []string{"other", "acct"}, false
		}
		msgs = append(msgs, m)
	}
	return msgs
}

func gmpGen(r *Rng, n int, do func(M) any) {
	for i := 0; i < n; i++ {
		client := Pick(r, gmpClients)
		sender, salt := gmpSender(r), gmpBytes(r)
		if len(salt) > 32 {
			salt = salt[:32]
		}
		do(M{"f": "addr", "client": Hex([]byte(client)), "sender": Hex(sender), "salt": Hex(salt)})
		c2, s2, t2 := gmpShift(r, client, sender, salt)
		if !gmpBlank(s2) && len(t2) <= 32 {
			do(M{"f": "addr", "client": Hex([]byte(c2)), "sender": Hex(s2), "salt": Hex(t2)})
		}
	}
	for h := 0; h < 1+n/20; h++ {
		do(M{"f": "reset", "engine": "gmp"})
		type tr struct {
			c    string
			s, t []byte
		}
		var triples []tr
		for i := 0; i < 3+r.Intn(4); i++ {
			s := []byte("cosmos1" + r.Str("abcdef", 6))
			triples = append(triples, tr{Pick(r, gmpClients), s, gmpBytes(r)[:0]})
			if r.Chance(0.5) {
				triples[len(triples)-1].t = []byte(r.Str("xyz", r.Intn(4)))
			}
		}
		for i := 0; i < 6+r.Intn(10); i++ {
			t := Pick(r, triples)
			do(M{"f": "recv", "client": Hex([]byte(t.c)), "sender": Hex(t.s), "salt": Hex(t.t), "msgs": gmpMsgs(r)})
		}
	}
	for i := 0; i < 20+n/10; i++ {
		do(M{"f": "send", "portsOk": !r.Chance(0.15), "clientIdsOk": !r.Chance(0.15), "dataOk": !r.Chance(0.15),
			"sender": Pick(r, []string{"a", "a", "b", "bad"}), "signer": "a"})
	}
}

func gmpMonitor(r *Rng, n int, report func(Viol)) {
	e := newGmpExec()
	seen := map[string]string{} // address -> triple
	for i := 0; i < n; i++ {
		client := Pick(r, gmpClients)
		sender, salt := gmpSender(r), gmpBytes(r)
		check := func(c string, s, t []byte) {
			in := M{"f": "addr", "client": Hex([]byte(c)), "sender": Hex(s), "salt": Hex(t)}
			out, _ := Safe(func() any { return e.Do(in) }).(M)
			a, _ := out["ok"].(string)
			if a == "" {
				return
			}
			key := c + "|" + Hex(s) + "|" + Hex(t)
			if old, ok := seen[a]; ok && old != key {
				report(Viol{Property: "C39", What: "two distinct (client, sender, salt) triples derive the same account address", Input: M{"a": old, "b": key}, Observed: a})
			}
			seen[a] = key
		}
		check(client, sender, salt)
		c2, s2, t2 := gmpShift(r, client, sender, salt)
		if !gmpBlank(s2) {
			check(c2, s2, t2)
		}
	}
	// execution: effects only if every message has exactly one signer = the account; failure => no effects
	e.Do(M{"f": "reset"})
	addrOf := map[string]string{}
	for i := 0; i < n/4; i++ {
		tk := Pick(r, []string{"a", "b", "c"})
		in := M{"f": "recv", "client": Hex([]byte("07-tendermint-0")), "sender": Hex([]byte("cosmos1" + tk)), "salt": Hex([]byte(tk)), "msgs": gmpMsgs(r)}
		out, _ := Safe(func() any { return e.Do(in) }).(M)
		if out == nil || out["r"] == nil {
			report(Viol{Property: "C39-harness", What: "recv failed", Input: in, Observed: out})
			continue
		}
		v := func(what string) {
			report(Viol{Property: "C39", What: what, Input: in, Observed: out, Requests: []M{in}})
		}
		effects, _ := out["effects"].([]int)
		authorized := len(in["msgs"].([]M)) > 0
		for _, m := range in["msgs"].([]M) {
			s := m["signers"].([]string)
			if len(s) != 1 || s[0] != "acct" {
				authorized = false
			}
		}
		if len(effects) > 0 && !authorized {
			v("messages took effect although a message does not have exactly one signer equal to the account (or the list is empty)")
		}
		if out["r"] != "ok" && len(effects) > 0 {
			v("failed GMP packet left effects behind (not atomic)")
		}
		if rs, _ := out["r"].(string); strings.HasPrefix(rs, "module-keeper-disagree") {
			v("IBCModule.OnRecvPacket did not act for exactly the account of (destination client, sender, salt)")
		}
		if a, ok := addrOf[tk]; ok && out["r"] == "ok" && a != out["address"] {
			v("the account address of a triple changed")
		}
		if out["r"] == "ok" {
			addrOf[tk] = out["address"].(string)
		}
	}
	for i := 0; i < 50; i++ {
		in := M{"f": "send", "portsOk": true, "clientIdsOk": true, "dataOk": true, "sender": Pick(r, []string{"a", "b"}), "signer": "a"}
		out, _ := Safe(func() any { return e.Do(in) }).(M)
		if out["r"] == "ok" && in["sender"] != in["signer"] {
			report(Viol{Property: "C39", What: "outgoing GMP packet accepted although the packet sender is not the transaction signer", Input: in, Observed: out})
		}
	}
}

func init() {
	Register(Engine{
		Name:       "gmp",
		MaxMonitor: 150000,
		Props:      []string{"C39"},
		New:        func() Executor { return newGmpExec() },
		Gen:        gmpGen,
		Monitor:    gmpMonitor,
	})
}
