package apps

// Engine "ica" (C37, C38): ICS-27 on two real ibctesting chains (chain 1 = controller, chain 2 = host)
// joined by one real connection.
//
//   lifecycle ops (C38)  every handshake step goes through core IBC with real proofs
//                        (MsgRegisterInterchainAccount handler / MsgChannelOpenInit, ChanOpenTry, ChanOpenAck,
//                        ChanOpenConfirm); closing of an ORDERED channel by a timed-out packet is
//                        abbreviated to core's effect (channel state := CLOSED) under the same
//                        precondition.  A history uses owners nobody used before, so histories are
//                        independent although the chains live on.  Channel ids and the generated account
//                        addresses are reported by first-appearance names (c0, c1 … / h0 … / A(conn,port)).
//   exec ops (C37)       the real host keeper's OnRecvPacket on a cache context of the host chain with
//                        packet data built from real sdk.Msgs; which messages took effect is read off
//                        the bank balances.

import (
	"fmt"
	"sort"
	"strconv"
	"strings"
	"time"

	errorsmod "cosmossdk.io/errors"
	sdkmath "cosmossdk.io/math"

	sdk "github.com/cosmos/cosmos-sdk/types"
	banktypes "github.com/cosmos/cosmos-sdk/x/bank/types"

	"github.com/cosmos/gogoproto/proto"

	ctrlkeeper "github.com/cosmos/ibc-go/v11/modules/apps/27-interchain-accounts/controller/keeper"
	ctrltypes "github.com/cosmos/ibc-go/v11/modules/apps/27-interchain-accounts/controller/types"
	hosttypes "github.com/cosmos/ibc-go/v11/modules/apps/27-interchain-accounts/host/types"
	icatypes "github.com/cosmos/ibc-go/v11/modules/apps/27-interchain-accounts/types"
	transfertypes "github.com/cosmos/ibc-go/v11/modules/apps/transfer/types"
	clienttypes "github.com/cosmos/ibc-go/v11/modules/core/02-client/types"
	channeltypes "github.com/cosmos/ibc-go/v11/modules/core/04-channel/types"
	host24 "github.com/cosmos/ibc-go/v11/modules/core/24-host"
	ibcerrors "github.com/cosmos/ibc-go/v11/modules/core/errors"
	ibctesting "github.com/cosmos/ibc-go/v11/testing"

	. "verif/harness/lib"
)

type icaExec struct {
	a, b  *ibctesting.TestChain
	base  *ibctesting.Path
	hist  int
	cname map[string]string // real controller channel id -> c<i>
	hname map[string]string // real host channel id -> h<i>
	creal map[string]string // c<i> -> real
	hreal map[string]string
	paths map[string]*ibctesting.Path // by host name h<i> (EndpointA = its controller channel)
	cpath map[string]*ibctesting.Path // by controller name c<i> (EndpointB empty until TRY)
	ports map[string]bool             // controller ports of this history
	aname map[string]string           // real ICA address -> symbolic
	// exec fixture
	execReady bool
	execPath  *ibctesting.Path
	execICA   sdk.AccAddress
}

func newIcaExec() *icaExec {
	a, b := ChainN(1), ChainN(2)
	// make the two ends' connection ids differ (the controller end gets a higher number than the host end):
	// every ICA store is keyed by the *local* connection id, and code that confuses the controller's and
	// the host's id must not be masked by both being connection-0
	pre := ibctesting.NewPath(a, b)
	pre.SetupClients()
	if err := pre.EndpointA.ConnOpenInit(); err != nil {
		panic(err)
	}
	base := ibctesting.NewPath(a, b)
	base.SetupConnections()
	if base.EndpointA.ConnectionID == base.EndpointB.ConnectionID {
		panic("ica engine: controller and host connection ids must differ")
	}
	return &icaExec{a: a, b: b, base: base}
}

// errClass maps an error to a stable class through its registered (codespace, code).
func icaErrClass(err error) string {
	if err == nil {
		return "ok"
	}
	cs, code, _ := errorsmod.ABCIInfo(err, false)
	if cs == "undefined" || cs == "" {
		// errors coming back from a delivered tx: "codespace/code: log"
		s := err.Error()
		if i := strings.Index(s, ": "); i > 0 {
			if j := strings.LastIndex(s[:i], "/"); j > 0 {
				if n, e := strconv.Atoi(s[j+1 : i]); e == nil {
					cs, code = s[:j], uint32(n)
				}
			}
		}
	}
	key := fmt.Sprintf("%s/%d", cs, code)
	if c, ok := icaErrTable[key]; ok {
		return "err:" + c
	}
	return "err:core"
}

var icaErrTable = map[string]string{}

func init() {
	reg := func(e *errorsmod.Error, cls string) {
		icaErrTable[fmt.Sprintf("%s/%d", e.Codespace(), e.ABCICode())] = cls
	}
	reg(icatypes.ErrUnknownDataType, "unknown-data-type")
	reg(icatypes.ErrAccountAlreadyExist, "account-exists")
	reg(icatypes.ErrInvalidChannelFlow, "invalid-channel-flow")
	reg(icatypes.ErrInvalidRoute, "invalid-route")
	reg(icatypes.ErrInvalidOutgoingData, "invalid-request")
	reg(icatypes.ErrInterchainAccountNotFound, "account-not-found")
	reg(icatypes.ErrActiveChannelAlreadySet, "active-already-set")
	reg(icatypes.ErrActiveChannelNotFound, "active-not-found")
	reg(icatypes.ErrInvalidVersion, "invalid-version")
	reg(icatypes.ErrInvalidAccountAddress, "invalid-address")
	reg(icatypes.ErrInvalidControllerPort, "invalid-controller-port")
	reg(icatypes.ErrInvalidHostPort, "invalid-host-port")
	reg(icatypes.ErrInvalidTimeoutTimestamp, "invalid-timeout")
	reg(icatypes.ErrInvalidCodec, "invalid-codec")
	reg(icatypes.ErrInvalidAccountReopening, "invalid-reopening")
	reg(hosttypes.ErrHostSubModuleDisabled, "disabled")
	reg(ctrltypes.ErrControllerSubModuleDisabled, "disabled")
	reg(channeltypes.ErrInvalidChannelOrdering, "invalid-ordering")
}

func (e *icaExec) newPath() *ibctesting.Path {
	p := ibctesting.NewPath(e.a, e.b)
	p.EndpointA.ClientID, p.EndpointB.ClientID = e.base.EndpointA.ClientID, e.base.EndpointB.ClientID
	p.EndpointA.ConnectionID, p.EndpointB.ConnectionID = e.base.EndpointA.ConnectionID, e.base.EndpointB.ConnectionID
	p.EndpointB.ChannelConfig.PortID = icatypes.HostPortID
	return p
}

func (e *icaExec) versionString(in M) string {
	switch SD(in, "vkind", "blank") {
	case "blank":
		return ""
	case "garbage":
		return "not-json"
	}
	m := icatypes.Metadata{Version: S(in, "mVersion"), ControllerConnectionId: e.conn(S(in, "mCtrlConn"), true), HostConnectionId: e.conn(S(in, "mHostConn"), false),
		Address: S(in, "mAddress"), Encoding: S(in, "mEncoding"), TxType: S(in, "mTxType")}
	return string(icatypes.ModuleCdc.MustMarshalJSON(&m))
}

// conn translates the model's symbolic connection names ("cconn", "hconn") to the real ids.
func (e *icaExec) conn(sym string, ctrl bool) string {
	switch sym {
	case "cconn":
		return e.base.EndpointA.ConnectionID
	case "hconn":
		return e.base.EndpointB.ConnectionID
	}
	return sym // e.g. "connection-77": does not exist
}

func (e *icaExec) symConn(real string, ctrl bool) string {
	if ctrl && real == e.base.EndpointA.ConnectionID {
		return "cconn"
	}
	if !ctrl && real == e.base.EndpointB.ConnectionID {
		return "hconn"
	}
	return real
}

func order(in M) channeltypes.Order {
	if S(in, "order") == "ordered" {
		return channeltypes.ORDERED
	}
	return channeltypes.UNORDERED
}

func (e *icaExec) addrName(real, hconn, port string) string {
	if real == "" {
		return ""
	}
	if n, ok := e.aname[real]; ok {
		return n
	}
	n := "A(" + hconn + "," + port + ")"
	for _, v := range e.aname {
		if v == n {
			n += "'" // a second, different address for the same key
		}
	}
	e.aname[real] = n
	return n
}

func stateName(s channeltypes.State) string {
	switch s {
	case channeltypes.INIT:
		return "init"
	case channeltypes.TRYOPEN:
		return "tryopen"
	case channeltypes.OPEN:
		return "open"
	case channeltypes.CLOSED:
		return "closed"
	}
	return s.String()
}

// world renders the lifecycle state restricted to this history's ports.
func (e *icaExec) world() M {
	actx, bctx := e.a.GetContext(), e.b.GetContext()
	ck, hk := e.a.GetSimApp().ICAControllerKeeper, e.b.GetSimApp().ICAHostKeeper
	mine := func(port string) bool { return e.ports[port] }
	side := func(ctrl bool) M {
		chans, active, addrs := []M{}, []string{}, []string{}
		names, chain, ctx := e.cname, e.a, actx
		if !ctrl {
			names, chain, ctx = e.hname, e.b, bctx
		}
		for real, name := range names {
			port := icatypes.HostPortID
			if ctrl {
				port = e.cpath[name].EndpointA.ChannelConfig.PortID
			}
			ch, ok := chain.App.GetIBCKeeper().ChannelKeeper.GetChannel(ctx, port, real)
			if !ok {
				continue
			}
			cp := ch.Counterparty.ChannelId
			if cp != "" {
				if ctrl {
					cp = e.hname[cp]
				} else {
					cp = e.cname[cp]
				}
			}
			addr := ""
			if md, err := icatypes.MetadataFromVersion(ch.Version); err == nil {
				hconn, cport := md.HostConnectionId, port
				if !ctrl {
					cport = ch.Counterparty.PortId
				}
				addr = e.addrName(md.Address, e.symConn(hconn, false), cport)
			}
			ord := "unordered"
			if ch.Ordering == channeltypes.ORDERED {
				ord = "ordered"
			}
			kport := port
			if !ctrl {
				kport = ch.Counterparty.PortId
			}
			chans = append(chans, M{"id": name, "port": kport, "state": stateName(ch.State), "order": ord, "cp": cp, "address": addr})
		}
		sort.Slice(chans, func(i, j int) bool { return chans[i]["id"].(string) < chans[j]["id"].(string) })
		if ctrl {
			for _, ac := range ck.GetAllActiveChannels(actx) {
				if mine(ac.PortId) {
					active = append(active, e.symConn(ac.ConnectionId, true)+"|"+ac.PortId+"|"+e.cname[ac.ChannelId])
				}
			}
			for _, ia := range ck.GetAllInterchainAccounts(actx) {
				if mine(ia.PortId) {
					addrs = append(addrs, e.symConn(ia.ConnectionId, true)+"|"+ia.PortId+"|"+e.addrName(ia.AccountAddress, "hconn", ia.PortId))
				}
			}
		} else {
			for _, ac := range hk.GetAllActiveChannels(bctx) {
				if mine(ac.PortId) {
					active = append(active, e.symConn(ac.ConnectionId, false)+"|"+ac.PortId+"|"+e.hname[ac.ChannelId])
				}
			}
			for _, ia := range hk.GetAllInterchainAccounts(bctx) {
				if mine(ia.PortId) {
					addrs = append(addrs, e.symConn(ia.ConnectionId, false)+"|"+ia.PortId+"|"+e.addrName(ia.AccountAddress, "hconn", ia.PortId))
				}
			}
		}
		sort.Strings(active)
		sort.Strings(addrs)
		return M{"chans": chans, "active": active, "addr": addrs}
	}
	return M{"ctrl": side(true), "host": side(false)}
}

func (e *icaExec) regCtrl(real, port, version string, ord channeltypes.Order) string {
	name := "c" + strconv.Itoa(len(e.cname))
	e.cname[real], e.creal[name] = name, real
	p := e.newPath()
	p.EndpointA.ChannelID = real
	p.EndpointA.ChannelConfig.PortID = port
	p.EndpointA.ChannelConfig.Order, p.EndpointB.ChannelConfig.Order = ord, ord
	ch, _ := e.a.App.GetIBCKeeper().ChannelKeeper.GetChannel(e.a.GetContext(), port, real)
	p.EndpointA.ChannelConfig.Version, p.EndpointB.ChannelConfig.Version = ch.Version, ch.Version
	e.cpath[name] = p
	return name
}

func (e *icaExec) Do(in M) any {
	f := S(in, "f")
	if f == "exec" {
		return e.exec(in)
	}
	var r string
	extra := M{}
	switch f {
	case "reset":
		e.hist++
		e.cname, e.hname, e.creal, e.hreal = map[string]string{}, map[string]string{}, map[string]string{}, map[string]string{}
		e.paths, e.cpath, e.ports, e.aname = map[string]*ibctesting.Path{}, map[string]*ibctesting.Path{}, map[string]bool{}, map[string]string{}
		e.setEnabled(true, true)
		e.setEnabled(false, true)
		r = "ok"
	case "register", "init":
		owner := S(in, "owner")
		port := icatypes.ControllerPortPrefix + owner
		if f == "init" && SD(in, "port", "") != "" {
			port = S(in, "port") // e.g. a port without the controller prefix
		}
		e.ports[port] = true
		conn := e.conn(S(in, "conn"), true)
		version := e.versionString(in)
		var err error
		var real string
		if f == "register" {
			ctx, write := e.a.GetContext().CacheContext()
			ctx = ctx.WithEventManager(sdk.NewEventManager())
			ms := ctrlkeeper.NewMsgServerImpl(e.a.GetSimApp().ICAControllerKeeper)
			var res *ctrltypes.MsgRegisterInterchainAccountResponse
			res, err = ms.RegisterInterchainAccount(ctx, &ctrltypes.MsgRegisterInterchainAccount{Owner: owner, ConnectionId: conn, Version: version, Ordering: order(in)})
			if err == nil {
				write()
				real = res.ChannelId
			}
			e.a.Coordinator.CommitBlock(e.a)
		} else {
			msg := channeltypes.NewMsgChannelOpenInit(port, version, order(in), []string{conn}, SD(in, "cpPort", icatypes.HostPortID), e.a.SenderAccount.GetAddress().String())
			var res any
			txr, e2 := e.a.SendMsgs(msg)
			err, res = e2, txr
			if err == nil {
				real, err = ibctesting.ParseChannelIDFromEvents(txr.Events)
			}
			_ = res
		}
		r = icaErrClass(err)
		if err == nil {
			_ = e.base.EndpointB.UpdateClient()
			extra["chan"] = e.regCtrl(real, port, version, order(in))
		}
	case "hostTry":
		cp, ok := e.cpath[S(in, "cid")]
		if !ok {
			r = "err:core"
			break
		}
		p := e.newPath()
		*p.EndpointA = *cp.EndpointA
		cfg := *cp.EndpointA.ChannelConfig
		p.EndpointA.ChannelConfig = &cfg
		p.EndpointA.Counterparty = p.EndpointB
		p.EndpointB.Counterparty = p.EndpointA
		p.EndpointB.ChannelConfig.Order = cp.EndpointA.ChannelConfig.Order
		p.EndpointB.ChannelConfig.Version = cp.EndpointA.ChannelConfig.Version
		next := e.b.App.GetIBCKeeper().ChannelKeeper.GetNextChannelSequence(e.b.GetContext())
		err := e.tryNoBump(p)
		r = icaErrClass(err)
		_ = next
		if err == nil {
			name := "h" + strconv.Itoa(len(e.hname))
			e.hname[p.EndpointB.ChannelID], e.hreal[name] = name, p.EndpointB.ChannelID
			e.paths[name] = p
			extra["chan"] = name
		}
	case "ctrlAck":
		p, ok := e.paths[S(in, "hid")]
		if !ok || e.cname[p.EndpointA.ChannelID] != S(in, "cid") {
			// acknowledge with a host channel that belongs to another controller channel: core refuses
			r = "err:core"
			break
		}
		r = icaErrClass(p.EndpointA.ChanOpenAck())
	case "hostConfirm":
		p, ok := e.paths[S(in, "hid")]
		if !ok {
			r = "err:core"
			break
		}
		r = icaErrClass(p.EndpointB.ChanOpenConfirm())
	case "timeoutClose":
		p, ok := e.cpath[S(in, "cid")]
		if !ok {
			r = "err:core"
			break
		}
		ch := p.EndpointA.GetChannel()
		if ch.State != channeltypes.OPEN || ch.Ordering != channeltypes.ORDERED {
			r = "err:core"
			break
		}
		p.EndpointA.UpdateChannel(func(c *channeltypes.Channel) { c.State = channeltypes.CLOSED })
		r = "ok"
	case "hostCloseConfirm":
		p, ok := e.paths[S(in, "hid")]
		if !ok {
			r = "err:core"
			break
		}
		if p.EndpointB.GetChannel().State != channeltypes.OPEN || p.EndpointA.GetChannel().State != channeltypes.CLOSED {
			r = "err:core"
			break
		}
		p.EndpointB.UpdateChannel(func(c *channeltypes.Channel) { c.State = channeltypes.CLOSED })
		r = "ok"
	case "hostInit":
		msg := channeltypes.NewMsgChannelOpenInit(icatypes.HostPortID, "", channeltypes.ORDERED, []string{e.base.EndpointB.ConnectionID}, icatypes.ControllerPortPrefix+"x", e.b.SenderAccount.GetAddress().String())
		_, err := e.b.SendMsgs(msg)
		r = icaErrClass(err)
	case "ctrlTry":
		mod, ok := e.a.App.GetIBCKeeper().PortKeeper.Route(icatypes.ControllerPortPrefix + "x")
		if !ok {
			return M{"bad": "no controller route"}
		}
		_, err := mod.OnChanOpenTry(e.a.GetContext(), channeltypes.ORDERED, []string{e.base.EndpointA.ConnectionID}, icatypes.ControllerPortPrefix+"x", "channel-999",
			channeltypes.NewCounterparty(icatypes.HostPortID, "channel-0"), "")
		r = icaErrClass(err)
	case "closeInit":
		if Bool(in, "ctrl") {
			mod, _ := e.a.App.GetIBCKeeper().PortKeeper.Route(icatypes.ControllerPortPrefix + "x")
			r = icaErrClass(mod.OnChanCloseInit(e.a.GetContext(), icatypes.ControllerPortPrefix+"x", "channel-0"))
		} else {
			mod, _ := e.b.App.GetIBCKeeper().PortKeeper.Route(icatypes.HostPortID)
			r = icaErrClass(mod.OnChanCloseInit(e.b.GetContext(), icatypes.HostPortID, "channel-0"))
		}
		if r != "ok" && r != "err:core" {
			r = "err:invalid-request"
		} else if r == "err:core" {
			r = "err:invalid-request" // ibcerrors.ErrInvalidRequest (sdk codespace)
		}
	case "setEnabled":
		e.setEnabled(Bool(in, "ctrl"), Bool(in, "on"))
		r = "ok"
	case "sendTx":
		owner := S(in, "owner")
		ctx, write := e.a.GetContext().CacheContext()
		ctx = ctx.WithEventManager(sdk.NewEventManager())
		ms := ctrlkeeper.NewMsgServerImpl(e.a.GetSimApp().ICAControllerKeeper)
		data := icatypes.InterchainAccountPacketData{Type: icatypes.EXECUTE_TX, Data: []byte("x")}
		if !Bool(in, "dataOk") {
			data.Data = nil
		}
		rel := uint64(time.Hour)
		if !Bool(in, "timeoutOk") {
			rel = 0
		}
		_, err := ms.SendTx(ctx, &ctrltypes.MsgSendTx{Owner: owner, ConnectionId: e.conn(S(in, "conn"), true), PacketData: data, RelativeTimeout: rel})
		r = icaErrClass(err)
		if err == nil {
			write()
			if pk, perr := ibctesting.ParseV1PacketFromEvents(ctx.EventManager().ABCIEvents()); perr == nil {
				extra["port"], extra["chan"] = pk.SourcePort, e.cname[pk.SourceChannel]
			}
		}
		e.a.Coordinator.CommitBlock(e.a)
	default:
		return M{"bad": "unknown op " + f}
	}
	out := M{"r": r, "world": e.world()}
	for k, v := range extra {
		out[k] = v
	}
	return out
}

// tryNoBump is Endpoint.ChanOpenTry without the artificial IncrementNextChannelSequence.
func (e *icaExec) tryNoBump(p *ibctesting.Path) error {
	ep := p.EndpointB
	if err := ep.UpdateClient(); err != nil {
		return err
	}
	key := host24.ChannelKey(ep.Counterparty.ChannelConfig.PortID, ep.Counterparty.ChannelID)
	proofBz, height := ep.Counterparty.Chain.QueryProof(key)
	msg := channeltypes.NewMsgChannelOpenTry(ep.ChannelConfig.PortID, ep.ChannelConfig.Version, ep.ChannelConfig.Order, []string{ep.ConnectionID},
		ep.Counterparty.ChannelConfig.PortID, ep.Counterparty.ChannelID, ep.Counterparty.ChannelConfig.Version, proofBz, height, ep.Chain.SenderAccount.GetAddress().String())
	res, err := ep.Chain.SendMsgs(msg)
	if err != nil {
		return err
	}
	ep.ChannelID, err = ibctesting.ParseChannelIDFromEvents(res.Events)
	if err != nil {
		return err
	}
	ep.ChannelConfig.Version = ep.GetChannel().Version
	ep.Counterparty.ChannelConfig.Version = ep.GetChannel().Version
	return nil
}

func (e *icaExec) setEnabled(ctrl, on bool) {
	if ctrl {
		k := e.a.GetSimApp().ICAControllerKeeper
		k.SetParams(e.a.GetContext(), ctrltypes.Params{ControllerEnabled: on})
		e.a.Coordinator.CommitBlock(e.a)
		return
	}
	k := e.b.GetSimApp().ICAHostKeeper
	p := k.GetParams(e.b.GetContext())
	p.HostEnabled = on
	k.SetParams(e.b.GetContext(), p)
	e.b.Coordinator.CommitBlock(e.b)
}

// ---------------------------------------------------------------- C37: host execution

func (e *icaExec) execSetup() {
	if e.execReady {
		return
	}
	p := e.newPath()
	owner := "exec-owner"
	port := icatypes.ControllerPortPrefix + owner
	if err := e.a.GetSimApp().ICAControllerKeeper.RegisterInterchainAccount(e.a.GetContext(), p.EndpointA.ConnectionID, owner, "", channeltypes.UNORDERED); err != nil {
		panic(err)
	}
	next := e.a.App.GetIBCKeeper().ChannelKeeper.GetNextChannelSequence(e.a.GetContext())
	e.a.NextBlock()
	p.EndpointA.ChannelID = channeltypes.FormatChannelIdentifier(next - 1)
	p.EndpointA.ChannelConfig.PortID = port
	p.EndpointA.ChannelConfig.Order, p.EndpointB.ChannelConfig.Order = channeltypes.UNORDERED, channeltypes.UNORDERED
	v := p.EndpointA.GetChannel().Version
	p.EndpointA.ChannelConfig.Version, p.EndpointB.ChannelConfig.Version = v, v
	if err := e.tryNoBump(p); err != nil {
		panic(err)
	}
	if err := p.EndpointA.ChanOpenAck(); err != nil {
		panic(err)
	}
	if err := p.EndpointB.ChanOpenConfirm(); err != nil {
		panic(err)
	}
	addr, ok := e.b.GetSimApp().ICAHostKeeper.GetInterchainAccountAddress(e.b.GetContext(), p.EndpointB.ConnectionID, port)
	if !ok {
		panic("no interchain account")
	}
	e.execICA = sdk.MustAccAddressFromBech32(addr)
	// fund the interchain account and a bystander
	coins := sdk.NewCoins(sdk.NewCoin(sdk.DefaultBondDenom, sdkmath.NewInt(1000000)))
	if _, err := e.b.SendMsgs(banktypes.NewMsgSend(e.b.SenderAccount.GetAddress(), e.execICA, coins)); err != nil {
		panic(err)
	}
	e.execPath, e.execReady = p, true
}

func icaRecipient(i int) sdk.AccAddress {
	b := make([]byte, 20)
	b[0], b[1], b[19] = 0xEC, 0x37, byte(i+1)
	return sdk.AccAddress(b)
}

func (e *icaExec) exec(in M) any {
	e.execSetup()
	hostApp := e.b.GetSimApp()
	ctx, _ := e.b.GetContext().CacheContext()
	k := hostApp.ICAHostKeeper
	params := k.GetParams(ctx)
	params.AllowMessages = Strs(in, "allow")
	params.HostEnabled = true
	k.SetParams(ctx, params)
	who := func(s string) sdk.AccAddress {
		switch s {
		case "ica":
			return e.execICA
		case "sender":
			return e.b.SenderAccount.GetAddress()
		}
		return sdk.AccAddress([]byte("some-other-account__"))
	}
	var msgs []proto.Message
	for i, m := range List(in, "msgs") {
		amt := sdkmath.NewInt(int64(i + 1))
		if !Bool(m, "handlerOk") {
			amt = sdkmath.NewInt(999999999999) // more than anybody owns
		}
		coins := sdk.NewCoins(sdk.NewCoin(sdk.DefaultBondDenom, amt))
		signers := Strs(m, "signers")
		switch S(m, "kind") {
		case "send":
			msgs = append(msgs, banktypes.NewMsgSend(who(signers[0]), icaRecipient(i), coins))
		case "multisend":
			var ins []banktypes.Input
			for _, s := range signers {
				ins = append(ins, banktypes.NewInput(who(s), coins))
			}
			msgs = append(msgs, &banktypes.MsgMultiSend{Inputs: ins, Outputs: []banktypes.Output{banktypes.NewOutput(icaRecipient(i), coins)}})
		case "transfer": // has ValidateBasic; vbOk=false: empty source channel
			ch := "channel-0"
			if !Bool(m, "vbOk") {
				ch = ""
			}
			msgs = append(msgs, transfertypes.NewMsgTransfer("transfer", ch, coins[0], who(signers[0]).String(), "receiver", clienttypes.NewHeight(1, 100000), 0, ""))
		}
	}
	data, err := icatypes.SerializeCosmosTx(hostApp.AppCodec(), msgs, icatypes.EncodingProtobuf)
	if err != nil {
		panic(err)
	}
	pd := icatypes.InterchainAccountPacketData{Type: icatypes.EXECUTE_TX, Data: data}
	srcPort := e.execPath.EndpointA.ChannelConfig.PortID
	if !Bool(in, "registered") {
		srcPort = icatypes.ControllerPortPrefix + "nobody"
	}
	dstChan := e.execPath.EndpointB.ChannelID
	if !Bool(in, "chanFound") {
		dstChan = "channel-4242"
	}
	packet := channeltypes.NewPacket(pd.GetBytes(), 1, srcPort, e.execPath.EndpointA.ChannelID, icatypes.HostPortID, dstChan, clienttypes.NewHeight(1, 100000), 0)
	bal := func(a sdk.AccAddress) sdkmath.Int {
		return hostApp.BankKeeper.GetBalance(ctx, a, sdk.DefaultBondDenom).Amount
	}
	n := len(msgs)
	before := make([]sdkmath.Int, n)
	for i := range before {
		before[i] = bal(icaRecipient(i))
	}
	icaBefore, otherBefore := bal(e.execICA), bal(e.b.SenderAccount.GetAddress())
	_, err = k.OnRecvPacket(ctx, packet)
	effects := []int{}
	for i := range before {
		if !bal(icaRecipient(i)).Equal(before[i]) {
			effects = append(effects, i)
		}
	}
	cls := "ok"
	if err != nil {
		cs, code, _ := errorsmod.ABCIInfo(err, false)
		key := fmt.Sprintf("%s/%d", cs, code)
		switch {
		case key == fmt.Sprintf("%s/%d", channeltypes.ErrChannelNotFound.Codespace(), channeltypes.ErrChannelNotFound.ABCICode()),
			key == fmt.Sprintf("%s/%d", ibcerrors.ErrNotFound.Codespace(), ibcerrors.ErrNotFound.ABCICode()): // getAppMetadata: no such channel
			cls = "err:channel-not-found"
		case icaErrTable[key] == "account-not-found":
			cls = "err:account-not-found"
		case icaErrTable[key] == "invalid-route":
			cls = "err:invalid-route"
		case key == fmt.Sprintf("%s/%d", ibcerrors.ErrUnauthorized.Codespace(), ibcerrors.ErrUnauthorized.ABCICode()):
			cls = "err:unauthorized" // message type not allowed, or a signer that is not the interchain account
		default:
			cls = "err:msg" // ValidateBasic or handler error of the message itself
		}
	}
	return M{"r": cls, "effects": effects, "icaSpent": !bal(e.execICA).Equal(icaBefore), "otherSpent": bal(e.b.SenderAccount.GetAddress()).LT(otherBefore)}
}

func init() {
	Register(Engine{
		Name:       "ica",
		MaxMonitor: 6000,
		Props:      []string{"C37", "C38"},
		New:        func() Executor { return newIcaExec() },
		Gen:        icaGen,
		Monitor:    icaMonitor,
	})
}
