package apps

// C40 monitor: the property itself, evaluated on the real callbacks middlewares.
//   * gas: the amount charged to the caller never exceeds min(remaining, commit) where
//     commit = user limit capped at the chain maximum (0 / above max => max);
//   * source ack / timeout callback that errors, panics or runs out of gas WITHOUT retry: the handler
//     still returns nil (packet outcome and application effects stand) and the callback's writes are
//     not in the handler's context;
//   * out of gas while the relayer supplied less than the committed limit (exec < commit): the
//     handler panics with ErrorOutOfGas (transaction aborted, can be retried);
//   * send callback failure: the send is rejected (error or panic), never accepted;
//   * destination callback failure: error acknowledgement (or abort on the retry condition).

import (
	. "verif/harness/lib"
)

func cbMonitor(r *Rng, n int, report func(Viol)) {
	cbStackMonitor(report)
	e := newCbExec()
	check := func(in M) {
		out, _ := Safe(func() any { return e.Do(in) }).(M)
		if out == nil || out["r"] == nil {
			report(Viol{Property: "C40-harness", What: "monitor request failed", Input: in, Observed: out})
			return
		}
		entry := in["entry"].(string)
		user, remaining, max, gas := N(in, "user"), N(in, "remaining"), N(in, "max"), N(in, "gas")
		exec, commit := cbLimits(user, remaining, max)
		res := out["r"].(string)
		charged := N(out, "charged")
		wrote, _ := out["wrote"].(bool)
		called, _ := out["called"].(bool)
		beh := in["out"].(string) // ok | err | panic
		oog := gas > exec
		catch := in["catch"].(string)
		v := func(key, what string) {
			report(Viol{Property: "C40", Key: key, What: what, Input: in, Observed: out, Requests: []M{{"f": "reset", "engine": "callbacks"}, in}})
		}
		if !called {
			v("", "callback requested with valid data but the contract was not called")
			return
		}
		if charged > exec || charged > commit || charged > remaining {
			v("", "callback charged more gas than min(remaining, user limit capped at max)")
		}
		failed := oog || beh != "ok"
		retry := exec < commit
		switch entry {
		case "ack", "timeout", "writeAck":
			switch {
			case oog && retry:
				if res != "aborted" {
					v("", "callback ran out of gas with less gas than the committed limit but the transaction was not aborted")
				}
			case entry == "writeAck":
				if res != "ok" {
					v("", "async-ack destination callback failure changed the result of WriteAcknowledgement")
				}
			default:
				if res != "ok" {
					v("", "source callback failure blocked the acknowledgement / timeout")
				}
				if failed && wrote {
					// includes the regression of fix 7bc25b2 (contract swallows its out-of-gas panic, returns nil)
					v("", "failed source callback's state changes were not discarded")
				}
				if !failed && !wrote {
					v("", "successful callback's state changes were dropped")
				}
			}
		case "send":
			if failed && res == "ok" {
				v("", "send accepted although the send callback failed")
			}
			if !failed && res != "ok" {
				v("", "send rejected although the send callback succeeded")
			}
			if (beh == "panic" && !oog || oog && catch == "none") && res != "aborted" {
				v("", "send callback panic was not propagated")
			}
		case "recv":
			switch {
			case oog && retry:
				if res != "aborted" {
					v("", "destination callback out of gas under the retry condition did not abort the transaction")
				}
			case failed:
				if res != "ack:error" {
					v("", "failing destination callback did not turn the receive into an error acknowledgement")
				}
			default:
				if res != "ack:success" {
					v("", "successful destination callback changed the acknowledgement")
				}
			}
		}
	}
	for i := 0; i < n; i++ {
		entry := Pick(r, cbEntries)
		max := uint64(1 + r.Intn(2000000))
		user := uint64(r.Intn(3000000))
		if r.Chance(0.2) {
			user = 0
		}
		remaining := uint64(r.Intn(3000000))
		exec, _ := cbLimits(user, remaining, max)
		var gas uint64
		switch r.Intn(5) {
		case 0:
			gas = exec
		case 1:
			gas = exec + 1
		case 2:
			gas = exec / 2
		case 3:
			gas = exec + uint64(r.Intn(100000))
		default:
			gas = uint64(r.Intn(1000))
		}
		in := cbRequest(r, entry, r.Bool(), cbOkApp(entry), Pick(r, []string{"ok", "err", "panic"}), Pick(r, []string{"none", "none", "err", "ok"}),
			user, remaining, max, gas, false)
		in["user"] = U(user)
		check(in)
	}
}
