package apps

// C41 monitor: evaluates the property itself on the real rate-limiting code.
//
// It drives histories that satisfy what core IBC guarantees the middleware (fresh sequences per
// channel — C08/C01; acknowledgement / timeout carry the packet that was sent — C06; positive
// amounts — ICS-20 validation) and keeps an independent reference account per path
// (denom, channel): amounts ACCEPTED in the current window and amounts UNDONE in the current window
// (error ack / timeout of a packet accepted in this window, at most once per packet).  After every
// op it compares the recorded flows with accepted − undone, checks they are non-negative and that
// nothing beyond the quota was accepted.  A window starts at Add / Update / Reset / epoch reset.
//
// F4 (DESIGN §6, fixed by /repo commit 05cc95a): UpdateRateLimit and Remove(+Add) used to zero / drop
// the flow but keep the pending markers, so a later refund of a pre-update packet was subtracted from
// the NEW window.  The witness (add; send p; update | remove+add; send q; timeout p) stays here as a
// regression case and the random histories include Update / Remove: any deviation is a violation.

import (
	"fmt"
	"math/big"

	transfertypes "github.com/cosmos/ibc-go/v11/modules/apps/transfer/types"

	. "verif/harness/lib"
)

type refPath struct {
	denom, ch         string
	has               bool
	maxSend, maxRecv  *big.Int
	dur               uint64
	value             *big.Int
	accOut, undoneOut *big.Int
	accIn, undoneIn   *big.Int
	openOut, openIn   map[uint64]*big.Int // accepted in this window, not finalised
	staleOut, staleIn map[uint64]*big.Int // markers that survived an Update / Remove
	tainted           bool                // a stale marker was consumed in this window (F4 happened)
}

func newRefPath() *refPath {
	return &refPath{openOut: map[uint64]*big.Int{}, openIn: map[uint64]*big.Int{}, staleOut: map[uint64]*big.Int{}, staleIn: map[uint64]*big.Int{}}
}

func (p *refPath) startWindow(value *big.Int, keepMarkers bool) {
	if keepMarkers {
		for k, v := range p.openOut {
			p.staleOut[k] = v
		}
		for k, v := range p.openIn {
			p.staleIn[k] = v
		}
	} else {
		p.staleOut, p.staleIn = map[uint64]*big.Int{}, map[uint64]*big.Int{}
	}
	p.openOut, p.openIn = map[uint64]*big.Int{}, map[uint64]*big.Int{}
	p.accOut, p.undoneOut, p.accIn, p.undoneIn = new(big.Int), new(big.Int), new(big.Int), new(big.Int)
	p.value = value
	p.tainted = false
}

type rlMon struct {
	r      *Rng
	e      *rlExec
	report func(Viol)
	reqs   []M
	paths  map[string]*refPath
	white  map[string]bool
	black  map[string]bool
	supply map[string]*big.Int
	epoch  uint64
	start  int64
	time   int64
	nviol  int
	nkeyed int
}

func pkey(denom, ch string) string { return denom + "|" + ch }

func (m *rlMon) path(denom, ch string) *refPath {
	k := pkey(denom, ch)
	if m.paths[k] == nil {
		m.paths[k] = newRefPath()
		m.paths[k].denom, m.paths[k].ch = denom, ch
	}
	return m.paths[k]
}

func (m *rlMon) do(in M) M {
	m.reqs = append(m.reqs, in)
	out := Safe(func() any { return m.e.Do(in) })
	o, _ := out.(M)
	return o
}

func (m *rlMon) viol(key, what string, in M, observed any) {
	if key != "" {
		// a known-finding class: confirm it a few times, keep exploring for anything else
		m.nkeyed++
		if m.nkeyed > 3 {
			return
		}
	} else {
		m.nviol++
	}
	m.report(Viol{Property: "C41", Key: key, What: what, Input: in, Observed: observed, Requests: append([]M{}, m.reqs...)})
}

// check compares the implementation's recorded flows with the reference account.
func (m *rlMon) check(in M, out M, consumedStale map[string]bool) {
	st, _ := out["state"].(M)
	lims, _ := st["limits"].([]M)
	seen := map[string]bool{}
	for _, l := range lims {
		k := pkey(l["denom"].(string), l["chan"].(string))
		seen[k] = true
		p := m.paths[k]
		if p == nil || !p.has {
			m.viol("", "a rate limit exists that no Add created", in, l)
			continue
		}
		wantOut := new(big.Int).Sub(p.accOut, p.undoneOut)
		wantIn := new(big.Int).Sub(p.accIn, p.undoneIn)
		gotOut, gotIn := bigOf(l["out"]), bigOf(l["in"])
		if gotOut.Sign() < 0 || gotIn.Sign() < 0 {
			m.viol("", "recorded flow is negative", in, l)
		}
		if gotOut.Cmp(wantOut) != 0 || gotIn.Cmp(wantIn) != 0 {
			obs := M{"limit": l, "acceptedOut": p.accOut.String(), "undoneOut": p.undoneOut.String(), "acceptedIn": p.accIn.String(), "undoneIn": p.undoneIn.String()}
			m.viol("", "recorded flow differs from (accepted in window - undone in window)", in, obs)
		}
		if bigOf(l["value"]).Cmp(p.value) != 0 {
			m.viol("", "channel value differs from the supply at window start", in, l)
		}
	}
	for k, p := range m.paths {
		if p.has && !seen[k] {
			m.viol("", "rate limit disappeared without Remove", in, k)
		}
	}
}

func within(value, pct, net *big.Int) bool {
	if value.Sign() == 0 {
		return true // explicit carve-out of CheckExceedsQuota: no channel value => no limit
	}
	thr := new(big.Int).Quo(new(big.Int).Mul(value, pct), big.NewInt(100))
	return net.Cmp(thr) <= 0
}

func (m *rlMon) sup(d string) *big.Int {
	if v, ok := m.supply[d]; ok {
		return v
	}
	return new(big.Int)
}

func (m *rlMon) supplies() []M {
	out := []M{}
	for _, d := range SortedKeys(m.supply) {
		out = append(out, M{"denom": d, "amt": m.supply[d].String()})
	}
	return out
}

var monDenoms = []string{"uaaa", "ubbb"}
var monChans = []string{"channel-0", "channel-1", "07-tendermint-0"}

type monPkt struct {
	req M
	dir string
	seq uint64
	amt *big.Int
	key string
}

func (m *rlMon) history(nops int, allowAdmin bool) {
	r := m.r
	m.reqs = nil
	m.paths = map[string]*refPath{}
	m.white, m.black = map[string]bool{}, map[string]bool{}
	m.supply = map[string]*big.Int{}
	for _, d := range monDenoms {
		m.supply[d] = big.NewInt(int64(1000 + r.Intn(100000)))
	}
	hour := int64(3600) * 1e9
	m.start = int64(1700000000) * 1e9
	m.time = m.start + int64(r.Intn(3000))*1e9
	m.epoch = uint64(r.Intn(20))
	m.do(M{"f": "reset", "engine": "ratelimit", "epochNum": U(m.epoch), "epochStart": I(m.start), "epochDur": I(hour), "sup": m.supplies()})
	sendSeq, recvSeq := map[string]uint64{}, map[string]uint64{}
	var sent, asyncs, finished []monPkt

	mkPkt := func(dir string) (M, string, string) {
		ch := Pick(r, monChans)
		d := Pick(r, monDenoms)
		cpc := "channel-5"
		if isClient(ch) {
			cpc = "07-tendermint-4"
		}
		p := M{"chan": ch, "cpChan": cpc, "denom": d, "sender": Pick(r, rlAddrs[:3]), "receiver": Pick(r, rlAddrs[:3])}
		if dir == "send" {
			p["pdenom"] = d
		} else {
			p["pdenom"] = "transfer/" + cpc + "/" + d
		}
		if isClient(ch) {
			p["v2"] = true
			if r.Chance(0.3) {
				p["enc"] = Pick(r, []string{transfertypes.EncodingProtobuf, transfertypes.EncodingABI})
			}
		} else if r.Chance(0.4) && dir == "send" {
			p["via"] = "mw"
		}
		return p, d, ch
	}
	amount := func(p *refPath, dir string) *big.Int {
		if p.has && r.Chance(0.6) {
			pct, net := p.maxSend, new(big.Int).Sub(new(big.Int).Sub(p.accOut, p.undoneOut), new(big.Int).Sub(p.accIn, p.undoneIn))
			if dir == "recv" {
				pct = p.maxRecv
				net.Neg(net)
			}
			rem := new(big.Int).Sub(new(big.Int).Quo(new(big.Int).Mul(p.value, pct), big.NewInt(100)), net)
			switch r.Intn(5) {
			case 0:
				rem.Add(rem, big.NewInt(1))
			case 1:
				rem.Quo(rem, big.NewInt(2))
			case 2:
				rem.Quo(rem, big.NewInt(4))
			}
			if rem.Sign() > 0 {
				return rem
			}
		}
		return big.NewInt(int64(1 + r.Intn(3000)))
	}
	addLimit := func(d, ch string) {
		ms, mr := int64(r.Intn(60)), int64(1+r.Intn(60))
		dur := uint64(1 + r.Intn(3))
		in := M{"f": "add", "denom": d, "chan": ch, "maxSend": fmt.Sprint(ms), "maxRecv": fmt.Sprint(mr), "dur": U(dur), "supply": m.sup(d).String(), "chanExists": true}
		out := m.do(in)
		p := m.path(d, ch)
		if out["r"] == "ok" {
			if p.has {
				m.viol("", "AddRateLimit overwrote an existing limit", in, out)
			}
			p.has, p.maxSend, p.maxRecv, p.dur = true, big.NewInt(ms), big.NewInt(mr), dur
			p.startWindow(m.sup(d), false)
		}
		m.check(in, out, nil)
	}
	addLimit(Pick(r, monDenoms), Pick(r, monChans))
	if r.Chance(0.5) {
		addLimit(Pick(r, monDenoms), Pick(r, monChans))
	}

	for i := 0; i < nops && m.nviol < 3; i++ {
		switch w := r.Intn(100); {
		case w < 30: // send
			in, d, ch := mkPkt("send")
			p := m.path(d, ch)
			sendSeq[ch]++
			amt := amount(p, "send")
			in["f"], in["seq"], in["amt"] = "send", U(sendSeq[ch]), amt.String()
			out := m.do(in)
			wl := m.white[in["sender"].(string)+"|"+in["receiver"].(string)]
			if out["r"] == "ok" {
				if p.has && !wl && !m.black[d] {
					net := new(big.Int).Sub(new(big.Int).Sub(p.accOut, p.undoneOut), new(big.Int).Sub(p.accIn, p.undoneIn))
					net.Add(net, amt)
					if !p.tainted && !within(p.value, p.maxSend, net) {
						m.viol("", "send accepted although the net outflow exceeds the quota", in, out)
					}
					p.accOut.Add(p.accOut, amt)
					p.openOut[sendSeq[ch]] = amt
				}
				sent = append(sent, monPkt{req: in, dir: "send", seq: sendSeq[ch], amt: amt, key: pkey(d, ch)})
			} else if m.black[d] && out["r"] != "err:blacklisted" {
				m.viol("", "blacklisted denom not rejected", in, out)
			}
			m.check(in, out, nil)
		case w < 50: // recv
			in, d, ch := mkPkt("recv")
			p := m.path(d, ch)
			recvSeq[ch]++
			amt := amount(p, "recv")
			app := Pick(r, []string{"success", "success", "error", "async", "async"})
			in["f"], in["seq"], in["amt"], in["app"] = "recv", U(recvSeq[ch]), amt.String(), app
			out := m.do(in)
			wl := m.white[in["sender"].(string)+"|"+in["receiver"].(string)]
			ack, _ := out["ack"].(string)
			if ack != "error" && p.has && !wl && !m.black[d] {
				net := new(big.Int).Sub(new(big.Int).Sub(p.accIn, p.undoneIn), new(big.Int).Sub(p.accOut, p.undoneOut))
				net.Add(net, amt)
				if !p.tainted && !within(p.value, p.maxRecv, net) {
					m.viol("", "receive accepted although the net inflow exceeds the quota", in, out)
				}
				p.accIn.Add(p.accIn, amt)
				if ack == "async" {
					p.openIn[recvSeq[ch]] = amt
				}
			}
			if ack == "async" {
				asyncs = append(asyncs, monPkt{req: in, dir: "recv", seq: recvSeq[ch], amt: amt, key: pkey(d, ch)})
			}
			// an error acknowledgement (application's or the limiter's) must leave everything unchanged:
			// the reference account was not touched, so check() enforces it.
			m.check(in, out, nil)
		case w < 70: // terminal outcome of a sent packet (exactly once per packet: C03)
			if len(sent) == 0 {
				continue
			}
			j := r.Intn(len(sent))
			pk := sent[j]
			sent = append(sent[:j], sent[j+1:]...)
			finished = append(finished, pk)
			in := cp(pk.req)
			success := false
			if r.Chance(0.35) {
				in["f"] = "timeout"
			} else {
				success = r.Chance(0.5)
				in["f"], in["success"] = "ack", success
				if in["v2"] != nil && r.Chance(0.5) {
					in["universal"] = true
				}
			}
			out := m.do(in)
			p := m.paths[pk.key]
			stale := map[string]bool{}
			if p != nil {
				if _, ok := p.openOut[pk.seq]; ok {
					if !success {
						p.undoneOut.Add(p.undoneOut, pk.amt)
					}
					delete(p.openOut, pk.seq)
				} else if _, ok := p.staleOut[pk.seq]; ok {
					// accepted in an earlier window that ended by Update/Remove: nothing of the
					// current window may be undone
					delete(p.staleOut, pk.seq)
					if !success && p.has {
						stale[pk.key] = true
					}
				}
			}
			m.check(in, out, stale)
		case w < 74: // a terminal failure delivered a second time: "each packet undone at most once"
			if len(finished) == 0 {
				continue
			}
			pk := Pick(r, finished)
			in := cp(pk.req)
			if r.Chance(0.5) {
				in["f"] = "timeout"
			} else {
				in["f"], in["success"] = "ack", false
			}
			out := m.do(in)
			m.check(in, out, nil) // reference account untouched
		case w < 80: // async acknowledgement written later
			if len(asyncs) == 0 {
				continue
			}
			j := r.Intn(len(asyncs))
			pk := asyncs[j]
			asyncs = append(asyncs[:j], asyncs[j+1:]...)
			in := cp(pk.req)
			success := r.Chance(0.5)
			in["f"], in["success"] = "writeAck", success
			delete(in, "app")
			out := m.do(in)
			p := m.paths[pk.key]
			stale := map[string]bool{}
			if p != nil {
				if _, ok := p.openIn[pk.seq]; ok {
					if !success {
						p.undoneIn.Add(p.undoneIn, pk.amt)
					}
					delete(p.openIn, pk.seq)
				} else if _, ok := p.staleIn[pk.seq]; ok {
					delete(p.staleIn, pk.seq)
					if !success && p.has {
						stale[pk.key] = true
					}
				}
			}
			m.check(in, out, stale)
		case w < 87: // time passes
			if r.Chance(0.5) {
				m.time += int64(r.Intn(1200)) * 1e9
			} else {
				m.time += hour
			}
			if r.Chance(0.3) {
				d := Pick(r, monDenoms)
				m.supply[d] = big.NewInt(int64(1000 + r.Intn(100000)))
			}
			in := M{"f": "beginBlock", "time": I(m.time), "sup": m.supplies()}
			out := m.do(in)
			if m.time > m.start+hour {
				m.epoch++
				m.start += hour
				for _, p := range m.paths {
					if p.has && p.dur != 0 && m.epoch%p.dur == 0 {
						p.startWindow(m.sup(p.denom), false)
					}
				}
			}
			m.check(in, out, nil)
		case w < 91:
			addLimit(Pick(r, monDenoms), Pick(r, monChans))
		case w < 94: // reset
			d, ch := Pick(r, monDenoms), Pick(r, monChans)
			in := M{"f": "resetLimit", "denom": d, "chan": ch, "supply": m.sup(d).String()}
			out := m.do(in)
			if p := m.path(d, ch); out["r"] == "ok" && p.has {
				p.startWindow(m.sup(d), false)
			}
			m.check(in, out, nil)
		case w < 97: // update (administration)
			if !allowAdmin {
				continue
			}
			d, ch := Pick(r, monDenoms), Pick(r, monChans)
			ms, mr := int64(r.Intn(60)), int64(1+r.Intn(60))
			dur := uint64(1 + r.Intn(3))
			in := M{"f": "update", "denom": d, "chan": ch, "maxSend": fmt.Sprint(ms), "maxRecv": fmt.Sprint(mr), "dur": U(dur), "supply": m.sup(d).String()}
			out := m.do(in)
			if p := m.path(d, ch); out["r"] == "ok" && p.has {
				p.maxSend, p.maxRecv, p.dur = big.NewInt(ms), big.NewInt(mr), dur
				p.startWindow(m.sup(d), false)
			}
			m.check(in, out, nil)
		case w < 99: // remove
			if !allowAdmin {
				continue
			}
			d, ch := Pick(r, monDenoms), Pick(r, monChans)
			in := M{"f": "remove", "denom": d, "chan": ch}
			out := m.do(in)
			if p := m.path(d, ch); out["r"] == "ok" && p.has {
				p.startWindow(new(big.Int), false)
				p.has = false
			}
			m.check(in, out, nil)
		default:
			a, b := Pick(r, rlAddrs[:3]), Pick(r, rlAddrs[:3])
			on := r.Chance(0.6)
			in := M{"f": "whitelist", "sender": a, "receiver": b, "on": on}
			out := m.do(in)
			m.white[a+"|"+b] = on
			m.check(in, out, nil)
		}
	}
}

// witnessF4 replays DESIGN §6-F4's witness (add, send p, update, send q, timeout p) on the real keeper.
func (m *rlMon) witnessF4(viaRemove bool) {
	m.reqs = nil
	m.do(M{"f": "reset", "engine": "ratelimit", "epochNum": "1", "epochStart": "1700000000000000000", "epochDur": "3600000000000",
		"sup": []M{{"denom": "uaaa", "amt": "1000"}}})
	m.do(M{"f": "add", "denom": "uaaa", "chan": "channel-0", "maxSend": "50", "maxRecv": "50", "dur": "1", "supply": "1000", "chanExists": true})
	pk := func(seq, amt string) M {
		return M{"chan": "channel-0", "cpChan": "channel-5", "denom": "uaaa", "pdenom": "uaaa", "seq": seq, "amt": amt, "sender": "cosmos1sender", "receiver": "cosmos1recv"}
	}
	p := pk("1", "60")
	p["f"] = "send"
	m.do(p)
	if viaRemove {
		m.do(M{"f": "remove", "denom": "uaaa", "chan": "channel-0"})
		m.do(M{"f": "add", "denom": "uaaa", "chan": "channel-0", "maxSend": "50", "maxRecv": "50", "dur": "1", "supply": "1000", "chanExists": true})
	} else {
		m.do(M{"f": "update", "denom": "uaaa", "chan": "channel-0", "maxSend": "50", "maxRecv": "50", "dur": "1", "supply": "1000"})
	}
	q := pk("2", "80")
	q["f"] = "send"
	m.do(q)
	t := pk("1", "60")
	t["f"] = "timeout"
	out := m.do(t)
	st, _ := out["state"].(M)
	lims, _ := st["limits"].([]M)
	if len(lims) != 1 || lims[0]["out"] != "80" {
		m.report(Viol{Property: "C41",
			What:  "regression of fix 05cc95a: add; send p(60); update (or remove+add); send q(80); timeout p  =>  outflow is not 80 (stale pending marker)",
			Input: t, Observed: lims, Requests: append([]M{}, m.reqs...)})
	}
}

func rlMonitor(r *Rng, n int, report func(Viol)) {
	m := &rlMon{r: r, e: newRlExec(), report: report}
	m.witnessF4(false)
	m.witnessF4(true)
	rlStackMonitor(r.Fork(), report)
	for i := 0; i < n && m.nviol < 6; i++ {
		m.history(20+r.Intn(60), i%3 != 0)
	}
}
