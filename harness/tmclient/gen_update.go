package tmclient

import (
	"sort"
	"time"

	cmttypes "github.com/cometbft/cometbft/types"

	clienttypes "github.com/cosmos/ibc-go/v11/modules/core/02-client/types"
	commitmenttypes "github.com/cosmos/ibc-go/v11/modules/core/23-commitment/types"
	"github.com/cosmos/ibc-go/v11/modules/core/exported"
	ibctm "github.com/cosmos/ibc-go/v11/modules/light-clients/07-tendermint"

	. "verif/harness/lib"
)

// Sim is the tracked chain as the harness imagines it: one canonical block per height with a
// deterministic time and app hash, a fixed validator set whose keys the harness owns.
type Sim struct {
	ChainID string
	Rev     uint64
	Vals    *ValSet
	Other   *ValSet // a different validator set (wrong trusted validators, forks by strangers)
	T0      time.Time
	Step    time.Duration
	Tag     string
}

func NewSim(tag string, rev uint64) *Sim {
	return &Sim{ChainID: "simchain-" + U(rev), Rev: rev, Vals: MakeValSet(tag+"/vals", []int64{1, 1, 1, 1}),
		Other: MakeValSet(tag+"/other", []int64{1, 1, 1, 1}), T0: time.Unix(1577836800, 0).UTC(), Step: 5 * time.Second, Tag: tag}
}

func (s *Sim) Time(h int64) time.Time { return s.T0.Add(time.Duration(h) * s.Step) }
func (s *Sim) App(h int64) []byte     { return AppHashFor(s.Tag, h) }

// Honest is the canonical header at height h, trusting `trusted`.
func (s *Sim) Honest(h int64, trusted clienttypes.Height) HdrSpec {
	return HdrSpec{ChainID: s.ChainID, Height: h, Time: s.Time(h), AppHash: s.App(h), Vals: s.Vals, NextVals: s.Vals,
		Trusted: trusted, TrustedVals: s.Vals.Set}
}

func (s *Sim) Cons(h int64) *ibctm.ConsensusState {
	return ibctm.NewConsensusState(s.Time(h), commitmenttypes.NewMerkleRoot(s.App(h)), s.Vals.Hash())
}

func (s *Sim) ClientState(tp time.Duration, latest int64) *ibctm.ClientState {
	return ibctm.NewClientState(s.ChainID, ibctm.DefaultTrustLevel, tp, tp*3/2, 10*time.Second,
		clienttypes.NewHeight(s.Rev, uint64(latest)), commitmenttypes.GetSDKSpecs(), []string{"upgrade", "upgradedIBCState"})
}

// ---- request builders -------------------------------------------------------------------------

func (e *Env) Reset(now time.Time, selfH int64) {
	e.Do(M{"f": "reset", "now": I(now.UnixNano()), "self": hs(mkH(e.SelfRev, uint64(selfH))), "nextSeq": U(e.K.GetNextClientSequence(e.root))})
}

func (e *Env) Create(cs *ibctm.ClientState, cons *ibctm.ConsensusState) (string, string) {
	cid := clienttypes.FormatClientIdentifier(exported.Tendermint, e.K.GetNextClientSequence(e.Ctx()))
	csBz, err := cs.Marshal()
	if err != nil {
		panic(err)
	}
	consBz, err := cons.Marshal()
	if err != nil {
		panic(err)
	}
	r := e.Do(M{"f": "create", "cs": CsJSON(cs), "cons": ConsJSON(cons), "rawCs": Hex(csBz), "rawCons": Hex(consBz)})
	return cid, r
}

func (e *Env) Update(cid string, h *ibctm.Header, rev uint64) string {
	_, bz, err := e.RoundTrip(h)
	if err != nil {
		panic(err)
	}
	return e.Do(M{"f": "update", "cid": cid, "hdr": HdrJSON(h, rev), "valid": e.OracleLightVerify(cid, h), "raw": Hex(bz)})
}

func (e *Env) Misbehaviour(cid string, h1, h2 *ibctm.Header, rev1, rev2 uint64) string {
	m := ibctm.NewMisbehaviour(cid, h1, h2)
	_, bz, err := e.RoundTrip(m)
	if err != nil {
		panic(err)
	}
	j1, j2 := HdrJSON(h1, rev1), HdrJSON(h2, rev2)
	j1["basicOK"] = j1["basicOK"].(bool) && libCommitOK(h1)
	j2["basicOK"] = j2["basicOK"].(bool) && libCommitOK(h2)
	return e.Do(M{"f": "misb", "cid": cid, "h1": j1, "h2": j2, "chainEq": h1.Header.ChainID == h2.Header.ChainID,
		"v1": e.OracleCommitTrusting(cid, h1), "v2": e.OracleCommitTrusting(cid, h2), "raw": Hex(bz)})
}

func (e *Env) Advance(dt time.Duration, dh int64) {
	if dt < 0 {
		dt = 0
	}
	e.Do(M{"f": "advance", "dt": U(uint64(dt)), "dh": U(uint64(dh))})
}

func (e *Env) Membership(cid string, non bool, height clienttypes.Height, delayT, delayB uint64) string {
	f := "vm"
	if non {
		f = "vnm"
	}
	// the proof bytes are garbage on purpose: the point of these calls is the status gate and the
	// height / delay / consensus-state checks in front of the ICS-23 verification
	return e.Do(M{"f": f, "cid": cid, "height": hs(height), "delayT": U(delayT), "delayB": U(delayB), "rawProof": "ff", "key": "k", "value": "01",
		"proofParse": false, "proofOK": false})
}

// ---- reading the real client ---------------------------------------------------------------------

func (e *Env) clientState(cid string) *ibctm.ClientState {
	cs, _ := ibctm.VerifGetClientState(e.Store(cid), e.Cdc)
	return cs
}

type stored struct {
	h    clienttypes.Height
	cons *ibctm.ConsensusState
}

func (e *Env) storedHeights(cid string) []stored {
	st := e.Store(cid)
	var out []stored
	ibctm.IterateConsensusStateAscending(st, func(h exported.Height) bool {
		if c, ok := ibctm.GetConsensusState(st, e.Cdc, h); ok {
			out = append(out, stored{h.(clienttypes.Height), c})
		}
		return false
	})
	sort.Slice(out, func(i, j int) bool { return out[i].h.LT(out[j].h) })
	return out
}

// ---- the `update` group: update / duplicate / conflict / gap / time / misbehaviour histories -----------

var tpChoices = []time.Duration{120 * time.Second, 300 * time.Second, 2000 * time.Second, 14 * 24 * time.Hour}

func GenUpdate(e *Env, r *Rng, n int) {
	for i := 0; i < n; i++ {
		genUpdateHistory(e, r.Fork(), i)
	}
}

func genUpdateHistory(e *Env, r *Rng, idx int) {
	sim := NewSim("upd", uint64(1+r.Intn(3)))
	tp := Pick(r, tpChoices)
	h0 := int64(2 + r.Intn(30))
	now := sim.Time(h0).Add(time.Duration(1+r.Intn(9)) * time.Second)
	e.Reset(now, int64(5+r.Intn(50)))
	cid, res := e.Create(sim.ClientState(tp, h0), sim.Cons(h0))
	if res != "ok" {
		return
	}
	var accepted []*ibctm.Header
	nops := 8 + r.Intn(30)
	for k := 0; k < nops; k++ {
		cs := e.clientState(cid)
		st := e.storedHeights(cid)
		if cs == nil {
			break
		}
		latest := int64(cs.LatestHeight.RevisionHeight)
		status := e.K.GetClientStatus(e.Ctx(), cid)
		if status != exported.Active && r.Chance(0.35) {
			// recover through a fresh substitute so that the history goes on (C20/C22/C23 across recovery)
			hs_ := latest + int64(1+r.Intn(3))
			if sim.Time(hs_).After(e.Now) {
				e.Advance(sim.Time(hs_).Sub(e.Now)+time.Second, 1)
			}
			// the substitute must be Active now: pick a height whose time is recent enough
			for e.Now.Sub(sim.Time(hs_)) >= tp {
				hs_ += int64(tp/sim.Step) / 2
				if hs_ <= 0 {
					break
				}
			}
			if sim.Time(hs_).After(e.Now) {
				e.Advance(sim.Time(hs_).Sub(e.Now)+time.Second, 1)
			}
			sub, rr := e.Create(sim.ClientState(tp, hs_), sim.Cons(hs_))
			if rr == "ok" {
				e.Do(M{"f": "recover", "subject": cid, "substitute": sub})
			}
			continue
		}
		pickTrusted := func(below int64) (stored, bool) {
			var c []stored
			for _, s := range st {
				if int64(s.h.RevisionHeight) < below {
					c = append(c, s)
				}
			}
			if len(c) == 0 {
				return stored{}, false
			}
			if r.Chance(0.6) {
				return c[len(c)-1], true
			}
			return c[r.Intn(len(c))], true
		}
		catchUp := func(h int64) {
			if sim.Time(h).After(e.Now) {
				e.Advance(sim.Time(h).Sub(e.Now)+time.Duration(r.Intn(5))*time.Second, int64(1+r.Intn(3)))
			}
		}
		switch c := r.Intn(100); {
		case c < 28: // honest header at a new height
			h := latest + int64(1+r.Intn(6))
			if r.Chance(0.3) {
				h = latest + 1
			}
			catchUp(h)
			t, ok := pickTrusted(h)
			if !ok {
				continue
			}
			hdr := BuildHeader(sim.Honest(h, t.h))
			if e.Update(cid, hdr, sim.Rev) == "updated" {
				accepted = append(accepted, hdr)
			}
		case c < 38: // gap filling / past height, canonical content
			if len(st) == 0 {
				continue
			}
			lo := int64(st[0].h.RevisionHeight)
			if latest-lo < 2 {
				continue
			}
			h := lo + 1 + int64(r.Intn(int(latest-lo-1)))
			t, ok := pickTrusted(h)
			if !ok {
				continue
			}
			hdr := BuildHeader(sim.Honest(h, t.h))
			if e.Update(cid, hdr, sim.Rev) == "updated" {
				accepted = append(accepted, hdr)
			}
		case c < 46: // duplicate of an accepted header
			if len(accepted) == 0 {
				continue
			}
			e.Update(cid, accepted[r.Intn(len(accepted))], sim.Rev)
		case c < 56: // conflicting header for a stored height, honestly signed by the same validators
			if len(st) < 2 {
				continue
			}
			target := st[1+r.Intn(len(st)-1)]
			h := int64(target.h.RevisionHeight)
			t, ok := pickTrusted(h)
			if !ok {
				continue
			}
			spec := sim.Honest(h, t.h)
			switch r.Intn(3) {
			case 0:
				spec.AppHash = AppHashFor("fork", h)
			case 1:
				spec.Time = spec.Time.Add(time.Duration(1+r.Intn(3)) * time.Nanosecond)
			default:
				spec.NextVals = sim.Other
			}
			e.Update(cid, BuildHeader(spec), sim.Rev)
		case c < 66: // header whose time is not strictly between its neighbours'
			if len(st) == 0 {
				continue
			}
			var h int64
			var ts time.Time
			if r.Chance(0.5) && latest-int64(st[0].h.RevisionHeight) >= 2 {
				// in a gap: time at or beyond the next neighbour, or at or before the previous one
				lo := int64(st[0].h.RevisionHeight)
				h = lo + 1 + int64(r.Intn(int(latest-lo-1)))
				var prev, next *stored
				for i := range st {
					if int64(st[i].h.RevisionHeight) < h {
						prev = &st[i]
					} else if int64(st[i].h.RevisionHeight) > h && next == nil {
						next = &st[i]
					}
				}
				if next != nil && r.Chance(0.5) {
					ts = next.cons.Timestamp.Add(time.Duration(r.Intn(2)) * time.Nanosecond)
				} else if prev != nil {
					ts = prev.cons.Timestamp.Add(-time.Duration(r.Intn(2)) * time.Nanosecond)
				} else {
					continue
				}
			} else {
				// above the latest height but not later than the latest consensus state
				h = latest + int64(1+r.Intn(3))
				ts = st[len(st)-1].cons.Timestamp.Add(-time.Duration(r.Intn(2)) * time.Nanosecond)
			}
			// trust something old enough for the header time to be acceptable to the light client
			var t *stored
			for i := range st {
				if int64(st[i].h.RevisionHeight) < h && st[i].cons.Timestamp.Before(ts) {
					t = &st[i]
					break
				}
			}
			if t == nil {
				continue
			}
			spec := sim.Honest(h, t.h)
			spec.Time = ts
			e.Update(cid, BuildHeader(spec), sim.Rev)
		case c < 76: // header that must not verify
			h := latest + int64(1+r.Intn(3))
			catchUp(h)
			t, ok := pickTrusted(h)
			if !ok {
				continue
			}
			spec := sim.Honest(h, t.h)
			switch r.Intn(9) {
			case 0:
				spec.Corrupt = map[int]bool{0: true, 1: true, 2: true}
			case 1:
				spec.Absent = map[int]bool{0: true, 1: true}
			case 2:
				spec.TrustedVals = sim.Other.Set
			case 3:
				spec.Trusted = mkH(sim.Rev, uint64(latest+50))
			case 4:
				spec.ChainID = "simchain-" + U(sim.Rev+1)
				e.Update(cid, BuildHeader(spec), sim.Rev+1)
				continue
			case 5:
				spec.Height = int64(t.h.RevisionHeight)
			case 6:
				spec.TrustedVals = nil
			case 7:
				spec.Time = e.Now.Add(11*time.Second + time.Duration(r.Intn(100))*time.Second)
			case 8:
				spec.Vals, spec.NextVals = sim.Other, sim.Other
			}
			e.Update(cid, BuildHeader(spec), sim.Rev)
		case c < 88: // time
			var dt time.Duration
			switch r.Intn(5) {
			case 0, 1:
				dt = time.Duration(1+r.Intn(60)) * time.Second
			case 2: // around the expiry of the latest consensus state
				if len(st) > 0 {
					if c, ok := ibctm.GetConsensusState(e.Store(cid), e.Cdc, cs.LatestHeight); ok {
						dt = c.Timestamp.Add(cs.TrustingPeriod).Sub(e.Now) + time.Duration(r.Intn(3)-1)
					}
				}
			case 3: // around the expiry of the oldest consensus state
				if len(st) > 0 {
					dt = st[0].cons.Timestamp.Add(cs.TrustingPeriod).Sub(e.Now) + time.Duration(r.Intn(3)-1)
				}
			case 4:
				dt = time.Duration(r.Intn(int(tp/time.Second)+1)) * time.Second
			}
			e.Advance(dt, int64(r.Intn(4)))
		case c < 94: // misbehaviour submissions
			genMisbehaviour(e, r, sim, cid, st, latest)
		case c < 98: // consumers
			var ph clienttypes.Height
			if len(st) > 0 && r.Chance(0.7) {
				ph = st[r.Intn(len(st))].h
			} else {
				ph = mkH(sim.Rev, uint64(latest+int64(r.Intn(3))))
			}
			dT, dB := uint64(r.Intn(2))*uint64(r.Intn(20)), uint64(r.Intn(2))*uint64(r.Intn(5))
			switch r.Intn(8) {
			case 0: // sums that wrap around 2^64 must never pass
				dT = ^uint64(0) - uint64(r.Intn(3))
			case 1:
				dB = ^uint64(0) - uint64(r.Intn(60))
			case 2: // exactly at / one below the processed time boundary
				if pt, ok := ibctm.GetProcessedTime(e.Store(cid), ph); ok && uint64(e.Now.UnixNano()) >= pt {
					dT = uint64(e.Now.UnixNano()) - pt + uint64(r.Intn(2))
				}
			}
			e.Membership(cid, r.Bool(), ph, dT, dB)
		default:
			e.Do(M{"f": "pruneAll", "cid": cid})
		}
	}
	e.Do(M{"f": "dump"})
}

func genMisbehaviour(e *Env, r *Rng, sim *Sim, cid string, st []stored, latest int64) {
	if len(st) == 0 {
		return
	}
	t := st[r.Intn(len(st))]
	th := int64(t.h.RevisionHeight)
	h := th + int64(1+r.Intn(5))
	a := sim.Honest(h, t.h)
	b := sim.Honest(h, t.h)
	switch r.Intn(8) {
	case 0, 1: // fork: same height, different block
		b.AppHash = AppHashFor("fork", h)
	case 2: // time violation: header1 higher but not later
		a.Height = h + 1
		a.Time = b.Time.Add(-time.Duration(r.Intn(2)) * time.Second)
	case 3: // not misbehaviour: identical headers
	case 4: // not misbehaviour: higher and later
		a.Height = h + 1
		a.Time = b.Time.Add(time.Second)
	case 5: // one side signed by strangers
		b.AppHash = AppHashFor("fork", h)
		b.Vals, b.NextVals = sim.Other, sim.Other
		b.TrustedVals = sim.Vals.Set
	case 6: // wrong trusted validators on one side
		b.AppHash = AppHashFor("fork", h)
		b.TrustedVals = sim.Other.Set
	case 7: // trusted height not stored
		b.AppHash = AppHashFor("fork", h)
		b.Trusted = mkH(sim.Rev, uint64(latest+77))
		b.Height = latest + 100
		a.Height = latest + 100
	}
	e.Misbehaviour(cid, BuildHeader(a), BuildHeader(b), sim.Rev, sim.Rev)
}

var _ = cmttypes.MaxChainIDLen
