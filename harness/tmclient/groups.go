package tmclient

import (
	. "verif/harness/lib"
)

// Group is one family of histories.
type Group struct {
	Name  string
	Props []string
	Gen   func(e *Env, r *Rng, n int)
}

var Groups = []Group{
	{Name: "update", Props: []string{"C20", "C21", "C22", "C23", "C24"}, Gen: GenUpdate},
	{Name: "raw", Props: []string{"C22"}, Gen: GenRaw},
	{Name: "recover", Props: []string{"C25", "C21", "C20", "C22"}, Gen: GenRecover},
	{Name: "upgrade", Props: []string{"C25", "C21", "C20", "C22"}, Gen: GenUpgrade},
	{Name: "verify", Props: []string{"C24"}, Gen: GenVerify},
	{Name: "power", Props: []string{"C24"}, Gen: GenPower},
}

// Viol is a property-level failure found by a monitor on the implementation.
type Viol struct {
	Property string `json:"property"`
	Key      string `json:"key"`
	What     string `json:"what"`
	Requests []M    `json:"requests"`
	Observed any    `json:"observed"`
}

func ViolKey(v any) string {
	if x, ok := v.(Viol); ok {
		return x.Property + "/" + x.Key
	}
	return "?"
}

func (e *Env) SetSinks(emit func(M, any), report func(any)) {
	e.emit = emit
	e.report = report
}

// Replay evaluates one recorded request. Stateless functions and whole histories replay alike because
// every request carries the raw bytes it was generated with.
func (e *Env) Replay(in M) {
	norm(in)
	f, _ := in["f"].(string)
	if isRaw(f) {
		e.DoRaw(in)
		return
	}
	if isLvPure(f) {
		// verdicts of the CometBFT library on signed material cannot be rebuilt from the symbolic request
		e.emit(in, M{"bad": "lv.* cases are not replayable"})
		return
	}
	e.Do(in)
}

// norm converts nested map[string]any (from JSON) to M so that field accessors work.
func norm(m M) {
	for k, v := range m {
		if mm, ok := v.(map[string]any); ok {
			norm(mm)
			m[k] = M(mm)
		}
	}
}
