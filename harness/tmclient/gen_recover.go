package tmclient

import (
	"time"

	ics23 "github.com/cosmos/ics23/go"

	clienttypes "github.com/cosmos/ibc-go/v11/modules/core/02-client/types"
	commitmenttypes "github.com/cosmos/ibc-go/v11/modules/core/23-commitment/types"
	"github.com/cosmos/ibc-go/v11/modules/core/exported"
	ibctm "github.com/cosmos/ibc-go/v11/modules/light-clients/07-tendermint"

	. "verif/harness/lib"
)

// The `recover` group (C25, C21): subject / substitute / bystander clients over
// {Active, Frozen, Expired} x height relations x single-parameter differences, then RecoverClient,
// then the history goes on (updates on the recovered subject, consumers, a second recovery).

// makeStatus drives client `cid` into the wanted status (0 Active, 1 Frozen, 2 Expired).
func (e *Env) makeStatus(r *Rng, sim *Sim, cid string, want int) {
	cs := e.clientState(cid)
	if cs == nil {
		return
	}
	switch want {
	case 1:
		st := e.storedHeights(cid)
		if len(st) == 0 {
			return
		}
		t := st[len(st)-1]
		h := int64(t.h.RevisionHeight) + 1
		if sim.Time(h).After(e.Now) {
			e.Advance(sim.Time(h).Sub(e.Now)+time.Second, 1)
		}
		if r.Bool() {
			a, b := sim.Honest(h, t.h), sim.Honest(h, t.h)
			b.AppHash = AppHashFor("fork", h)
			a.ChainID, b.ChainID = cs.ChainId, cs.ChainId
			e.Misbehaviour(cid, BuildHeader(a), BuildHeader(b), t.h.RevisionNumber, t.h.RevisionNumber)
		} else {
			// conflicting header for the latest stored height needs something older to trust; otherwise use misbehaviour
			if len(st) >= 2 {
				spec := sim.Honest(int64(t.h.RevisionHeight), st[len(st)-2].h)
				spec.AppHash = AppHashFor("fork", h)
				spec.ChainID = cs.ChainId
				e.Update(cid, BuildHeader(spec), t.h.RevisionNumber)
			} else {
				a, b := sim.Honest(h, t.h), sim.Honest(h, t.h)
				b.AppHash = AppHashFor("fork", h)
				a.ChainID, b.ChainID = cs.ChainId, cs.ChainId
				e.Misbehaviour(cid, BuildHeader(a), BuildHeader(b), t.h.RevisionNumber, t.h.RevisionNumber)
			}
		}
	case 2:
		if c, ok := ibctm.GetConsensusState(e.Store(cid), e.Cdc, cs.LatestHeight); ok {
			dt := c.Timestamp.Add(cs.TrustingPeriod).Sub(e.Now) + time.Duration(r.Intn(2))
			if r.Chance(0.3) {
				dt += time.Duration(r.Intn(100)) * time.Second
			}
			e.Advance(dt, 1)
		}
	}
}

func GenRecover(e *Env, r0 *Rng, n int) {
	for i := 0; i < n; i++ {
		genRecoverHistory(e, r0.Fork(), i)
	}
}

func genRecoverHistory(e *Env, r *Rng, idx int) {
	sim := NewSim("rec", uint64(1+r.Intn(2)))
	tp := Pick(r, []time.Duration{300 * time.Second, 2000 * time.Second, 14 * 24 * time.Hour})
	hSubj := int64(5 + r.Intn(20))
	e.Reset(sim.Time(hSubj).Add(2*time.Second), int64(5+r.Intn(50)))
	if idx%25 == 0 {
		directedOlderSubstitute(e, sim, tp)
		return
	}
	subj, res := e.Create(sim.ClientState(tp, hSubj), sim.Cons(hSubj))
	if res != "ok" {
		return
	}
	bystander, _ := e.Create(sim.ClientState(tp, hSubj+1), sim.Cons(hSubj+1))
	// a few updates on the subject so that it has history
	latest := hSubj
	for k := 0; k < r.Intn(4); k++ {
		h := latest + int64(1+r.Intn(3))
		if sim.Time(h).After(e.Now) {
			e.Advance(sim.Time(h).Sub(e.Now)+time.Second, 1)
		}
		if e.Update(subj, BuildHeader(sim.Honest(h, mkH(sim.Rev, uint64(latest)))), sim.Rev) == "updated" {
			latest = h
		}
	}
	subjStatus := Pick(r, []int{0, 1, 1, 2, 2})
	substStatus := Pick(r, []int{0, 0, 0, 0, 1, 2})
	// substitute: height relation and one parameter difference
	rel := Pick(r, []int64{-2, 0, 1, 1, 3, 3, 10})
	hSub := latest + rel
	if hSub < 2 {
		hSub = 2
	}
	scs := sim.ClientState(tp, hSub)
	switch r.Intn(12) {
	case 0:
		scs.TrustLevel = ibctm.Fraction{Numerator: 2, Denominator: 3}
	case 1:
		scs.UnbondingPeriod += time.Second
	case 2:
		scs.MaxClockDrift += time.Second
	case 3:
		scs.ProofSpecs = []*ics23.ProofSpec{commitmenttypes.GetSDKSpecs()[0]}
	case 4:
		scs.UpgradePath = []string{"upgrade", "other"}
	case 5:
		scs.ChainId = "otherchain-" + U(sim.Rev) // allowed to differ
	case 6:
		scs.TrustingPeriod = tp / 2 // allowed to differ
	case 7:
		scs.AllowUpdateAfterExpiry = true // deprecated flags are ignored
	case 8:
		scs.AllowUpdateAfterMisbehaviour = true
	}
	if sim.Time(hSub).After(e.Now) {
		e.Advance(sim.Time(hSub).Sub(e.Now)+time.Second, 1)
	}
	e.makeStatus(r, sim, subj, subjStatus)
	// create the substitute now (so that, unless asked otherwise, it is Active)
	for e.Now.Sub(sim.Time(hSub)) >= scs.TrustingPeriod && substStatus == 0 {
		hSub += int64(scs.TrustingPeriod/sim.Step)/2 + 1
		scs.LatestHeight = mkH(sim.Rev, uint64(hSub))
		if sim.Time(hSub).After(e.Now) {
			e.Advance(sim.Time(hSub).Sub(e.Now)+time.Second, 1)
		}
	}
	subst, _ := e.Create(scs, sim.ConsFor(scs, hSub))
	if substStatus != 0 {
		e.makeStatus(r, sim, subst, substStatus)
	}
	switch r.Intn(20) {
	case 0:
		e.Do(M{"f": "recover", "subject": subj, "substitute": subj})
	case 1:
		e.Do(M{"f": "recover", "subject": subj, "substitute": clienttypes.FormatClientIdentifier(exported.Tendermint, 3999999999)})
	case 2:
		e.Do(M{"f": "recover", "subject": clienttypes.FormatClientIdentifier(exported.Tendermint, 3999999998), "substitute": subst})
	}
	res = e.Do(M{"f": "recover", "subject": subj, "substitute": subst})
	// go on: consumers and updates on the (possibly recovered) subject
	cs := e.clientState(subj)
	for k := 0; k < 2+r.Intn(4); k++ {
		cs = e.clientState(subj)
		l := int64(cs.LatestHeight.RevisionHeight)
		switch r.Intn(4) {
		case 0:
			e.Membership(subj, r.Bool(), cs.LatestHeight, 0, 0)
		case 1:
			e.Do(M{"f": "recover", "subject": subj, "substitute": subst})
		default:
			h := l + int64(1+r.Intn(3))
			spec := sim.Honest(h, cs.LatestHeight)
			spec.ChainID = cs.ChainId
			if sim.Time(h).After(e.Now) {
				e.Advance(sim.Time(h).Sub(e.Now)+time.Second, 1)
			}
			e.Update(subj, BuildHeader(spec), cs.LatestHeight.RevisionNumber)
		}
	}
	_ = bystander
	e.Do(M{"f": "dump"})
}

// ConsFor is the canonical consensus state at height h for a client of this sim.
func (s *Sim) ConsFor(cs *ibctm.ClientState, h int64) *ibctm.ConsensusState { return s.Cons(h) }

// directedOlderSubstitute replays the witness of C23.ts_mono_all_ops_full_false on the real code:
// a frozen subject whose consensus state is *newer* than the substitute's latest one is recovered, and
// the subject's timestamps are then no longer increasing with height (not a violation of C23, which is
// about header updates; the model must agree on the resulting store).
func directedOlderSubstitute(e *Env, sim *Sim, tp time.Duration) {
	subjCons := sim.Cons(5)
	subjCons.Timestamp = sim.Time(50) // height 5 with a late timestamp
	if sim.Time(50).After(e.Now) {
		e.Advance(sim.Time(50).Sub(e.Now)+time.Second, 1)
	}
	subj, res := e.Create(sim.ClientState(tp, 5), subjCons)
	if res != "ok" {
		return
	}
	a, b := sim.Honest(60, mkH(sim.Rev, 5)), sim.Honest(60, mkH(sim.Rev, 5))
	b.AppHash = AppHashFor("fork", 60)
	e.Advance(sim.Time(60).Sub(e.Now)+time.Second, 1)
	e.Misbehaviour(subj, BuildHeader(a), BuildHeader(b), sim.Rev, sim.Rev)
	subst, _ := e.Create(sim.ClientState(tp, 9), sim.Cons(9)) // height 9 > 5, timestamp sim.Time(9) < sim.Time(50)
	e.Do(M{"f": "recover", "subject": subj, "substitute": subst})
	e.Do(M{"f": "dump"})
}
