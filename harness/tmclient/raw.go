package tmclient

import (
	"strings"

	. "verif/harness/lib"
)

func isRaw(f string) bool { return strings.HasPrefix(f, "raw.") || f == "be.height" || f == "calcTP" || f == "parseChainID" || f == "isExpired" }

// DoRaw: placeholder until the raw-store group exists.
func (e *Env) DoRaw(in M) { e.emit(in, M{"bad": "raw group not built"}) }
