package tmclient

import (
	"sort"
	"strings"
	"time"

	clienttypes "github.com/cosmos/ibc-go/v11/modules/core/02-client/types"
	commitmenttypes "github.com/cosmos/ibc-go/v11/modules/core/23-commitment/types"
	ibctm "github.com/cosmos/ibc-go/v11/modules/light-clients/07-tendermint"

	. "verif/harness/lib"
)

// The raw group (C22) drives the exported store API of 07-tendermint (plus the unexported paired
// write/delete and pruneOldestConsensusState through the verif hooks) on a scratch client store with
// arbitrary (revision, height) values, including ones whose big-endian bytes contain 0x2F or 0xFF.

const rawClient = "07-tendermint-4000000000"

func isRaw(f string) bool {
	return strings.HasPrefix(f, "raw.") || f == "be.height" || f == "calcTP" || f == "parseChainID" || f == "isExpired"
}

type rawState struct {
	cs  *ibctm.ClientState
	now time.Time
}

var rawSt rawState

func csFromJSON(m M) *ibctm.ClientState {
	path := []string{}
	switch p := m["path"].(type) {
	case []string:
		path = p
	case []any:
		for _, x := range p {
			path = append(path, x.(string))
		}
	}
	cs := &ibctm.ClientState{ChainId: fS(m, "chainId"), TrustLevel: ibctm.Fraction{Numerator: fU(m, "tlNum"), Denominator: fU(m, "tlDen")},
		TrustingPeriod: time.Duration(fI(m, "tp")), UnbondingPeriod: time.Duration(fI(m, "ub")), MaxClockDrift: time.Duration(fI(m, "drift")),
		FrozenHeight: parseH(fS(m, "frozen")), LatestHeight: parseH(fS(m, "latest")), UpgradePath: path,
		AllowUpdateAfterExpiry: m["ae"] == true, AllowUpdateAfterMisbehaviour: m["am"] == true}
	if m["specs"] == "sdk" {
		cs.ProofSpecs = commitmenttypes.GetSDKSpecs()
	}
	return cs
}

func consFromJSON(m M) *ibctm.ConsensusState {
	return ibctm.NewConsensusState(time.Unix(0, fI(m, "ts")).UTC(), commitmenttypes.NewMerkleRoot(fB(m, "root")), fB(m, "nvh"))
}

func optCons(c *ibctm.ConsensusState, ok bool) any {
	if !ok {
		return nil
	}
	return consStr(c)
}

func (e *Env) rawFlat() map[string]any {
	out := map[string]any{}
	e.FlatStore("", e.Store(rawClient), out)
	return out
}

// DoRaw evaluates one raw-store request, emits the case and runs the C22 monitors.
func (e *Env) DoRaw(req M) any {
	norm(req)
	f := fS(req, "f")
	e.hist = append(e.hist, req)
	if f == "raw.reset" {
		e.FreshBase()
	}
	ctx := e.base.WithBlockTime(rawSt.now).WithBlockHeight(1)
	store := e.K.ClientStore(ctx, rawClient)
	var out any
	switch f {
	case "raw.reset":
		e.hist = []M{req}
		it := store.Iterator(nil, nil)
		var keys [][]byte
		for ; it.Valid(); it.Next() {
			keys = append(keys, append([]byte{}, it.Key()...))
		}
		it.Close()
		for _, k := range keys {
			store.Delete(k)
		}
		rawSt.cs = csFromJSON(fM(req, "cs"))
		rawSt.now = time.Unix(0, fI(req, "now")).UTC()
		ibctm.VerifSetClientState(store, e.Cdc, rawSt.cs)
		out = M{"r": "ok"}
	case "raw.advance":
		rawSt.now = rawSt.now.Add(time.Duration(fU(req, "dt")))
		out = M{"r": "ok"}
	case "raw.insert", "raw.delete", "raw.pruneOldest", "raw.pruneAll":
		before := e.rawFlat()
		r := Safe(func() any {
			switch f {
			case "raw.insert":
				h := parseH(fS(req, "h"))
				ibctm.VerifSetConsensusState(store, e.Cdc, consFromJSON(fM(req, "cons")), h)
				ibctm.VerifSetConsensusMetadataWithValues(store, h, parseH(fS(req, "ph")), fU(req, "pt"))
				return "ok"
			case "raw.delete":
				h := parseH(fS(req, "h"))
				ibctm.VerifDeleteConsensusState(store, h)
				ibctm.VerifDeleteConsensusMetadata(store, h)
				return "ok"
			case "raw.pruneOldest":
				rawSt.cs.VerifPruneOldestConsensusState(ctx, e.Cdc, store)
				return "ok"
			default:
				return "ok:" + I(int64(ibctm.PruneAllExpiredConsensusStates(ctx, store, e.Cdc, rawSt.cs)))
			}
		})
		rs, ok := r.(string)
		if !ok {
			rs = "panic"
		}
		after := e.rawFlat()
		out = M{"r": rs, "d": Delta(before, after)}
		e.rawMonitors(f, req, rs, before, after)
	case "raw.next":
		c, ok := ibctm.GetNextConsensusState(store, e.Cdc, parseH(fS(req, "h")))
		out = M{"ok": optCons(c, ok)}
		e.neighbourMonitor(req, true, out)
	case "raw.prev":
		c, ok := ibctm.GetPreviousConsensusState(store, e.Cdc, parseH(fS(req, "h")))
		out = M{"ok": optCons(c, ok)}
		e.neighbourMonitor(req, false, out)
	case "raw.get":
		h := parseH(fS(req, "h"))
		c, ok := ibctm.GetConsensusState(store, e.Cdc, h)
		res := M{"c": optCons(c, ok), "pt": nil, "ph": nil, "ik": nil}
		if pt, ok := ibctm.GetProcessedTime(store, h); ok {
			res["pt"] = U(pt)
		}
		if ph, ok := ibctm.GetProcessedHeight(store, h); ok {
			res["ph"] = hs(ph)
		}
		if ik := ibctm.GetIterationKey(store, h); len(ik) > 0 {
			v := string(ik)
			if strings.HasPrefix(v, kCons) {
				res["ik"] = v[len(kCons):]
			} else {
				res["ik"] = "raw:" + Hex(ik)
			}
		}
		out = res
	case "raw.iter":
		out = M{"asc": AscHeights(store)}
	case "raw.dump":
		out = storeJSON(e, store)
	case "be.height":
		out = Ok(Hex(ibctm.VerifBigEndianHeightBytes(parseH(fS(req, "h")))))
	case "calcTP":
		out = Safe(func() any {
			return Ok(I(int64(ibctm.VerifCalculateNewTrustingPeriod(time.Duration(fU(req, "tp")), time.Duration(fU(req, "orig")), time.Duration(fU(req, "new"))))))
		})
	case "parseChainID":
		out = func() (o any) {
			defer func() {
				if recover() != nil {
					o = M{"panic": true}
				}
			}()
			return Ok(U(clienttypes.ParseChainID(fS(req, "s"))))
		}()
	case "isExpired":
		cs := ibctm.ClientState{TrustingPeriod: time.Duration(fI(req, "tp"))}
		out = Ok(cs.IsExpired(time.Unix(0, fI(req, "ts")), time.Unix(0, fI(req, "now"))))
	default:
		out = M{"bad": "unknown function " + f}
	}
	e.emit(req, out)
	return out
}

func sortedHeights(m map[string]string) []hkey {
	ref := make([]hkey, 0, len(m))
	for h := range m {
		k, _ := parseHK(h)
		ref = append(ref, k)
	}
	sort.Slice(ref, func(i, j int) bool { return ref[i].less(ref[j]) })
	return ref
}

// neighbourMonitor: GetNext/GetPrevious must return the consensus state of the true neighbour.
func (e *Env) neighbourMonitor(req M, next bool, out any) {
	flat := e.rawFlat()
	if !metaOK(flat) {
		return // the claim is about consistent stores
	}
	c := consOf(flat, "c")[""]
	x, _ := parseHK(fS(req, "h"))
	var want any
	ref := sortedHeights(c)
	if next {
		for _, k := range ref {
			if x.less(k) {
				want = c[U(k.rev)+"-"+U(k.h)]
				break
			}
		}
	} else {
		for i := len(ref) - 1; i >= 0; i-- {
			if ref[i].less(x) {
				want = c[U(ref[i].rev)+"-"+U(ref[i].h)]
				break
			}
		}
	}
	got := out.(M)["ok"]
	if got != want {
		what := "GetPreviousConsensusState did not return the true previous neighbour"
		if next {
			what = "GetNextConsensusState did not return the true next neighbour"
		}
		e.viol("C22", "neighbour", what, M{"height": fS(req, "h"), "got": got, "want": want})
	}
}

func metaOK(flat map[string]any) bool {
	c, pt, ph, ik := consOf(flat, "c")[""], consOf(flat, "pt")[""], consOf(flat, "ph")[""], consOf(flat, "ik")[""]
	if len(c) != len(pt) || len(c) != len(ph) || len(c) != len(ik) {
		return false
	}
	for _, v := range ik {
		if _, ok := c[v]; !ok {
			return false
		}
	}
	for h := range c {
		if _, ok := pt[h]; !ok {
			return false
		}
		if _, ok := ph[h]; !ok {
			return false
		}
	}
	return true
}

func (e *Env) rawMonitors(f string, req M, r string, before, after map[string]any) {
	// paired write / paired delete / prune keep the metadata consistent and the iteration ordered
	if metaOK(before) {
		e.checkMetaInvRaw(after, f)
	}
	if f == "raw.pruneOldest" && metaOK(before) {
		cb, ca := consOf(before, "c")[""], consOf(after, "c")[""]
		ref := sortedHeights(cb)
		removed := []string{}
		for h := range cb {
			if _, ok := ca[h]; !ok {
				removed = append(removed, h)
			}
		}
		if r == "panic" {
			e.viol("C22", "prune-panic", "pruneOldestConsensusState panicked on a consistent store", nil)
		}
		if len(removed) > 1 {
			e.viol("C22", "prune-many", "pruning during update removed more than one consensus state", M{"removed": removed})
		}
		if len(removed) == 1 {
			k, _ := parseHK(removed[0])
			if k != ref[0] {
				e.viol("C22", "prune-not-oldest", "pruning during update removed a state that is not the oldest", M{"removed": removed[0]})
			}
			if tsOf(cb[removed[0]])+int64(rawSt.cs.TrustingPeriod) > rawSt.now.UnixNano() {
				e.viol("C22", "prune-unexpired", "pruning during update removed a state that had not expired", M{"removed": removed[0], "cons": cb[removed[0]]})
			}
		}
		if len(removed) == 0 && len(ref) > 0 {
			h0 := U(ref[0].rev) + "-" + U(ref[0].h)
			if tsOf(cb[h0])+int64(rawSt.cs.TrustingPeriod) <= rawSt.now.UnixNano() {
				// not claimed by the property text ("removes only …"), but part of the model; reported by the diff
				_ = h0
			}
		}
	}
}

func (e *Env) checkMetaInvRaw(flat map[string]any, op string) {
	c, pt, ph, ik := consOf(flat, "c")[""], consOf(flat, "pt")[""], consOf(flat, "ph")[""], consOf(flat, "ik")[""]
	byHeight := map[string]string{}
	for key, val := range ik {
		hk, ok := parseHK(val)
		if !ok || key != Hex(ibctm.VerifBigEndianHeightBytes(mkH(hk.rev, hk.h))) {
			e.viol("C22", "iterkey-mismatch", "iteration key does not name the height it is stored under", M{"key": key, "value": val, "op": op})
		}
		byHeight[val] = key
	}
	all := map[string]bool{}
	for _, m := range []map[string]string{c, pt, ph, byHeight} {
		for h := range m {
			all[h] = true
		}
	}
	for h := range all {
		_, a := c[h]
		_, b := pt[h]
		_, d := ph[h]
		_, f := byHeight[h]
		if !(a && b && d && f) {
			e.viol("C22", "metainv", "consensus state and its three metadata entries are not all present together", M{"height": h, "cons": a, "processedTime": b, "processedHeight": d, "iterationKey": f, "op": op})
		}
	}
	asc := AscHeights(e.Store(rawClient))
	ref := sortedHeights(c)
	okOrder := len(asc) == len(ref)
	for i := 0; okOrder && i < len(ref); i++ {
		k, _ := parseHK(asc[i])
		okOrder = k == ref[i]
	}
	if !okOrder {
		e.viol("C22", "iteration-order", "ascending iteration does not visit the stored heights in height order", M{"asc": asc, "op": op})
	}
}

// ---- generator ---------------------------------------------------------------------------------

var byteyValues = []uint64{0x2F, 0x2E, 0x30, 0x2F00, 0x2F2F, 0x2F2F2F2F2F2F2F2F, 0x2F00000000000000, 0x002F000000000000,
	0xFF, 0xFE, 0x100, 0xFF00, 0xFFFF, 0xFFFFFFFFFFFFFFFF, 0xFFFFFFFFFFFFFFFE, 0xFF00000000000000, 0x00FF00FF00FF00FF,
	0x2FFF, 0xFF2F, 0x2F2E, 0x2F30, 0, 1, 255, 256, 1 << 63, 1<<63 - 1}

func byteyNum(r *Rng) uint64 {
	switch r.Intn(6) {
	case 0, 1, 2:
		return byteyValues[r.Intn(len(byteyValues))]
	case 3:
		return byteyValues[r.Intn(len(byteyValues))] + uint64(r.Intn(3)) - 1
	case 4:
		return r.Num64()
	default:
		return uint64(r.Intn(12))
	}
}

func byteyHeight(r *Rng) clienttypes.Height { return mkH(byteyNum(r), byteyNum(r)) }

func GenRaw(e *Env, r0 *Rng, n int) {
	sim := NewSim("raw", 1)
	for i := 0; i < n; i++ {
		r := r0.Fork()
		tp := time.Duration(1+r.Intn(1000)) * time.Second
		now := time.Unix(1600000000, int64(r.Intn(1000000000))).UTC()
		cs := sim.ClientState(tp, 5)
		e.DoRaw(M{"f": "raw.reset", "cs": CsJSON(cs), "now": I(now.UnixNano()), "self": "1-1"})
		var pool []clienttypes.Height
		// revisions are few so that heights share a revision often
		revs := []uint64{byteyNum(r), byteyNum(r), byteyNum(r)}
		pick := func() clienttypes.Height {
			if len(pool) > 0 && r.Chance(0.5) {
				h := pool[r.Intn(len(pool))]
				switch r.Intn(4) {
				case 0:
					return h
				case 1:
					return mkH(h.RevisionNumber, h.RevisionHeight+1)
				case 2:
					return mkH(h.RevisionNumber, h.RevisionHeight-1)
				}
				return mkH(h.RevisionNumber+1, 0)
			}
			if r.Chance(0.7) {
				return mkH(revs[r.Intn(len(revs))], byteyNum(r))
			}
			return byteyHeight(r)
		}
		nops := 10 + r.Intn(40)
		for k := 0; k < nops; k++ {
			switch c := r.Intn(100); {
			case c < 40:
				h := pick()
				pool = append(pool, h)
				// timestamps around now - tp so that expiry varies; optionally ordered like heights
				ts := now.Add(-tp).Add(time.Duration(r.Intn(2000)-1000) * time.Second / 10)
				cons := ibctm.NewConsensusState(ts, commitmenttypes.NewMerkleRoot(AppHashFor("raw", int64(r.Intn(5)))), sim.Vals.Hash())
				e.DoRaw(M{"f": "raw.insert", "h": hs(h), "cons": ConsJSON(cons), "ph": hs(byteyHeight(r)), "pt": U(r.Num64())})
			case c < 48:
				e.DoRaw(M{"f": "raw.delete", "h": hs(pick())})
			case c < 60:
				e.DoRaw(M{"f": "raw.pruneOldest"})
			case c < 64:
				e.DoRaw(M{"f": "raw.pruneAll"})
			case c < 76:
				e.DoRaw(M{"f": "raw.next", "h": hs(pick())})
			case c < 88:
				e.DoRaw(M{"f": "raw.prev", "h": hs(pick())})
			case c < 92:
				e.DoRaw(M{"f": "raw.get", "h": hs(pick())})
			case c < 96:
				e.DoRaw(M{"f": "raw.iter"})
			default:
				e.DoRaw(M{"f": "raw.advance", "dt": U(uint64(time.Duration(r.Intn(200)) * time.Second))})
			}
		}
		e.DoRaw(M{"f": "raw.dump"})
		// stateless functions
		e.DoRaw(M{"f": "be.height", "h": hs(byteyHeight(r))})
		tpv, orig := uint64(1+r.Num64()%(1<<62)), uint64(1+r.Num64()%(1<<62))
		nw := uint64(1 + r.Num64()%orig)
		if r.Chance(0.5) {
			tpv, orig = uint64(1+r.Intn(2000000))*1000000000, uint64(1+r.Intn(3000000))*1000000000
			nw = uint64(1+r.Intn(int(orig/1000000000))) * 1000000000 // the code calls this only when the unbonding period shrinks
		}
		e.DoRaw(M{"f": "calcTP", "tp": U(tpv), "orig": U(orig), "new": U(nw)})
		e.DoRaw(M{"f": "parseChainID", "s": chainIDString(r)})
		tsv := int64(r.Intn(1 << 40))
		tpp := int64(r.Intn(1 << 30))
		e.DoRaw(M{"f": "isExpired", "tp": I(tpp), "ts": I(tsv), "now": I(tsv + tpp + int64(r.Intn(3)) - 1)})
	}
}

func chainIDString(r *Rng) string {
	switch r.Intn(12) {
	case 0:
		return "chain-" + U(r.Num64())
	case 1:
		return "chain-0" + U(uint64(r.Intn(100)))
	case 2:
		return "chain--" + U(uint64(1+r.Intn(100)))
	case 3:
		return "-" + U(uint64(1+r.Intn(100)))
	case 4:
		return "a\nb-" + U(uint64(1+r.Intn(100)))
	case 5:
		return "ab\n-" + U(uint64(1+r.Intn(100)))
	case 6:
		return "chain-1-" + U(uint64(r.Intn(30)))
	case 7:
		return Pick(r, []string{"", "-", "chain", "chain-", "chain-1a", "chain-+1", "c-1", "chain-18446744073709551615", "chain-18446744073709551616", "chain-99999999999999999999999", "chain- 1", "chain-1 "})
	case 8:
		return r.Str("ab-019\n", r.Intn(8))
	default:
		return "sim-" + r.Str("abc-", r.Intn(4)) + "-" + U(uint64(1+r.Intn(999)))
	}
}
