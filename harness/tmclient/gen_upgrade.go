package tmclient

import (
	"fmt"
	"time"

	upgradetypes "github.com/cosmos/cosmos-sdk/x/upgrade/types"

	clienttypes "github.com/cosmos/ibc-go/v11/modules/core/02-client/types"
	commitmenttypes "github.com/cosmos/ibc-go/v11/modules/core/23-commitment/types"
	"github.com/cosmos/ibc-go/v11/modules/core/exported"
	ibctm "github.com/cosmos/ibc-go/v11/modules/light-clients/07-tendermint"
	ibctesting "github.com/cosmos/ibc-go/v11/testing"

	. "verif/harness/lib"
)

// The `upgrade` group (C25, C21): a real client of the real chain B; B commits an upgraded client and
// consensus state under its upgrade path; UpgradeClient is called with honest and mutated
// (client bytes, consensus bytes, proofs, heights, paths, unbonding periods, status) arguments.
// Ground truth for the two ICS-23 verdicts: 23-commitment's VerifyMembership evaluated by the harness
// on the root of the client's latest consensus state, at the path built from the CLIENT's upgrade path
// and latest height, for the bytes the specification says are committed (ZeroCustomFields of the
// upgraded client; the upgraded consensus state as given).

func upgradePathFor(path []string, lastHeight uint64, leaf string) [][]byte {
	var out [][]byte
	for i, p := range path {
		if i == len(path)-1 {
			p = fmt.Sprintf("%s/%d/%s", p, lastHeight, leaf)
		}
		out = append(out, []byte(p))
	}
	return out
}

func (e *Env) oracleUpgradeProof(cs *ibctm.ClientState, cid string, proof []byte, leaf string, value []byte) (parse, ok bool) {
	var mp commitmenttypes.MerkleProof
	if err := e.Cdc.Unmarshal(proof, &mp); err != nil {
		return false, false
	}
	if len(cs.UpgradePath) == 0 {
		return true, false
	}
	cons, found := ibctm.GetConsensusState(e.Store(cid), e.Cdc, cs.LatestHeight)
	if !found {
		return true, false
	}
	path := commitmenttypes.NewMerklePath(upgradePathFor(cs.UpgradePath, cs.LatestHeight.RevisionHeight, leaf)...)
	return true, mp.VerifyMembership(cs.ProofSpecs, cons.GetRoot(), path, value) == nil
}

// Upgrade builds and evaluates one upgrade request.
func (e *Env) Upgrade(cid string, upClient *ibctm.ClientState, upCons *ibctm.ConsensusState, clientBz, consBz, proofClient, proofCons []byte) string {
	cs := e.clientState(cid)
	req := M{"f": "upgrade", "cid": cid, "rawClient": Hex(clientBz), "rawCons": Hex(consBz), "rawProofClient": Hex(proofClient), "rawProofCons": Hex(proofCons)}
	u := M{"clientBzOK": true, "consBzOK": true, "pcParse": true, "psParse": true, "pcOK": false, "psOK": false}
	var c2 ibctm.ClientState
	if err := e.Cdc.Unmarshal(clientBz, &c2); err != nil {
		u["clientBzOK"] = false
		c2 = *upClient
	}
	var k2 ibctm.ConsensusState
	if err := e.Cdc.Unmarshal(consBz, &k2); err != nil {
		u["consBzOK"] = false
		k2 = *upCons
	}
	u["client"] = CsJSON(&c2)
	u["cons"] = ConsJSON(&k2)
	if cs != nil {
		zeroed, err := e.Cdc.MarshalInterface(c2.ZeroCustomFields())
		if err == nil {
			u["pcParse"], u["pcOK"] = e.oracleUpgradeProof(cs, cid, proofClient, upgradetypes.KeyUpgradedClient, zeroed)
		}
		consAny, err := e.Cdc.MarshalInterface(&k2)
		if err == nil {
			u["psParse"], u["psOK"] = e.oracleUpgradeProof(cs, cid, proofCons, upgradetypes.KeyUpgradedConsState, consAny)
		}
	}
	req["u"] = u
	return e.Do(req)
}

func GenUpgrade(e *Env, r0 *Rng, n int) {
	for i := 0; i < n; i++ {
		genUpgradeHistory(e, r0.Fork(), i)
	}
}

func genUpgradeHistory(e *Env, r *Rng, idx int) {
	b := e.B
	brev := clienttypes.ParseChainID(b.ChainID)
	e.Coord.CommitBlock(b)
	hdr0 := b.LatestCommittedHeader
	e.Reset(hdr0.Header.Time.Add(time.Second), int64(5+r.Intn(50)))
	tp := Pick(r, []time.Duration{1000 * time.Second, 14 * 24 * time.Hour})
	ub := tp * 3 / 2
	path := ibctesting.UpgradePath
	switch r.Intn(24) {
	case 0:
		path = []string{}
	case 1:
		path = []string{"upgrade", "elsewhere"}
	}
	cs0 := ibctm.NewClientState(b.ChainID, ibctm.DefaultTrustLevel, tp, ub, 10*time.Second,
		clienttypes.NewHeight(brev, uint64(hdr0.Header.Height)), commitmenttypes.GetSDKSpecs(), path)
	if r.Chance(0.2) {
		cs0.TrustLevel = ibctm.Fraction{Numerator: 2, Denominator: 3}
		cs0.MaxClockDrift = 25 * time.Second
	}
	cid, res := e.Create(cs0, hdr0.ConsensusState())
	if res != "ok" {
		return
	}
	bystander, _ := e.Create(cs0, hdr0.ConsensusState())
	_ = bystander

	// the upgraded client / consensus state that chain B commits to
	mysim := NewSim("upg", brev+1)
	newUb := ub
	switch r.Intn(7) {
	case 0:
		newUb = ub + tp
	case 1:
		newUb = ub * 2 / 3
	case 2:
		newUb = ub - time.Duration(1+r.Intn(1000))
	case 3:
		newUb = time.Duration(1 + r.Intn(3)) // tiny: the scaled trusting period becomes 0 => invalid
	}
	newChain := mysim.ChainID
	newRev := mysim.Rev
	newH := uint64(hdr0.Header.Height) + 10
	// the height the client will be at when the upgrade is attempted (B's next block + 1)
	expectLatest := uint64(b.GetContext().BlockHeight() + 1)
	switch r.Intn(20) {
	case 4: // same revision, exactly the client's latest height at upgrade time
		newChain, newRev, newH = b.ChainID, brev, expectLatest
	case 5: // same revision, one above / one below it
		newChain, newRev, newH = b.ChainID, brev, expectLatest+uint64(2*r.Intn(2))-1
	case 0: // same revision, greater height
		newChain, newRev = b.ChainID, brev
	case 1: // revision in the id does not match the height's revision
		newRev = brev + 5
	case 2: // height not above the current one (revision equal)
		newChain, newRev, newH = b.ChainID, brev, uint64(hdr0.Header.Height)
	case 3:
		newChain, newRev, newH = b.ChainID, brev, 1
	}
	upClient := ibctm.NewClientState(newChain, ibctm.Fraction{Numerator: 9, Denominator: 10}, tp*7, newUb, 77*time.Second,
		clienttypes.NewHeight(newRev, newH), commitmenttypes.GetSDKSpecs(), []string{"upgrade", "upgradedIBCState"})
	if r.Chance(0.08) {
		upClient.ProofSpecs = nil
	}
	committed := upClient.ZeroCustomFields()
	upCons := &ibctm.ConsensusState{Timestamp: hdr0.Header.Time.Add(3 * time.Second).UTC(), NextValidatorsHash: mysim.Vals.Hash()}
	committedBz, err := clienttypes.MarshalClientState(e.Cdc, committed)
	if err != nil {
		panic(err)
	}
	consAnyBz, err := clienttypes.MarshalConsensusState(e.Cdc, upCons)
	if err != nil {
		panic(err)
	}
	// upgrade height on B is its next block
	planH := b.GetContext().BlockHeight() + 1
	_ = b.GetSimApp().UpgradeKeeper.SetUpgradedClient(b.GetContext(), planH, committedBz)
	_ = b.GetSimApp().UpgradeKeeper.SetUpgradedConsensusState(b.GetContext(), planH, consAnyBz)
	e.Coord.CommitBlock(b)
	// a second commit: the header of height N+1 carries the app hash after block N
	e.Coord.CommitBlock(b)

	// update the client to B's latest header
	lh := b.LatestCommittedHeader
	trusted := e.clientState(cid).LatestHeight
	h := &ibctm.Header{SignedHeader: lh.SignedHeader, ValidatorSet: lh.ValidatorSet}
	if _, err := b.IBCClientHeader(h, trusted); err != nil {
		return
	}
	if lh.Header.Time.After(e.Now) {
		e.Advance(lh.Header.Time.Sub(e.Now)+time.Second, 1)
	}
	if e.Update(cid, h, brev) != "updated" {
		e.Do(M{"f": "dump"})
		return
	}
	cs := e.clientState(cid)
	// B stored the upgraded client under plan height N+1 while building block N; the client is now at N+1, whose
	// consensus state carries the app hash after block N: the keys it derives from its latest height are provable
	lastH := int64(cs.LatestHeight.RevisionHeight)
	if r.Chance(0.1) {
		// one more block and update: the client's latest height moves past the plan height, the derived keys do not exist
		e.Coord.CommitBlock(b)
		lh = b.LatestCommittedHeader
		h = &ibctm.Header{SignedHeader: lh.SignedHeader, ValidatorSet: lh.ValidatorSet}
		if _, err := b.IBCClientHeader(h, cs.LatestHeight); err == nil {
			if lh.Header.Time.After(e.Now) {
				e.Advance(lh.Header.Time.Sub(e.Now)+time.Second, 1)
			}
			e.Update(cid, h, brev)
		}
		cs = e.clientState(cid)
	}

	// proofs for the keys derived from the client's latest height, valid against the root stored at that height
	proofClient, _ := b.QueryUpgradeProof(upgradetypes.UpgradedClientKey(lastH), uint64(lastH))
	proofCons, _ := b.QueryUpgradeProof(upgradetypes.UpgradedConsStateKey(lastH), uint64(lastH))

	// a consumer with a REAL proof: the committed upgraded client is a member of B's upgrade store at the client's
	// latest height; it verifies while the client is Active and must stop verifying once it is not
	realVM := func() {
		cur := e.clientState(cid)
		if cur == nil {
			return
		}
		pr, _ := b.QueryUpgradeProof(upgradetypes.UpgradedClientKey(lastH), uint64(lastH))
		var mp commitmenttypes.MerkleProof
		ok := false
		if err := e.Cdc.Unmarshal(pr, &mp); err == nil {
			if cons, found := ibctm.GetConsensusState(e.Store(cid), e.Cdc, mkH(brev, uint64(lastH))); found {
				path := commitmenttypes.NewMerklePath([]byte("upgrade"), upgradetypes.UpgradedClientKey(lastH))
				ok = mp.VerifyMembership(cur.ProofSpecs, cons.GetRoot(), path, committedBz) == nil
			}
		}
		e.Do(M{"f": "vm", "cid": cid, "height": hs(mkH(brev, uint64(lastH))), "delayT": "0", "delayB": "0", "rawProof": Hex(pr),
			"store": "upgrade", "key": string(upgradetypes.UpgradedClientKey(lastH)), "value": Hex(committedBz), "proofParse": true, "proofOK": ok})
	}
	realVM()

	clientBz, _ := upClient.Marshal() // the relayer passes the upgraded client with its own custom fields
	consBz, _ := upCons.Marshal()

	// status variations before the upgrade
	switch r.Intn(24) {
	case 0:
		e.makeStatus(r, &Sim{ChainID: b.ChainID, Rev: brev, Vals: mysim.Vals, Other: mysim.Other, T0: mysim.T0, Step: mysim.Step, Tag: "x"}, cid, 2)
	case 1:
		// freeze through a misbehaviour signed by B's validators is not available (keys are the chain's); expire instead
		e.makeStatus(r, mysim, cid, 2)
	}
	realVM()
	// mutations of the request
	switch r.Intn(28) {
	case 0:
		proofClient, proofCons = proofCons, proofClient
	case 1:
		proofClient = []byte{0xff, 0x01}
	case 2:
		proofCons = []byte{}
	case 3: // proof taken at an earlier height: does not verify against the latest root
		proofClient, _ = b.QueryUpgradeProof(upgradetypes.UpgradedClientKey(lastH), uint64(lastH-1))
	case 4: // the relayer lies about a chain-chosen field
		m := *upClient
		m.UnbondingPeriod += time.Second
		clientBz, _ = m.Marshal()
	case 5:
		m := *upClient
		m.ChainId = "liar-" + U(newRev)
		clientBz, _ = m.Marshal()
	case 6:
		m := *upCons
		m.NextValidatorsHash = mysim.Other.Hash()
		consBz, _ = m.Marshal()
	case 7:
		m := *upCons
		m.Timestamp = m.Timestamp.Add(time.Nanosecond)
		consBz, _ = m.Marshal()
	case 8: // relayer-chosen custom fields differ: must be ignored
		m := *upClient
		m.TrustLevel = ibctm.Fraction{Numerator: 1, Denominator: 2}
		m.TrustingPeriod = 5 * time.Second
		m.MaxClockDrift = time.Hour
		m.FrozenHeight = clienttypes.NewHeight(0, 1)
		clientBz, _ = m.Marshal()
	case 9:
		clientBz = []byte{0xff, 0xff, 0xff}
	case 10:
		consBz = []byte{0x0a, 0xff}
	}
	res = e.Upgrade(cid, upClient, upCons, clientBz, consBz, proofClient, proofCons)
	if res == "ok" {
		// life after the upgrade: the first header of the new chain, verified against the upgraded consensus state
		ncs := e.clientState(cid)
		nh := int64(ncs.LatestHeight.RevisionHeight) + int64(1+r.Intn(3))
		spec := HdrSpec{ChainID: ncs.ChainId, Height: nh, Time: upCons.Timestamp.Add(time.Duration(1+r.Intn(5)) * time.Second), AppHash: AppHashFor("new", nh),
			Vals: mysim.Vals, NextVals: mysim.Vals, Trusted: ncs.LatestHeight, TrustedVals: mysim.Vals.Set}
		if spec.Time.After(e.Now) {
			e.Advance(spec.Time.Sub(e.Now)+time.Second, 1)
		}
		e.Update(cid, BuildHeader(spec), ncs.LatestHeight.RevisionNumber)
		// a second upgrade attempt with stale proofs must fail
		e.Upgrade(cid, upClient, upCons, clientBz, consBz, proofClient, proofCons)
	}
	e.Membership(cid, false, e.clientState(cid).LatestHeight, 0, 0)
	e.Do(M{"f": "dump"})
}

var _ = exported.Tendermint
