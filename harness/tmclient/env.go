// Package tmclient: correspondence harness for the 07-tendermint light client and the 02-client
// keeper paths that drive it (properties C20-C25). A real 07-tendermint client lives on an
// ibctesting chain A; headers of the tracked chain are fabricated and honestly signed by validator
// keys the harness owns, so every adversarial input has a ground truth the harness knows.
package tmclient

import (
	"bytes"
	"crypto/sha256"
	"encoding/hex"
	"errors"
	"fmt"
	"sort"
	"strings"
	"testing"
	"time"

	storetypes "github.com/cosmos/cosmos-sdk/store/v2/types"
	sdk "github.com/cosmos/cosmos-sdk/types"

	clientkeeper "github.com/cosmos/ibc-go/v11/modules/core/02-client/keeper"
	clienttypes "github.com/cosmos/ibc-go/v11/modules/core/02-client/types"
	commitmenttypes "github.com/cosmos/ibc-go/v11/modules/core/23-commitment/types"
	ibcerrors "github.com/cosmos/ibc-go/v11/modules/core/errors"
	"github.com/cosmos/ibc-go/v11/modules/core/exported"
	ibctm "github.com/cosmos/ibc-go/v11/modules/light-clients/07-tendermint"
	ibctesting "github.com/cosmos/ibc-go/v11/testing"

	"github.com/cosmos/cosmos-sdk/codec"

	. "verif/harness/lib"
)

// Env is one process-wide pair of ibctesting chains; chain A hosts the clients under test.
type Env struct {
	Coord *ibctesting.Coordinator
	A, B  *ibctesting.TestChain
	root  sdk.Context // context over chain A's working state
	base  sdk.Context // per-history cache context over root (discarded at the next reset, so the store stays small)
	K     *clientkeeper.Keeper
	Cdc   codec.BinaryCodec
	SelfRev uint64

	// per-history state
	Now     time.Time
	SelfH   int64
	Clients []string // clients created in this history
	emit    func(M, any)
	report  func(any)
	hist    []M // requests of the current history (for violation reports)
}

func NewEnv() *Env {
	t := &testing.T{}
	coord := ibctesting.NewCoordinator(t, 2)
	a := coord.GetChain(ibctesting.GetChainID(1))
	b := coord.GetChain(ibctesting.GetChainID(2))
	e := &Env{Coord: coord, A: a, B: b}
	e.root = a.GetContext()
	e.base = e.root
	e.K = a.App.GetIBCKeeper().ClientKeeper
	e.Cdc = a.App.AppCodec()
	e.SelfRev = clienttypes.ParseChainID(a.ChainID)
	return e
}

// FreshBase starts a new history on a pristine copy-on-write view of chain A's state.
func (e *Env) FreshBase() {
	e.base, _ = e.root.CacheContext()
}

// Ctx returns a context at the harness-controlled block time and height, with a fresh event manager.
func (e *Env) Ctx() sdk.Context {
	return e.base.WithBlockTime(e.Now).WithBlockHeight(e.SelfH).WithEventManager(sdk.NewEventManager())
}

func (e *Env) Store(cid string) storetypes.KVStore { return e.K.ClientStore(e.Ctx(), cid) }

func hs(h exported.Height) string {
	return U(h.GetRevisionNumber()) + "-" + U(h.GetRevisionHeight())
}

func mkH(rev, h uint64) clienttypes.Height { return clienttypes.NewHeight(rev, h) }

func parseH(s string) clienttypes.Height {
	h, err := clienttypes.ParseHeight(s)
	if err != nil {
		panic("harness: bad height " + s)
	}
	return h
}

// Classify maps an error to the stable class names used by the model.
func Classify(err error) string {
	if err == nil {
		return "ok"
	}
	table := []struct {
		e error
		c string
	}{
		{clienttypes.ErrClientNotActive, "client-not-active"},
		{clienttypes.ErrInvalidRecoveryClient, "invalid-recovery-client"},
		{clienttypes.ErrInvalidSubstitute, "invalid-substitute"},
		{clienttypes.ErrUpdateClientFailed, "update-client-failed"},
		{clienttypes.ErrInvalidUpgradeClient, "invalid-upgrade-client"},
		{clienttypes.ErrConsensusStateNotFound, "consensus-state-not-found"},
		{clienttypes.ErrClientNotFound, "client-not-found"},
		{ibctm.ErrInvalidValidatorSet, "invalid-validator-set"},
		{ibctm.ErrInvalidHeaderHeight, "invalid-header-height"},
		{ibctm.ErrTrustingPeriodExpired, "trusting-period-expired"},
		{clienttypes.ErrInvalidMisbehaviour, "invalid-misbehaviour"},
		{clienttypes.ErrInvalidHeader, "invalid-header"},
		{clienttypes.ErrInvalidHeight, "invalid-height"},
		{ibcerrors.ErrInvalidHeight, "invalid-height"},
		{ibctm.ErrInvalidChainID, "invalid-chain-id"},
		{ibctm.ErrInvalidTrustLevel, "invalid-trust-level"},
		{ibctm.ErrInvalidTrustingPeriod, "invalid-trusting-period"},
		{ibctm.ErrInvalidUnbondingPeriod, "invalid-unbonding-period"},
		{ibctm.ErrInvalidMaxClockDrift, "invalid-max-clock-drift"},
		{ibctm.ErrInvalidProofSpecs, "invalid-proof-specs"},
		{ibctm.ErrProcessedTimeNotFound, "processed-time-not-found"},
		{ibctm.ErrProcessedHeightNotFound, "processed-height-not-found"},
		{ibctm.ErrDelayPeriodNotPassed, "delay-period-not-passed"},
		{commitmenttypes.ErrInvalidProof, "proof"},
		{commitmenttypes.ErrInvalidMerkleProof, "proof"},
		{clienttypes.ErrInvalidClient, "invalid-client"},
		{clienttypes.ErrInvalidConsensus, "invalid-consensus"},
		{clienttypes.ErrInvalidClientType, "invalid-client-type"},
	}
	for _, t := range table {
		if errors.Is(err, t.e) {
			return "err:" + t.c
		}
	}
	return "err:lib"
}

// ---- canonical rendering of client / consensus states -------------------------------------

func specsStr(cs *ibctm.ClientState) any {
	if len(cs.ProofSpecs) == 0 {
		return nil
	}
	if len(cs.ProofSpecs) == len(commitmenttypes.GetSDKSpecs()) {
		same := true
		for i, s := range commitmenttypes.GetSDKSpecs() {
			if cs.ProofSpecs[i] == nil || s.String() != cs.ProofSpecs[i].String() {
				same = false
			}
		}
		if same {
			return "sdk"
		}
	}
	h := sha256.New()
	for _, s := range cs.ProofSpecs {
		if s == nil {
			h.Write([]byte{0})
			continue
		}
		bz, _ := s.Marshal()
		h.Write([]byte{1})
		h.Write(bz)
	}
	return hex.EncodeToString(h.Sum(nil)[:8])
}

func CsJSON(cs *ibctm.ClientState) M {
	path := []string{}
	path = append(path, cs.UpgradePath...)
	return M{"chainId": cs.ChainId, "tlNum": U(cs.TrustLevel.Numerator), "tlDen": U(cs.TrustLevel.Denominator),
		"tp": I(int64(cs.TrustingPeriod)), "ub": I(int64(cs.UnbondingPeriod)), "drift": I(int64(cs.MaxClockDrift)),
		"frozen": hs(cs.FrozenHeight), "latest": hs(cs.LatestHeight), "specs": specsStr(cs), "path": path,
		"ae": cs.AllowUpdateAfterExpiry, "am": cs.AllowUpdateAfterMisbehaviour}
}

func ConsJSON(c *ibctm.ConsensusState) M {
	return M{"ts": I(c.Timestamp.UnixNano()), "root": Hex(c.Root.Hash), "nvh": Hex(c.NextValidatorsHash)}
}

func consStr(c *ibctm.ConsensusState) string {
	return I(c.Timestamp.UnixNano()) + "|" + Hex(c.Root.Hash) + "|" + Hex(c.NextValidatorsHash)
}

// ---- store dump -----------------------------------------------------------------------------

const (
	kCons = "consensusStates/"
	kIter = ibctm.KeyIterateConsensusStatePrefix
)

// FlatStore renders every key of one client store in the canonical typed form the model uses.
// Anything that does not parse is rendered raw, which can never match the model.
func (e *Env) FlatStore(cid string, store storetypes.KVStore, out map[string]any) {
	it := store.Iterator(nil, nil)
	defer it.Close()
	for ; it.Valid(); it.Next() {
		k, v := it.Key(), it.Value()
		ks := string(k)
		switch {
		case ks == "clientState":
			var csI exported.ClientState
			if err := e.Cdc.UnmarshalInterface(v, &csI); err == nil {
				if cs, ok := csI.(*ibctm.ClientState); ok {
					out[cid+"|cs"] = CsJSON(cs)
					continue
				}
			}
			out[cid+"|raw:"+Hex(k)] = Hex(v)
		case ks == "creator":
			// written by the msg server only; not part of the light client's state
		case strings.HasPrefix(ks, kCons):
			rest := ks[len(kCons):]
			kind := "c"
			if strings.HasSuffix(rest, string(ibctm.KeyProcessedTime)) {
				kind, rest = "pt", strings.TrimSuffix(rest, string(ibctm.KeyProcessedTime))
			} else if strings.HasSuffix(rest, string(ibctm.KeyProcessedHeight)) {
				kind, rest = "ph", strings.TrimSuffix(rest, string(ibctm.KeyProcessedHeight))
			}
			h, err := clienttypes.ParseHeight(rest)
			if err != nil || h.String() != rest {
				out[cid+"|raw:"+Hex(k)] = Hex(v)
				continue
			}
			switch kind {
			case "c":
				var cI exported.ConsensusState
				if err := e.Cdc.UnmarshalInterface(v, &cI); err == nil {
					if c, ok := cI.(*ibctm.ConsensusState); ok {
						out[cid+"|c|"+rest] = consStr(c)
						continue
					}
				}
				out[cid+"|raw:"+Hex(k)] = Hex(v)
			case "pt":
				if len(v) == 8 {
					out[cid+"|pt|"+rest] = U(sdk.BigEndianToUint64(v))
				} else {
					out[cid+"|raw:"+Hex(k)] = Hex(v)
				}
			case "ph":
				ph, err := clienttypes.ParseHeight(string(v))
				if err != nil || ph.String() != string(v) {
					out[cid+"|raw:"+Hex(k)] = Hex(v)
				} else {
					out[cid+"|ph|"+rest] = string(v)
				}
			}
		case strings.HasPrefix(ks, kIter) && len(k) == len(kIter)+16:
			vs := string(v)
			if strings.HasPrefix(vs, kCons) {
				if h, err := clienttypes.ParseHeight(vs[len(kCons):]); err == nil && h.String() == vs[len(kCons):] {
					out[cid+"|ik|"+Hex(k[len(kIter):])] = h.String()
					continue
				}
			}
			out[cid+"|raw:"+Hex(k)] = Hex(v)
		default:
			out[cid+"|raw:"+Hex(k)] = Hex(v)
		}
	}
}

func (e *Env) FlatWorld() map[string]any {
	out := map[string]any{}
	for _, cid := range e.Clients {
		e.FlatStore(cid, e.Store(cid), out)
	}
	return out
}

func canon(v any) string {
	switch x := v.(type) {
	case string:
		return "s:" + x
	case M:
		ks := SortedKeys(x)
		var b strings.Builder
		for _, k := range ks {
			fmt.Fprintf(&b, "%s=%v;", k, x[k])
		}
		return "m:" + b.String()
	}
	return fmt.Sprint(v)
}

// Delta lists the changed keys ([key, value] or [key, null]) sorted by key.
func Delta(before, after map[string]any) []any {
	keys := map[string]bool{}
	for k := range before {
		keys[k] = true
	}
	for k := range after {
		keys[k] = true
	}
	ks := make([]string, 0, len(keys))
	for k := range keys {
		ks = append(ks, k)
	}
	sort.Strings(ks)
	out := []any{}
	for _, k := range ks {
		b, inB := before[k]
		a, inA := after[k]
		switch {
		case inB && !inA:
			out = append(out, []any{k, nil})
		case !inB && inA:
			out = append(out, []any{k, a})
		case canon(a) != canon(b):
			out = append(out, []any{k, a})
		}
	}
	return out
}

// live lists the clients of this history that exist (a client state is stored), sorted.
func (e *Env) live() []string {
	var cids []string
	for _, cid := range e.Clients {
		if e.Store(cid).Has([]byte("clientState")) {
			cids = append(cids, cid)
		}
	}
	sort.Strings(cids)
	return cids
}

func (e *Env) Statuses() []any {
	cids := e.live()
	out := []any{}
	for _, cid := range cids {
		ctx := e.Ctx()
		out = append(out, []any{cid, e.K.GetClientStatus(ctx, cid).String(), hs(e.K.GetClientLatestHeight(ctx, cid))})
	}
	return out
}

// AscHeights is the order in which IterateConsensusStateAscending visits the heights.
func AscHeights(store storetypes.KVStore) []string {
	out := []string{}
	ibctm.IterateConsensusStateAscending(store, func(h exported.Height) bool {
		out = append(out, hs(h))
		return false
	})
	return out
}

func storeJSON(e *Env, store storetypes.KVStore) M {
	flat := map[string]any{}
	e.FlatStore("", store, flat)
	ks := make([]string, 0, len(flat))
	for k := range flat {
		ks = append(ks, k)
	}
	sort.Strings(ks)
	kv := []any{}
	for _, k := range ks {
		kv = append(kv, []any{k, flat[k]})
	}
	return M{"kv": kv, "asc": AscHeights(store)}
}

func (e *Env) DumpJSON() M {
	cids := e.live()
	out := []any{}
	for _, cid := range cids {
		out = append(out, []any{cid, storeJSON(e, e.Store(cid))})
	}
	return M{"clients": out}
}

// wholeIBCStore snapshots every key of the ibc module store (for the confinement monitor).
func (e *Env) wholeIBCStore() map[string]string {
	key := e.A.GetSimApp().GetKey(exported.StoreKey)
	st := e.Ctx().KVStore(key)
	it := st.Iterator(nil, nil)
	defer it.Close()
	out := map[string]string{}
	for ; it.Valid(); it.Next() {
		out[string(it.Key())] = string(it.Value())
	}
	return out
}

func hasEvent(ctx sdk.Context, typ string) bool {
	for _, ev := range ctx.EventManager().Events() {
		if ev.Type == typ {
			return true
		}
	}
	return false
}

var _ = bytes.Equal
