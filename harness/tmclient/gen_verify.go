package tmclient

import (
	"time"

	cmttypes "github.com/cometbft/cometbft/types"

	clienttypes "github.com/cosmos/ibc-go/v11/modules/core/02-client/types"
	commitmenttypes "github.com/cosmos/ibc-go/v11/modules/core/23-commitment/types"
	ibctm "github.com/cosmos/ibc-go/v11/modules/light-clients/07-tendermint"

	. "verif/harness/lib"
)

// The `verify` group (C24): headers and misbehaviour derived from honestly signed ones by mutating one
// thing at a time — signer subsets with unequal voting powers just below / at / above 1/3 and 2/3,
// validator-set changes between the trusted and the new header, swapped or altered trusted validator
// sets, trusted heights (unknown, equal, above), revisions, times around trusting period and clock drift.
// The verdict of CometBFT (light.Verify / VerifyCommitLightTrusting) is computed by the harness.

func subsetOf(vs *ValSet, idx ...int) *ValSet {
	out := &ValSet{Keys: vs.Keys}
	var vals []*cmttypes.Validator
	for _, i := range idx {
		v := vs.Set.Validators[i]
		vals = append(vals, cmttypes.NewValidator(v.PubKey, v.VotingPower))
	}
	out.Set = cmttypes.NewValidatorSet(vals)
	return out
}

func GenVerify(e *Env, r0 *Rng, n int) {
	for i := 0; i < n; i++ {
		genVerifyHistory(e, r0.Fork(), i)
	}
}

func genVerifyHistory(e *Env, r *Rng, idx int) {
	rev := uint64(1 + r.Intn(3))
	chain := "simchain-" + U(rev)
	// V1: the validator set trusted at the client's height (its NextValidators); V2: a changed set
	powers := Pick(r, [][]int64{{5, 4, 3, 2, 1}, {1, 1, 1, 1}, {10, 1, 1}, {3, 3, 3}, {7, 5, 2, 1}, {1}, {2, 1}})
	v1 := MakeValSet("ver/v1", powers)
	// V2 keeps some validators of V1 (same keys, so they are found by address) and adds strangers
	all := MakeValSet("ver/v1", append(append([]int64{}, powers...), 4, 2))
	var keep []int
	for i := range all.Set.Validators {
		if r.Chance(0.7) {
			keep = append(keep, i)
		}
	}
	if len(keep) == 0 {
		keep = []int{0}
	}
	v2 := subsetOf(all, keep...)
	for k, sk := range all.Keys {
		v1.Keys[k] = sk
	}
	v2.Keys = v1.Keys
	t0 := time.Unix(1577836800, 0).UTC()
	step := 5 * time.Second
	tp := Pick(r, []time.Duration{100 * time.Second, 1000 * time.Second})
	tl := Pick(r, []ibctm.Fraction{{Numerator: 1, Denominator: 3}, {Numerator: 1, Denominator: 2}, {Numerator: 2, Denominator: 3}, {Numerator: 1, Denominator: 1}})
	h0 := int64(10)
	tAt := func(h int64) time.Time { return t0.Add(time.Duration(h) * step) }
	e.Reset(tAt(h0).Add(2*time.Second), int64(5+r.Intn(50)))
	cs := ibctm.NewClientState(chain, tl, tp, tp*3/2, 10*time.Second, clienttypes.NewHeight(rev, uint64(h0)), commitmenttypes.GetSDKSpecs(), []string{"upgrade", "upgradedIBCState"})
	cons := ibctm.NewConsensusState(tAt(h0), commitmenttypes.NewMerkleRoot(AppHashFor("ver", h0)), v1.Hash())
	cid, res := e.Create(cs, cons)
	if res != "ok" {
		return
	}
	trusted := clienttypes.NewHeight(rev, uint64(h0))
	randSubset := func(n int) map[int]bool {
		m := map[int]bool{}
		for i := 0; i < n; i++ {
			if r.Chance(0.4) {
				m[i] = true
			}
		}
		return m
	}
	for k := 0; k < 6+r.Intn(10); k++ {
		if e.K.GetClientStatus(e.Ctx(), cid).String() != "Active" {
			break
		}
		adjacent := r.Chance(0.4)
		h := h0 + 1
		vals := v1
		if !adjacent {
			h = h0 + int64(2+r.Intn(5))
			if r.Chance(0.7) {
				vals = v2
			}
		}
		spec := HdrSpec{ChainID: chain, Height: h, Time: tAt(h), AppHash: AppHashFor("ver", h), Vals: vals, NextVals: vals,
			Trusted: trusted, TrustedVals: v1.Set}
		nv := len(vals.Set.Validators)
		if tAt(h).After(e.Now) {
			e.Advance(tAt(h).Sub(e.Now)+time.Second, 1)
		}
		hrev := rev
		switch r.Intn(22) {
		case 0, 1, 2, 3: // honest, or honest with a random subset not signing / signing garbage
			if r.Bool() {
				spec.Absent = randSubset(nv)
			}
			if r.Chance(0.3) {
				spec.Corrupt = randSubset(nv)
			}
		case 4: // exactly one validator missing at a time: walks the 2/3 and trust-level boundaries for unequal powers
			spec.Absent = map[int]bool{r.Intn(nv): true}
		case 5: // only one signs
			spec.Absent = map[int]bool{}
			keepOne := r.Intn(nv)
			for i := 0; i < nv; i++ {
				if i != keepOne {
					spec.Absent[i] = true
				}
			}
		case 6: // trusted validators: the new set instead of the trusted one
			spec.TrustedVals = v2.Set
		case 7: // trusted validators: right members, one power altered
			alt := v1.Set.Copy()
			alt.Validators[0].VotingPower++
			spec.TrustedVals = cmttypes.NewValidatorSet(alt.Validators)
		case 8: // trusted validators: a proper subset
			if len(v1.Set.Validators) > 1 {
				spec.TrustedVals = subsetOf(v1, 0).Set
			}
		case 9:
			spec.TrustedVals = nil
		case 10: // unknown trusted height
			spec.Trusted = clienttypes.NewHeight(rev, uint64(h0+int64(1+r.Intn(3))))
		case 11: // header at or below the trusted height
			spec.Height = h0 - int64(r.Intn(2))
			spec.Time = tAt(h0).Add(time.Second)
		case 12: // other revision (chain id), trusted height unchanged
			spec.ChainID = "simchain-" + U(rev+1)
			hrev = rev + 1
		case 13: // other chain name, same revision
			spec.ChainID = "otherchain-" + U(rev)
		case 14: // header time not after the trusted time
			spec.Time = tAt(h0).Add(-time.Duration(r.Intn(2)) * time.Nanosecond)
		case 15: // header time around now + clock drift
			spec.Time = e.Now.Add(10*time.Second + time.Duration(r.Intn(3)-1)*time.Nanosecond)
		case 16: // trusted state around its expiry
			dt := tAt(h0).Add(tp).Sub(e.Now) + time.Duration(r.Intn(3)-1)
			if dt > 0 {
				e.Advance(dt, 1)
			}
			spec.Time = tAt(h0).Add(time.Second)
		case 17: // validator set of the header does not match its hash
			spec.NilValSet = r.Bool()
			if !spec.NilValSet {
				hdr := BuildHeader(spec)
				other, _ := v1.Set.ToProto()
				if vals == v1 {
					other, _ = v2.Set.ToProto()
				}
				hdr.ValidatorSet = other
				e.Update(cid, hdr, hrev)
				continue
			}
		case 18: // adjacent header whose validator set is not the trusted next set
			spec.Height = h0 + 1
			spec.Time = tAt(h0 + 1)
			spec.Vals, spec.NextVals = v2, v2
		default:
		}
		hdr := BuildHeader(spec)
		if r.Chance(0.1) {
			// mutate a signed field after signing
			hdr.Header.AppHash = AppHashFor("tamper", h)
		}
		e.lvCase(cid, hdr, spec)
		rr := e.Update(cid, hdr, hrev)
		if rr == "updated" && r.Chance(0.5) {
			// move the trust anchor forward
			if c, ok := ibctm.GetConsensusState(e.Store(cid), e.Cdc, clienttypes.NewHeight(rev, uint64(spec.Height))); ok && string(c.NextValidatorsHash) == string(vals.Hash()) {
				h0 = spec.Height
				trusted = clienttypes.NewHeight(rev, uint64(h0))
				v1 = vals
			}
		}
		if r.Chance(0.25) {
			genVerifyMisbehaviour(e, r, cid, chain, rev, v1, v2, trusted, h0, tAt)
		}
	}
	e.Do(M{"f": "dump"})
}

func genVerifyMisbehaviour(e *Env, r *Rng, cid, chain string, rev uint64, v1, v2 *ValSet, trusted clienttypes.Height, h0 int64, tAt func(int64) time.Time) {
	h := h0 + int64(2+r.Intn(4))
	mk := func(app string, vals *ValSet) HdrSpec {
		return HdrSpec{ChainID: chain, Height: h, Time: tAt(h), AppHash: AppHashFor(app, h), Vals: vals, NextVals: vals, Trusted: trusted, TrustedVals: v1.Set}
	}
	a, b := mk("ver", v1), mk("fork", v1)
	r1, r2 := rev, rev
	switch r.Intn(12) {
	case 0: // fork signed by the changed set: needs trust-level overlap with the trusted set
		b = mk("fork", v2)
	case 1: // one side lacks signatures
		b.Absent = map[int]bool{0: true, 1: true}
	case 2:
		b.Corrupt = map[int]bool{0: true}
	case 3:
		b.TrustedVals = v2.Set
	case 4:
		b.Trusted = clienttypes.NewHeight(rev, uint64(h0+1))
	case 5: // other revision on one side only: chain ids differ
		b.ChainID = "simchain-" + U(rev+1)
		r2 = rev + 1
	case 6: // both in another revision: chain id of the client is revision-adjusted by the verifier
		a.ChainID, b.ChainID = "simchain-"+U(rev+1), "simchain-"+U(rev+1)
		r1, r2 = rev+1, rev+1
	case 7: // header 1 below header 2
		a.Height = h - 1
		a.Time = tAt(h - 1)
	case 8: // time violation
		a.Height = h + 1
		a.Time = tAt(h).Add(-time.Duration(r.Intn(2)) * time.Second)
	case 9: // trusted height zero
		b.Trusted = clienttypes.NewHeight(rev, 0)
	case 10: // expired trusted state
		dt := tAt(h0).Add(e.clientState(cid).TrustingPeriod).Sub(e.Now) + time.Duration(r.Intn(3)-1)
		if dt > 0 {
			e.Advance(dt, 1)
		}
	}
	e.Misbehaviour(cid, BuildHeader(a), BuildHeader(b), r1, r2)
}
