package tmclient

import (
	"encoding/hex"
	"fmt"
	"sort"
	"strconv"
	"strings"
	"time"

	sdk "github.com/cosmos/cosmos-sdk/types"

	clienttypes "github.com/cosmos/ibc-go/v11/modules/core/02-client/types"
	commitmenttypes "github.com/cosmos/ibc-go/v11/modules/core/23-commitment/types"
	"github.com/cosmos/ibc-go/v11/modules/core/exported"
	ibctm "github.com/cosmos/ibc-go/v11/modules/light-clients/07-tendermint"

	. "verif/harness/lib"
)

// ---- request field accessors (requests are built by generators or read back in replay mode) ----

func fS(in M, k string) string {
	s, ok := in[k].(string)
	if !ok {
		panic(fmt.Sprintf("harness: field %s missing", k))
	}
	return s
}

func fB(in M, k string) []byte {
	b, err := hex.DecodeString(fS(in, k))
	if err != nil {
		panic("harness: bad hex in " + k)
	}
	return b
}

func fU(in M, k string) uint64 {
	switch v := in[k].(type) {
	case string:
		n, err := strconv.ParseUint(v, 10, 64)
		if err != nil {
			panic("harness: bad number " + v)
		}
		return n
	case float64:
		return uint64(v)
	}
	panic(fmt.Sprintf("harness: field %s missing", k))
}

func fI(in M, k string) int64 {
	switch v := in[k].(type) {
	case string:
		n, err := strconv.ParseInt(v, 10, 64)
		if err != nil {
			panic("harness: bad number " + v)
		}
		return n
	case float64:
		return int64(v)
	}
	panic(fmt.Sprintf("harness: field %s missing", k))
}

func fM(in M, k string) M {
	switch v := in[k].(type) {
	case M:
		return v
	}
	panic(fmt.Sprintf("harness: field %s missing", k))
}

// ---- evaluation of one request on the real code ---------------------------------------------

// Do evaluates a request, emits the case and runs the monitors. It returns the result class.
func (e *Env) Do(req M) string {
	f := fS(req, "f")
	e.hist = append(e.hist, req)
	switch f {
	case "reset":
		e.FreshBase()
		e.Now = time.Unix(0, fI(req, "now")).UTC()
		e.SelfH = int64(parseH(fS(req, "self")).RevisionHeight)
		e.Clients = nil
		e.hist = []M{req}
		e.K.SetNextClientSequence(e.Ctx(), fU(req, "nextSeq"))
		e.emit(req, M{"r": "ok"})
		return "ok"
	case "dump":
		e.emit(req, e.DumpJSON())
		return "ok"
	}
	before := e.FlatWorld()
	stBefore := e.statusMap()
	var whole map[string]string
	if f == "recover" || f == "upgrade" {
		whole = e.wholeIBCStore()
	}
	out := Safe(func() any { return e.eval(f, req) })
	r, ok := out.(string)
	if !ok {
		r = "panic"
	}
	after := e.FlatWorld()
	res := M{"r": r, "d": Delta(before, after), "st": e.Statuses()}
	e.emit(req, res)
	e.monitors(f, req, r, before, after, stBefore, whole)
	return r
}

func (e *Env) statusMap() map[string][2]string {
	m := map[string][2]string{}
	for _, cid := range e.Clients {
		ctx := e.Ctx()
		m[cid] = [2]string{e.K.GetClientStatus(ctx, cid).String(), hs(e.K.GetClientLatestHeight(ctx, cid))}
	}
	return m
}

func (e *Env) eval(f string, req M) string {
	ctx := e.Ctx()
	switch f {
	case "create":
		cid := clienttypes.FormatClientIdentifier(exported.Tendermint, e.K.GetNextClientSequence(ctx))
		e.Clients = append(e.Clients, cid)
		_, err := e.K.CreateClient(ctx, exported.Tendermint, fB(req, "rawCs"), fB(req, "rawCons"))
		return Classify(err)
	case "update":
		msg, err := e.DecodeMsg(fB(req, "raw"))
		if err != nil {
			return "err:decode"
		}
		if err := e.K.UpdateClient(ctx, fS(req, "cid"), msg); err != nil {
			return Classify(err)
		}
		if hasEvent(ctx, clienttypes.EventTypeSubmitMisbehaviour) {
			return "frozen"
		}
		return "updated"
	case "misb":
		msg, err := e.DecodeMsg(fB(req, "raw"))
		if err != nil {
			return "err:decode"
		}
		if err := msg.ValidateBasic(); err != nil {
			return "err:basic"
		}
		if err := e.K.UpdateClient(ctx, fS(req, "cid"), msg); err != nil {
			return Classify(err)
		}
		if hasEvent(ctx, clienttypes.EventTypeSubmitMisbehaviour) {
			return "frozen"
		}
		return "updated"
	case "advance":
		e.Now = e.Now.Add(time.Duration(fU(req, "dt")))
		e.SelfH += int64(fU(req, "dh"))
		return "ok"
	case "recover":
		return Classify(e.K.RecoverClient(ctx, fS(req, "subject"), fS(req, "substitute")))
	case "upgrade":
		return Classify(e.K.UpgradeClient(ctx, fS(req, "cid"), fB(req, "rawClient"), fB(req, "rawCons"), fB(req, "rawProofClient"), fB(req, "rawProofCons")))
	case "pruneAll":
		cid := fS(req, "cid")
		store := e.K.ClientStore(ctx, cid)
		cs, ok := ibctm.VerifGetClientState(store, e.Cdc)
		if !ok {
			return "err:client-not-found"
		}
		n := ibctm.PruneAllExpiredConsensusStates(ctx, store, e.Cdc, cs)
		return "ok:" + strconv.Itoa(n)
	case "vm", "vnm":
		height := parseH(fS(req, "height"))
		storeName := "ibc"
		if sn, ok := req["store"].(string); ok {
			storeName = sn
		}
		path := commitmenttypes.NewMerklePath([]byte(storeName), []byte(fS(req, "key")))
		var err error
		if f == "vm" {
			err = e.K.VerifyMembership(ctx, fS(req, "cid"), height, fU(req, "delayT"), fU(req, "delayB"), fB(req, "rawProof"), path, fB(req, "value"))
		} else {
			err = e.K.VerifyNonMembership(ctx, fS(req, "cid"), height, fU(req, "delayT"), fU(req, "delayB"), fB(req, "rawProof"), path)
		}
		return Classify(err)
	}
	return "bad:unknown function " + f
}

// ---- monitors (sound: each reports only a genuine violation of the property as stated) ----------

func (e *Env) viol(prop, key, what string, obs any) {
	hist := append([]M{}, e.hist...)
	e.report(Viol{Property: prop, Key: key, What: what, Requests: hist, Observed: obs})
}

type hkey struct{ rev, h uint64 }

func parseHK(s string) (hkey, bool) {
	h, err := clienttypes.ParseHeight(s)
	if err != nil {
		return hkey{}, false
	}
	return hkey{h.RevisionNumber, h.RevisionHeight}, true
}

func (a hkey) less(b hkey) bool { return a.rev < b.rev || (a.rev == b.rev && a.h < b.h) }

// consOf collects cid -> height -> rendered consensus state from a flat dump.
func consOf(flat map[string]any, kind string) map[string]map[string]string {
	out := map[string]map[string]string{}
	for k, v := range flat {
		parts := strings.SplitN(k, "|", 3)
		if len(parts) == 3 && parts[1] == kind {
			if out[parts[0]] == nil {
				out[parts[0]] = map[string]string{}
			}
			s, _ := v.(string)
			out[parts[0]][parts[2]] = s
		}
	}
	return out
}

func tsOf(cons string) int64 {
	n, _ := strconv.ParseInt(strings.SplitN(cons, "|", 2)[0], 10, 64)
	return n
}

func (e *Env) monitors(f string, req M, r string, before, after map[string]any, stBefore map[string][2]string, whole map[string]string) {
	cb, ca := consOf(before, "c"), consOf(after, "c")
	now := e.Now.UnixNano()
	if f == "advance" {
		now -= int64(fU(req, "dt"))
	}
	// C20: bytes at a stored height never change; only expired consensus states are removed
	for cid, hm := range cb {
		tp := int64(0)
		if cs, ok := before[cid+"|cs"].(M); ok {
			tp, _ = strconv.ParseInt(cs["tp"].(string), 10, 64)
		}
		for h, v := range hm {
			v2, still := ca[cid][h]
			if still && v2 != v {
				e.viol("C20", "overwrite", "consensus state at a stored height changed", M{"client": cid, "height": h, "before": v, "after": v2, "op": f})
			}
			if !still && tsOf(v)+tp > now {
				e.viol("C20", "removed-unexpired", "a consensus state that had not expired was removed", M{"client": cid, "height": h, "cons": v, "tp": I(tp), "now": I(now), "op": f})
			}
		}
	}
	// C20: a header conflicting with a stored consensus state, accepted as verified, must freeze
	if f == "update" && (r == "updated") {
		hdr := fM(req, "hdr")
		cid := fS(req, "cid")
		if old, ok := cb[cid][fS(hdr, "height")]; ok {
			nw := fS(hdr, "ts") + "|" + fS(hdr, "root") + "|" + fS(hdr, "nvh")
			if old != nw {
				e.viol("C20", "conflict-not-frozen", "conflicting header for a stored height was accepted without freezing", M{"client": cid, "height": fS(hdr, "height"), "stored": old, "header": nw})
			}
		}
	}
	// C20: verified misbehaviour (fork at one height, or a higher header that is not later) must freeze
	if f == "misb" && r == "updated" {
		h1, h2 := fM(req, "h1"), fM(req, "h2")
		fork := fS(h1, "height") == fS(h2, "height") && fS(h1, "blockHash") != fS(h2, "blockHash")
		timeViolation := fS(h1, "height") != fS(h2, "height") && fI(h1, "ts") <= fI(h2, "ts")
		if fork || timeViolation {
			e.viol("C20", "misbehaviour-not-frozen", "verified misbehaviour did not freeze the client", M{"client": fS(req, "cid"), "fork": fork, "timeViolation": timeViolation})
		}
	}
	// C24: acceptance only when verified (ibc-go's own conditions + the library's verdict)
	if f == "update" && (r == "updated" || r == "frozen") {
		cid := fS(req, "cid")
		e.acceptMonitor(cid, fM(req, "hdr"), req["valid"] == true, cb[cid], "header")
	}
	if f == "misb" && r == "frozen" {
		cid := fS(req, "cid")
		e.acceptMonitor(cid, fM(req, "h1"), req["v1"] == true, cb[cid], "misbehaviour header 1")
		e.acceptMonitor(cid, fM(req, "h2"), req["v2"] == true, cb[cid], "misbehaviour header 2")
		tp := int64(0)
		if cs, ok := before[cid+"|cs"].(M); ok {
			tp, _ = strconv.ParseInt(cs["tp"].(string), 10, 64)
		}
		for _, hk := range []string{"h1", "h2"} {
			if c, ok := cb[cid][fS(fM(req, hk), "trusted")]; ok && now-tsOf(c) >= tp {
				e.viol("C24", "misb-expired-trusted", "misbehaviour accepted against a trusted consensus state older than the trusting period", M{"client": cid, "header": hk})
			}
		}
	}
	// C25: parameter matching on recovery, custom fields on upgrade
	if f == "recover" && r == "ok" {
		a, aok := before[fS(req, "subject")+"|cs"].(M)
		b, bok := before[fS(req, "substitute")+"|cs"].(M)
		if aok && bok {
			for _, k := range []string{"tlNum", "tlDen", "ub", "drift", "specs", "path"} {
				if fmt.Sprint(a[k]) != fmt.Sprint(b[k]) {
					e.viol("C25", "recover-mismatch", "recovery succeeded although a parameter that must match differs", M{"field": k, "subject": a[k], "substitute": b[k]})
				}
			}
		}
		if ac, ok := after[fS(req, "subject")+"|cs"].(M); ok && bok {
			if ac["frozen"] != "0-0" || ac["latest"] != b["latest"] {
				e.viol("C25", "recover-effect", "after recovery the subject is not unfrozen at the substitute's latest height", M{"after": ac})
			}
			if after[fS(req, "subject")+"|c|"+b["latest"].(string)] != before[fS(req, "substitute")+"|c|"+b["latest"].(string)] {
				e.viol("C25", "recover-effect", "after recovery the subject does not hold the substitute's latest consensus state", nil)
			}
		}
	}
	if f == "upgrade" && r == "ok" {
		cid := fS(req, "cid")
		a, aok := before[cid+"|cs"].(M)
		b, bok := after[cid+"|cs"].(M)
		if aok && bok {
			if a["tlNum"] != b["tlNum"] || a["tlDen"] != b["tlDen"] || a["drift"] != b["drift"] {
				e.viol("C25", "upgrade-custom-fields", "upgrade changed the client's own trust level or clock drift", M{"before": a, "after": b})
			}
			lb, _ := parseHK(a["latest"].(string))
			la, _ := parseHK(b["latest"].(string))
			if !lb.less(la) {
				e.viol("C25", "upgrade-height", "upgrade succeeded to a height that is not strictly greater", M{"before": a["latest"], "after": b["latest"]})
			}
		}
		u := fM(req, "u")
		if u["pcOK"] != true || u["psOK"] != true {
			e.viol("C25", "upgrade-unproven", "upgrade succeeded although a proof of the upgraded client / consensus state does not verify", M{"pcOK": u["pcOK"], "psOK": u["psOK"]})
		}
	}
	// C22: metadata consistency of every client store
	for _, cid := range e.Clients {
		e.checkMetaInv(cid, after, f)
	}
	// C23: a consensus state stored by an update lies strictly between its stored neighbours in time
	if f == "update" && r == "updated" {
		cid := fS(req, "cid")
		for h, v := range ca[cid] {
			if _, was := cb[cid][h]; was {
				continue
			}
			hk, _ := parseHK(h)
			for h2, v2 := range ca[cid] {
				k2, _ := parseHK(h2)
				if k2.less(hk) && !(tsOf(v2) < tsOf(v)) || hk.less(k2) && !(tsOf(v) < tsOf(v2)) {
					// only the nearest neighbours are claimed by the property; find out whether h2 is one
					if isNeighbour(ca[cid], hk, k2) {
						e.viol("C23", "ts-not-between", "update stored a consensus state whose timestamp is not strictly between its neighbours'", M{"client": cid, "height": h, "cons": v, "neighbour": h2, "neighbourCons": v2})
					}
				}
			}
		}
	}
	// C21: status exactness, monotone latest height, gating of consumers
	for _, cid := range e.Clients {
		ctx := e.Ctx()
		got := e.K.GetClientStatus(ctx, cid).String()
		want := expectedStatus(cid, after, e.Now.UnixNano())
		if want != "" && got != want {
			e.viol("C21", "status-inexact", "Status() differs from the specification", M{"client": cid, "got": got, "want": want, "op": f})
		}
		if sb, ok := stBefore[cid]; ok {
			lb, _ := parseHK(sb[1])
			la, _ := parseHK(hs(e.K.GetClientLatestHeight(ctx, cid)))
			if la.less(lb) {
				e.viol("C21", "latest-decreased", "latest height decreased", M{"client": cid, "before": sb[1], "after": hs(e.K.GetClientLatestHeight(ctx, cid)), "op": f})
			}
		}
	}
	switch f {
	case "update", "misb", "upgrade", "vm", "vnm":
		cid := fS(req, "cid")
		succeeded := r == "updated" || r == "frozen" || r == "ok"
		if sb, ok := stBefore[cid]; ok && succeeded && sb[0] != "Active" {
			e.viol("C21", "ungated", "a consumer succeeded through a client that was not Active", M{"client": cid, "status": sb[0], "op": f, "result": r})
		}
	case "recover":
		subj, subst := fS(req, "subject"), fS(req, "substitute")
		if r == "ok" {
			if sb, ok := stBefore[subj]; ok && sb[0] == "Active" {
				e.viol("C25", "recover-active-subject", "recovery succeeded on an Active subject", M{"subject": subj})
			}
			if sb, ok := stBefore[subst]; !ok || sb[0] != "Active" {
				e.viol("C25", "recover-inactive-substitute", "recovery succeeded with a substitute that was not Active", M{"substitute": subst, "status": fmt.Sprint(stBefore[subst])})
			}
			lb, _ := parseHK(stBefore[subj][1])
			ls, _ := parseHK(stBefore[subst][1])
			if !lb.less(ls) {
				e.viol("C25", "recover-height", "recovery succeeded although the substitute is not at a strictly greater height", M{"subject": stBefore[subj][1], "substitute": stBefore[subst][1]})
			}
		}
	}
	// C25: recovery / upgrade touch only the subject's store
	if whole != nil {
		subject := ""
		if f == "recover" {
			subject = fS(req, "subject")
		} else {
			subject = fS(req, "cid")
		}
		pfx := "clients/" + subject + "/"
		now2 := e.wholeIBCStore()
		for k, v := range whole {
			if v2, ok := now2[k]; (!ok || v2 != v) && !strings.HasPrefix(k, pfx) {
				e.viol("C25", "outside-subject", "recovery/upgrade changed state outside the subject client's store", M{"key": Hex([]byte(k)), "op": f})
			}
		}
		for k := range now2 {
			if _, ok := whole[k]; !ok && !strings.HasPrefix(k, pfx) {
				e.viol("C25", "outside-subject", "recovery/upgrade created state outside the subject client's store", M{"key": Hex([]byte(k)), "op": f})
			}
		}
	}
}

func (e *Env) acceptMonitor(cid string, hdr M, valid bool, cons map[string]string, what string) {
	tc, ok := cons[fS(hdr, "trusted")]
	if !ok {
		e.viol("C24", "accept-unknown-trusted", what+" accepted although no consensus state is stored at its trusted height", M{"client": cid, "trusted": fS(hdr, "trusted")})
		return
	}
	nvh := strings.Split(tc, "|")[2]
	if tv, _ := hdr["tvals"].(string); tv != nvh {
		e.viol("C24", "accept-wrong-trusted-validators", what+" accepted although its trusted validators do not hash to the trusted next-validators hash", M{"client": cid, "tvals": hdr["tvals"], "nvh": nvh})
	}
	hh, _ := parseHK(fS(hdr, "height"))
	th, _ := parseHK(fS(hdr, "trusted"))
	if !th.less(hh) {
		e.viol("C24", "accept-height", what+" accepted although it is not strictly above its trusted height", M{"client": cid, "height": fS(hdr, "height"), "trusted": fS(hdr, "trusted")})
	}
	if what == "header" && hh.rev != th.rev {
		e.viol("C24", "accept-revision", what+" accepted although it is in another revision than its trusted height", M{"client": cid, "height": fS(hdr, "height"), "trusted": fS(hdr, "trusted")})
	}
	if !valid {
		e.viol("C24", "accept-unverified", what+" accepted although CometBFT's verification of it fails", M{"client": cid, "height": fS(hdr, "height")})
	}
}

func isNeighbour(m map[string]string, h, cand hkey) bool {
	for s := range m {
		k, _ := parseHK(s)
		if k == h || k == cand {
			continue
		}
		if cand.less(h) && cand.less(k) && k.less(h) {
			return false
		}
		if h.less(cand) && h.less(k) && k.less(cand) {
			return false
		}
	}
	return true
}

func expectedStatus(cid string, flat map[string]any, now int64) string {
	cs, ok := flat[cid+"|cs"].(M)
	if !ok {
		return "" // no (decodable) client state: not claimed here
	}
	if cs["frozen"].(string) != "0-0" {
		return "Frozen"
	}
	c, ok := flat[cid+"|c|"+cs["latest"].(string)].(string)
	if !ok {
		return "Expired"
	}
	tp, _ := strconv.ParseInt(cs["tp"].(string), 10, 64)
	if tsOf(c)+tp <= now {
		return "Expired"
	}
	return "Active"
}

func (e *Env) checkMetaInv(cid string, flat map[string]any, op string) {
	c, pt, ph, ik := consOf(flat, "c")[cid], consOf(flat, "pt")[cid], consOf(flat, "ph")[cid], consOf(flat, "ik")[cid]
	ikByHeight := map[string]string{}
	for key, val := range ik {
		// the raw key must be the big-endian encoding of the height its value names
		hk, ok := parseHK(val)
		if !ok || key != Hex(ibctm.VerifBigEndianHeightBytes(mkH(hk.rev, hk.h))) {
			e.viol("C22", "iterkey-mismatch", "iteration key does not name the height it is stored under", M{"client": cid, "key": key, "value": val, "op": op})
		}
		ikByHeight[val] = key
	}
	all := map[string]bool{}
	for h := range c {
		all[h] = true
	}
	for h := range pt {
		all[h] = true
	}
	for h := range ph {
		all[h] = true
	}
	for h := range ikByHeight {
		all[h] = true
	}
	for h := range all {
		_, a := c[h]
		_, b := pt[h]
		_, d := ph[h]
		_, f := ikByHeight[h]
		if !(a && b && d && f) {
			e.viol("C22", "metainv", "consensus state and its three metadata entries are not all present together", M{"client": cid, "height": h, "cons": a, "processedTime": b, "processedHeight": d, "iterationKey": f, "op": op})
		}
	}
	// ascending iteration visits exactly the stored heights in height order
	asc := AscHeights(e.Store(cid))
	ref := make([]hkey, 0, len(c))
	for h := range c {
		k, _ := parseHK(h)
		ref = append(ref, k)
	}
	sort.Slice(ref, func(i, j int) bool { return ref[i].less(ref[j]) })
	okOrder := len(asc) == len(ref)
	for i := 0; okOrder && i < len(ref); i++ {
		k, _ := parseHK(asc[i])
		okOrder = k == ref[i]
	}
	if !okOrder {
		e.viol("C22", "iteration-order", "ascending iteration does not visit the stored heights in height order", M{"client": cid, "asc": asc, "op": op})
	}
}

var _ = sdk.Context{}
