package tmclient

import (
	"crypto/sha256"
	"time"

	"github.com/cometbft/cometbft/crypto"
	"github.com/cometbft/cometbft/crypto/ed25519"
	"github.com/cometbft/cometbft/crypto/tmhash"
	"github.com/cometbft/cometbft/light"
	cmtproto "github.com/cometbft/cometbft/proto/tendermint/types"
	cmtprotoversion "github.com/cometbft/cometbft/proto/tendermint/version"
	cmttypes "github.com/cometbft/cometbft/types"
	cmtversion "github.com/cometbft/cometbft/version"

	codectypes "github.com/cosmos/cosmos-sdk/codec/types"

	clienttypes "github.com/cosmos/ibc-go/v11/modules/core/02-client/types"
	"github.com/cosmos/ibc-go/v11/modules/core/exported"
	ibctm "github.com/cosmos/ibc-go/v11/modules/light-clients/07-tendermint"

	. "verif/harness/lib"
)

// ValSet is a validator set whose private keys the harness owns (deterministic from a tag).
type ValSet struct {
	Set  *cmttypes.ValidatorSet
	Keys map[string]crypto.PrivKey // by address
}

func MakeValSet(tag string, powers []int64) *ValSet {
	vs := &ValSet{Keys: map[string]crypto.PrivKey{}}
	var vals []*cmttypes.Validator
	for i, p := range powers {
		sk := ed25519.GenPrivKeyFromSecret([]byte(tag + "/" + I(int64(i))))
		pk := sk.PubKey()
		vals = append(vals, cmttypes.NewValidator(pk, p))
		vs.Keys[pk.Address().String()] = sk
	}
	vs.Set = cmttypes.NewValidatorSet(vals)
	return vs
}

func (v *ValSet) Hash() []byte { return v.Set.Hash() }

// HdrSpec describes a header of the tracked chain to fabricate.
type HdrSpec struct {
	ChainID  string
	Height   int64
	Time     time.Time
	AppHash  []byte
	Vals     *ValSet
	NextVals *ValSet
	// trusted fields
	Trusted     clienttypes.Height
	TrustedVals *cmttypes.ValidatorSet // nil: TrustedValidators left nil
	// signing: Absent[i] = validator i does not sign; Corrupt[i] = signature bytes flipped
	Absent  map[int]bool
	Corrupt map[int]bool
	// structural damage
	NilValSet bool
}

var unusedHash = tmhash.Sum([]byte{0x00})

func AppHashFor(tag string, h int64) []byte {
	s := sha256.Sum256([]byte(tag + "/app/" + I(h)))
	return s[:]
}

// BuildHeader fabricates and signs an ibctm.Header exactly like ibctesting.CreateTMClientHeader, but
// with caller-chosen app hash / time / signer subset.
func BuildHeader(s HdrSpec) *ibctm.Header {
	ph := cmttypes.Header{
		Version:            cmtprotoversion.Consensus{Block: cmtversion.BlockProtocol, App: 2},
		ChainID:            s.ChainID,
		Height:             s.Height,
		Time:               s.Time,
		LastBlockID:        cmttypes.BlockID{Hash: make([]byte, tmhash.Size), PartSetHeader: cmttypes.PartSetHeader{Total: 10000, Hash: make([]byte, tmhash.Size)}},
		LastCommitHash:     unusedHash,
		DataHash:           unusedHash,
		ValidatorsHash:     s.Vals.Set.Hash(),
		NextValidatorsHash: s.NextVals.Set.Hash(),
		ConsensusHash:      unusedHash,
		AppHash:            s.AppHash,
		LastResultsHash:    unusedHash,
		EvidenceHash:       unusedHash,
		ProposerAddress:    s.Vals.Set.Validators[0].Address,
	}
	blockID := cmttypes.BlockID{Hash: ph.Hash(), PartSetHeader: cmttypes.PartSetHeader{Total: 3, Hash: unusedHash}}
	commit := &cmttypes.Commit{Height: s.Height, Round: 1, BlockID: blockID}
	for i, v := range s.Vals.Set.Validators {
		if s.Absent[i] {
			commit.Signatures = append(commit.Signatures, cmttypes.NewCommitSigAbsent())
			continue
		}
		vote := &cmttypes.Vote{ValidatorAddress: v.Address, ValidatorIndex: int32(i), Height: s.Height, Round: 1,
			Type: cmtproto.PrecommitType, BlockID: blockID, Timestamp: s.Time}
		sig, err := s.Vals.Keys[v.Address.String()].Sign(cmttypes.VoteSignBytes(s.ChainID, vote.ToProto()))
		if err != nil {
			panic(err)
		}
		if s.Corrupt[i] {
			sig[0] ^= 0x55
		}
		commit.Signatures = append(commit.Signatures, cmttypes.CommitSig{BlockIDFlag: cmttypes.BlockIDFlagCommit,
			ValidatorAddress: v.Address, Timestamp: s.Time, Signature: sig})
	}
	sh := &cmtproto.SignedHeader{Header: ph.ToProto(), Commit: commit.ToProto()}
	h := &ibctm.Header{SignedHeader: sh, TrustedHeight: s.Trusted}
	if !s.NilValSet {
		vp, err := s.Vals.Set.ToProto()
		if err != nil {
			panic(err)
		}
		vp.TotalVotingPower = s.Vals.Set.TotalVotingPower()
		h.ValidatorSet = vp
	}
	if s.TrustedVals != nil {
		tp, err := s.TrustedVals.ToProto()
		if err != nil {
			panic(err)
		}
		tp.TotalVotingPower = s.TrustedVals.TotalVotingPower()
		h.TrustedValidators = tp
	}
	return h
}

// RoundTrip passes a client message through its wire encoding, as a transaction would.
func (e *Env) RoundTrip(msg exported.ClientMessage) (exported.ClientMessage, []byte, error) {
	any, err := clienttypes.PackClientMessage(msg)
	if err != nil {
		return nil, nil, err
	}
	bz, err := e.Cdc.Marshal(any)
	if err != nil {
		return nil, nil, err
	}
	out, err := e.DecodeMsg(bz)
	return out, bz, err
}

func (e *Env) DecodeMsg(bz []byte) (exported.ClientMessage, error) {
	var a codectypes.Any
	if err := e.Cdc.Unmarshal(bz, &a); err != nil {
		return nil, err
	}
	if err := e.A.App.AppCodec().InterfaceRegistry().UnpackAny(&a, new(exported.ClientMessage)); err != nil {
		return nil, err
	}
	return clienttypes.UnpackClientMessage(&a)
}

// HdrJSON is the model's view of a header. tvals is the hash of the trusted validator set as CometBFT
// computes it (nil when the set is nil / unparsable).
func HdrJSON(h *ibctm.Header, rev uint64) M {
	var tvals any
	if h.TrustedValidators != nil {
		if tv, err := cmttypes.ValidatorSetFromProto(h.TrustedValidators); err == nil {
			tvals = Hex(tv.Hash())
		}
	}
	parseOK := true
	if _, err := cmttypes.SignedHeaderFromProto(h.SignedHeader); err != nil {
		parseOK = false
	}
	if _, err := cmttypes.ValidatorSetFromProto(h.ValidatorSet); err != nil {
		parseOK = false
	}
	commitOK := true
	if _, err := cmttypes.CommitFromProto(h.Commit); err != nil {
		commitOK = false
	}
	blockIdOK := true
	if _, err := cmttypes.BlockIDFromProto(&h.Commit.BlockID); err != nil {
		blockIdOK = false
	}
	return M{"height": hs(mkH(rev, uint64(h.Header.Height))), "ts": I(h.Header.Time.UnixNano()), "root": Hex(h.Header.AppHash),
		"nvh": Hex(h.Header.NextValidatorsHash), "trusted": hs(h.TrustedHeight), "tvals": tvals, "parseOK": parseOK,
		"blockHash": Hex(h.Commit.BlockID.Hash), "commitOK": commitOK, "blockIdOK": blockIdOK, "basicOK": libBasicOK(h)}
}

// libBasicOK: the CometBFT part of Header.ValidateBasic (ibc-go's own additions are modelled).
func libBasicOK(h *ibctm.Header) bool {
	sh, err := cmttypes.SignedHeaderFromProto(h.SignedHeader)
	if err != nil {
		return false
	}
	if err := sh.ValidateBasic(h.Header.ChainID); err != nil {
		return false
	}
	if h.ValidatorSet == nil {
		return false
	}
	vs, err := cmttypes.ValidatorSetFromProto(h.ValidatorSet)
	if err != nil {
		return false
	}
	if string(h.Header.ValidatorsHash) != string(vs.Hash()) {
		return false
	}
	return true
}

// libCommitOK: Misbehaviour.ValidateBasic's validCommit (CometBFT VerifyCommitLight of the header's own set).
func libCommitOK(h *ibctm.Header) bool {
	commit, err := cmttypes.CommitFromProto(h.Commit)
	if err != nil {
		return false
	}
	vs, err := cmttypes.ValidatorSetFromProto(h.ValidatorSet)
	if err != nil {
		return false
	}
	bid, err := cmttypes.BlockIDFromProto(&h.Commit.BlockID)
	if err != nil {
		return false
	}
	return vs.VerifyCommitLight(h.Header.ChainID, *bid, commit.Height, commit) == nil
}

// OracleLightVerify is the ground truth for `valid`: CometBFT's own light.Verify evaluated on the
// trusted state the harness reads from the (already diffed) client store. ibc-go's wiring — which
// consensus state, which period, which clock, which trusted validators check — is what is under test.
func (e *Env) OracleLightVerify(cid string, h *ibctm.Header) bool {
	store := e.Store(cid)
	cs, ok := ibctm.VerifGetClientState(store, e.Cdc)
	if !ok {
		return false
	}
	cons, ok := ibctm.GetConsensusState(store, e.Cdc, h.TrustedHeight)
	if !ok {
		return false
	}
	tv, err := cmttypes.ValidatorSetFromProto(h.TrustedValidators)
	if err != nil {
		return false
	}
	sh, err := cmttypes.SignedHeaderFromProto(h.SignedHeader)
	if err != nil {
		return false
	}
	vs, err := cmttypes.ValidatorSetFromProto(h.ValidatorSet)
	if err != nil {
		return false
	}
	trusted := cmttypes.SignedHeader{Header: &cmttypes.Header{ChainID: cs.ChainId, Height: int64(h.TrustedHeight.RevisionHeight),
		Time: cons.Timestamp, NextValidatorsHash: cons.NextValidatorsHash}}
	return light.Verify(&trusted, tv, sh, vs, cs.TrustingPeriod, e.Now, cs.MaxClockDrift, cs.TrustLevel.ToTendermint()) == nil
}

// OracleCommitTrusting is the ground truth for misbehaviour headers: VerifyCommitLightTrusting of the
// trusted validator set on the header's commit under the revision-adjusted chain id.
func (e *Env) OracleCommitTrusting(cid string, h *ibctm.Header) bool {
	store := e.Store(cid)
	cs, ok := ibctm.VerifGetClientState(store, e.Cdc)
	if !ok {
		return false
	}
	tv, err := cmttypes.ValidatorSetFromProto(h.TrustedValidators)
	if err != nil {
		return false
	}
	commit, err := cmttypes.CommitFromProto(h.Commit)
	if err != nil {
		return false
	}
	chainID := cs.ChainId
	if clienttypes.IsRevisionFormat(chainID) {
		chainID, _ = clienttypes.SetRevisionNumber(chainID, clienttypes.ParseChainID(h.Header.ChainID))
	}
	return tv.VerifyCommitLightTrusting(chainID, commit, cs.TrustLevel.ToTendermint()) == nil
}
