package tmclient

import (
	"time"

	"github.com/cometbft/cometbft/light"
	cmtproto "github.com/cometbft/cometbft/proto/tendermint/types"
	cmttypes "github.com/cometbft/cometbft/types"

	ibctm "github.com/cosmos/ibc-go/v11/modules/light-clients/07-tendermint"

	. "verif/harness/lib"
)

// The `power` group ties the hand model of CometBFT's commit verification (Model/TmLight.lean) to the
// real library: validator sets with unequal powers, commits with absent / nil / good / corrupted /
// wrong-chain / wrong-address / duplicated signatures, evaluated by VerifyCommitLight and
// VerifyCommitLightTrusting. The harness describes each signature symbolically (who signed what).

const (
	sAbsent = iota
	sNil
	sGood
	sCorrupt
	sWrongChain
	sWrongAddr // claims the address (and uses the key) of another validator
)

func isLvPure(f string) bool { return f == "lv.own" || f == "lv.trust" || f == "lv.verify" }

type sigDesc struct {
	kind  int
	valIx int // index in the universe of the signer
}

// buildCommit signs a commit over `universe` validators according to descs (one per position).
func buildCommit(chainID string, height int64, universe *ValSet, descs []sigDesc) (*cmttypes.Commit, cmttypes.BlockID) {
	blockID := cmttypes.BlockID{Hash: AppHashFor("blk", height), PartSetHeader: cmttypes.PartSetHeader{Total: 3, Hash: unusedHash}}
	commit := &cmttypes.Commit{Height: height, Round: 1, BlockID: blockID}
	ts := time.Unix(1600000000, 0).UTC()
	for i, d := range descs {
		v := universe.Set.Validators[d.valIx]
		switch d.kind {
		case sAbsent:
			commit.Signatures = append(commit.Signatures, cmttypes.NewCommitSigAbsent())
			continue
		}
		flag := cmttypes.BlockIDFlagCommit
		bid := blockID
		if d.kind == sNil {
			flag = cmttypes.BlockIDFlagNil
			bid = cmttypes.BlockID{}
		}
		cid := chainID
		if d.kind == sWrongChain {
			cid = chainID + "x"
		}
		vote := &cmttypes.Vote{ValidatorAddress: v.Address, ValidatorIndex: int32(i), Height: height, Round: 1,
			Type: cmtproto.PrecommitType, BlockID: bid, Timestamp: ts}
		sig, err := universe.Keys[v.Address.String()].Sign(cmttypes.VoteSignBytes(cid, vote.ToProto()))
		if err != nil {
			panic(err)
		}
		if d.kind == sCorrupt {
			sig[3] ^= 0x40
		}
		commit.Signatures = append(commit.Signatures, cmttypes.CommitSig{BlockIDFlag: flag, ValidatorAddress: v.Address, Timestamp: ts, Signature: sig})
	}
	return commit, blockID
}

// symbolic rendering: addresses are universe indices + 1; msg 1 = the sign bytes the verifier computes
func symSigs(descs []sigDesc) []any {
	out := []any{}
	for _, d := range descs {
		a := U(uint64(d.valIx + 1))
		switch d.kind {
		case sAbsent:
			out = append(out, []any{"a"})
		case sNil:
			out = append(out, []any{"n", a})
		case sGood, sWrongAddr:
			out = append(out, []any{"c", a, a, "1"})
		case sCorrupt:
			out = append(out, []any{"c", a, "0", "1"})
		case sWrongChain:
			out = append(out, []any{"c", a, a, "0"})
		}
	}
	return out
}

func GenPower(e *Env, r0 *Rng, n int) {
	for i := 0; i < n; i++ {
		r := r0.Fork()
		nU := 1 + r.Intn(7)
		powers := make([]int64, nU)
		for k := range powers {
			powers[k] = Pick(r, []int64{1, 1, 2, 3, 5, 10, 33, 34, 100})
		}
		uni := MakeValSet("pow", powers)
		chain := "powchain-1"
		height := int64(7)
		// --- own set: the set is the whole universe in its canonical order, one signature per position
		descs := make([]sigDesc, nU)
		for k := range descs {
			kind := Pick(r, []int{sGood, sGood, sGood, sGood, sAbsent, sAbsent, sNil, sCorrupt, sWrongChain})
			descs[k] = sigDesc{kind, k}
			if nU > 1 && r.Chance(0.04) {
				descs[k] = sigDesc{sWrongAddr, (k + 1) % nU}
			}
		}
		commit, bid := buildCommit(chain, height, uni, descs)
		got := uni.Set.VerifyCommitLight(chain, bid, height, commit) == nil
		vals := []any{}
		for k, v := range uni.Set.Validators {
			vals = append(vals, []any{U(uint64(k + 1)), U(uint64(v.VotingPower))})
		}
		e.emit(M{"f": "lv.own", "vals": vals, "sigs": symSigs(descs)}, Ok(got))
		// --- trusting: a trusted set made of some universe members (own powers), commit positions in any order
		var members []int
		for k := 0; k < nU; k++ {
			if r.Chance(0.6) {
				members = append(members, k)
			}
		}
		if len(members) == 0 {
			members = []int{0}
		}
		trusted := subsetOf(uni, members...)
		nS := 1 + r.Intn(nU+2)
		tdescs := make([]sigDesc, nS)
		for k := range tdescs {
			tdescs[k] = sigDesc{Pick(r, []int{sGood, sGood, sGood, sAbsent, sNil, sCorrupt, sWrongChain}), r.Intn(nU)}
		}
		tcommit, _ := buildCommit(chain, height, uni, tdescs)
		tl := Pick(r, []ibctm.Fraction{{Numerator: 1, Denominator: 3}, {Numerator: 1, Denominator: 2}, {Numerator: 2, Denominator: 3}, {Numerator: 1, Denominator: 1}, {Numerator: 3, Denominator: 4}})
		gotT := trusted.Set.VerifyCommitLightTrusting(chain, tcommit, tl.ToTendermint()) == nil
		tvals := []any{}
		for _, v := range trusted.Set.Validators {
			// address = universe index + 1
			for k, u := range uni.Set.Validators {
				if string(u.Address) == string(v.Address) {
					tvals = append(tvals, []any{U(uint64(k + 1)), U(uint64(v.VotingPower))})
				}
			}
		}
		e.emit(M{"f": "lv.trust", "vals": tvals, "num": U(tl.Numerator), "den": U(tl.Denominator), "sigs": symSigs(tdescs)}, Ok(gotT))
	}
}

// lvCase emits one `lv.verify` case for a header built from `spec`: the symbolic inputs of the hand model
// of light.Verify, and the verdict of the real light.Verify.
func (e *Env) lvCase(cid string, h *ibctm.Header, spec HdrSpec) {
	store := e.Store(cid)
	cs, ok := ibctm.VerifGetClientState(store, e.Cdc)
	if !ok {
		return
	}
	cons, ok := ibctm.GetConsensusState(store, e.Cdc, h.TrustedHeight)
	if !ok || h.TrustedValidators == nil || h.ValidatorSet == nil {
		return
	}
	tv, err := cmttypes.ValidatorSetFromProto(h.TrustedValidators)
	if err != nil {
		return
	}
	sh, err := cmttypes.SignedHeaderFromProto(h.SignedHeader)
	if err != nil {
		return
	}
	vs, err := cmttypes.ValidatorSetFromProto(h.ValidatorSet)
	if err != nil {
		return
	}
	trusted := cmttypes.SignedHeader{Header: &cmttypes.Header{ChainID: cs.ChainId, Height: int64(h.TrustedHeight.RevisionHeight),
		Time: cons.Timestamp, NextValidatorsHash: cons.NextValidatorsHash}}
	got := light.Verify(&trusted, tv, sh, vs, cs.TrustingPeriod, e.Now, cs.MaxClockDrift, cs.TrustLevel.ToTendermint()) == nil
	// symbolic inputs from the harness's own knowledge of how the header was made
	sigOK := func(i int) bool { return !spec.Corrupt[i] && spec.ChainID == cs.ChainId }
	own, trust := []any{}, []any{}
	seen := map[string]bool{}
	for i, v := range spec.Vals.Set.Validators {
		if spec.Absent[i] {
			own = append(own, []any{"s"})
			trust = append(trust, []any{"s"})
			continue
		}
		// own-set resolution is by index against the validator set carried in the header
		if i < len(vs.Validators) && string(vs.Validators[i].Address) == string(v.Address) {
			own = append(own, []any{"c", U(uint64(vs.Validators[i].VotingPower)), sigOK(i)})
		} else {
			own = append(own, []any{"f"})
		}
		_, tval := tv.GetByAddress(v.Address)
		switch {
		case tval == nil:
			trust = append(trust, []any{"s"})
		case seen[string(v.Address)]:
			trust = append(trust, []any{"f"})
		default:
			seen[string(v.Address)] = true
			trust = append(trust, []any{"c", U(uint64(tval.VotingPower)), sigOK(i)})
		}
	}
	if len(vs.Validators) != len(spec.Vals.Set.Validators) {
		return // verifyBasicValsAndCommit's size check is outside the hand model's inputs
	}
	e.emit(M{"f": "lv.verify", "trustedH": U(h.TrustedHeight.RevisionHeight), "untrustedH": U(uint64(h.Header.Height)),
		"trustedTs": I(cons.Timestamp.UnixNano()), "untrustedTs": I(h.Header.Time.UnixNano()), "now": I(e.Now.UnixNano()),
		"tp": I(int64(cs.TrustingPeriod)), "drift": I(int64(cs.MaxClockDrift)),
		"basicOK": sh.ValidateBasic(cs.ChainId) == nil, "valsHashOK": string(h.Header.ValidatorsHash) == string(vs.Hash()),
		"nextValsMatch": string(h.Header.ValidatorsHash) == string(cons.NextValidatorsHash),
		"ownTotal": U(uint64(vs.TotalVotingPower())), "own": own, "trustTotal": U(uint64(tv.TotalVotingPower())), "trust": trust,
		"tlNum": U(cs.TrustLevel.Numerator), "tlDen": U(cs.TrustLevel.Denominator)}, Ok(got))
}
