// chain: oracle-client correspondence harness for the L3 single-chain core model.
//
//	chain [-groups a,b] -n <histories> -monitor <histories> -cases cases.jsonl -violations viol.jsonl
//	chain -replay requests.jsonl -cases cases.jsonl
package main

import (
	"bufio"
	"encoding/json"
	"flag"
	"fmt"
	"os"
	"runtime/pprof"
	"strings"

	"verif/harness/chain"
	"verif/harness/lib"
)

func main() {
	groups := flag.String("groups", "", "comma-separated generator groups (empty = all)")
	n := flag.Int("n", 200, "histories per group (correspondence stream)")
	mon := flag.Int("monitor", 200, "histories per group (monitor-only stream)")
	casesPath := flag.String("cases", "cases.jsonl", "output: correspondence cases")
	violPath := flag.String("violations", "violations.jsonl", "output: monitor violations")
	replay := flag.String("replay", "", "evaluate the requests of this JSON-lines file instead of generating")
	dbg := flag.Bool("dbg", false, "add a dbg field (error text, light-client calls) to every case")
	prof := flag.String("cpuprofile", "", "write a CPU profile")
	flag.Parse()
	if *prof != "" {
		pf, _ := os.Create(*prof)
		pprof.StartCPUProfile(pf)
		defer pprof.StopCPUProfile()
	}

	env := chain.NewEnv()
	cs, err := lib.NewSink(*casesPath)
	if err != nil {
		fmt.Fprintln(os.Stderr, err)
		os.Exit(2)
	}
	if *replay != "" {
		doReplay(env, *replay, cs, *dbg)
		return
	}
	vs, err := lib.NewSink(*violPath)
	if err != nil {
		fmt.Fprintln(os.Stderr, err)
		os.Exit(2)
	}
	want := map[string]bool{}
	for _, g := range strings.Split(*groups, ",") {
		if g != "" {
			want[g] = true
		}
	}
	found := chain.Run(env, want, lib.EnvSeed(), *n, *mon, cs, vs, *dbg)
	cs.Close()
	vs.Close()
	if found == 0 {
		fmt.Fprintln(os.Stderr, "no such group")
		os.Exit(2)
	}
	fmt.Printf("cases=%d violations=%d\n", cs.N, vs.N)
}

func doReplay(env *chain.Env, path string, cs *lib.Sink, dbg bool) {
	f, err := os.Open(path)
	if err != nil {
		fmt.Fprintln(os.Stderr, err)
		os.Exit(2)
	}
	defer f.Close()
	sc := bufio.NewScanner(f)
	sc.Buffer(make([]byte, 1<<20), 1<<26)
	mons := chain.NewMonitors(func(v lib.Violation) {
		b, _ := json.Marshal(v)
		fmt.Fprintln(os.Stderr, "VIOLATION", string(b))
	})
	for sc.Scan() {
		var in lib.M
		if err := json.Unmarshal(sc.Bytes(), &in); err != nil {
			continue
		}
		if inner, ok := in["in"].(map[string]any); ok {
			in = inner
		}
		out, d := env.Step(in)
		mons.Observe(in, out)
		c := chain.Case{In: in, Out: out}
		if dbg {
			c.Dbg = d
		}
		cs.Put(c)
	}
	cs.Close()
	fmt.Printf("cases=%d\n", cs.N)
}
