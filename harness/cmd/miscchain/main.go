// miscchain: ibctesting-based engines of the misc cluster (C44 genesis, C45 determinism).
//   miscchain -groups genesis -n 5 -monitor 5 -cases cases.jsonl -violations viol.jsonl
package main

import (
	"os"

	"verif/harness/misc/reg"
	"verif/harness/miscchain"
)

func main() {
	// determinism engine: the binary re-executes itself as a child replaying one history
	if len(os.Args) > 1 && os.Args[1] == "-child" {
		os.Exit(miscchain.ChildMain(os.Args[2:]))
	}
	reg.Main()
}
