// xfer: ICS-20 correspondence harness (see verif/harness/xfer).
package main

import (
	"os"

	"verif/harness/xfer"
)

func main() { os.Exit(xfer.Main()) }
