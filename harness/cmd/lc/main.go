// lc: runs the light-client engines (localhost, attest, solo) against the real ibc-go code.
//
//	lc -groups localhost -n 30 -monitor 30 -cases cases.jsonl -violations viol.jsonl
//	lc -groups localhost -replay requests.jsonl -cases cases.jsonl
package main

import (
	"bufio"
	"encoding/json"
	"flag"
	"fmt"
	"os"
	"strings"

	"verif/harness/lc"
	"verif/harness/lib"
)

func main() {
	groups := flag.String("groups", "", "engine name (exactly one of: localhost, attest, solo)")
	n := flag.Int("n", 20, "histories")
	mon := flag.Int("monitor", 20, "monitored histories")
	casesPath := flag.String("cases", "cases.jsonl", "output: correspondence cases")
	violPath := flag.String("violations", "violations.jsonl", "output: monitor violations")
	replay := flag.String("replay", "", "re-evaluate the requests of this JSON-lines file")
	flag.Parse()
	var engines []lc.Engine
	for _, g := range strings.Split(*groups, ",") {
		for _, e := range lc.Engines {
			if e.Name == g {
				engines = append(engines, e)
			}
		}
	}
	if len(engines) == 0 {
		fmt.Fprintln(os.Stderr, "no such engine:", *groups)
		os.Exit(2)
	}
	cs, err := lib.NewSink(*casesPath)
	if err != nil {
		fmt.Fprintln(os.Stderr, err)
		os.Exit(2)
	}
	emit := func(in lib.M, out any) { cs.Put(lib.Case{In: in, Out: out}) }
	if *replay != "" {
		var reqs []lib.M
		f, err := os.Open(*replay)
		if err != nil {
			fmt.Fprintln(os.Stderr, err)
			os.Exit(2)
		}
		sc := bufio.NewScanner(f)
		sc.Buffer(make([]byte, 1<<20), 1<<28)
		for sc.Scan() {
			var in lib.M
			if err := json.Unmarshal(sc.Bytes(), &in); err != nil {
				continue
			}
			if inner, ok := in["in"].(map[string]any); ok {
				in = inner
			}
			reqs = append(reqs, in)
		}
		f.Close()
		engines[0].Replay(reqs, emit)
		cs.Close()
		fmt.Printf("cases=%d\n", cs.N)
		return
	}
	vs, err := lib.NewSink(*violPath)
	if err != nil {
		fmt.Fprintln(os.Stderr, err)
		os.Exit(2)
	}
	seed := lib.EnvSeed()
	for _, e := range engines {
		r := lib.NewRng(seed ^ hash(e.Name))
		if e.Gen != nil && *n > 0 {
			e.Gen(r.Fork(), *n, emit)
		}
		if e.Monitor != nil && *mon > 0 {
			cnt := map[string]int{} // per (property, key)
			e.Monitor(r.Fork(), *mon, func(v lc.Violation) {
				k := v.Property + "|" + v.Key
				if cnt[k] < 8 {
					vs.Put(v)
				}
				cnt[k]++
			})
		}
	}
	cs.Close()
	vs.Close()
	fmt.Printf("cases=%d violations=%d\n", cs.N, vs.N)
}

func hash(s string) uint64 {
	h := uint64(1469598103934665603)
	for i := 0; i < len(s); i++ {
		h ^= uint64(s[i])
		h *= 1099511628211
	}
	return h
}
