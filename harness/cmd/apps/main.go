// apps: runs the application-middleware engines against the real ibc-go code.
//
//	apps -groups ratelimit -n 200 -monitor 200 -cases cases.jsonl -violations viol.jsonl
//	apps -groups ratelimit -replay requests.jsonl -cases cases.jsonl
package main

import (
	"bufio"
	"encoding/json"
	"flag"
	"fmt"
	"os"
	"strings"

	"verif/harness/apps"
	"verif/harness/lib"
)

func main() {
	groups := flag.String("groups", "", "comma-separated engine names (empty = all)")
	n := flag.Int("n", 100, "histories per engine")
	mon := flag.Int("monitor", 100, "monitor iterations per engine")
	casesPath := flag.String("cases", "cases.jsonl", "output: correspondence cases")
	violPath := flag.String("violations", "violations.jsonl", "output: monitor violations")
	replay := flag.String("replay", "", "evaluate the requests of this JSON-lines file instead of generating")
	flag.Parse()
	want := map[string]bool{}
	for _, g := range strings.Split(*groups, ",") {
		if g != "" {
			want[g] = true
		}
	}
	cs, err := lib.NewSink(*casesPath)
	if err != nil {
		fmt.Fprintln(os.Stderr, err)
		os.Exit(2)
	}
	if *replay != "" {
		doReplay(*replay, cs, want)
		return
	}
	vs, err := lib.NewSink(*violPath)
	if err != nil {
		fmt.Fprintln(os.Stderr, err)
		os.Exit(2)
	}
	seed := lib.EnvSeed()
	found := 0
	for _, e := range apps.Engines {
		if len(want) > 0 && !want[e.Name] {
			continue
		}
		found++
		r := lib.NewRng(seed ^ hash(e.Name))
		if e.Gen != nil && *n > 0 {
			ex := e.New()
			e.Gen(r.Fork(), *n, func(in lib.M) any {
				out := lib.Safe(func() any { return ex.Do(in) })
				cs.Put(lib.Case{In: in, Out: out})
				return out
			})
		}
		if e.Monitor != nil && *mon > 0 {
			cnt := map[string]int{} // per (property, key): a flood of one kind must not starve the others
			budget := *mon
			if e.MaxMonitor > 0 && budget > e.MaxMonitor {
				budget = e.MaxMonitor
			}
			e.Monitor(r.Fork(), budget, func(v apps.Viol) {
				k := v.Property + "|" + v.Key
				if cnt[k] < 8 {
					vs.Put(v)
				}
				cnt[k]++
			})
		}
	}
	cs.Close()
	vs.Close()
	if found == 0 {
		fmt.Fprintln(os.Stderr, "no such engine")
		os.Exit(2)
	}
	fmt.Printf("cases=%d violations=%d\n", cs.N, vs.N)
}

func hash(s string) uint64 {
	h := uint64(1469598103934665603)
	for i := 0; i < len(s); i++ {
		h ^= uint64(s[i])
		h *= 1099511628211
	}
	return h
}

func doReplay(path string, cs *lib.Sink, want map[string]bool) {
	f, err := os.Open(path)
	if err != nil {
		fmt.Fprintln(os.Stderr, err)
		os.Exit(2)
	}
	defer f.Close()
	// the executor is chosen by -groups, else by the "engine" field of each reset request
	execs := map[string]apps.Executor{}
	get := func(name string) apps.Executor {
		if ex, ok := execs[name]; ok {
			return ex
		}
		for _, e := range apps.Engines {
			if e.Name == name {
				execs[name] = e.New()
				return execs[name]
			}
		}
		return nil
	}
	var ex apps.Executor
	for _, e := range apps.Engines {
		if want[e.Name] {
			ex = get(e.Name)
			break
		}
	}
	sc := bufio.NewScanner(f)
	sc.Buffer(make([]byte, 1<<20), 1<<26)
	for sc.Scan() {
		var in lib.M
		if err := json.Unmarshal(sc.Bytes(), &in); err != nil {
			continue
		}
		if inner, ok := in["in"].(map[string]any); ok {
			in = inner
		}
		if name, ok := in["engine"].(string); ok {
			if x := get(name); x != nil {
				ex = x
			}
		}
		if ex == nil {
			cs.Put(lib.Case{In: in, Out: lib.M{"bad": "no engine selected"}})
			continue
		}
		cur := ex
		cs.Put(lib.Case{In: in, Out: lib.Safe(func() any { return cur.Do(in) })})
	}
	cs.Close()
	fmt.Printf("cases=%d\n", cs.N)
}
