// purefn: runs the stateless-function groups against the real ibc-go code.
//   purefn -groups height,keys -n 2000 -cases cases.jsonl -violations viol.jsonl
package main

import (
	"bufio"
	"encoding/json"
	"flag"
	"fmt"
	"os"
	"strings"

	"verif/harness/lib"
	"verif/harness/purefn"
)

func main() {
	groups := flag.String("groups", "", "comma-separated group names (empty = all)")
	n := flag.Int("n", 1000, "iterations per group")
	mon := flag.Int("monitor", 1000, "monitor iterations per group")
	casesPath := flag.String("cases", "cases.jsonl", "output: correspondence cases")
	violPath := flag.String("violations", "violations.jsonl", "output: monitor violations")
	replay := flag.String("replay", "", "evaluate the requests of this JSON-lines file (one request per line) instead of generating")
	flag.Parse()
	if *replay != "" {
		doReplay(*replay, *casesPath)
		return
	}
	want := map[string]bool{}
	for _, g := range strings.Split(*groups, ",") {
		if g != "" {
			want[g] = true
		}
	}
	cs, err := lib.NewSink(*casesPath)
	if err != nil {
		fmt.Fprintln(os.Stderr, err)
		os.Exit(2)
	}
	vs, err := lib.NewSink(*violPath)
	if err != nil {
		fmt.Fprintln(os.Stderr, err)
		os.Exit(2)
	}
	seed := lib.EnvSeed()
	found := 0
	for _, g := range purefn.Groups {
		if len(want) > 0 && !want[g.Name] {
			continue
		}
		found++
		r := lib.NewRng(seed ^ hash(g.Name))
		if g.Gen != nil {
			g.Gen(r.Fork(), *n, func(in lib.M) { cs.Put(lib.Case{In: in, Out: purefn.Eval(in)}) })
		}
		if g.Monitor != nil {
			cnt := map[string]int{}
			g.Monitor(r.Fork(), *mon, func(v lib.Violation) {
				k := v.Property + "/" + v.Key + "/" + v.What
				if cnt[k] < 5 {
					vs.Put(v)
				}
				cnt[k]++
			})
		}
	}
	cs.Close()
	vs.Close()
	if found == 0 {
		fmt.Fprintln(os.Stderr, "no such group")
		os.Exit(2)
	}
	fmt.Printf("cases=%d violations=%d\n", cs.N, vs.N)
}

func hash(s string) uint64 {
	h := uint64(1469598103934665603)
	for i := 0; i < len(s); i++ {
		h ^= uint64(s[i])
		h *= 1099511628211
	}
	return h
}

func doReplay(path, out string) {
	f, err := os.Open(path)
	if err != nil {
		fmt.Fprintln(os.Stderr, err)
		os.Exit(2)
	}
	defer f.Close()
	cs, err := lib.NewSink(out)
	if err != nil {
		fmt.Fprintln(os.Stderr, err)
		os.Exit(2)
	}
	sc := bufio.NewScanner(f)
	sc.Buffer(make([]byte, 1<<20), 1<<26)
	for sc.Scan() {
		var in lib.M
		if err := json.Unmarshal(sc.Bytes(), &in); err != nil {
			continue
		}
		if inner, ok := in["in"].(map[string]any); ok {
			in = inner
		}
		cs.Put(lib.Case{In: in, Out: purefn.Eval(in)})
	}
	cs.Close()
	fmt.Printf("cases=%d\n", cs.N)
}
