// world: real-chain engine for the L4 properties.  Same command-line contract as cmd/purefn, except
// that Gen emits complete cases ({"in":…, "out":…}) because the implementation's answer comes from the
// live chains of the generated history.
package main

import (
	"flag"
	"fmt"
	"os"
	"strings"

	"verif/harness/lib"
	"verif/harness/world"
)

func main() {
	groups := flag.String("groups", "", "comma-separated group names (empty = all)")
	n := flag.Int("n", 5, "histories per group")
	mon := flag.Int("monitor", 5, "monitor histories per group")
	casesPath := flag.String("cases", "cases.jsonl", "output: correspondence cases")
	violPath := flag.String("violations", "violations.jsonl", "output: monitor violations")
	flag.String("replay", "", "unsupported for this engine (histories are regenerated from VERIF_SEED)")
	flag.Parse()
	want := map[string]bool{}
	for _, g := range strings.Split(*groups, ",") {
		if g != "" {
			want[g] = true
		}
	}
	cs, err := lib.NewSink(*casesPath)
	if err != nil {
		fmt.Fprintln(os.Stderr, err)
		os.Exit(2)
	}
	vs, err := lib.NewSink(*violPath)
	if err != nil {
		fmt.Fprintln(os.Stderr, err)
		os.Exit(2)
	}
	seed := lib.EnvSeed()
	for gi, g := range world.Groups {
		if len(want) > 0 && !want[g.Name] {
			continue
		}
		r := lib.NewRng(seed*7919 + uint64(gi))
		if g.Gen != nil && *n > 0 {
			g.Gen(r.Fork(), *n, func(c lib.M) { cs.Put(c) })
		}
		if g.Monitor != nil && *mon > 0 {
			cnt := map[string]int{}
			g.Monitor(r.Fork(), *mon, func(v lib.Violation) {
				k := v.Key + "/" + v.What
				if cnt[k] < 5 {
					vs.Put(v)
				}
				cnt[k]++
			})
		}
	}
	cs.Close()
	vs.Close()
	fmt.Printf("cases=%d violations=%d\n", cs.N, vs.N)
}
