// misc: stateless engines of the misc cluster (C35 codec, C47 fuzz/parsers, C45 map-range folds)
// evaluated on the real ibc-go code.
//   misc -groups codec -n 300 -monitor 300 -cases cases.jsonl -violations viol.jsonl
package main

import (
	_ "verif/harness/misc"
	"verif/harness/misc/reg"
)

func main() { reg.Main() }
