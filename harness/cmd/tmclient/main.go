// tmclient: drives the real 07-tendermint light client (and the 02-client keeper paths around it)
// and writes correspondence cases for the Lean model `tmmodel tmclient`.
//   tmclient -groups update,raw -n 300 -monitor 300 -cases cases.jsonl -violations viol.jsonl
//   tmclient -replay requests.jsonl -cases cases.jsonl
package main

import (
	"bufio"
	"encoding/json"
	"flag"
	"fmt"
	"os"
	"strings"

	"verif/harness/lib"
	"verif/harness/tmclient"
)

func main() {
	groups := flag.String("groups", "", "comma-separated group names (empty = all)")
	n := flag.Int("n", 100, "histories per group (cases written)")
	mon := flag.Int("monitor", 100, "extra histories per group evaluated by the monitors only")
	casesPath := flag.String("cases", "cases.jsonl", "output: correspondence cases")
	violPath := flag.String("violations", "violations.jsonl", "output: monitor violations")
	replay := flag.String("replay", "", "evaluate the requests of this JSON-lines file instead of generating")
	flag.Parse()

	cs, err := lib.NewSink(*casesPath)
	if err != nil {
		fmt.Fprintln(os.Stderr, err)
		os.Exit(2)
	}
	env := tmclient.NewEnv()
	if *replay != "" {
		env.SetSinks(func(in lib.M, out any) { cs.Put(lib.Case{In: in, Out: out}) }, func(any) {})
		doReplay(env, *replay)
		cs.Close()
		fmt.Printf("cases=%d\n", cs.N)
		return
	}
	vs, err := lib.NewSink(*violPath)
	if err != nil {
		fmt.Fprintln(os.Stderr, err)
		os.Exit(2)
	}
	want := map[string]bool{}
	for _, g := range strings.Split(*groups, ",") {
		if g != "" {
			want[g] = true
		}
	}
	seed := lib.EnvSeed()
	found := 0
	perKey := map[string]int{}
	report := func(v any) {
		k := tmclient.ViolKey(v)
		perKey[k]++
		if perKey[k] <= 3 {
			vs.Put(v)
		}
	}
	for _, g := range tmclient.Groups {
		if len(want) > 0 && !want[g.Name] {
			continue
		}
		found++
		r := lib.NewRng(seed ^ hash(g.Name))
		env.SetSinks(func(in lib.M, out any) { cs.Put(lib.Case{In: in, Out: out}) }, report)
		g.Gen(env, r.Fork(), *n)
		env.SetSinks(func(lib.M, any) {}, report)
		g.Gen(env, r.Fork(), *mon)
	}
	cs.Close()
	vs.Close()
	if found == 0 {
		fmt.Fprintln(os.Stderr, "no such group")
		os.Exit(2)
	}
	fmt.Printf("cases=%d violations=%d\n", cs.N, vs.N)
}

func hash(s string) uint64 {
	h := uint64(1469598103934665603)
	for i := 0; i < len(s); i++ {
		h ^= uint64(s[i])
		h *= 1099511628211
	}
	return h
}

func doReplay(env *tmclient.Env, path string) {
	f, err := os.Open(path)
	if err != nil {
		fmt.Fprintln(os.Stderr, err)
		os.Exit(2)
	}
	defer f.Close()
	sc := bufio.NewScanner(f)
	sc.Buffer(make([]byte, 1<<20), 1<<28)
	for sc.Scan() {
		var in lib.M
		if err := json.Unmarshal(sc.Bytes(), &in); err != nil {
			continue
		}
		if inner, ok := in["in"].(map[string]any); ok {
			in = inner
		}
		env.Replay(in)
	}
}
