package main

import (
	"fmt"
	"testing"
	"time"

	ibctesting "github.com/cosmos/ibc-go/v11/testing"
	ibctm "github.com/cosmos/ibc-go/v11/modules/light-clients/07-tendermint"
	clienttypes "github.com/cosmos/ibc-go/v11/modules/core/02-client/types"
)

func main() {
	t0 := time.Now()
	t := &testing.T{}
	coord := ibctesting.NewCoordinator(t, 2)
	a := coord.GetChain(ibctesting.GetChainID(1))
	b := coord.GetChain(ibctesting.GetChainID(2))
	path := ibctesting.NewPath(a, b)
	path.SetupClients()
	fmt.Println("setup", time.Since(t0), path.EndpointA.ClientID)
	cs := a.GetClientState(path.EndpointA.ClientID).(*ibctm.ClientState)
	fmt.Println(cs.LatestHeight, cs.ChainId, cs.TrustingPeriod)
	store := a.App.GetIBCKeeper().ClientKeeper.ClientStore(a.GetContext(), path.EndpointA.ClientID)
	it := store.Iterator(nil, nil)
	for ; it.Valid(); it.Next() {
		fmt.Printf("%q => %d bytes\n", it.Key(), len(it.Value()))
	}
	it.Close()
	fmt.Printf("%x\n", ibctm.VerifBigEndianHeightBytes(clienttypes.NewHeight(1, 47)))
}
