package chain

import (
	"encoding/hex"
	"fmt"
	"strconv"

	"github.com/cosmos/ibc-go/v11/modules/core/exported"
	"github.com/cosmos/ibc-go/v11/testing/simapp"
)

// Hand-written proto.Message implementations so that real MsgCreateClient / MsgUpdateClient
// messages can carry a client state / consensus state / client message whose ClientType() is the
// scripted light client's type.  They are only ever used through Any's cached value.

type VerifClientState struct{ Type string }

func (m *VerifClientState) Reset()                   { *m = VerifClientState{} }
func (m *VerifClientState) String() string           { return "VerifClientState(" + m.Type + ")" }
func (*VerifClientState) ProtoMessage()              {}
func (*VerifClientState) XXX_MessageName() string    { return "verif.ClientState" }
func (m *VerifClientState) Marshal() ([]byte, error) { return []byte(m.Type), nil }
func (m *VerifClientState) Unmarshal(b []byte) error { m.Type = string(b); return nil }
func (m *VerifClientState) ClientType() string       { return m.Type }
func (m *VerifClientState) Validate() error          { return nil }

type VerifConsensusState struct{ Type string }

func (m *VerifConsensusState) Reset()                   { *m = VerifConsensusState{} }
func (m *VerifConsensusState) String() string           { return "VerifConsensusState(" + m.Type + ")" }
func (*VerifConsensusState) ProtoMessage()              {}
func (*VerifConsensusState) XXX_MessageName() string    { return "verif.ConsensusState" }
func (m *VerifConsensusState) Marshal() ([]byte, error) { return []byte(m.Type), nil }
func (m *VerifConsensusState) Unmarshal(b []byte) error { m.Type = string(b); return nil }
func (m *VerifConsensusState) ClientType() string       { return m.Type }
func (m *VerifConsensusState) GetTimestamp() uint64     { return 1 }
func (m *VerifConsensusState) ValidateBasic() error     { return nil }

type VerifClientMessage struct{ Type string }

func (m *VerifClientMessage) Reset()                   { *m = VerifClientMessage{} }
func (m *VerifClientMessage) String() string           { return "VerifClientMessage(" + m.Type + ")" }
func (*VerifClientMessage) ProtoMessage()              {}
func (*VerifClientMessage) XXX_MessageName() string    { return "verif.ClientMessage" }
func (m *VerifClientMessage) Marshal() ([]byte, error) { return []byte(m.Type), nil }
func (m *VerifClientMessage) Unmarshal(b []byte) error { m.Type = string(b); return nil }
func (m *VerifClientMessage) ClientType() string       { return m.Type }
func (m *VerifClientMessage) ValidateBasic() error     { return nil }

var (
	_ exported.ClientState    = (*VerifClientState)(nil)
	_ exported.ConsensusState = (*VerifConsensusState)(nil)
	_ exported.ClientMessage  = (*VerifClientMessage)(nil)
)

func registerVerifTypes(app *simapp.SimApp) {
	reg := app.InterfaceRegistry()
	reg.RegisterImplementations((*exported.ClientState)(nil), &VerifClientState{})
	reg.RegisterImplementations((*exported.ConsensusState)(nil), &VerifConsensusState{})
	reg.RegisterImplementations((*exported.ClientMessage)(nil), &VerifClientMessage{})
}

// ---- request accessors (requests come from the generator or from JSON in replay mode) ----

func gs(m map[string]any, k string) string {
	s, ok := m[k].(string)
	if !ok {
		panic(fmt.Sprintf("harness: field %q missing or not a string in %v", k, m))
	}
	return s
}

func gsd(m map[string]any, k, def string) string {
	if s, ok := m[k].(string); ok {
		return s
	}
	return def
}

func gn(m map[string]any, k string) uint64 {
	switch v := m[k].(type) {
	case string:
		n, err := strconv.ParseUint(v, 10, 64)
		if err != nil {
			panic("harness: bad number " + v)
		}
		return n
	case float64:
		return uint64(v)
	case int:
		return uint64(v)
	case uint64:
		return v
	}
	panic(fmt.Sprintf("harness: numeric field %q missing in %v", k, m))
}

func gm(m map[string]any, k string) map[string]any {
	switch v := m[k].(type) {
	case map[string]any:
		return v
	}
	panic(fmt.Sprintf("harness: object field %q missing in %v", k, m))
}

func gmo(m map[string]any, k string) (map[string]any, bool) {
	v, ok := m[k].(map[string]any)
	return v, ok
}

func gb(m map[string]any, k string) bool { b, _ := m[k].(bool); return b }

func gh(m map[string]any, k string) []byte {
	b, err := hex.DecodeString(gs(m, k))
	if err != nil {
		panic("harness: bad hex in " + k)
	}
	return b
}

func glist(m map[string]any, k string) []map[string]any {
	switch v := m[k].(type) {
	case []map[string]any:
		return v
	case []any:
		out := make([]map[string]any, len(v))
		for i, x := range v {
			out[i], _ = x.(map[string]any)
		}
		return out
	}
	return nil
}

func gstrs(m map[string]any, k string) []string {
	switch v := m[k].(type) {
	case []string:
		return v
	case []any:
		out := make([]string, len(v))
		for i, x := range v {
			out[i], _ = x.(string)
		}
		return out
	}
	return nil
}
