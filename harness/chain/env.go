// Package chain: "oracle-client mode" correspondence harness for the L3 single-chain core model
// (lean/IbcVerif/Model/Chain*.lean).
//
// ONE ibctesting chain (simapp + mock apps) is built per process.  A harness-defined light client
// module is registered at run time through the public router (client types "99-verif", "98-verif");
// every answer it gives (Status / LatestHeight / TimestampAtHeight / VerifyMembership /
// VerifyNonMembership / VerifyClientMessage) is dictated by the current op's "lc" script, so the
// adversary of the L3 theorems ("any proof may verify") is exercised on the real handlers.
// The mock applications (testing/mock, testing/mock/v2) are scripted per op as well ("app"/"apps").
//
// Every op is executed by the REAL handler (core msg servers of modules/core/keeper/msg_server.go and
// modules/core/04-channel/v2/keeper/msg_server.go, or — for the calls an application makes — the
// public keeper API SendPacket / WriteAcknowledgement) on a cached context that is committed only
// when the handler returns nil, exactly like a transaction.  The answer carries the result class,
// the canonical delta of the whole "ibc" store (typed by canon.go; unknown keys are reported raw,
// so an unexpected write is a mismatch) plus the scripted application store, and the committed
// application-callback log.
//
// Histories never touch the committed chain state: each history runs on a fresh cache branch of the
// genesis state, so thousands of histories cost no block production.
package chain

import (
	"fmt"
	"sort"
	"testing"
	"time"

	dbm "github.com/cosmos/cosmos-db"

	"cosmossdk.io/log/v2"
	storetypes "github.com/cosmos/cosmos-sdk/store/v2/types"

	simtestutil "github.com/cosmos/cosmos-sdk/testutil/sims"
	sdk "github.com/cosmos/cosmos-sdk/types"

	cmttypes "github.com/cometbft/cometbft/types"

	transfertypes "github.com/cosmos/ibc-go/v11/modules/apps/transfer/types"
	ibcexported "github.com/cosmos/ibc-go/v11/modules/core/exported"
	ibctesting "github.com/cosmos/ibc-go/v11/testing"
	"github.com/cosmos/ibc-go/v11/testing/simapp"

	"verif/harness/lib"
)

// fakeTB satisfies testing.TB for ibctesting's constructors; a failed require panics (caught by lib.Safe).
type fakeTB struct{ testing.TB }

func (fakeTB) Helper()                   {}
func (fakeTB) Name() string              { return "verif-chain" }
func (fakeTB) Logf(string, ...any)       {}
func (fakeTB) Log(...any)                {}
func (fakeTB) Errorf(f string, a ...any) { panic("ibctesting: " + fmt.Sprintf(f, a...)) }
func (fakeTB) Error(a ...any)            { panic("ibctesting: " + fmt.Sprint(a...)) }
func (fakeTB) Fatalf(f string, a ...any) { panic("ibctesting: " + fmt.Sprintf(f, a...)) }
func (fakeTB) Fatal(a ...any)            { panic("ibctesting: " + fmt.Sprint(a...)) }
func (fakeTB) FailNow()                  { panic("ibctesting: FailNow") }
func (fakeTB) Fail()                     { panic("ibctesting: Fail") }
func (fakeTB) Failed() bool              { return false }
func (fakeTB) Cleanup(func())            {}
func (fakeTB) TempDir() string           { return "/tmp" }
func (fakeTB) Setenv(string, string)     {}
func (fakeTB) Skip(...any)               {}
func (fakeTB) SkipNow()                  {}
func (fakeTB) Skipf(string, ...any)      {}
func (fakeTB) Skipped() bool             { return false }

const (
	ChainID   = "testchain1-1" // revision 1
	AppStore  = transfertypes.StoreKey
	AppPrefix = "verif/"
)

// Env is the single chain plus the scripting state shared with the light client and the mock apps.
type Env struct {
	Chain *ibctesting.TestChain
	App   *simapp.SimApp
	base  sdk.Context // genesis state (never written)
	hctx  sdk.Context // current history branch
	LC    *LightClient

	ibcKey storetypes.StoreKey
	appKey storetypes.StoreKey

	// per-op scripting
	cur     *opScript
	cbLog   []string          // callbacks of the op being executed
	Signers map[string]string // symbolic signer -> bech32
	names   map[string]string // bech32 -> symbolic signer

	snapIBC map[string]string // snapshot of the ibc store of hctx
	snapApp map[string]string

	dict *Dict // commitment hash -> canonical preimage description
}

func sims() simtestutil.AppOptionsMap { return simtestutil.AppOptionsMap{} }

// NewEnv builds the chain once.
func NewEnv() *Env {
	tb := fakeTB{}
	coord := &ibctesting.Coordinator{CurrentTime: time.Date(2020, 1, 2, 0, 0, 0, 0, time.UTC)}
	var vals []*cmttypes.Validator
	signers := map[string]cmttypes.PrivValidator{}
	for i := 0; i < 4; i++ {
		_, pv := cmttypes.RandValidator(false, 100)
		pk, err := pv.GetPubKey()
		if err != nil {
			panic(err)
		}
		vals = append(vals, cmttypes.NewValidator(pk, 1))
		signers[pk.Address().String()] = pv
	}
	valSet := cmttypes.NewValidatorSet(vals)
	ch := ibctesting.NewTestChainWithValSet(tb, coord, ChainID, valSet, signers)
	coord.Chains = map[string]*ibctesting.TestChain{ChainID: ch}
	app := ch.App.(*simapp.SimApp)
	e := &Env{Chain: ch, App: app, Signers: map[string]string{}, names: map[string]string{}, dict: newDict()}
	e.ibcKey = app.GetKey(ibcexported.StoreKey)
	e.appKey = app.GetKey(AppStore)
	e.LC = &LightClient{env: e}
	app.IBCKeeper.ClientKeeper.AddRoute(ClientTypeA, e.LC)
	app.IBCKeeper.ClientKeeper.AddRoute(ClientTypeB, e.LC)
	registerVerifTypes(app)
	e.Signers["auth"] = app.IBCKeeper.GetAuthority()
	for i, n := range []string{"alice", "bob", "carol", "dave"} {
		b := make([]byte, 20)
		for j := range b {
			b[j] = byte(0x10*(i+1) + j)
		}
		e.Signers[n] = sdk.AccAddress(b).String()
	}
	for n, a := range e.Signers {
		e.names[a] = n
	}
	e.installMocks()
	e.base = ch.GetContext()
	e.Reset()
	return e
}

// Reset starts a new history on a fresh branch of the genesis state.
func (e *Env) Reset() {
	e.hctx, _ = e.base.CacheContext()
	e.snapIBC = e.readStore(e.hctx, e.ibcKey, "")
	e.snapApp = e.readStore(e.hctx, e.appKey, AppPrefix)
	e.cur = nil
	e.cbLog = nil
}

func (e *Env) readStore(ctx sdk.Context, key storetypes.StoreKey, prefix string) map[string]string {
	out := map[string]string{}
	st := ctx.KVStore(key)
	var it storetypes.Iterator
	if prefix == "" {
		it = st.Iterator(nil, nil)
	} else {
		it = storetypes.KVStorePrefixIterator(st, []byte(prefix))
	}
	defer it.Close()
	for ; it.Valid(); it.Next() {
		out[string(it.Key())] = string(it.Value())
	}
	return out
}

// Entry is one canonical delta entry: [kind, key, value] (value nil = deleted).
type Entry struct {
	Kind, Key string
	Val       any
}

func sortEntries(es []Entry) [][]any {
	sort.Slice(es, func(i, j int) bool {
		if es[i].Kind != es[j].Kind {
			return es[i].Kind < es[j].Kind
		}
		return es[i].Key < es[j].Key
	})
	out := make([][]any, len(es))
	for i, x := range es {
		out[i] = []any{x.Kind, x.Key, x.Val}
	}
	return out
}

func diffMaps(before, after map[string]string, f func(k string, v *string)) {
	for k, v := range after {
		if b, ok := before[k]; !ok || b != v {
			vv := v
			f(k, &vv)
		}
	}
	for k := range before {
		if _, ok := after[k]; !ok {
			f(k, nil)
		}
	}
}

// Exec runs one op (already a JSON-like map) and returns the canonical answer.
func (e *Env) Exec(op lib.M) (out any) {
	f := gs(op, "f")
	if f == "reset" {
		e.Reset()
		return lib.M{"r": "reset"}
	}
	octx, write := e.hctx.CacheContext()
	now := gm(op, "now")
	octx = octx.WithBlockHeight(int64(gn(now, "h"))).WithBlockTime(time.Unix(0, int64(gn(now, "t"))).UTC())
	e.cur = newScript(op)
	e.cbLog = nil
	var res result
	caught := lib.Safe(func() any {
		res = e.dispatch(octx, f, op)
		return nil
	})
	if caught != nil {
		return lib.M{"panic": "x", "msg": fmt.Sprint(caught.(lib.M)["panic"])}
	}
	if res.bad != "" {
		return lib.M{"bad": res.bad}
	}
	if res.err != nil {
		return lib.M{"err": errClass(res.err), "msg": res.err.Error()}
	}
	write()
	afterIBC := e.readStore(e.hctx, e.ibcKey, "")
	afterApp := e.readStore(e.hctx, e.appKey, AppPrefix)
	var es []Entry
	diffMaps(e.snapIBC, afterIBC, func(k string, v *string) { es = append(es, e.canonIBC(k, v)) })
	diffMaps(e.snapApp, afterApp, func(k string, v *string) {
		var val any
		if v != nil {
			val = *v
		}
		es = append(es, Entry{"app", k[len(AppPrefix):], val})
	})
	e.snapIBC, e.snapApp = afterIBC, afterApp
	cb := e.cbLog
	if cb == nil {
		cb = []string{}
	}
	ans := lib.M{"r": res.class, "d": sortEntries(es), "cb": cb}
	if res.ret != "" {
		ans["ret"] = res.ret
	}
	return ans
}

type result struct {
	class string // "ok" | "noop"
	ret   string
	err   error
	bad   string
}

func okRes(ret string) result { return result{class: "ok", ret: ret} }
func errRes(err error) result { return result{err: err} }

var _ = log.NewNopLogger
var _ = dbm.NewMemDB
var _ = sims
