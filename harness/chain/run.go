package chain

import (
	"os"

	"verif/harness/lib"
)

// Case is one correspondence case; Dbg is ignored by bin/check (error text, light-client calls).
type Case struct {
	In  lib.M `json:"in"`
	Out any   `json:"out"`
	Dbg any   `json:"dbg,omitempty"`
}

// Step teaches the commitment dictionary, executes the op on the real code and returns the
// canonical answer plus debugging information that is not part of the answer.
func (e *Env) Step(op lib.M) (out any, dbg any) {
	e.Learn(op)
	out = e.Exec(op)
	d := lib.M{}
	if m, ok := out.(lib.M); ok {
		if msg, ok := m["msg"]; ok {
			d["msg"] = msg
			delete(m, "msg")
		}
		// the verdict of the real stateless validation is an input of the model
		if m["err"] == "verif/8" {
			op["vb"] = false
		} else {
			delete(op, "vb")
		}
	}
	if e.cur != nil && len(e.cur.Calls) > 0 {
		d["lc"] = e.cur.Calls
	}
	return out, d
}

// Run generates histories for the selected groups.  The first n histories of every group are
// written as correspondence cases (and monitored); the following mon histories are only monitored.
func Run(env *Env, want map[string]bool, seed uint64, n, mon int, cs, vs *lib.Sink, dbg bool) int {
	found := 0
	nviol := map[string]int{} // per (property, key): a flood of one kind must not starve the others
	mons := NewMonitors(func(v lib.Violation) {
		k := v.Property + "|" + v.Key
		if nviol[k] < 10 {
			vs.Put(v)
		}
		nviol[k]++
	})
	for _, g := range Groups {
		if len(want) > 0 && !want[g.Name] {
			continue
		}
		found++
		r := lib.NewRng(seed ^ hashName(g.Name))
		for i := 0; i < n+mon; i++ {
			emit := func(op lib.M) any {
				out, d := env.Step(op)
				mons.Observe(op, out)
				if i < n {
					c := Case{In: op, Out: out}
					if dbg {
						c.Dbg = d
					}
					cs.Put(c)
				}
				return out
			}
			g.Gen(env, r.Fork(), emit)
		}
	}
	return found
}

func tier() string { return os.Getenv("VERIF_TIER") }

func hashName(s string) uint64 {
	h := uint64(1469598103934665603)
	for i := 0; i < len(s); i++ {
		h ^= uint64(s[i])
		h *= 1099511628211
	}
	return h
}

// Group is one history generator: it emits ops (starting with a reset) and sees each answer.
type Group struct {
	Name string
	Gen  func(env *Env, r *lib.Rng, emit func(lib.M) any)
}

var Groups []Group
