package chain

import (
	"fmt"

	errorsmod "cosmossdk.io/errors"

	sdk "github.com/cosmos/cosmos-sdk/types"

	clienttypes "github.com/cosmos/ibc-go/v11/modules/core/02-client/types"
	host "github.com/cosmos/ibc-go/v11/modules/core/24-host"
	"github.com/cosmos/ibc-go/v11/modules/core/exported"
	solomachine "github.com/cosmos/ibc-go/v11/modules/light-clients/06-solomachine"
	"github.com/cosmos/ibc-go/v11/testing/simapp"

	"verif/harness/lib"
)

const (
	ClientTypeA = "99-verif"
	ClientTypeB = "98-verif"
)

var (
	ErrProof   = errorsmod.Register("verif", 2, "scripted proof verdict: invalid")
	ErrLcTs    = errorsmod.Register("verif", 3, "scripted timestamp-at-height: not found")
	ErrApp     = errorsmod.Register("verif", 4, "scripted application callback error")
	ErrLcMsg   = errorsmod.Register("verif", 5, "scripted client message verdict: invalid")
	ErrLcInit  = errorsmod.Register("verif", 6, "scripted initialize error")
	ErrLcRecov = errorsmod.Register("verif", 7, "scripted recover error")
)

// VerifCall records one verification request made by ibc-go to the light client.
type VerifCall struct {
	Kind   string // "mem" | "non"
	Client string
	Height string
	Path   string
	Value  string
	Delay  [2]uint64
	OK     bool
}

// opScript is the adversarial part of the current op: light-client answers and app behaviour.
type opScript struct {
	status   map[string]string // client id -> status, "" key = default
	latest   map[string]clienttypes.Height
	ts       *uint64 // TimestampAtHeight answer (nil -> error)
	verdicts []bool  // answers to successive Verify(Non)Membership calls; missing -> false
	nverify  int
	msgOK    bool // VerifyClientMessage verdict
	initOK   bool
	recovOK  bool
	Calls    []VerifCall
	v2idx    int

	op lib.M
}

func newScript(op lib.M) *opScript {
	s := &opScript{status: map[string]string{}, latest: map[string]clienttypes.Height{}, op: op, msgOK: true, initOK: true, recovOK: true}
	lc, ok := op["lc"].(map[string]any)
	if !ok {
		s.status[""] = "Active"
		s.latest[""] = clienttypes.NewHeight(1, 10)
		return s
	}
	s.status[""] = gsd(lc, "st", "Active")
	if m, ok := lc["stOf"].(map[string]any); ok {
		for k, v := range m {
			s.status[k], _ = v.(string)
		}
	}
	if h, ok := lc["lh"].(map[string]any); ok {
		s.latest[""] = clienttypes.NewHeight(gn(h, "r"), gn(h, "h"))
	} else {
		s.latest[""] = clienttypes.NewHeight(1, 10)
	}
	if m, ok := lc["lhOf"].(map[string]any); ok {
		for k, v := range m {
			hm := v.(map[string]any)
			s.latest[k] = clienttypes.NewHeight(gn(hm, "r"), gn(hm, "h"))
		}
	}
	if v, ok := lc["ts"]; ok && v != nil {
		n := gn(lc, "ts")
		s.ts = &n
	}
	for _, k := range []string{"v1", "v2"} {
		if b, ok := lc[k].(bool); ok {
			s.verdicts = append(s.verdicts, b)
		} else {
			s.verdicts = append(s.verdicts, false)
		}
	}
	if b, ok := lc["msgOK"].(bool); ok {
		s.msgOK = b
	}
	if b, ok := lc["initOK"].(bool); ok {
		s.initOK = b
	}
	if b, ok := lc["recovOK"].(bool); ok {
		s.recovOK = b
	}
	return s
}

// LightClient is the scripted light client module.
type LightClient struct{ env *Env }

var _ exported.LightClientModule = (*LightClient)(nil)

func (l *LightClient) s() *opScript {
	if l.env.cur == nil {
		return newScript(lib.M{})
	}
	return l.env.cur
}

func (l *LightClient) Initialize(ctx sdk.Context, clientID string, clientState, consensusState []byte) error {
	if !l.s().initOK {
		return ErrLcInit
	}
	// a registered client-state type must be present under clients/<id>/clientState because
	// 03-connection's addConnectionToClient unmarshals it
	store := l.env.App.IBCKeeper.ClientKeeper.ClientStore(ctx, clientID)
	store.Set(host.ClientStateKey(), storedClientState(l.env.App))
	return nil
}

func storedClientState(app *simapp.SimApp) []byte {
	cs := solomachine.NewClientState(1, &solomachine.ConsensusState{Diversifier: "verif", Timestamp: 1})
	return clienttypes.MustMarshalClientState(app.AppCodec(), cs)
}

func (l *LightClient) VerifyClientMessage(ctx sdk.Context, clientID string, clientMsg exported.ClientMessage) error {
	if !l.s().msgOK {
		return ErrLcMsg
	}
	return nil
}
func (*LightClient) CheckForMisbehaviour(sdk.Context, string, exported.ClientMessage) bool {
	return false
}
func (*LightClient) UpdateStateOnMisbehaviour(sdk.Context, string, exported.ClientMessage) {}
func (*LightClient) UpdateState(sdk.Context, string, exported.ClientMessage) []exported.Height {
	return []exported.Height{}
}

func (l *LightClient) verdict(kind, clientID string, height exported.Height, dt, db uint64, path exported.Path, value []byte) error {
	s := l.s()
	ok := false
	if s.nverify < len(s.verdicts) {
		ok = s.verdicts[s.nverify]
	}
	s.nverify++
	s.Calls = append(s.Calls, VerifCall{Kind: kind, Client: clientID, Height: height.String(), Path: fmt.Sprint(path), Value: lib.Hex(value), Delay: [2]uint64{dt, db}, OK: ok})
	if !ok {
		return ErrProof
	}
	return nil
}

func (l *LightClient) VerifyMembership(ctx sdk.Context, clientID string, height exported.Height, dt, db uint64, proof []byte, path exported.Path, value []byte) error {
	return l.verdict("mem", clientID, height, dt, db, path, value)
}

func (l *LightClient) VerifyNonMembership(ctx sdk.Context, clientID string, height exported.Height, dt, db uint64, proof []byte, path exported.Path) error {
	return l.verdict("non", clientID, height, dt, db, path, nil)
}

func (l *LightClient) Status(ctx sdk.Context, clientID string) exported.Status {
	s := l.s()
	if st, ok := s.status[clientID]; ok {
		return exported.Status(st)
	}
	return exported.Status(s.status[""])
}

func (l *LightClient) LatestHeight(ctx sdk.Context, clientID string) exported.Height {
	s := l.s()
	if h, ok := s.latest[clientID]; ok {
		return h
	}
	return s.latest[""]
}

func (l *LightClient) TimestampAtHeight(ctx sdk.Context, clientID string, height exported.Height) (uint64, error) {
	s := l.s()
	if s.ts == nil {
		return 0, ErrLcTs
	}
	return *s.ts, nil
}

func (l *LightClient) RecoverClient(ctx sdk.Context, clientID, substituteClientID string) error {
	if !l.s().recovOK {
		return ErrLcRecov
	}
	return nil
}

func (*LightClient) VerifyUpgradeAndUpdateState(ctx sdk.Context, clientID string, newClient, newConsState, upgradeClientProof, upgradeConsensusStateProof []byte) error {
	return nil
}
