package chain

import (
	"fmt"

	sdk "github.com/cosmos/cosmos-sdk/types"

	channeltypes "github.com/cosmos/ibc-go/v11/modules/core/04-channel/types"
	channeltypesv2 "github.com/cosmos/ibc-go/v11/modules/core/04-channel/v2/types"
	"github.com/cosmos/ibc-go/v11/modules/core/exported"
	mockv2 "github.com/cosmos/ibc-go/v11/testing/mock/v2"

	"verif/harness/lib"
)

// scriptAck is the acknowledgement a scripted v1 application returns.
type scriptAck struct {
	ok bool
	bz []byte
}

func (a scriptAck) Success() bool           { return a.ok }
func (a scriptAck) Acknowledgement() []byte { return a.bz }

var _ exported.Acknowledgement = scriptAck{}

func (e *Env) logCb(format string, a ...any) { e.cbLog = append(e.cbLog, fmt.Sprintf(format, a...)) }

func (e *Env) appScript() map[string]any {
	if e.cur == nil {
		return map[string]any{}
	}
	if m, ok := e.cur.op["app"].(map[string]any); ok {
		return m
	}
	return map[string]any{}
}

// appWrites performs the scripted writes of an application callback on the context it was given.
func (e *Env) appWrites(ctx sdk.Context, script map[string]any) {
	w, ok := script["w"]
	if !ok || w == nil {
		return
	}
	n := int(gn(script, "w"))
	tag := gsd(e.cur.op, "tag", "t")
	st := ctx.KVStore(e.appKey)
	for i := 0; i < n; i++ {
		st.Set([]byte(fmt.Sprintf("%sk%d", AppPrefix, i)), []byte(tag))
	}
}

func cbErr(script map[string]any) error {
	if gsd(script, "cb", "ok") == "err" {
		return ErrApp
	}
	return nil
}

func (e *Env) installMocks() {
	a := e.App.IBCMockModule.IBCApp
	a.OnChanOpenInit = func(ctx sdk.Context, order channeltypes.Order, hops []string, portID, channelID string, cp channeltypes.Counterparty, version string) (string, error) {
		s := e.appScript()
		e.logCb("hs init %s %s", portID, channelID)
		e.appWrites(ctx, s)
		if err := cbErr(s); err != nil {
			return "", err
		}
		return gsd(s, "ver", version), nil
	}
	a.OnChanOpenTry = func(ctx sdk.Context, order channeltypes.Order, hops []string, portID, channelID string, cp channeltypes.Counterparty, cpVersion string) (string, error) {
		s := e.appScript()
		e.logCb("hs try %s %s", portID, channelID)
		e.appWrites(ctx, s)
		if err := cbErr(s); err != nil {
			return "", err
		}
		return gsd(s, "ver", cpVersion), nil
	}
	a.OnChanOpenAck = func(ctx sdk.Context, portID, channelID, cpChannelID, cpVersion string) error {
		s := e.appScript()
		e.logCb("hs ack %s %s", portID, channelID)
		e.appWrites(ctx, s)
		return cbErr(s)
	}
	a.OnChanOpenConfirm = func(ctx sdk.Context, portID, channelID string) error {
		s := e.appScript()
		e.logCb("hs confirm %s %s", portID, channelID)
		e.appWrites(ctx, s)
		return cbErr(s)
	}
	a.OnChanCloseInit = func(ctx sdk.Context, portID, channelID string) error {
		s := e.appScript()
		e.logCb("hs closeInit %s %s", portID, channelID)
		e.appWrites(ctx, s)
		return cbErr(s)
	}
	a.OnChanCloseConfirm = func(ctx sdk.Context, portID, channelID string) error {
		s := e.appScript()
		e.logCb("hs closeConfirm %s %s", portID, channelID)
		e.appWrites(ctx, s)
		return cbErr(s)
	}
	a.OnRecvPacket = func(ctx sdk.Context, channelVersion string, p channeltypes.Packet, relayer sdk.AccAddress) exported.Acknowledgement {
		s := e.appScript()
		e.logCb("recv1 %s %s %d", p.DestinationPort, p.DestinationChannel, p.Sequence)
		e.appWrites(ctx, s)
		var ackBz []byte
		if _, ok := s["ack"]; ok {
			ackBz = gh(s, "ack")
		}
		switch gsd(s, "res", "ok") {
		case "ok":
			return scriptAck{true, ackBz}
		case "err":
			return scriptAck{false, ackBz}
		case "async":
			return nil
		case "selfack":
			// the application writes an acknowledgement itself during the callback AND returns one
			_ = e.App.IBCKeeper.ChannelKeeper.WriteAcknowledgement(ctx, p, scriptAck{true, ackBz})
			return scriptAck{true, ackBz}
		}
		panic("harness: unknown app res")
	}
	a.OnAcknowledgementPacket = func(ctx sdk.Context, channelVersion string, p channeltypes.Packet, ack []byte, relayer sdk.AccAddress) error {
		s := e.appScript()
		e.logCb("ack1 %s %s %d %s", p.SourcePort, p.SourceChannel, p.Sequence, lib.Hex(ack))
		e.appWrites(ctx, s)
		return cbErr(s)
	}
	a.OnTimeoutPacket = func(ctx sdk.Context, channelVersion string, p channeltypes.Packet, relayer sdk.AccAddress) error {
		s := e.appScript()
		e.logCb("timeout1 %s %s %d", p.SourcePort, p.SourceChannel, p.Sequence)
		e.appWrites(ctx, s)
		return cbErr(s)
	}

	e.installV2(e.App.MockModuleV2A.IBCApp)
	e.installV2(e.App.MockModuleV2B.IBCApp)
}

// per-payload scripts for v2: op["apps"][i] for the i-th callback invocation of the op
func (e *Env) v2Script() map[string]any {
	idx := e.cur.v2idx
	e.cur.v2idx++
	l := glist(e.cur.op, "apps")
	if idx < len(l) && l[idx] != nil {
		return l[idx]
	}
	return map[string]any{}
}

func (e *Env) installV2(a *mockv2.IBCApp) {
	a.OnSendPacket = func(ctx sdk.Context, src, dst string, seq uint64, pd channeltypesv2.Payload, signer sdk.AccAddress) error {
		idx := e.cur.v2idx
		s := e.v2Script()
		e.logCb("send2 %s %d %d", src, seq, idx)
		e.appWrites2(ctx, s, idx)
		return cbErr(s)
	}
	a.OnRecvPacket = func(ctx sdk.Context, src, dst string, seq uint64, pd channeltypesv2.Payload, relayer sdk.AccAddress) channeltypesv2.RecvPacketResult {
		idx := e.cur.v2idx
		s := e.v2Script()
		e.logCb("recv2 %s %d %d", dst, seq, idx)
		e.appWrites2(ctx, s, idx)
		var ackBz []byte
		if _, ok := s["ack"]; ok {
			ackBz = gh(s, "ack")
		}
		switch gsd(s, "res", "ok") {
		case "ok":
			return channeltypesv2.RecvPacketResult{Status: channeltypesv2.PacketStatus_Success, Acknowledgement: ackBz}
		case "fail":
			return channeltypesv2.RecvPacketResult{Status: channeltypesv2.PacketStatus_Failure, Acknowledgement: ackBz}
		case "async":
			return channeltypesv2.RecvPacketResult{Status: channeltypesv2.PacketStatus_Async, Acknowledgement: ackBz}
		case "none":
			return channeltypesv2.RecvPacketResult{Status: channeltypesv2.PacketStatus_NONE, Acknowledgement: ackBz}
		}
		panic("harness: unknown v2 app res")
	}
	a.OnAcknowledgementPacket = func(ctx sdk.Context, src, dst string, seq uint64, pd channeltypesv2.Payload, ack []byte, relayer sdk.AccAddress) error {
		idx := e.cur.v2idx
		s := e.v2Script()
		e.logCb("ack2 %s %d %d %s", src, seq, idx, lib.Hex(ack))
		e.appWrites2(ctx, s, idx)
		return cbErr(s)
	}
	a.OnTimeoutPacket = func(ctx sdk.Context, src, dst string, seq uint64, pd channeltypesv2.Payload, relayer sdk.AccAddress) error {
		idx := e.cur.v2idx
		s := e.v2Script()
		e.logCb("timeout2 %s %d %d", src, seq, idx)
		e.appWrites2(ctx, s, idx)
		return cbErr(s)
	}
}

// v2 apps write keys p<idx>k<j> so that the writes of different payloads are distinguishable
func (e *Env) appWrites2(ctx sdk.Context, script map[string]any, idx int) {
	w, ok := script["w"]
	if !ok || w == nil {
		return
	}
	n := int(gn(script, "w"))
	tag := gsd(e.cur.op, "tag", "t")
	st := ctx.KVStore(e.appKey)
	for i := 0; i < n; i++ {
		st.Set([]byte(fmt.Sprintf("%sp%dk%d", AppPrefix, idx, i)), []byte(tag))
	}
}
