package chain

import (
	"encoding/binary"
	"encoding/hex"
	"fmt"
	"strings"

	errorsmod "cosmossdk.io/errors"

	clienttypes "github.com/cosmos/ibc-go/v11/modules/core/02-client/types"
	clientv2types "github.com/cosmos/ibc-go/v11/modules/core/02-client/v2/types"
	connectiontypes "github.com/cosmos/ibc-go/v11/modules/core/03-connection/types"
	channeltypes "github.com/cosmos/ibc-go/v11/modules/core/04-channel/types"
	channeltypesv2 "github.com/cosmos/ibc-go/v11/modules/core/04-channel/v2/types"

	sdk "github.com/cosmos/cosmos-sdk/types"

	"verif/harness/lib"
)

var ErrVB = errorsmod.Register("verif", 8, "message failed ValidateBasic")

func errVB(error) error { return ErrVB }

func hexDecode(s string) ([]byte, error) { return hex.DecodeString(s) }

// errClass: the stable error enum is the registered (codespace, code) of the root sentinel error.
func errClass(err error) string {
	cs, code, _ := errorsmod.ABCIInfo(err, false)
	return fmt.Sprintf("%s/%d", cs, code)
}

// Dict maps commitment hashes to a canonical description of their preimage.  The harness computes
// the hashes with ibc-go's own Commit* functions for every packet / acknowledgement it generates,
// so "the stored commitment is the commitment of exactly these fields" is checked by the lookup.
type Dict struct{ m map[string]string }

func newDict() *Dict { return &Dict{m: map[string]string{}} }

// The dictionary is per commitment domain (v1 packet, v1 ack, v2 packet, v2 ack): the domains live under
// different store keys, and e.g. the v1 ack bytes 0x02 and a v2 acknowledgement without application
// acknowledgements have the same hash (sha256 of the single byte 0x02).
func (d *Dict) add(kind string, hash []byte, desc string) {
	k := kind + "|" + string(hash)
	if old, ok := d.m[k]; ok && old != desc {
		panic("harness: commitment hash collision between " + old + " and " + desc)
	}
	d.m[k] = desc
}

func (d *Dict) get(kind string) func(hash string) string {
	return func(hash string) string { return d.lookup(kind, hash) }
}

func (d *Dict) lookup(kind, hash string) string {
	if s, ok := d.m[kind+"|"+hash]; ok {
		return s
	}
	return "?" + hex.EncodeToString([]byte(hash))
}

func descV1(tt uint64, th clienttypes.Height, data []byte) string {
	return fmt.Sprintf("%d/%d/%d/%s", tt, th.RevisionNumber, th.RevisionHeight, hex.EncodeToString(data))
}

func descPayloads(ps []channeltypesv2.Payload) string {
	var parts []string
	for _, p := range ps {
		parts = append(parts, fmt.Sprintf("%s,%s,%s,%s,%s", p.SourcePort, p.DestinationPort, p.Version, p.Encoding, hex.EncodeToString(p.Value)))
	}
	return strings.Join(parts, ";")
}

func descV2(dst string, tt uint64, ps []channeltypesv2.Payload) string {
	return fmt.Sprintf("%s|%d|%s", dst, tt, descPayloads(ps))
}

func descAcks(acks [][]byte) string {
	var parts []string
	for _, a := range acks {
		parts = append(parts, hex.EncodeToString(a))
	}
	return strings.Join(parts, ",")
}

// Learn registers every commitment an op could cause to be written.
func (e *Env) Learn(op lib.M) {
	defer func() { recover() }() //nolint:errcheck // malformed adversarial ops simply teach nothing
	f := gsd(op, "f", "")
	switch f {
	case "sendV1":
		p := channeltypes.Packet{Data: gh(op, "data"), TimeoutHeight: height(op, "th"), TimeoutTimestamp: gn(op, "tt")}
		e.dict.add("c1", channeltypes.CommitPacket(p), descV1(p.TimeoutTimestamp, p.TimeoutHeight, p.Data))
	case "recvV1":
		if a, ok := gmo(op, "app"); ok {
			if _, ok := a["ack"]; ok {
				bz := gh(a, "ack")
				e.dict.add("a1", channeltypes.CommitAcknowledgement(bz), hex.EncodeToString(bz))
			}
		}
	case "writeAckV1":
		if a, ok := gmo(op, "wack"); ok {
			bz := gh(a, "bz")
			e.dict.add("a1", channeltypes.CommitAcknowledgement(bz), hex.EncodeToString(bz))
		}
	case "sendV2":
		// the destination is the registered counterparty of the source id
		ps := payloads(glist(op, "payloads"))
		if cp, ok := e.App.IBCKeeper.ClientV2Keeper.GetClientCounterparty(e.hctx, gs(op, "src")); ok {
			p := channeltypesv2.Packet{DestinationClient: cp.ClientId, TimeoutTimestamp: gn(op, "tt"), Payloads: ps}
			e.dict.add("c2", channeltypesv2.CommitPacket(p), descV2(cp.ClientId, p.TimeoutTimestamp, ps))
		}
	case "recvV2":
		var acks [][]byte
		for _, a := range glist(op, "apps") {
			if a == nil {
				continue
			}
			if _, ok := a["ack"]; ok {
				acks = append(acks, gh(a, "ack"))
			} else {
				acks = append(acks, nil)
			}
		}
		// every prefix (a later payload may fail) and the sentinel
		for i := 1; i <= len(acks); i++ {
			ack := channeltypesv2.Acknowledgement{AppAcknowledgements: acks[:i]}
			e.dict.add("a2", channeltypesv2.CommitAcknowledgement(ack), descAcks(acks[:i]))
		}
		s := channeltypesv2.Acknowledgement{AppAcknowledgements: [][]byte{channeltypesv2.ErrorAcknowledgement[:]}}
		e.dict.add("a2", channeltypesv2.CommitAcknowledgement(s), descAcks(s.AppAcknowledgements))
	case "writeAckV2":
		acks := hexList(op, "acks")
		ack := channeltypesv2.Acknowledgement{AppAcknowledgements: acks}
		e.dict.add("a2", channeltypesv2.CommitAcknowledgement(ack), descAcks(acks))
	}
}

func u64(v string) string {
	if len(v) != 8 {
		return "?" + hex.EncodeToString([]byte(v))
	}
	return lib.U(binary.BigEndian.Uint64([]byte(v)))
}

func descChannel(c channeltypes.Channel) string {
	return fmt.Sprintf("%s|%s|%s|%s|%s|%s", strings.TrimPrefix(c.State.String(), "STATE_"), strings.TrimPrefix(c.Ordering.String(), "ORDER_"),
		c.Counterparty.PortId, c.Counterparty.ChannelId, strings.Join(c.ConnectionHops, ","), c.Version)
}

func descVersions(vs []*connectiontypes.Version) string {
	var parts []string
	for _, v := range vs {
		parts = append(parts, v.Identifier+":"+strings.Join(v.Features, ","))
	}
	return strings.Join(parts, ";")
}

func descConn(c connectiontypes.ConnectionEnd) string {
	return fmt.Sprintf("%s|%s|%s|%s|%s|%d|%s", strings.TrimPrefix(c.State.String(), "STATE_"), c.ClientId, c.Counterparty.ClientId,
		c.Counterparty.ConnectionId, hex.EncodeToString(c.Counterparty.Prefix.KeyPrefix), c.DelayPeriod, descVersions(c.Versions))
}

// canonIBC types one raw key of the "ibc" store.
func (e *Env) canonIBC(k string, v *string) Entry {
	cdc := e.App.AppCodec()
	val := func(f func(string) string) any {
		if v == nil {
			return nil
		}
		return f(*v)
	}
	raw := func() Entry {
		return Entry{"raw", hex.EncodeToString([]byte(k)), val(func(s string) string { return hex.EncodeToString([]byte(s)) })}
	}
	parts := strings.Split(k, "/")
	chanPath := func(from int) (string, bool) { // ports/<p>/channels/<c>
		if len(parts) >= from+4 && parts[from] == "ports" && parts[from+2] == "channels" {
			return parts[from+1] + "/" + parts[from+3], true
		}
		return "", false
	}
	switch {
	case k == "nextChannelSequence":
		return Entry{"nchan", "", val(u64)}
	case k == "nextConnectionSequence":
		return Entry{"nconn", "", val(u64)}
	case k == "nextClientSequence":
		return Entry{"nclient", "", val(u64)}
	case k == "clientParams":
		return Entry{"cparams", "", val(func(s string) string {
			var p clienttypes.Params
			cdc.MustUnmarshal([]byte(s), &p)
			return strings.Join(p.AllowedClients, ",")
		})}
	case k == "connectionParams":
		return Entry{"connparams", "", val(func(s string) string {
			var p connectiontypes.Params
			cdc.MustUnmarshal([]byte(s), &p)
			return lib.U(p.MaxExpectedTimePerBlock)
		})}
	case parts[0] == "channelEnds":
		if pc, ok := chanPath(1); ok && len(parts) == 5 {
			return Entry{"chan", pc, val(func(s string) string {
				var c channeltypes.Channel
				cdc.MustUnmarshal([]byte(s), &c)
				return descChannel(c)
			})}
		}
	case parts[0] == "connections" && len(parts) == 2:
		return Entry{"conn", parts[1], val(func(s string) string {
			var c connectiontypes.ConnectionEnd
			cdc.MustUnmarshal([]byte(s), &c)
			return descConn(c)
		})}
	case parts[0] == "nextSequenceSend" && len(parts) == 3 && parts[1] == "":
		return Entry{"nsend", parts[2], val(u64)}
	case parts[0] == "nextSequenceRecv":
		if pc, ok := chanPath(1); ok && len(parts) == 5 {
			return Entry{"nrecv", pc, val(u64)}
		}
	case parts[0] == "nextSequenceAck":
		if pc, ok := chanPath(1); ok && len(parts) == 5 {
			return Entry{"nack", pc, val(u64)}
		}
	case parts[0] == "recvStartSequence":
		if pc, ok := chanPath(1); ok && len(parts) == 5 {
			return Entry{"rstart", pc, val(u64)}
		}
	case parts[0] == "commitments" || parts[0] == "receipts" || parts[0] == "acks":
		if pc, ok := chanPath(1); ok && len(parts) == 7 && parts[5] == "sequences" {
			key := pc + "/" + parts[6]
			switch parts[0] {
			case "commitments":
				return Entry{"c1", key, val(e.dict.get("c1"))}
			case "receipts":
				return Entry{"r1", key, val(func(s string) string { return hex.EncodeToString([]byte(s)) })}
			case "acks":
				return Entry{"a1", key, val(e.dict.get("a1"))}
			}
		}
	case parts[0] == "clients" && len(parts) >= 3:
		id := parts[1]
		rest := strings.Join(parts[2:], "/")
		switch rest {
		case "creator":
			return Entry{"creator", id, val(func(s string) string {
				a := sdk.AccAddress([]byte(s)).String()
				if n, ok := e.names[a]; ok {
					return n
				}
				return a
			})}
		case "counterparty":
			return Entry{"cp", id, val(func(s string) string {
				var c clientv2types.CounterpartyInfo
				cdc.MustUnmarshal([]byte(s), &c)
				return c.ClientId + "|" + descAcks(c.MerklePrefix)
			})}
		case "config":
			return Entry{"cfg", id, val(func(s string) string {
				var c clientv2types.Config
				cdc.MustUnmarshal([]byte(s), &c)
				var ns []string
				for _, r := range c.AllowedRelayers {
					if n, ok := e.names[r]; ok {
						ns = append(ns, n)
					} else {
						ns = append(ns, r)
					}
				}
				return strings.Join(ns, ",")
			})}
		case "clientState":
			return Entry{"cstate", id, val(func(string) string { return "1" })}
		case "connections":
			return Entry{"cconns", id, val(func(s string) string {
				var p connectiontypes.ClientPaths
				cdc.MustUnmarshal([]byte(s), &p)
				return strings.Join(p.Paths, ",")
			})}
		}
	}
	// v2 keys: <id> 0x01|0x02|0x03 <8 byte seq>, <id>async_packet<8>, <id>alias
	if strings.HasSuffix(k, "alias") {
		return Entry{"alias", strings.TrimSuffix(k, "alias"), val(func(s string) string { return s })}
	}
	if len(k) > 8 {
		id, seq := k[:len(k)-8], lib.U(binary.BigEndian.Uint64([]byte(k[len(k)-8:])))
		if strings.HasSuffix(id, "async_packet") {
			return Entry{"async", strings.TrimSuffix(id, "async_packet") + "/" + seq, val(func(s string) string {
				var p channeltypesv2.Packet
				cdc.MustUnmarshal([]byte(s), &p)
				return fmt.Sprintf("%d|%s|%s|%d|%s", p.Sequence, p.SourceClient, p.DestinationClient, p.TimeoutTimestamp, descPayloads(p.Payloads))
			})}
		}
		if len(id) > 1 {
			base := id[:len(id)-1]
			switch id[len(id)-1] {
			case 1:
				return Entry{"c2", base + "/" + seq, val(e.dict.get("c2"))}
			case 2:
				return Entry{"r2", base + "/" + seq, val(func(s string) string { return hex.EncodeToString([]byte(s)) })}
			case 3:
				return Entry{"a2", base + "/" + seq, val(e.dict.get("a2"))}
			}
		}
	}
	return raw()
}
