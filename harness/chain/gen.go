package chain

import (
	"fmt"
	"strings"

	"verif/harness/lib"
)

// History generators.  A history = reset, a set-up phase (clients, connections, channels, v2
// counterparties — real ops, cross-checked like all others), then 5–60 ops drawn from sends,
// relays (recv/ack/timeout/timeoutOnClose), asynchronous ack writes, handshake messages,
// authorisation messages, replays of earlier messages (p≈0.35), single-field mutations and
// ack/timeout races for one packet.  The light client's answers and the applications' behaviour
// are part of each op; they are mostly "honest" so that most ops succeed.

const (
	baseTime  = uint64(1577923200) // 2020-01-02 00:00:00 UTC, seconds
	sentinel  = "4774d4a575993f963b1c06573736617a457abef8589178db8d10c94b4ab511ab"
	prefixHex = "696263"
)

type sentV1 struct {
	pkt lib.M // full packet as a relayer would submit it back
}

type world struct {
	env  *Env
	r    *lib.Rng
	emit func(lib.M) any
	sh   *Shadow
	bias string

	h, t    uint64 // block height, block time (nanos)
	opn     int
	ops     []lib.M // every op emitted (for replays / mutations)
	sent1   []lib.M // v1 packets this chain sent (packet maps)
	sent2   []lib.M // v2 packets this chain sent
	recvd1  []lib.M // v1 packets relayed to this chain
	recvd2  []lib.M
	clients []string
	subsec  bool // block times carry sub-second parts in this history
}

func (w *world) now() lib.M { return lib.M{"h": lib.U(w.h), "t": lib.U(w.t)} }

func (w *world) tick() {
	if w.r.Chance(0.5) {
		w.h += uint64(w.r.Intn(3))
		w.t += uint64(w.r.Intn(7)) * 1000000000
		if w.subsec && w.r.Chance(0.3) {
			w.t += uint64(w.r.Intn(1000000000))
		}
	}
}

func (w *world) lc() lib.M {
	r := w.r
	st := "Active"
	if r.Chance(0.06) {
		st = lib.Pick(r, []string{"Expired", "Frozen", "Unknown", "Unauthorized"})
	}
	lc := lib.M{"st": st, "v1": r.Chance(0.9), "v2": r.Chance(0.92)}
	if r.Chance(0.04) {
		lc["lh"] = lib.M{"r": "0", "h": "0"}
	} else {
		lc["lh"] = lib.M{"r": "1", "h": lib.U(20 + uint64(r.Intn(30)))}
	}
	if !r.Chance(0.03) {
		// consensus timestamp around block time
		lc["ts"] = lib.U(w.t - uint64(r.Intn(20))*1000000000)
	}
	return lc
}

func (w *world) signer() string {
	switch w.r.Intn(10) {
	case 0:
		return "bob"
	case 1:
		return "auth"
	case 2:
		return "carol"
	}
	return "alice"
}

// send emits an op with the common fields filled in and folds the answer into the shadow.
func (w *world) send(op lib.M) any {
	if _, ok := op["now"]; !ok {
		op["now"] = w.now()
	}
	if _, ok := op["lc"]; !ok {
		op["lc"] = w.lc()
	}
	if _, ok := op["signer"]; !ok {
		op["signer"] = w.signer()
	}
	w.opn++
	op["tag"] = fmt.Sprintf("t%d", w.opn)
	out := w.emit(op)
	w.ops = append(w.ops, op)
	w.sh.Apply(out)
	w.tick()
	return out
}

func okLC(v1, v2 bool, ts uint64) lib.M {
	return lib.M{"st": "Active", "lh": lib.M{"r": "1", "h": "30"}, "ts": lib.U(ts), "v1": v1, "v2": v2}
}

func hexOf(r *lib.Rng, min, max int) string {
	return lib.Hex(r.Bytes(min + r.Intn(max-min+1)))
}

func clone(m lib.M) lib.M {
	out := lib.M{}
	for k, v := range m {
		switch x := v.(type) {
		case map[string]any:
			out[k] = clone(x)
		case []map[string]any:
			l := make([]map[string]any, len(x))
			for i := range x {
				l[i] = clone(x[i])
			}
			out[k] = l
		case []string:
			out[k] = append([]string{}, x...)
		default:
			out[k] = v
		}
	}
	return out
}

// ---------------------------------------------------------------------------------------------
// set-up phase

func (w *world) setup() {
	r := w.r
	nclients := 1 + r.Intn(2)
	for i := 0; i < nclients; i++ {
		ct := ClientTypeA
		if r.Chance(0.15) {
			ct = ClientTypeB
		}
		out := w.send(lib.M{"f": "createClient", "ctype": ct, "signer": "alice", "lc": okLC(true, true, w.t)})
		if Class(out) == "ok" {
			w.clients = append(w.clients, Ret(out))
		}
	}
	if len(w.clients) == 0 {
		return
	}
	// connections
	nconn := 1 + r.Intn(2)
	for i := 0; i < nconn; i++ {
		cl := lib.Pick(r, w.clients)
		delay := "0"
		if r.Chance(0.2) {
			delay = lib.U(uint64(r.Intn(5)) * 1000000000)
		}
		if r.Bool() {
			before := len(w.sh.Keys("conn"))
			op := lib.M{"f": "connOpenInit", "client": cl, "cpClient": "07-tendermint-" + lib.U(uint64(r.Intn(3))), "cpPrefix": prefixHex, "delay": delay, "lc": okLC(true, true, w.t)}
			if r.Chance(0.3) {
				op["version"] = lib.M{"id": "1", "features": []string{"ORDER_ORDERED", "ORDER_UNORDERED"}}
			} else if r.Chance(0.15) {
				op["version"] = lib.M{"id": "1", "features": []string{lib.Pick(r, []string{"ORDER_ORDERED", "ORDER_UNORDERED"})}}
			}
			w.send(op)
			if id, ok := w.newest("conn", before); ok {
				feats := []string{"ORDER_ORDERED", "ORDER_UNORDERED"}
				if v, ok := op["version"].(map[string]any); ok {
					feats = gstrs(v, "features")
				}
				w.send(lib.M{"f": "connOpenAck", "conn": id, "cpConn": "connection-" + lib.U(uint64(7+r.Intn(3))), "version": lib.M{"id": "1", "features": feats},
					"ph": lib.M{"r": "1", "h": "9"}, "lc": okLC(true, true, w.t)})
			}
		} else {
			before := len(w.sh.Keys("conn"))
			w.send(lib.M{"f": "connOpenTry", "client": cl, "cpClient": "07-tendermint-1", "cpConn": "connection-" + lib.U(uint64(7+r.Intn(3))), "cpPrefix": prefixHex, "delay": delay,
				"versions": []map[string]any{{"id": "1", "features": []string{"ORDER_ORDERED", "ORDER_UNORDERED"}}}, "ph": lib.M{"r": "1", "h": "9"}, "lc": okLC(true, true, w.t)})
			if id, ok := w.newest("conn", before); ok {
				w.send(lib.M{"f": "connOpenConfirm", "conn": id, "ph": lib.M{"r": "1", "h": "9"}, "lc": okLC(true, true, w.t)})
			}
		}
	}
	// channels
	nchan := 1 + r.Intn(3)
	for i := 0; i < nchan; i++ {
		w.openChannel(true)
	}
	// v2 counterparties
	nv2 := r.Intn(3)
	if w.bias == "v2" || w.bias == "auth" {
		nv2 = 1 + r.Intn(2)
	}
	for i := 0; i < nv2 && i < len(w.clients); i++ {
		w.send(lib.M{"f": "registerCounterparty", "client": w.clients[i], "cpClient": "07-tendermint-" + lib.U(uint64(5+i)), "prefix": []string{prefixHex, ""}, "signer": "alice"})
	}
}

// newest returns the key of kind that appeared since the shadow had `before` keys.
func (w *world) newest(kind string, before int) (string, bool) {
	ks := w.sh.Keys(kind)
	if len(ks) <= before {
		return "", false
	}
	// generated ids are "<prefix>-<n>": the newest has the largest n
	best, bestN := "", -1
	for _, k := range ks {
		i := strings.LastIndex(k, "-")
		var n int
		fmt.Sscanf(k[i+1:], "%d", &n)
		if n > bestN {
			best, bestN = k, n
		}
	}
	return best, true
}

func (w *world) openConns() []ConnInfo {
	var cs []ConnInfo
	for _, c := range w.sh.Conns() {
		if c.ID != "connection-localhost" {
			cs = append(cs, c)
		}
	}
	return cs
}

func (w *world) openChannel(honest bool) {
	r := w.r
	conns := w.openConns()
	if len(conns) == 0 {
		return
	}
	conn := lib.Pick(r, conns)
	ord := "UNORDERED"
	pOrdered := 0.4
	if w.bias == "ordered" {
		pOrdered = 0.8
	}
	if w.bias == "v2" {
		pOrdered = 0.15
	}
	if r.Chance(pOrdered) {
		ord = "ORDERED"
	}
	if !honest && r.Chance(0.1) {
		ord = "NONE"
	}
	p := func(q float64) bool { return honest || r.Chance(q) }
	app := lib.M{"cb": "ok"}
	if !honest && r.Chance(0.1) {
		app["cb"] = "err"
	}
	if r.Chance(0.3) {
		app["ver"] = "app-v" + lib.U(uint64(r.Intn(2)))
	}
	if r.Chance(0.2) {
		app["w"] = 1
	}
	hops := []string{conn.ID}
	if !honest && r.Chance(0.08) {
		hops = []string{"connection-99"}
	}
	// the counterparty's port id differs from the local one on a third of the channels (ICA-style
	// icacontroller-x <-> icahost): code that keys local state by the wrong end's port must not be masked
	cpPort := lib.Pick(r, []string{"mock", "mock", "mockcp"})
	if r.Bool() {
		out := w.send(lib.M{"f": "chanOpenInit", "port": "mock", "order": ord, "hops": hops, "cpPort": cpPort, "version": "v1", "app": app, "lc": okLC(p(0.9), true, w.t)})
		if Class(out) == "ok" && (honest || r.Chance(0.8)) {
			id := strings.Split(Ret(out), "|")[0]
			a2 := lib.M{"cb": "ok"}
			if !honest && r.Chance(0.1) {
				a2["cb"] = "err"
			}
			w.send(lib.M{"f": "chanOpenAck", "port": "mock", "chan": id, "cpChan": "channel-" + lib.U(uint64(20+r.Intn(5))), "cpVersion": "v1",
				"ph": lib.M{"r": "1", "h": "9"}, "app": a2, "lc": okLC(p(0.9), true, w.t)})
		}
	} else {
		out := w.send(lib.M{"f": "chanOpenTry", "port": "mock", "order": ord, "hops": hops, "cpPort": cpPort, "cpChan": "channel-" + lib.U(uint64(20+r.Intn(5))), "cpVersion": "v1",
			"ph": lib.M{"r": "1", "h": "9"}, "app": app, "lc": okLC(p(0.9), true, w.t)})
		if Class(out) == "ok" && (honest || r.Chance(0.8)) {
			id := strings.Split(Ret(out), "|")[0]
			w.send(lib.M{"f": "chanOpenConfirm", "port": "mock", "chan": id, "ph": lib.M{"r": "1", "h": "9"}, "app": lib.M{"cb": "ok"}, "lc": okLC(p(0.9), true, w.t)})
		}
	}
}

// ---------------------------------------------------------------------------------------------
// packet ops

func (w *world) pickChan(wantOpen bool) (ChanInfo, bool) {
	cs := w.sh.Chans()
	if len(cs) == 0 {
		return ChanInfo{}, false
	}
	if wantOpen {
		var os []ChanInfo
		for _, c := range cs {
			if c.State == "OPEN" {
				os = append(os, c)
			}
		}
		if len(os) > 0 && w.r.Chance(0.9) {
			return lib.Pick(w.r, os), true
		}
	}
	return lib.Pick(w.r, cs), true
}

func (w *world) timeoutFields(refH, refT uint64) (lib.M, string) {
	r := w.r
	th := lib.M{"r": "0", "h": "0"}
	tt := "0"
	switch r.Intn(8) {
	case 0: // both zero: invalid
	case 1, 2, 3:
		th = lib.M{"r": "1", "h": lib.U(refH + 50 + uint64(r.Intn(50)))}
	case 4:
		th = lib.M{"r": "1", "h": lib.U(refH + uint64(r.Intn(3)) - 1)} // around the reference height
	case 5:
		tt = lib.U(refT + uint64(r.Intn(3)) - 1) // around the reference time
	case 6:
		tt = lib.U(refT + 600*1000000000)
	case 7:
		th = lib.M{"r": lib.U(uint64(r.Intn(3))), "h": lib.U(refH + 10)}
		tt = lib.U(refT + 600*1000000000)
	}
	return th, tt
}

func (w *world) sendV1() {
	r := w.r
	c, ok := w.pickChan(true)
	if !ok {
		return
	}
	lc := w.lc()
	var lhH, lts uint64 = 30, w.t
	if m, ok := lc["lh"].(map[string]any); ok {
		lhH = gn(m, "h")
	}
	if _, ok := lc["ts"]; ok {
		lts = gn(lc, "ts")
	}
	th, tt := w.timeoutFields(lhH, lts)
	data := hexOf(r, 1, 3)
	if r.Chance(0.04) {
		data = ""
	}
	port, ch := c.Port, c.ID
	if r.Chance(0.04) {
		ch = "channel-77"
	}
	op := lib.M{"f": "sendV1", "port": port, "chan": ch, "th": th, "tt": tt, "data": data, "lc": lc}
	out := w.send(op)
	if Class(out) == "ok" {
		w.sent1 = append(w.sent1, lib.M{"seq": Ret(out), "sp": port, "sc": ch, "dp": c.CpPort, "dc": c.CpChan, "th": th, "tt": tt, "data": data})
	}
}

func (w *world) v2ids() []string { return w.sh.Keys("cp") }

func (w *world) payloads(n int) []map[string]any {
	r := w.r
	var ps []map[string]any
	for i := 0; i < n; i++ {
		p := map[string]any{"sp": lib.Pick(r, []string{"mockv2A", "mockv2B"}), "dp": lib.Pick(r, []string{"mockv2A", "mockv2B"}), "ver": "v1", "enc": "json", "val": hexOf(r, 1, 3)}
		if r.Chance(0.02) {
			p["dp"] = "nope"
		}
		if r.Chance(0.02) {
			p["sp"] = "nope"
		}
		ps = append(ps, p)
	}
	return ps
}

func (w *world) npayloads() int {
	if w.bias == "v2" {
		return 1 + w.r.Intn(4)
	}
	if w.r.Chance(0.75) {
		return 1
	}
	return 2 + w.r.Intn(2)
}

func (w *world) cbs(n int) []map[string]any {
	var l []map[string]any
	for i := 0; i < n; i++ {
		a := map[string]any{"cb": "ok"}
		if w.r.Chance(0.05) {
			a["cb"] = "err"
		}
		if w.r.Chance(0.2) {
			a["w"] = 1
		}
		l = append(l, a)
	}
	return l
}

func (w *world) sendV2() {
	r := w.r
	ids := w.v2ids()
	if len(ids) == 0 {
		return
	}
	src := lib.Pick(r, ids)
	if r.Chance(0.04) {
		src = "99-verif-9"
	}
	nowSec := w.t / 1000000000
	var tt uint64
	switch r.Intn(11) {
	case 0:
		tt = nowSec - 1
	case 1:
		tt = nowSec
	case 2:
		tt = nowSec + 1
	case 3:
		tt = nowSec + 86399
	case 4:
		tt = nowSec + 86400
	case 5:
		tt = nowSec + 86401
	case 6:
		tt = lib.Pick(r, []uint64{0, 1<<63 - 1, 1 << 63, 1<<63 + 1, 1<<64 - 1, 1<<63 - 62135596800, 1<<63 - 62135596801})
	default:
		tt = nowSec + 60 + uint64(r.Intn(3000))
	}
	lc := w.lc()
	if r.Chance(0.1) {
		// consensus timestamp around the timeout (seconds -> nanos)
		lc["ts"] = lib.U((tt+uint64(r.Intn(3))-1)*1000000000 + uint64(r.Intn(2))*999999999)
	}
	n := w.npayloads()
	ps := w.payloads(n)
	op := lib.M{"f": "sendV2", "src": src, "tt": lib.U(tt), "payloads": ps, "apps": w.cbs(n), "lc": lc}
	out := w.send(op)
	if Class(out) == "ok" {
		cp, _ := w.sh.Get("cp", src)
		dst := strings.SplitN(cp, "|", 2)[0]
		w.sent2 = append(w.sent2, lib.M{"seq": Ret(out), "src": src, "dst": dst, "tt": lib.U(tt), "payloads": ps})
	}
}

func (w *world) appV1() lib.M {
	r := w.r
	a := lib.M{"w": r.Intn(4), "ack": hexOf(r, 1, 4)}
	switch x := r.Intn(20); {
	case x < 10:
		a["res"] = "ok"
	case x < 15:
		a["res"] = "err"
	case x < 18:
		a["res"] = "async"
	default:
		a["res"] = "selfack"
	}
	if r.Chance(0.03) {
		a["ack"] = ""
	}
	return a
}

func (w *world) recvV1() {
	r := w.r
	c, ok := w.pickChan(true)
	if !ok {
		return
	}
	var seq uint64
	if c.Order == "ORDERED" {
		nr := uint64(1)
		if v, ok := w.sh.Get("nrecv", c.Port+"/"+c.ID); ok {
			fmt.Sscanf(v, "%d", &nr)
		}
		switch x := r.Intn(10); {
		case x < 7:
			seq = nr
		case x == 7:
			seq = nr + 1
		case x == 8 && nr > 1:
			seq = nr - 1
		default:
			seq = uint64(r.Intn(6))
		}
	} else {
		seq = uint64(1 + r.Intn(6))
		if r.Chance(0.03) {
			seq = 0
		}
	}
	th, tt := w.timeoutFields(w.h, w.t)
	if r.Chance(0.7) {
		th, tt = lib.M{"r": "1", "h": lib.U(w.h + 100)}, "0"
	}
	pkt := lib.M{"seq": lib.U(seq), "sp": c.CpPort, "sc": c.CpChan, "dp": c.Port, "dc": c.ID, "th": th, "tt": tt, "data": hexOf(r, 1, 3)}
	if r.Chance(0.04) {
		pkt["sc"] = "channel-66"
	}
	if r.Chance(0.03) {
		pkt["dp"] = "zzz"
	}
	op := lib.M{"f": "recvV1", "pkt": pkt, "ph": lib.M{"r": "1", "h": "9"}, "app": w.appV1()}
	w.send(op)
	w.recvd1 = append(w.recvd1, pkt)
}

func (w *world) pickSent1() (lib.M, bool) {
	if len(w.sent1) == 0 {
		return nil, false
	}
	// prefer recent ones
	if w.r.Chance(0.5) {
		return w.sent1[len(w.sent1)-1], true
	}
	return lib.Pick(w.r, w.sent1), true
}

func (w *world) mutV1(p lib.M) lib.M {
	r := w.r
	q := clone(p)
	switch r.Intn(5) {
	case 0:
		q["seq"] = lib.U(gn(q, "seq") + 1)
	case 1:
		q["data"] = hexOf(r, 1, 3)
	case 2:
		q["tt"] = lib.U(gn(q, "tt") + 1)
	case 3:
		q["dc"] = "channel-55"
	case 4:
		q["sp"] = "zzz"
	}
	return q
}

func (w *world) ackV1(p lib.M) {
	r := w.r
	if r.Chance(0.08) {
		p = w.mutV1(p)
	}
	app := lib.M{"cb": "ok", "w": r.Intn(2)}
	if r.Chance(0.06) {
		app["cb"] = "err"
	}
	w.send(lib.M{"f": "ackV1", "pkt": p, "ack": hexOf(r, 1, 4), "ph": lib.M{"r": "1", "h": "9"}, "app": app})
}

func (w *world) timeoutV1(p lib.M, onClose bool) {
	r := w.r
	if r.Chance(0.08) {
		p = w.mutV1(p)
	}
	app := lib.M{"cb": "ok", "w": r.Intn(2)}
	if r.Chance(0.06) {
		app["cb"] = "err"
	}
	seq := gn(p, "seq")
	nsr := seq
	switch r.Intn(6) {
	case 0:
		nsr = seq + 1
	case 1:
		if seq > 0 {
			nsr = seq - 1
		}
	}
	lc := w.lc()
	// choose the proof height / consensus timestamp so that the timeout has mostly elapsed
	thH := gn(gm(p, "th"), "h")
	tt := gn(p, "tt")
	ph := lib.M{"r": "1", "h": lib.U(thH + uint64(r.Intn(3)))}
	if thH == 0 || r.Chance(0.15) {
		ph = lib.M{"r": "1", "h": lib.U(uint64(5 + r.Intn(20)))}
	}
	if r.Chance(0.1) && thH > 0 {
		ph = lib.M{"r": "1", "h": lib.U(thH - 1)}
	}
	if tt > 0 {
		lc["ts"] = lib.U(tt + uint64(r.Intn(3)) - 1)
	}
	f := "timeoutV1"
	if onClose {
		f = "timeoutOnCloseV1"
	}
	w.send(lib.M{"f": f, "pkt": p, "nsr": lib.U(nsr), "ph": ph, "app": app, "lc": lc})
}

func (w *world) writeAckV1() {
	r := w.r
	if len(w.recvd1) == 0 {
		return
	}
	p := lib.Pick(r, w.recvd1)
	if r.Chance(0.1) {
		p = w.mutV1(p)
	}
	op := lib.M{"f": "writeAckV1", "pkt": p}
	if !r.Chance(0.05) {
		bz := hexOf(r, 1, 4)
		if r.Chance(0.05) {
			bz = ""
		}
		op["wack"] = lib.M{"ok": r.Bool(), "bz": bz}
	}
	w.send(op)
}

func (w *world) appsV2(n int) []map[string]any {
	r := w.r
	var l []map[string]any
	pFail := 0.12
	if w.bias == "v2" {
		pFail = 0.2
	}
	for i := 0; i < n; i++ {
		a := map[string]any{"w": r.Intn(3), "ack": hexOf(r, 1, 4), "res": "ok"}
		switch {
		case r.Chance(pFail):
			a["res"] = "fail"
		case r.Chance(0.1):
			a["res"] = "async"
		case r.Chance(0.02):
			a["res"] = "none"
		}
		if r.Chance(0.03) {
			a["ack"] = sentinel
		}
		if r.Chance(0.02) {
			a["ack"] = ""
		}
		l = append(l, a)
	}
	return l
}

func (w *world) recvV2() {
	r := w.r
	ids := w.v2ids()
	if len(ids) == 0 {
		return
	}
	dst := lib.Pick(r, ids)
	cp, _ := w.sh.Get("cp", dst)
	src := strings.SplitN(cp, "|", 2)[0]
	if r.Chance(0.04) {
		src = "07-tendermint-77"
	}
	nowSec := w.t / 1000000000
	tt := nowSec + 100 + uint64(r.Intn(1000))
	if r.Chance(0.1) {
		tt = nowSec + uint64(r.Intn(3)) - 1
	}
	n := w.npayloads()
	pkt := lib.M{"seq": lib.U(uint64(1 + r.Intn(6))), "src": src, "dst": dst, "tt": lib.U(tt), "payloads": w.payloads(n)}
	before := len(w.sh.Keys("async"))
	w.send(lib.M{"f": "recvV2", "pkt": pkt, "ph": lib.M{"r": "1", "h": "9"}, "apps": w.appsV2(n)})
	w.recvd2 = append(w.recvd2, pkt)
	if len(w.sh.Keys("async")) > before && r.Chance(0.6) {
		// the application answers the asynchronous packet (sometimes twice)
		w.writeAckV2()
		if r.Chance(0.3) {
			w.writeAckV2()
		}
	}
}

func (w *world) mutV2(p lib.M) lib.M {
	r := w.r
	q := clone(p)
	switch r.Intn(4) {
	case 0:
		q["seq"] = lib.U(gn(q, "seq") + 1)
	case 1:
		q["tt"] = lib.U(gn(q, "tt") + 1)
	case 2:
		q["dst"] = "07-tendermint-66"
	case 3:
		ps := glist(q, "payloads")
		if len(ps) > 0 {
			ps[0]["val"] = hexOf(r, 1, 3)
		}
	}
	return q
}

func (w *world) ackV2(p lib.M) {
	r := w.r
	if r.Chance(0.08) {
		p = w.mutV2(p)
	}
	n := len(glist(p, "payloads"))
	var acks []string
	if r.Chance(0.25) {
		acks = []string{sentinel}
	} else {
		k := n
		if r.Chance(0.08) {
			k = 1 + r.Intn(n+1)
		}
		for i := 0; i < k; i++ {
			acks = append(acks, hexOf(r, 1, 4))
		}
	}
	w.send(lib.M{"f": "ackV2", "pkt": p, "acks": acks, "ph": lib.M{"r": "1", "h": "9"}, "apps": w.cbs(n)})
}

func (w *world) timeoutV2(p lib.M) {
	r := w.r
	if r.Chance(0.08) {
		p = w.mutV2(p)
	}
	lc := w.lc()
	tt := gn(p, "tt")
	if tt < 1<<40 {
		lc["ts"] = lib.U((tt+uint64(r.Intn(3))-1)*1000000000 + uint64(r.Intn(2))*999999999)
	}
	w.send(lib.M{"f": "timeoutV2", "pkt": p, "ph": lib.M{"r": "1", "h": "9"}, "apps": w.cbs(len(glist(p, "payloads"))), "lc": lc})
}

func (w *world) writeAckV2() {
	r := w.r
	var dst string
	var seq uint64
	if ks := w.sh.Keys("async"); len(ks) > 0 && r.Chance(0.7) {
		k := lib.Pick(r, ks)
		i := strings.LastIndex(k, "/")
		dst = k[:i]
		fmt.Sscanf(k[i+1:], "%d", &seq)
	} else if len(w.recvd2) > 0 {
		p := lib.Pick(r, w.recvd2)
		dst, seq = gs(p, "dst"), gn(p, "seq")
	} else {
		return
	}
	var acks []string
	switch r.Intn(8) {
	case 0:
		acks = []string{sentinel}
	case 1:
		acks = []string{hexOf(r, 1, 3), hexOf(r, 1, 3)}
	case 2:
		acks = []string{}
	default:
		acks = []string{hexOf(r, 1, 3)}
	}
	w.send(lib.M{"f": "writeAckV2", "dst": dst, "seq": lib.U(seq), "acks": acks})
}

// race: ack / timeout / timeoutOnClose for the same packet in random order, with duplicates
func (w *world) raceV1() {
	p, ok := w.pickSent1()
	if !ok {
		return
	}
	n := 2 + w.r.Intn(3)
	for i := 0; i < n; i++ {
		switch w.r.Intn(3) {
		case 0:
			w.ackV1(p)
		case 1:
			w.timeoutV1(p, false)
		case 2:
			w.timeoutV1(p, true)
		}
	}
}

func (w *world) raceV2() {
	if len(w.sent2) == 0 {
		return
	}
	p := lib.Pick(w.r, w.sent2)
	n := 2 + w.r.Intn(3)
	for i := 0; i < n; i++ {
		if w.r.Bool() {
			w.ackV2(p)
		} else {
			w.timeoutV2(p)
		}
	}
}

// ---------------------------------------------------------------------------------------------
// handshake / authorisation noise

func (w *world) handshakeOp() {
	r := w.r
	switch r.Intn(8) {
	case 0, 1:
		w.openChannel(false)
	case 2:
		if c, ok := w.pickChan(false); ok {
			app := lib.M{"cb": "ok"}
			if r.Chance(0.1) {
				app["cb"] = "err"
			}
			w.send(lib.M{"f": "chanCloseInit", "port": c.Port, "chan": c.ID, "app": app})
		}
	case 3:
		if c, ok := w.pickChan(false); ok {
			w.send(lib.M{"f": "chanCloseConfirm", "port": c.Port, "chan": c.ID, "ph": lib.M{"r": "1", "h": "9"}, "app": lib.M{"cb": "ok"}})
		}
	case 4:
		// handshake step on a channel in any state (duplicates / wrong state)
		if c, ok := w.pickChan(false); ok {
			if r.Bool() {
				w.send(lib.M{"f": "chanOpenAck", "port": c.Port, "chan": c.ID, "cpChan": "channel-31", "cpVersion": "v9", "ph": lib.M{"r": "1", "h": "9"}, "app": lib.M{"cb": "ok"}})
			} else {
				w.send(lib.M{"f": "chanOpenConfirm", "port": c.Port, "chan": c.ID, "ph": lib.M{"r": "1", "h": "9"}, "app": lib.M{"cb": "ok"}})
			}
		}
	case 5:
		// connection messages on existing connections (duplicates / wrong state) or new ones
		cs := w.sh.Conns()
		if len(cs) > 0 {
			c := lib.Pick(r, cs)
			if r.Bool() {
				w.send(lib.M{"f": "connOpenAck", "conn": c.ID, "cpConn": "connection-8", "version": lib.M{"id": "1", "features": []string{lib.Pick(r, []string{"ORDER_ORDERED", "ORDER_UNORDERED", "X"})}}, "ph": lib.M{"r": "1", "h": "9"}})
			} else {
				w.send(lib.M{"f": "connOpenConfirm", "conn": c.ID, "ph": lib.M{"r": "1", "h": "9"}})
			}
		}
	case 6:
		cl := "99-verif-0"
		if len(w.clients) > 0 {
			cl = lib.Pick(r, w.clients)
		}
		if r.Chance(0.25) {
			cl = lib.Pick(r, []string{"09-localhost", "99-verif-9", "77-none-0", "bad"})
		}
		op := lib.M{"f": "connOpenInit", "client": cl, "cpClient": "07-tendermint-0", "cpPrefix": prefixHex, "delay": "0"}
		switch r.Intn(6) {
		case 0:
			op["version"] = lib.M{"id": "2", "features": []string{"ORDER_ORDERED"}}
		case 1:
			op["version"] = lib.M{"id": "1", "features": []string{}}
		case 2:
			op["version"] = lib.M{"id": "1", "features": []string{"ORDER_ORDERED", "X"}}
		case 3:
			op["version"] = lib.M{"id": "1", "features": []string{"ORDER_UNORDERED"}}
		}
		w.send(op)
	case 7:
		cl := "99-verif-0"
		if len(w.clients) > 0 {
			cl = lib.Pick(r, w.clients)
		}
		if r.Chance(0.2) {
			cl = lib.Pick(r, []string{"09-localhost", "77-none-0"})
		}
		var vs []map[string]any
		switch r.Intn(6) {
		case 0:
			vs = []map[string]any{{"id": "2", "features": []string{"ORDER_ORDERED"}}}
		case 1:
			vs = []map[string]any{{"id": "1", "features": []string{"X"}}, {"id": "1", "features": []string{"ORDER_ORDERED"}}}
		case 2:
			vs = []map[string]any{{"id": "2", "features": []string{"ORDER_ORDERED"}}, {"id": "1", "features": []string{"ORDER_UNORDERED", "Y"}}}
		case 3:
			vs = []map[string]any{}
		default:
			vs = []map[string]any{{"id": "1", "features": []string{"ORDER_ORDERED", "ORDER_UNORDERED"}}}
		}
		w.send(lib.M{"f": "connOpenTry", "client": cl, "cpClient": "07-tendermint-1", "cpConn": "connection-5", "cpPrefix": prefixHex, "delay": "0", "versions": vs, "ph": lib.M{"r": "1", "h": "9"}})
	}
}

func (w *world) someClient() string {
	if len(w.clients) > 0 && w.r.Chance(0.85) {
		return lib.Pick(w.r, w.clients)
	}
	return lib.Pick(w.r, []string{"99-verif-7", "98-verif-0", "77-none-0", "channel-0", "bad", "nodashclient9", "99-verif-18446744073709551616", "99-verif-18446744073709551615", "-9verif-0", "99-verif--0"})
}

func (w *world) authOp() {
	r := w.r
	sg := lib.Pick(r, []string{"alice", "alice", "bob", "auth", "auth", "carol"})
	switch r.Intn(11) {
	case 0, 1:
		w.send(lib.M{"f": "registerCounterparty", "client": w.someClient(), "cpClient": "07-tendermint-" + lib.U(uint64(5+r.Intn(3))), "prefix": []string{prefixHex, ""}, "signer": sg})
	case 2, 3:
		var rel []string
		for _, n := range []string{"alice", "bob", "carol"} {
			if r.Chance(0.4) {
				rel = append(rel, n)
			}
		}
		if rel == nil {
			rel = []string{}
		}
		id := w.someClient()
		if ids := w.v2ids(); len(ids) > 0 && r.Chance(0.3) {
			id = lib.Pick(r, ids) // possibly an alias (channel id)
		}
		w.send(lib.M{"f": "updateClientConfig", "client": id, "relayers": rel, "signer": sg})
	case 4:
		w.send(lib.M{"f": "deleteClientCreator", "client": w.someClient(), "signer": sg})
	case 5:
		w.send(lib.M{"f": "updateClientParams", "allowed": lib.Pick(r, [][]string{{"*"}, {"99-verif"}, {"98-verif"}, {"07-tendermint"}, {"99-verif", "98-verif"}}), "signer": sg})
	case 6:
		w.send(lib.M{"f": "updateConnParams", "maxTime": lib.U(uint64(1+r.Intn(60)) * 1000000000), "signer": sg})
	case 7:
		subj, subst := w.someClient(), w.someClient()
		lc := w.lc()
		lc["stOf"] = lib.M{subj: lib.Pick(r, []string{"Expired", "Frozen", "Expired", "Active"}), subst: lib.Pick(r, []string{"Active", "Active", "Active", "Expired"})}
		lc["lhOf"] = lib.M{subj: lib.M{"r": "1", "h": lib.U(uint64(10 + r.Intn(3)))}, subst: lib.M{"r": "1", "h": lib.U(uint64(11 + r.Intn(4)))}}
		if subj == subst {
			delete(lc, "stOf")
			delete(lc, "lhOf")
		}
		lc["recovOK"] = r.Chance(0.9)
		w.send(lib.M{"f": "recoverClient", "subject": subj, "substitute": subst, "signer": sg, "lc": lc})
	case 8:
		lc := w.lc()
		lc["msgOK"] = r.Chance(0.9)
		w.send(lib.M{"f": "updateClient", "client": w.someClient(), "signer": sg, "lc": lc})
	case 9:
		lc := w.lc()
		lc["initOK"] = r.Chance(0.92)
		out := w.send(lib.M{"f": "createClient", "ctype": lib.Pick(r, []string{ClientTypeA, ClientTypeA, ClientTypeB, "77-none", "09-localhost"}), "signer": sg, "lc": lc})
		if Class(out) == "ok" {
			w.clients = append(w.clients, Ret(out))
		}
	case 10:
		w.send(lib.M{"f": "ibcSoftwareUpgrade", "planHeight": lib.U(w.h + 1000), "signer": sg})
	}
}

// replay an earlier message verbatim (fresh block context) or with one mutated field
func (w *world) replay() {
	r := w.r
	if len(w.ops) == 0 {
		return
	}
	var src lib.M
	if r.Chance(0.4) {
		src = w.ops[len(w.ops)-1-r.Intn(min(3, len(w.ops)))]
	} else {
		src = lib.Pick(r, w.ops)
	}
	op := clone(src)
	delete(op, "now")
	delete(op, "vb")
	if r.Chance(0.5) {
		delete(op, "lc") // fresh light-client answers
	}
	if r.Chance(0.25) {
		// single-field mutation
		switch r.Intn(5) {
		case 0:
			op["signer"] = w.signer()
		case 1:
			if lc, ok := op["lc"].(map[string]any); ok {
				lc["v1"] = !gb(lc, "v1")
			}
		case 2:
			if p, ok := op["pkt"].(map[string]any); ok {
				p["seq"] = lib.U(gn(p, "seq") + 1)
			}
		case 3:
			if a, ok := op["app"].(map[string]any); ok {
				a["res"] = lib.Pick(r, []string{"ok", "err", "async"})
			}
		case 4:
			if p, ok := op["pkt"].(map[string]any); ok {
				if _, ok := p["data"]; ok {
					p["data"] = hexOf(r, 1, 2)
				}
			}
		}
	}
	out := w.send(op)
	switch gs(op, "f") {
	case "sendV1":
		if Class(out) == "ok" {
			if c, ok := w.sh.Chan(gs(op, "port"), gs(op, "chan")); ok {
				w.sent1 = append(w.sent1, lib.M{"seq": Ret(out), "sp": c.Port, "sc": c.ID, "dp": c.CpPort, "dc": c.CpChan, "th": op["th"], "tt": op["tt"], "data": op["data"]})
			}
		}
	case "sendV2":
		if Class(out) == "ok" {
			cp, _ := w.sh.Get("cp", gs(op, "src"))
			w.sent2 = append(w.sent2, lib.M{"seq": Ret(out), "src": op["src"], "dst": strings.SplitN(cp, "|", 2)[0], "tt": op["tt"], "payloads": op["payloads"]})
		}
	case "createClient":
		if Class(out) == "ok" {
			w.clients = append(w.clients, Ret(out))
		}
	}
}

// ---------------------------------------------------------------------------------------------

type weights struct{ send1, send2, recv1, recv2, ack1, ack2, to1, toc1, to2, wack1, wack2, race1, race2, hs, auth int }

func (w *world) randomOp(wt weights) {
	r := w.r
	if len(w.ops) > 0 && r.Chance(0.35) {
		w.replay()
		return
	}
	tot := wt.send1 + wt.send2 + wt.recv1 + wt.recv2 + wt.ack1 + wt.ack2 + wt.to1 + wt.toc1 + wt.to2 + wt.wack1 + wt.wack2 + wt.race1 + wt.race2 + wt.hs + wt.auth
	x := r.Intn(tot)
	pick := func(n int) bool {
		if x < n {
			return true
		}
		x -= n
		return false
	}
	switch {
	case pick(wt.send1):
		w.sendV1()
	case pick(wt.send2):
		w.sendV2()
	case pick(wt.recv1):
		w.recvV1()
	case pick(wt.recv2):
		w.recvV2()
	case pick(wt.ack1):
		if p, ok := w.pickSent1(); ok {
			w.ackV1(p)
		}
	case pick(wt.ack2):
		if len(w.sent2) > 0 {
			w.ackV2(lib.Pick(r, w.sent2))
		}
	case pick(wt.to1):
		if p, ok := w.pickSent1(); ok {
			w.timeoutV1(p, false)
		}
	case pick(wt.toc1):
		if p, ok := w.pickSent1(); ok {
			w.timeoutV1(p, true)
		}
	case pick(wt.to2):
		if len(w.sent2) > 0 {
			w.timeoutV2(lib.Pick(r, w.sent2))
		}
	case pick(wt.wack1):
		w.writeAckV1()
	case pick(wt.wack2):
		w.writeAckV2()
	case pick(wt.race1):
		w.raceV1()
	case pick(wt.race2):
		w.raceV2()
	case pick(wt.hs):
		w.handshakeOp()
	default:
		w.authOp()
	}
}

func history(bias string, wt weights) func(env *Env, r *lib.Rng, emit func(lib.M) any) {
	return func(env *Env, r *lib.Rng, emit func(lib.M) any) {
		w := &world{env: env, r: r, emit: emit, sh: NewShadow(), bias: bias}
		w.h = 5 + uint64(r.Intn(20))
		w.subsec = r.Bool()
		w.t = (baseTime + uint64(r.Intn(100000))) * 1000000000
		if w.subsec {
			w.t += uint64(r.Intn(1000000000))
		}
		emit(lib.M{"f": "reset"})
		w.setup()
		n := 5 + r.Intn(56)
		if tier() == "thorough" && r.Chance(0.2) {
			n = 60 + r.Intn(340)
		}
		for i := 0; i < n && len(w.ops) < n+40; i++ {
			w.randomOp(wt)
		}
	}
}

func init() {
	Groups = append(Groups,
		Group{"core", history("", weights{send1: 10, send2: 6, recv1: 12, recv2: 7, ack1: 8, ack2: 5, to1: 5, toc1: 3, to2: 4, wack1: 4, wack2: 4, race1: 3, race2: 2, hs: 4, auth: 3})},
		Group{"ordered", history("ordered", weights{send1: 14, send2: 1, recv1: 16, recv2: 1, ack1: 12, ack2: 1, to1: 6, toc1: 4, to2: 1, wack1: 5, wack2: 1, race1: 4, race2: 1, hs: 4, auth: 1})},
		Group{"v2", history("v2", weights{send1: 4, send2: 12, recv1: 3, recv2: 16, ack1: 2, ack2: 10, to1: 1, toc1: 1, to2: 7, wack1: 1, wack2: 8, race1: 1, race2: 4, hs: 2, auth: 3})},
		Group{"handshake", history("", weights{send1: 3, send2: 1, recv1: 3, recv2: 1, ack1: 2, ack2: 1, to1: 2, toc1: 2, to2: 1, wack1: 1, wack2: 1, race1: 1, race2: 1, hs: 30, auth: 6})},
		Group{"auth", history("auth", weights{send1: 2, send2: 4, recv1: 2, recv2: 6, ack1: 1, ack2: 4, to1: 1, toc1: 1, to2: 3, wack1: 1, wack2: 1, race1: 1, race2: 1, hs: 3, auth: 30})},
	)
}
