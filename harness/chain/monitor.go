package chain

import (
	"fmt"
	"strconv"
	"strings"

	"verif/harness/lib"
)

// Monitors evaluate the properties themselves on the implementation's own trace (never on the Lean
// model): every op of every history and the canonical answer the real handlers gave for it.
//
// They are SOUND by construction: each clause below restates (a consequence of) one property of
// properties.jsonl over the observable trace — callback log, typed store delta, return value —
// and fires only when that trace itself breaks it.  State is tracked with a Shadow that is built
// from the answers alone; clauses that speak about "the state before the op" are evaluated before
// the answer is folded into the shadow, the others after.
//
// One violation is reported per (property, clause) and history; its Input is the whole history up
// to and including the offending op, so it can be replayed with `chain -replay`.
type Monitors struct {
	report func(lib.Violation)

	// per-history state (reset by f=="reset")
	sh    *Shadow
	hist  []lib.M         // deep copies of all ops of the current history
	fired map[string]bool // "<property>/<clause>" already reported in this history

	recvSeen  map[string]int    // C01: "recv1 ..." / "recv2 ..." callback string -> occurrences
	terminal  map[string]int    // C03: "1 port chan seq" / "2 src seq idx" -> ack+timeout callbacks
	lastRecv  map[string]uint64 // C02: "port/chan" -> sequence of the last recv1 callback
	lastAck   map[string]uint64 // C02: "port/chan" -> sequence of the last ack1 callback
	timedOut  map[string]bool   // C14: "port/chan" ordered ends that saw a successful timeout
	lastSend  map[string]uint64 // C08: id -> last returned send sequence
	clientIDs map[string]bool   // C15: identifiers handed out in this history
	chanIDs   map[string]bool
	connIDs   map[string]bool
}

// SentinelV2 is hex(sha256("UNIVERSAL_ERROR_ACKNOWLEDGEMENT")), the v2 universal error acknowledgement.
const SentinelV2 = "4774d4a575993f963b1c06573736617a457abef8589178db8d10c94b4ab511ab"

func NewMonitors(report func(lib.Violation)) *Monitors {
	m := &Monitors{report: report}
	m.resetHistory()
	return m
}

func (m *Monitors) resetHistory() {
	m.sh = NewShadow()
	m.hist = nil
	m.fired = map[string]bool{}
	m.recvSeen = map[string]int{}
	m.terminal = map[string]int{}
	m.lastRecv = map[string]uint64{}
	m.lastAck = map[string]uint64{}
	m.timedOut = map[string]bool{}
	m.lastSend = map[string]uint64{}
	m.clientIDs = map[string]bool{}
	m.chanIDs = map[string]bool{}
	m.connIDs = map[string]bool{}
}

// obs is one observed (op, answer) pair, pre-digested.
type obs struct {
	f      string
	op     lib.M
	out    any
	cls    string // "ok" | "noop"
	d      []DeltaEntry
	cb     []string
	ret    string
	signer string // symbolic signer ("alice" when the op has none)
	known  bool   // signer is one of the five symbolic names (only then signer comparisons are meaningful)
}

// Observe is called for EVERY op of every history, in order.
func (m *Monitors) Observe(op lib.M, out any) {
	f := optStr(op, "f", "")
	if f == "reset" || m.sh == nil {
		m.resetHistory()
	}
	m.hist = append(m.hist, cloneVal(op).(lib.M))
	if f == "reset" {
		return
	}
	cls := Class(out)
	if cls != "ok" && cls != "noop" {
		// failure / panic: state unchanged and no callback committed; every clause below is about
		// what a SUCCESSFUL answer may do, so there is nothing to check.
		return
	}
	o := &obs{f: f, op: op, out: out, cls: cls, d: Delta(out), cb: Callbacks(out), ret: Ret(out)}
	o.signer = optStr(op, "signer", "alice")
	switch o.signer {
	case "auth", "alice", "bob", "carol", "dave":
		o.known = true
	}

	// ---- clauses evaluated against the shadow BEFORE the answer is applied ----
	m.c01(o)
	m.c03Counts(o)
	m.c14Pre(o)
	m.c11Pre(o)
	m.c08(o)
	m.c09(o)
	m.c10(o)
	m.c12(o)
	m.c13(o)
	m.c15(o)
	m.c46(o)

	m.sh.Apply(out)

	// ---- clauses evaluated against the shadow AFTER the answer is applied ----
	m.c02(o)
	m.c03Post(o)
	m.c11Post(o)
	m.c14Post(o)
}

// viol reports at most one violation per (property, clause) and history.
func (m *Monitors) viol(o *obs, prop, clause, what string, observed lib.M) {
	key := prop + "/" + clause
	if m.fired[key] {
		return
	}
	m.fired[key] = true
	if observed == nil {
		observed = lib.M{}
	}
	observed["key"] = key
	observed["op_index"] = len(m.hist) - 1
	observed["f"] = o.f
	observed["answer"] = o.out
	m.report(lib.Violation{
		Property: prop,
		What:     what,
		Input:    lib.M{"history": append([]lib.M(nil), m.hist...)},
		Observed: observed,
	})
}

// ------------------------------------------------------------------------------------------------
// C01  exactly-once delivery
// ------------------------------------------------------------------------------------------------

func (m *Monitors) c01(o *obs) {
	// (a) every distinct receive-callback string (it names destination, sequence and, for v2, the
	// payload index) occurs at most once in a history.
	for _, c := range o.cb {
		if strings.HasPrefix(c, "recv1 ") || strings.HasPrefix(c, "recv2 ") {
			m.recvSeen[c]++
			if n := m.recvSeen[c]; n > 1 {
				m.viol(o, "C01", "recv-twice", "the destination application's receive callback ran more than once for the same packet",
					lib.M{"callback": c, "count": n})
			}
		}
	}
	// (b) a redundant relay changes nothing and does not reach the application.
	if o.cls == "noop" && (len(o.d) > 0 || len(o.cb) > 0) {
		m.viol(o, "C01", "noop-effect", "a NOOP answer changed state or reached an application",
			lib.M{"delta_entries": len(o.d), "callbacks": o.cb})
	}
}

// ------------------------------------------------------------------------------------------------
// C02  ordered channels: callbacks strictly in sequence (evaluated after Apply; ordering of a
// channel never changes, so pre- or post-state makes no difference)
// ------------------------------------------------------------------------------------------------

func (m *Monitors) c02(o *obs) {
	for _, c := range o.cb {
		fs := strings.Fields(c)
		if len(fs) < 4 {
			continue
		}
		var last map[string]uint64
		switch fs[0] {
		case "recv1":
			last = m.lastRecv
		case "ack1":
			last = m.lastAck
		default:
			continue
		}
		ci, ok := m.sh.Chan(fs[1], fs[2])
		if !ok || ci.Order != "ORDERED" {
			continue
		}
		seq, err := strconv.ParseUint(fs[3], 10, 64)
		if err != nil {
			continue
		}
		key := fs[1] + "/" + fs[2]
		if want := last[key] + 1; seq != want {
			m.viol(o, "C02", fs[0]+"-order", "an ORDERED channel's "+fs[0]+" callbacks are not the sequences 1,2,3,... in order",
				lib.M{"channel": key, "callback": c, "expected_seq": lib.U(want)})
		}
		last[key] = seq
	}
}

// ------------------------------------------------------------------------------------------------
// C03  at most one terminal outcome per sent packet
// ------------------------------------------------------------------------------------------------

func (m *Monitors) c03Counts(o *obs) {
	for _, c := range o.cb {
		fs := strings.Fields(c)
		if len(fs) < 4 {
			continue
		}
		var key string
		switch fs[0] {
		case "ack1", "timeout1": // <port> <chan> <seq> [ackhex]
			key = "1 " + fs[1] + " " + fs[2] + " " + fs[3]
		case "ack2", "timeout2": // <src> <seq> <idx> [ackhex]
			key = "2 " + fs[1] + " " + fs[2] + " " + fs[3]
		default:
			continue
		}
		m.terminal[key]++
		if n := m.terminal[key]; n > 1 {
			m.viol(o, "C03", "terminal-twice", "the sending application observed more than one acknowledgement/timeout for one packet",
				lib.M{"packet": key, "callback": c, "count": n})
		}
	}
}

func (m *Monitors) c03Post(o *obs) {
	if o.cls != "ok" {
		return
	}
	pkt := optObj(o.op, "pkt")
	var kind, key string
	switch o.f {
	case "ackV1", "timeoutV1", "timeoutOnCloseV1":
		kind, key = "c1", optStr(pkt, "sp", "")+"/"+optStr(pkt, "sc", "")+"/"+numStr(pkt, "seq")
	case "ackV2", "timeoutV2":
		kind, key = "c2", optStr(pkt, "src", "")+"/"+numStr(pkt, "seq")
	default:
		return
	}
	if v, ok := m.sh.Get(kind, key); ok {
		m.viol(o, "C03", "commitment-left", "the packet commitment still exists after its acknowledgement/timeout was processed",
			lib.M{"kind": kind, "packet": key, "commitment": v})
	}
}

// ------------------------------------------------------------------------------------------------
// C08  sends allocate consecutive sequences and write exactly one commitment
// ------------------------------------------------------------------------------------------------

func (m *Monitors) c08(o *obs) {
	if o.cls != "ok" || (o.f != "sendV1" && o.f != "sendV2") {
		return
	}
	var id, prefix string
	if o.f == "sendV1" {
		id = optStr(o.op, "chan", "")
		prefix = optStr(o.op, "port", "") + "/" + id + "/"
	} else {
		id = optStr(o.op, "src", "")
		prefix = id + "/"
	}
	// (0) send-time guards: a send that succeeded must have been allowed by the light client the op
	// carried (status, latest height, latest consensus timestamp) and, for v2, by the block time window.
	// Only evaluated on fields the op really carries (added by the coordinator after an independently
	// written off-by-one in the v2 latest-timestamp guard was caught by the correspondence alone).
	if lcv, ok := o.op["lc"].(map[string]any); ok {
		if st, ok := lcv["st"].(string); ok && st != "Active" {
			m.viol(o, "C08", "guard-status", "a send succeeded through a light client that is not Active", lib.M{"id": id, "status": st})
		}
		if lh, ok := lcv["lh"].(map[string]any); ok {
			lr, okr := toNum(lh["r"])
			lhh, okh := toNum(lh["h"])
			if okr && okh && lr == 0 && lhh == 0 {
				m.viol(o, "C08", "guard-zero-height", "a send succeeded although the client's latest height is zero", lib.M{"id": id})
			}
			ts, okts := toNum(lcv["ts"])
			tt, oktt := toNum(o.op["tt"])
			if o.f == "sendV2" && okts && oktt {
				if ts/1_000_000_000 >= tt {
					m.viol(o, "C08", "guard-elapsed-v2", "a v2 send succeeded although its timeout had already passed according to the client's latest consensus state",
						lib.M{"id": id, "timeout_s": lib.U(tt), "latest_consensus_ns": lib.U(ts)})
				}
				if nowv, ok := o.op["now"].(map[string]any); ok {
					if nt, ok := toNum(nowv["t"]); ok && tt < 1<<33 && nt < 1<<62 {
						if tt*1_000_000_000 <= nt {
							m.viol(o, "C08", "guard-blocktime-v2", "a v2 send succeeded although its timeout is not strictly after the block time", lib.M{"id": id, "timeout_s": lib.U(tt), "block_ns": lib.U(nt)})
						}
						if tt*1_000_000_000 > nt+24*3600*1_000_000_000 {
							m.viol(o, "C08", "guard-maxdelta-v2", "a v2 send succeeded although its timeout is more than the maximum timeout delta ahead", lib.M{"id": id, "timeout_s": lib.U(tt), "block_ns": lib.U(nt)})
						}
					}
				}
			}
			if o.f == "sendV1" && okts && oktt && okr && okh {
				if th, ok := o.op["th"].(map[string]any); ok {
					thr, ok1 := toNum(th["r"])
					thh, ok2 := toNum(th["h"])
					if ok1 && ok2 {
						heightElapsed := !(thr == 0 && thh == 0) && (lr > thr || (lr == thr && lhh >= thh))
						tsElapsed := tt != 0 && ts >= tt
						if heightElapsed || tsElapsed {
							m.viol(o, "C08", "guard-elapsed-v1", "a v1 send succeeded although its timeout had already passed according to the client's latest consensus state",
								lib.M{"id": id, "timeout_height": lib.U(thr) + "-" + lib.U(thh), "timeout_ns": lib.U(tt), "latest_height": lib.U(lr) + "-" + lib.U(lhh), "latest_consensus_ns": lib.U(ts)})
						}
					}
				}
			}
		}
	}
	seq, err := strconv.ParseUint(o.ret, 10, 64)
	// (a) returned sequences per id are 1,2,3,... (v1 and v2 share the counter of an id)
	if want := m.lastSend[id] + 1; err != nil || seq != want {
		m.viol(o, "C08", "sequence", "a successful send did not return the next consecutive sequence of its channel/client id",
			lib.M{"id": id, "ret": o.ret, "expected": lib.U(want)})
	}
	if err != nil {
		return
	}
	m.lastSend[id] = seq
	// (b) exactly one commitment and one counter bump, nothing else of the packet-flow kinds
	ncommit, nsend := 0, 0
	for _, e := range o.d {
		switch e.Kind {
		case "c1", "c2":
			ncommit++
			if e.Val == nil || !strings.HasPrefix(e.Key, prefix) || !strings.HasSuffix(e.Key, "/"+o.ret) {
				m.viol(o, "C08", "commitment", "a successful send touched a commitment other than the one of the returned sequence",
					lib.M{"id": id, "ret": o.ret, "entry": entryDesc(e)})
			}
		case "nsend":
			nsend++
			if e.Key != id || e.Val == nil || seq+1 == 0 || *e.Val != lib.U(seq+1) {
				m.viol(o, "C08", "counter", "a successful send did not set nextSequenceSend of its id to the returned sequence + 1",
					lib.M{"id": id, "ret": o.ret, "entry": entryDesc(e)})
			}
		case "r1", "r2", "a1", "a2", "nrecv", "nack", "chan":
			m.viol(o, "C08", "extra-write", "a successful send wrote packet-flow state other than its commitment and send counter",
				lib.M{"id": id, "entry": entryDesc(e)})
		}
	}
	if ncommit != 1 {
		m.viol(o, "C08", "commitment-count", "a successful send did not write exactly one commitment",
			lib.M{"id": id, "ret": o.ret, "commitment_entries": ncommit})
	}
	if nsend != 1 {
		m.viol(o, "C08", "counter-count", "a successful send did not update exactly one nextSequenceSend counter",
			lib.M{"id": id, "ret": o.ret, "nsend_entries": nsend})
	}
}

// ------------------------------------------------------------------------------------------------
// C09  v1 receive: application state committed iff the acknowledgement is not an error
// ------------------------------------------------------------------------------------------------

func (m *Monitors) c09(o *obs) {
	if o.cls != "ok" || o.f != "recvV1" {
		return
	}
	app := optObj(o.op, "app")
	res := optStr(app, "res", "ok")
	w := optNum(app, "w", 0)
	tag := optStr(o.op, "tag", "t")
	pkt := optObj(o.op, "pkt")
	end := optStr(pkt, "dp", "") + "/" + optStr(pkt, "dc", "")
	key := end + "/" + numStr(pkt, "seq")
	switch res {
	case "err":
		for _, e := range o.d {
			if e.Kind == "app" {
				m.viol(o, "C09", "err-app-state", "application state written during a receive that returned an error acknowledgement persisted",
					lib.M{"packet": key, "entry": entryDesc(e)})
			}
		}
		if e := findSet(o.d, "a1", key); e == nil {
			m.viol(o, "C09", "err-no-ack", "a receive with an error acknowledgement succeeded without writing the acknowledgement",
				lib.M{"packet": key})
		}
		if findSet(o.d, "r1", key) == nil && findSet(o.d, "nrecv", end) == nil {
			m.viol(o, "C09", "err-no-receipt", "a receive with an error acknowledgement succeeded without writing a receipt / bumping nextSequenceRecv",
				lib.M{"packet": key})
		}
	case "ok", "async":
		m.appPersisted(o, "C09", "k", w, tag, func(e DeltaEntry) bool { return true })
	}
}

// appPersisted checks that the scripted application writes <stem>0..<stem>(w-1) := tag are all in
// the committed delta (a key may be absent only if the pre-state already held exactly that value)
// and that every "app" entry selected by `mine` is one of those writes.
func (m *Monitors) appPersisted(o *obs, prop, stem string, w uint64, tag string, mine func(DeltaEntry) bool) {
	inDelta := map[string]DeltaEntry{}
	for _, e := range o.d {
		if e.Kind == "app" && mine(e) {
			inDelta[e.Key] = e
		}
	}
	for i := uint64(0); i < w; i++ {
		k := stem + lib.U(i)
		if e, ok := inDelta[k]; ok {
			delete(inDelta, k)
			if e.Val == nil || *e.Val != tag {
				m.viol(o, prop, "app-lost", "an application write of a successful/asynchronous receive was not committed as written",
					lib.M{"key": k, "expected": tag, "entry": entryDesc(e)})
			}
			continue
		}
		if old, ok := m.sh.Get("app", k); !ok || old != tag {
			m.viol(o, prop, "app-lost", "an application write of a successful/asynchronous receive was not committed",
				lib.M{"key": k, "expected": tag})
		}
	}
	for _, k := range lib.SortedKeys(inDelta) {
		m.viol(o, prop, "app-extra", "application state changed that the receive callback(s) of this op did not write",
			lib.M{"entry": entryDesc(inDelta[k])})
	}
}

// ------------------------------------------------------------------------------------------------
// C10  v2 multi-payload receives are all-or-nothing
// ------------------------------------------------------------------------------------------------

func (m *Monitors) c10(o *obs) {
	if o.cls != "ok" {
		return
	}
	// a successful acknowledgement never contains the sentinel next to other elements (any op that
	// writes a v2 acknowledgement: recvV2 and the asynchronous writeAckV2)
	for _, e := range o.d {
		if e.Kind != "a2" || e.Val == nil {
			continue
		}
		if parts := strings.Split(*e.Val, ","); len(parts) > 1 {
			for _, p := range parts {
				if p == SentinelV2 {
					m.viol(o, "C10", "sentinel-in-list", "a written v2 acknowledgement holds the error sentinel inside a multi-element list",
						lib.M{"entry": entryDesc(e)})
				}
			}
		}
	}
	if o.f != "recvV2" {
		return
	}
	pkt := optObj(o.op, "pkt")
	dst, seq := optStr(pkt, "dst", ""), numStr(pkt, "seq")
	key := dst + "/" + seq
	n := len(glist(pkt, "payloads"))
	apps := glist(o.op, "apps")
	script := func(i int) map[string]any { // missing entries: res "ok", w 0, ack ""
		if i < len(apps) && apps[i] != nil {
			return apps[i]
		}
		return map[string]any{}
	}
	scripted := true // every payload has an explicit script (then the commitment dictionary knows every prefix)
	fail := -1
	for i := 0; i < n; i++ {
		if i >= len(apps) || apps[i] == nil {
			scripted = false
		}
		if fail < 0 && optStr(script(i), "res", "ok") == "fail" {
			fail = i
		}
	}
	executed := n // payloads whose callback runs: all, or up to and including the first failing one
	if fail >= 0 {
		executed = fail + 1
	}
	async := false // an EXECUTED payload answered async (one behind the first failure never runs)
	for i := 0; i < executed; i++ {
		if i != fail && optStr(script(i), "res", "ok") == "async" {
			async = true
		}
	}
	if async && n > 1 {
		m.viol(o, "C10", "async-multi", "a multi-payload v2 receive with an asynchronous application result succeeded",
			lib.M{"packet": key, "payloads": n})
	}
	var wantCb []string
	for i := 0; i < executed; i++ {
		wantCb = append(wantCb, fmt.Sprintf("recv2 %s %s %d", dst, seq, i))
	}
	a2 := findSet(o.d, "a2", key)
	switch {
	case fail >= 0:
		for _, e := range o.d {
			if e.Kind == "app" {
				m.viol(o, "C10", "fail-app-state", "application state of a v2 receive with a failing payload persisted",
					lib.M{"packet": key, "failing_payload": fail, "entry": entryDesc(e)})
			}
		}
		if a2 == nil || *a2.Val != SentinelV2 {
			m.viol(o, "C10", "fail-ack", "a v2 receive with a failing payload did not write exactly the universal error acknowledgement",
				lib.M{"packet": key, "failing_payload": fail, "a2": valDesc(a2)})
		}
		if !sameStrings(o.cb, wantCb) {
			m.viol(o, "C10", "fail-callbacks", "a v2 receive with a failing payload did not run exactly the payloads up to the failing one",
				lib.M{"packet": key, "failing_payload": fail, "expected_cb": wantCb})
		}
	case !async:
		var acks []string
		for i := 0; i < n; i++ {
			acks = append(acks, optStr(script(i), "ack", ""))
		}
		want := strings.Join(acks, ",")
		// a "?<hash>" value means the dictionary does not know the preimage; that proves a mismatch
		// only when every prefix of the scripted acknowledgements was registered (all scripts present)
		unknown := a2 != nil && strings.HasPrefix(*a2.Val, "?") && !scripted
		if !unknown && (a2 == nil || *a2.Val != want) {
			m.viol(o, "C10", "success-ack", "a fully successful v2 receive did not write one application acknowledgement per payload in payload order",
				lib.M{"packet": key, "expected_a2": want, "a2": valDesc(a2)})
		}
		if !sameStrings(o.cb, wantCb) {
			m.viol(o, "C10", "success-callbacks", "a fully successful v2 receive did not run every payload exactly once in order",
				lib.M{"packet": key, "expected_cb": wantCb})
		}
	}
	if fail < 0 {
		// all-or-nothing, the "all" half: every payload's writes p<i>k<j> := tag persist
		tag := optStr(o.op, "tag", "t")
		for i := 0; i < n; i++ {
			stem := "p" + strconv.Itoa(i) + "k"
			m.appPersisted(o, "C10", stem, optNum(script(i), "w", 0), tag, func(e DeltaEntry) bool { return strings.HasPrefix(e.Key, stem) })
		}
	}
}

// ------------------------------------------------------------------------------------------------
// C11  one immutable acknowledgement per received packet; async packet lifecycle
// ------------------------------------------------------------------------------------------------

func (m *Monitors) c11Pre(o *obs) {
	for _, e := range o.d {
		switch e.Kind {
		case "a1", "a2":
			// (a) write-once
			if old, ok := m.sh.Get(e.Kind, e.Key); ok && (e.Val == nil || *e.Val != old) {
				m.viol(o, "C11", "ack-changed", "an acknowledgement commitment that was already written changed or was deleted",
					lib.M{"kind": e.Kind, "packet": e.Key, "old": old, "entry": entryDesc(e)})
			}
			// (c) writing the acknowledgement of an async packet removes the stored packet
			if e.Kind == "a2" && e.Val != nil {
				if _, pending := m.sh.Get("async", e.Key); pending {
					if x := find(o.d, "async", e.Key); x == nil || x.Val != nil {
						m.viol(o, "C11", "async-kept", "the stored async packet was not removed when its acknowledgement was written",
							lib.M{"packet": e.Key})
					}
				}
			}
		case "async":
			if e.Val != nil {
				if o.f != "recvV2" {
					m.viol(o, "C11", "async-set", "an async packet was stored by something other than a v2 receive",
						lib.M{"entry": entryDesc(e)})
				}
			} else if findSet(o.d, "a2", e.Key) == nil {
				m.viol(o, "C11", "async-dropped", "a stored async packet was removed without its acknowledgement being written",
					lib.M{"packet": e.Key})
			}
		}
	}
}

func (m *Monitors) c11Post(o *obs) {
	// (b) v2 writes an acknowledgement only for a packet that has a receipt
	for _, e := range o.d {
		if e.Kind == "a2" && e.Val != nil {
			if _, ok := m.sh.Get("r2", e.Key); !ok {
				m.viol(o, "C11", "ack-without-receipt", "a v2 acknowledgement was written for a packet without receipt",
					lib.M{"packet": e.Key})
			}
		}
	}
}

// ------------------------------------------------------------------------------------------------
// C12  channel state machine
// ------------------------------------------------------------------------------------------------

func (m *Monitors) c12(o *obs) {
	for _, e := range o.d {
		if e.Kind != "chan" {
			continue
		}
		old, had := m.sh.Get("chan", e.Key)
		if e.Val == nil {
			m.viol(o, "C12", "deleted", "a channel end was deleted", lib.M{"channel": e.Key, "old": old})
			continue
		}
		nw := ParseChan(e.Key, *e.Val)
		ob := lib.M{"channel": e.Key, "old": old, "new": *e.Val}
		if !had {
			if nw.State != "INIT" && nw.State != "TRYOPEN" {
				m.viol(o, "C12", "created", "a channel end was created in a state other than INIT/TRYOPEN", ob)
			}
			continue
		}
		od := ParseChan(e.Key, old)
		if od.State == "CLOSED" && old != *e.Val {
			m.viol(o, "C12", "closed-changed", "a CLOSED channel end changed (CLOSED is terminal)", ob)
			continue
		}
		initToOpen := od.State == "INIT" && nw.State == "OPEN"
		switch {
		case od.State == nw.State:
		case initToOpen:
		case od.State == "TRYOPEN" && nw.State == "OPEN":
		case nw.State == "CLOSED": // od.State != CLOSED here
		default:
			m.viol(o, "C12", "transition", "a channel end changed state outside INIT->OPEN, TRYOPEN->OPEN, X->CLOSED", ob)
		}
		if od.Order != nw.Order || od.CpPort != nw.CpPort || od.Hops != nw.Hops {
			m.viol(o, "C12", "immutable", "ordering, counterparty port or connection hops of a channel end changed", ob)
		}
		if !initToOpen && (od.Version != nw.Version || od.CpChan != nw.CpChan) {
			m.viol(o, "C12", "version-cpchan", "version or counterparty channel id of a channel end changed outside INIT->OPEN", ob)
		}
	}
}

// ------------------------------------------------------------------------------------------------
// C13  connection state machine, channel-open version requirement, localhost refusal
// ------------------------------------------------------------------------------------------------

func (m *Monitors) c13(o *obs) {
	for _, e := range o.d {
		if e.Kind != "conn" {
			continue
		}
		old, had := m.sh.Get("conn", e.Key)
		if e.Val == nil {
			m.viol(o, "C13", "deleted", "a connection end was deleted", lib.M{"connection": e.Key, "old": old})
			continue
		}
		nw := ParseConn(e.Key, *e.Val)
		ob := lib.M{"connection": e.Key, "old": old, "new": *e.Val}
		if !had {
			if nw.State != "INIT" && nw.State != "TRYOPEN" {
				m.viol(o, "C13", "created", "a connection end was created in a state other than INIT/TRYOPEN", ob)
			}
			continue
		}
		od := ParseConn(e.Key, old)
		if od.State == "OPEN" && old != *e.Val {
			m.viol(o, "C13", "open-changed", "an OPEN connection end changed (it never leaves OPEN)", ob)
			continue
		}
		switch {
		case od.State == nw.State:
		case od.State == "INIT" && nw.State == "OPEN":
		case od.State == "TRYOPEN" && nw.State == "OPEN":
		default:
			m.viol(o, "C13", "transition", "a connection end changed state outside INIT->OPEN, TRYOPEN->OPEN", ob)
		}
		if od.State == "INIT" && nw.State == "OPEN" {
			// the version fixed by the ACK is ONE version, and this end offered it on INIT: same identifier,
			// features a subset of the offered ones (so the result lies within both sides' feature sets)
			offered, got := parseVersions(od.Versions), parseVersions(nw.Versions)
			okv := len(got) == 1
			if okv {
				okv = false
				for _, ov := range offered {
					if ov.id == got[0].id && len(got[0].feats) > 0 {
						all := true
						for _, f := range got[0].feats {
							if !contains(ov.feats, f) {
								all = false
							}
						}
						if all {
							okv = true
						}
					}
				}
			}
			if !okv {
				m.viol(o, "C13", "ack-version", "ConnOpenAck opened the connection with a version this end did not offer on INIT (identifier or features outside the offered ones)", ob)
			}
		}
		if od.Client != nw.Client || od.CpClient != nw.CpClient || od.Prefix != nw.Prefix || od.Delay != nw.Delay {
			m.viol(o, "C13", "immutable", "client, counterparty client, prefix or delay period of a connection end changed", ob)
		}
	}
	if o.cls != "ok" {
		return
	}
	switch o.f {
	case "chanOpenInit", "chanOpenTry":
		// a channel opens only on a connection with exactly one negotiated version that supports the ordering
		hops := gstrs(o.op, "hops")
		want := "ORDER_" + optStr(o.op, "order", "")
		ob := lib.M{"hops": hops, "feature": want}
		if len(hops) == 0 {
			m.viol(o, "C13", "chan-conn", "a channel open succeeded without a connection hop", ob)
			return
		}
		v, ok := m.sh.Get("conn", hops[0])
		if !ok {
			m.viol(o, "C13", "chan-conn", "a channel open succeeded on a connection that does not exist", ob)
			return
		}
		vers := ParseConn(hops[0], v).Versions
		ob["versions"] = vers
		supported := false
		if vers != "" && !strings.Contains(vers, ";") {
			if i := strings.Index(vers, ":"); i >= 0 {
				for _, ft := range strings.Split(vers[i+1:], ",") {
					if ft == want {
						supported = true
					}
				}
			}
		}
		if !supported {
			m.viol(o, "C13", "chan-version", "a channel open succeeded on a connection without exactly one version supporting the requested ordering", ob)
		}
	case "connOpenInit", "connOpenTry":
		if optStr(o.op, "client", "") == "09-localhost" {
			m.viol(o, "C13", "localhost", "a connection handshake over the localhost client succeeded", nil)
		}
	}
}

// ------------------------------------------------------------------------------------------------
// C14  ordered timeouts close the channel; nothing flows on a CLOSED end
// ------------------------------------------------------------------------------------------------

type connVersion struct {
	id    string
	feats []string
}

// parseVersions reads the canonical versions string of a connection end ("id:f1,f2;id:f1")
func parseVersions(s string) []connVersion {
	var out []connVersion
	if s == "" {
		return out
	}
	for _, v := range strings.Split(s, ";") {
		cv := connVersion{id: v}
		if i := strings.Index(v, ":"); i >= 0 {
			cv.id = v[:i]
			if v[i+1:] != "" {
				cv.feats = strings.Split(v[i+1:], ",")
			}
		}
		out = append(out, cv)
	}
	return out
}

// packetEnd is the local channel end a v1 packet op acts on.
func packetEnd(o *obs) (string, bool) {
	pkt := optObj(o.op, "pkt")
	switch o.f {
	case "sendV1":
		return optStr(o.op, "port", "") + "/" + optStr(o.op, "chan", ""), true
	case "recvV1", "writeAckV1":
		return optStr(pkt, "dp", "") + "/" + optStr(pkt, "dc", ""), true
	case "ackV1":
		return optStr(pkt, "sp", "") + "/" + optStr(pkt, "sc", ""), true
	}
	return "", false
}

func (m *Monitors) c14Pre(o *obs) {
	if o.cls != "ok" {
		return
	}
	end, ok := packetEnd(o)
	if !ok {
		return
	}
	if m.timedOut[end] {
		m.viol(o, "C14", "flow-after-timeout", "a packet was sent/received/acknowledged on an ORDERED channel end after a packet on it had timed out",
			lib.M{"channel": end})
	}
	if v, ok := m.sh.Get("chan", end); ok && ParseChan(end, v).State == "CLOSED" {
		m.viol(o, "C14", "flow-on-closed", "a packet was sent/received/acknowledged on a CLOSED channel end",
			lib.M{"channel": end, "state": v})
	}
}

func (m *Monitors) c14Post(o *obs) {
	if o.cls != "ok" || (o.f != "timeoutV1" && o.f != "timeoutOnCloseV1") {
		return
	}
	pkt := optObj(o.op, "pkt")
	end := optStr(pkt, "sp", "") + "/" + optStr(pkt, "sc", "")
	v, ok := m.sh.Get("chan", end)
	if !ok {
		return
	}
	ci := ParseChan(end, v)
	if ci.Order != "ORDERED" {
		return
	}
	m.timedOut[end] = true
	if ci.State != "CLOSED" {
		m.viol(o, "C14", "not-closed", "an ORDERED channel end is not CLOSED after one of its packets was timed out",
			lib.M{"channel": end, "state": v})
	}
}

// ------------------------------------------------------------------------------------------------
// C15  generated identifiers are never reused; identifier counters only grow
// ------------------------------------------------------------------------------------------------

func (m *Monitors) c15(o *obs) {
	fresh := func(set map[string]bool, class, id string) {
		if set[id] {
			m.viol(o, "C15", "reused-"+class, "a generated "+class+" identifier was handed out twice in one history", lib.M{"id": id})
		}
		set[id] = true
	}
	if o.cls == "ok" {
		switch o.f {
		case "createClient":
			fresh(m.clientIDs, "client", o.ret)
		case "chanOpenInit", "chanOpenTry":
			id, _, _ := strings.Cut(o.ret, "|")
			fresh(m.chanIDs, "channel", id)
		}
	}
	for _, e := range o.d {
		switch e.Kind {
		case "conn":
			if _, had := m.sh.Get("conn", e.Key); !had && e.Val != nil {
				fresh(m.connIDs, "connection", e.Key)
			}
		case "nchan", "nconn", "nclient":
			old, had := m.sh.Get(e.Kind, e.Key)
			if !had {
				continue // first sight of the counter: nothing to compare with
			}
			ob := lib.M{"counter": e.Kind, "old": old, "entry": entryDesc(e)}
			if e.Val == nil {
				m.viol(o, "C15", "counter", "an identifier counter was deleted", ob)
				continue
			}
			a, err1 := strconv.ParseUint(old, 10, 64)
			b, err2 := strconv.ParseUint(*e.Val, 10, 64)
			if err1 == nil && err2 == nil && b <= a {
				m.viol(o, "C15", "counter", "an identifier counter did not strictly increase", ob)
			}
		}
	}
}

// ------------------------------------------------------------------------------------------------
// C46  privileged and client-scoped operations require the right signer
// ------------------------------------------------------------------------------------------------

func (m *Monitors) c46(o *obs) {
	ok := o.cls == "ok"
	client := optStr(o.op, "client", "")
	creator, hasCreator := m.sh.Get("creator", client)
	ob := lib.M{"signer": o.signer}
	switch o.f {
	case "recoverClient", "updateClientParams", "updateConnParams", "ibcSoftwareUpgrade":
		if ok && o.known && o.signer != "auth" {
			m.viol(o, "C46", "authority", "an authority-only operation succeeded for a signer that is not the authority", ob)
		}
	case "registerCounterparty":
		if !ok {
			break
		}
		ob["client"], ob["creator"] = client, creator
		if !hasCreator || (o.known && creator != o.signer) {
			m.viol(o, "C46", "register-creator", "counterparty registration succeeded for a signer that is not the client's creator", ob)
		}
		if cp, has := m.sh.Get("cp", client); has {
			ob["cp"] = cp
			m.viol(o, "C46", "register-twice", "counterparty registration succeeded although a counterparty was already registered", ob)
		}
	case "updateClientConfig":
		ob["client"], ob["creator"] = client, creator
		if ok && o.known && o.signer != "auth" && !(hasCreator && creator == o.signer) {
			m.viol(o, "C46", "config-signer", "a client config update succeeded for a signer that is neither the authority nor the creator", ob)
		}
	case "deleteClientCreator":
		if !ok {
			break
		}
		ob["client"], ob["creator"] = client, creator
		if !hasCreator {
			m.viol(o, "C46", "delete-no-creator", "creator deletion succeeded for a client without creator", ob)
		} else if o.known && o.signer != "auth" && creator != o.signer {
			m.viol(o, "C46", "delete-signer", "creator deletion succeeded for a signer that is neither the authority nor the creator", ob)
		}
	}

	// relayer allow list of the client a v2 packet message / client update is addressed to
	pkt := optObj(o.op, "pkt")
	id, scoped := "", true
	switch o.f {
	case "recvV2":
		id = optStr(pkt, "dst", "")
	case "ackV2", "timeoutV2":
		id = optStr(pkt, "src", "")
	case "updateClient":
		id = client
	default:
		scoped = false
	}
	if scoped && o.known { // ok or noop
		if cfg, has := m.sh.Get("cfg", id); has && cfg != "" && !contains(strings.Split(cfg, ","), o.signer) {
			m.viol(o, "C46", "relayer", "a v2 packet message / client update succeeded for a relayer outside the client's non-empty allow list",
				lib.M{"signer": o.signer, "client": id, "allowed_relayers": cfg})
		}
	}

	// allowed client types
	if ok && (o.f == "createClient" || o.f == "updateClient") {
		ctype := optStr(o.op, "ctype", "")
		if o.f == "updateClient" {
			ctype = client
			if i := strings.LastIndex(client, "-"); i >= 0 {
				ctype = client[:i]
			}
		}
		if allowed, has := m.sh.Get("cparams", ""); has && allowed != "*" && !contains(strings.Split(allowed, ","), ctype) {
			m.viol(o, "C46", "allowed-clients", "a client whose type is not on the allowed-client list was created/updated",
				lib.M{"client_type": ctype, "allowed_clients": allowed})
		}
	}
}

// ------------------------------------------------------------------------------------------------
// helpers
// ------------------------------------------------------------------------------------------------

// find returns the delta entry (set or deleted) of a kind and key.
func find(d []DeltaEntry, kind, key string) *DeltaEntry {
	for i := range d {
		if d[i].Kind == kind && d[i].Key == key {
			return &d[i]
		}
	}
	return nil
}

// findSet returns the delta entry of a kind and key if it SETS a value.
func findSet(d []DeltaEntry, kind, key string) *DeltaEntry {
	if e := find(d, kind, key); e != nil && e.Val != nil {
		return e
	}
	return nil
}

func entryDesc(e DeltaEntry) []any {
	if e.Val == nil {
		return []any{e.Kind, e.Key, nil}
	}
	return []any{e.Kind, e.Key, *e.Val}
}

func valDesc(e *DeltaEntry) any {
	if e == nil || e.Val == nil {
		return nil
	}
	return *e.Val
}

func contains(xs []string, x string) bool {
	for _, y := range xs {
		if y == x {
			return true
		}
	}
	return false
}

func sameStrings(a, b []string) bool {
	if len(a) != len(b) {
		return false
	}
	for i := range a {
		if a[i] != b[i] {
			return false
		}
	}
	return true
}

// Tolerant op getters: ops are either built by the generators ([]string, []map[string]any, lib.M,
// ints) or decoded from JSON ([]any, map[string]any, float64); numbers are decimal strings or ints.
// None of them panics: a malformed adversarial op simply yields defaults.

func optStr(m map[string]any, k, def string) string {
	if s, ok := m[k].(string); ok {
		return s
	}
	return def
}

// optObj returns the object field k, or an empty (readable) map.
func optObj(m map[string]any, k string) map[string]any {
	if v, ok := m[k].(map[string]any); ok {
		return v
	}
	return map[string]any{}
}

func toNum(v any) (uint64, bool) {
	switch x := v.(type) {
	case string:
		n, err := strconv.ParseUint(x, 10, 64)
		return n, err == nil
	case float64:
		if x < 0 {
			return 0, false
		}
		return uint64(x), true
	case int:
		if x < 0 {
			return 0, false
		}
		return uint64(x), true
	case int64:
		if x < 0 {
			return 0, false
		}
		return uint64(x), true
	case uint64:
		return x, true
	}
	return 0, false
}

func optNum(m map[string]any, k string, def uint64) uint64 {
	if n, ok := toNum(m[k]); ok {
		return n
	}
	return def
}

// numStr renders a numeric field the way canonical keys do (plain decimal).
func numStr(m map[string]any, k string) string {
	if n, ok := toNum(m[k]); ok {
		return lib.U(n)
	}
	return optStr(m, k, "")
}

// cloneVal deep-copies the JSON-like value of an op so that a recorded history cannot be changed
// by a generator that reuses or mutates its maps.
func cloneVal(v any) any {
	switch x := v.(type) {
	case map[string]any:
		c := make(lib.M, len(x))
		for k, y := range x {
			c[k] = cloneVal(y)
		}
		return c
	case []any:
		c := make([]any, len(x))
		for i, y := range x {
			c[i] = cloneVal(y)
		}
		return c
	case []map[string]any:
		c := make([]any, len(x))
		for i, y := range x {
			if y == nil {
				c[i] = nil
			} else {
				c[i] = cloneVal(y)
			}
		}
		return c
	case []string:
		return append([]string(nil), x...)
	}
	return v
}
