package chain

import "verif/harness/lib"

// Monitors evaluate the properties themselves on the implementation's own trace.
type Monitors struct {
	report func(lib.Violation)
}

func NewMonitors(report func(lib.Violation)) *Monitors { return &Monitors{report: report} }

func (m *Monitors) Observe(op lib.M, out any) {}
