package chain

import (
	"sort"
	"strings"

	"verif/harness/lib"
)

// Shadow is the harness-side view of the implementation's typed state in the current history,
// rebuilt only from the answers (deltas) the implementation gave.  Generators use it to build mostly
// valid ops; monitors use it to evaluate properties on the implementation's own trace.
type Shadow struct {
	KV map[string]map[string]string // kind -> key -> canonical value
}

func NewShadow() *Shadow { return &Shadow{KV: map[string]map[string]string{}} }

// Answer accessors ---------------------------------------------------------------------------

// Class returns "ok", "noop", "reset", "err:<class>", "panic" or "bad".
func Class(out any) string {
	m, ok := out.(lib.M)
	if !ok {
		if mm, ok2 := out.(map[string]any); ok2 {
			m = mm
		} else {
			return "bad"
		}
	}
	if r, ok := m["r"].(string); ok {
		return r
	}
	if e, ok := m["err"].(string); ok {
		return "err:" + e
	}
	if _, ok := m["panic"]; ok {
		return "panic"
	}
	return "bad"
}

// DeltaEntry is one [kind,key,value] entry of an answer (Val == nil: deleted).
type DeltaEntry struct {
	Kind, Key string
	Val       *string
}

func Delta(out any) []DeltaEntry {
	m, ok := out.(map[string]any)
	if !ok {
		return nil
	}
	var res []DeltaEntry
	add := func(kind, key string, v any) {
		e := DeltaEntry{Kind: kind, Key: key}
		if s, ok := v.(string); ok {
			e.Val = &s
		}
		res = append(res, e)
	}
	switch d := m["d"].(type) {
	case [][]any:
		for _, x := range d {
			add(x[0].(string), x[1].(string), x[2])
		}
	case []any: // replayed from JSON
		for _, xx := range d {
			x := xx.([]any)
			add(x[0].(string), x[1].(string), x[2])
		}
	}
	return res
}

func Callbacks(out any) []string {
	m, ok := out.(map[string]any)
	if !ok {
		return nil
	}
	switch c := m["cb"].(type) {
	case []string:
		return c
	case []any:
		var r []string
		for _, x := range c {
			s, _ := x.(string)
			r = append(r, s)
		}
		return r
	}
	return nil
}

func Ret(out any) string {
	if m, ok := out.(map[string]any); ok {
		s, _ := m["ret"].(string)
		return s
	}
	return ""
}

// Apply folds an answer into the shadow state.
func (s *Shadow) Apply(out any) {
	for _, e := range Delta(out) {
		m := s.KV[e.Kind]
		if m == nil {
			m = map[string]string{}
			s.KV[e.Kind] = m
		}
		if e.Val == nil {
			delete(m, e.Key)
		} else {
			m[e.Key] = *e.Val
		}
	}
}

func (s *Shadow) Get(kind, key string) (string, bool) {
	v, ok := s.KV[kind][key]
	return v, ok
}

func (s *Shadow) Keys(kind string) []string {
	var ks []string
	for k := range s.KV[kind] {
		ks = append(ks, k)
	}
	sort.Strings(ks)
	return ks
}

// ChanInfo is a parsed "chan" value: STATE|ORDER|cpPort|cpChan|hops|version.
type ChanInfo struct {
	Port, ID                                    string
	State, Order, CpPort, CpChan, Hops, Version string
}

func ParseChan(key, val string) ChanInfo {
	pc := strings.SplitN(key, "/", 2)
	f := strings.SplitN(val, "|", 6)
	for len(f) < 6 {
		f = append(f, "")
	}
	c := ChanInfo{State: f[0], Order: f[1], CpPort: f[2], CpChan: f[3], Hops: f[4], Version: f[5]}
	if len(pc) == 2 {
		c.Port, c.ID = pc[0], pc[1]
	}
	return c
}

func (s *Shadow) Chans() []ChanInfo {
	var cs []ChanInfo
	for _, k := range s.Keys("chan") {
		cs = append(cs, ParseChan(k, s.KV["chan"][k]))
	}
	return cs
}

func (s *Shadow) Chan(port, id string) (ChanInfo, bool) {
	v, ok := s.Get("chan", port+"/"+id)
	if !ok {
		return ChanInfo{}, false
	}
	return ParseChan(port+"/"+id, v), true
}

// ConnInfo is a parsed "conn" value: STATE|client|cpClient|cpConn|prefix|delay|versions.
type ConnInfo struct {
	ID, State, Client, CpClient, CpConn, Prefix, Delay, Versions string
}

func ParseConn(key, val string) ConnInfo {
	f := strings.SplitN(val, "|", 7)
	for len(f) < 7 {
		f = append(f, "")
	}
	return ConnInfo{ID: key, State: f[0], Client: f[1], CpClient: f[2], CpConn: f[3], Prefix: f[4], Delay: f[5], Versions: f[6]}
}

func (s *Shadow) Conns() []ConnInfo {
	var cs []ConnInfo
	for _, k := range s.Keys("conn") {
		cs = append(cs, ParseConn(k, s.KV["conn"][k]))
	}
	return cs
}
