package chain

import (
	"fmt"

	upgradetypes "github.com/cosmos/cosmos-sdk/x/upgrade/types"

	sdk "github.com/cosmos/cosmos-sdk/types"

	clienttypes "github.com/cosmos/ibc-go/v11/modules/core/02-client/types"
	clientv2types "github.com/cosmos/ibc-go/v11/modules/core/02-client/v2/types"
	connectiontypes "github.com/cosmos/ibc-go/v11/modules/core/03-connection/types"
	channeltypes "github.com/cosmos/ibc-go/v11/modules/core/04-channel/types"
	channeltypesv2 "github.com/cosmos/ibc-go/v11/modules/core/04-channel/v2/types"
	commitmenttypes "github.com/cosmos/ibc-go/v11/modules/core/23-commitment/types"
	ibctm "github.com/cosmos/ibc-go/v11/modules/light-clients/07-tendermint"

	"verif/harness/lib"
)

func (e *Env) signer(op lib.M) string {
	n := gsd(op, "signer", "alice")
	if a, ok := e.Signers[n]; ok {
		return a
	}
	return n // raw (possibly invalid) address
}

func height(m map[string]any, k string) clienttypes.Height {
	h := gm(m, k)
	return clienttypes.NewHeight(gn(h, "r"), gn(h, "h"))
}

func order(s string) channeltypes.Order {
	switch s {
	case "UNORDERED":
		return channeltypes.UNORDERED
	case "ORDERED":
		return channeltypes.ORDERED
	}
	return channeltypes.NONE
}

func versionOf(m map[string]any) *connectiontypes.Version {
	return &connectiontypes.Version{Identifier: gs(m, "id"), Features: gstrs(m, "features")}
}

func packetV1(m map[string]any) channeltypes.Packet {
	return channeltypes.Packet{
		Sequence: gn(m, "seq"), SourcePort: gs(m, "sp"), SourceChannel: gs(m, "sc"),
		DestinationPort: gs(m, "dp"), DestinationChannel: gs(m, "dc"),
		Data: gh(m, "data"), TimeoutHeight: height(m, "th"), TimeoutTimestamp: gn(m, "tt"),
	}
}

func payloads(l []map[string]any) []channeltypesv2.Payload {
	out := make([]channeltypesv2.Payload, len(l))
	for i, p := range l {
		out[i] = channeltypesv2.Payload{SourcePort: gs(p, "sp"), DestinationPort: gs(p, "dp"), Version: gs(p, "ver"), Encoding: gs(p, "enc"), Value: gh(p, "val")}
	}
	return out
}

func packetV2(m map[string]any) channeltypesv2.Packet {
	return channeltypesv2.Packet{Sequence: gn(m, "seq"), SourceClient: gs(m, "src"), DestinationClient: gs(m, "dst"),
		TimeoutTimestamp: gn(m, "tt"), Payloads: payloads(glist(m, "payloads"))}
}

func hexList(m map[string]any, k string) [][]byte {
	var out [][]byte
	for _, s := range gstrs(m, k) {
		b, err := hexDecode(s)
		if err != nil {
			panic("harness: bad hex list")
		}
		out = append(out, b)
	}
	return out
}

type validator interface{ ValidateBasic() error }

// vb runs the message's stateless validation, as baseapp does before routing a tx message.
func vb(m validator) error { return m.ValidateBasic() }

var proofBz = []byte{0x01}

// dispatch builds the real message for the op and delivers it to the real handler.
func (e *Env) dispatch(ctx sdk.Context, f string, op lib.M) result {
	k := e.App.IBCKeeper
	sg := e.signer(op)
	respV1 := func(r channeltypes.ResponseResultType, err error) result {
		if err != nil {
			return errRes(err)
		}
		if r == channeltypes.NOOP {
			return result{class: "noop"}
		}
		return okRes("")
	}
	respV2 := func(r channeltypesv2.ResponseResultType, err error) result {
		if err != nil {
			return errRes(err)
		}
		if r == channeltypesv2.NOOP {
			return result{class: "noop"}
		}
		return okRes("")
	}
	switch f {
	// ---------------- connection handshake ----------------
	case "connOpenInit":
		var ver *connectiontypes.Version
		if v, ok := gmo(op, "version"); ok {
			ver = versionOf(v)
		}
		msg := connectiontypes.NewMsgConnectionOpenInit(gs(op, "client"), gs(op, "cpClient"), commitmenttypes.NewMerklePrefix(gh(op, "cpPrefix")), ver, gn(op, "delay"), sg)
		if err := vb(msg); err != nil {
			return errRes(errVB(err))
		}
		_, err := k.ConnectionOpenInit(ctx, msg)
		return result{class: "ok", err: err}
	case "connOpenTry":
		var vs []*connectiontypes.Version
		for _, v := range glist(op, "versions") {
			vs = append(vs, versionOf(v))
		}
		msg := connectiontypes.NewMsgConnectionOpenTry(gs(op, "client"), gs(op, "cpConn"), gs(op, "cpClient"), commitmenttypes.NewMerklePrefix(gh(op, "cpPrefix")), vs, gn(op, "delay"), proofBz, height(op, "ph"), sg)
		if err := vb(msg); err != nil {
			return errRes(errVB(err))
		}
		_, err := k.ConnectionOpenTry(ctx, msg)
		return result{class: "ok", err: err}
	case "connOpenAck":
		msg := connectiontypes.NewMsgConnectionOpenAck(gs(op, "conn"), gs(op, "cpConn"), proofBz, height(op, "ph"), versionOf(gm(op, "version")), sg)
		if err := vb(msg); err != nil {
			return errRes(errVB(err))
		}
		_, err := k.ConnectionOpenAck(ctx, msg)
		return result{class: "ok", err: err}
	case "connOpenConfirm":
		msg := connectiontypes.NewMsgConnectionOpenConfirm(gs(op, "conn"), proofBz, height(op, "ph"), sg)
		if err := vb(msg); err != nil {
			return errRes(errVB(err))
		}
		_, err := k.ConnectionOpenConfirm(ctx, msg)
		return result{class: "ok", err: err}

	// ---------------- channel handshake ----------------
	case "chanOpenInit":
		msg := channeltypes.NewMsgChannelOpenInit(gs(op, "port"), gs(op, "version"), order(gs(op, "order")), gstrs(op, "hops"), gs(op, "cpPort"), sg)
		if err := vb(msg); err != nil {
			return errRes(errVB(err))
		}
		r, err := k.ChannelOpenInit(ctx, msg)
		if err != nil {
			return errRes(err)
		}
		return okRes(r.ChannelId + "|" + r.Version)
	case "chanOpenTry":
		msg := channeltypes.NewMsgChannelOpenTry(gs(op, "port"), gsd(op, "version", ""), order(gs(op, "order")), gstrs(op, "hops"), gs(op, "cpPort"), gs(op, "cpChan"), gs(op, "cpVersion"), proofBz, height(op, "ph"), sg)
		if err := vb(msg); err != nil {
			return errRes(errVB(err))
		}
		r, err := k.ChannelOpenTry(ctx, msg)
		if err != nil {
			return errRes(err)
		}
		return okRes(r.ChannelId + "|" + r.Version)
	case "chanOpenAck":
		msg := channeltypes.NewMsgChannelOpenAck(gs(op, "port"), gs(op, "chan"), gs(op, "cpChan"), gs(op, "cpVersion"), proofBz, height(op, "ph"), sg)
		if err := vb(msg); err != nil {
			return errRes(errVB(err))
		}
		_, err := k.ChannelOpenAck(ctx, msg)
		return result{class: "ok", err: err}
	case "chanOpenConfirm":
		msg := channeltypes.NewMsgChannelOpenConfirm(gs(op, "port"), gs(op, "chan"), proofBz, height(op, "ph"), sg)
		if err := vb(msg); err != nil {
			return errRes(errVB(err))
		}
		_, err := k.ChannelOpenConfirm(ctx, msg)
		return result{class: "ok", err: err}
	case "chanCloseInit":
		msg := channeltypes.NewMsgChannelCloseInit(gs(op, "port"), gs(op, "chan"), sg)
		if err := vb(msg); err != nil {
			return errRes(errVB(err))
		}
		_, err := k.ChannelCloseInit(ctx, msg)
		return result{class: "ok", err: err}
	case "chanCloseConfirm":
		msg := channeltypes.NewMsgChannelCloseConfirm(gs(op, "port"), gs(op, "chan"), proofBz, height(op, "ph"), sg)
		if err := vb(msg); err != nil {
			return errRes(errVB(err))
		}
		_, err := k.ChannelCloseConfirm(ctx, msg)
		return result{class: "ok", err: err}

	// ---------------- v1 packets ----------------
	case "sendV1":
		// what an application does: ICS4Wrapper.SendPacket
		seq, err := k.ChannelKeeper.SendPacket(ctx, gs(op, "port"), gs(op, "chan"), height(op, "th"), gn(op, "tt"), gh(op, "data"))
		if err != nil {
			return errRes(err)
		}
		return okRes(lib.U(seq))
	case "recvV1":
		msg := channeltypes.NewMsgRecvPacket(packetV1(gm(op, "pkt")), proofBz, height(op, "ph"), sg)
		if err := vb(msg); err != nil {
			return errRes(errVB(err))
		}
		r, err := k.RecvPacket(ctx, msg)
		if err != nil {
			return errRes(err)
		}
		return respV1(r.Result, nil)
	case "ackV1":
		msg := channeltypes.NewMsgAcknowledgement(packetV1(gm(op, "pkt")), gh(op, "ack"), proofBz, height(op, "ph"), sg)
		if err := vb(msg); err != nil {
			return errRes(errVB(err))
		}
		r, err := k.Acknowledgement(ctx, msg)
		if err != nil {
			return errRes(err)
		}
		return respV1(r.Result, nil)
	case "timeoutV1":
		msg := channeltypes.NewMsgTimeout(packetV1(gm(op, "pkt")), gn(op, "nsr"), proofBz, height(op, "ph"), sg)
		if err := vb(msg); err != nil {
			return errRes(errVB(err))
		}
		r, err := k.Timeout(ctx, msg)
		if err != nil {
			return errRes(err)
		}
		return respV1(r.Result, nil)
	case "timeoutOnCloseV1":
		msg := channeltypes.NewMsgTimeoutOnClose(packetV1(gm(op, "pkt")), gn(op, "nsr"), proofBz, proofBz, height(op, "ph"), sg)
		if err := vb(msg); err != nil {
			return errRes(errVB(err))
		}
		r, err := k.TimeoutOnClose(ctx, msg)
		if err != nil {
			return errRes(err)
		}
		return respV1(r.Result, nil)
	case "writeAckV1":
		// what an application does for an asynchronous acknowledgement
		var err error
		if a, ok := gmo(op, "wack"); ok {
			err = k.ChannelKeeper.WriteAcknowledgement(ctx, packetV1(gm(op, "pkt")), scriptAck{gb(a, "ok"), gh(a, "bz")})
		} else {
			err = k.ChannelKeeper.WriteAcknowledgement(ctx, packetV1(gm(op, "pkt")), nil)
		}
		return result{class: "ok", err: err}

	// ---------------- v2 packets ----------------
	case "sendV2":
		msg := channeltypesv2.NewMsgSendPacket(gs(op, "src"), gn(op, "tt"), sg, payloads(glist(op, "payloads"))...)
		if err := vb(msg); err != nil {
			return errRes(errVB(err))
		}
		r, err := k.ChannelKeeperV2.SendPacket(ctx, msg)
		if err != nil {
			return errRes(err)
		}
		return okRes(lib.U(r.Sequence))
	case "recvV2":
		msg := channeltypesv2.NewMsgRecvPacket(packetV2(gm(op, "pkt")), proofBz, height(op, "ph"), sg)
		if err := vb(msg); err != nil {
			return errRes(errVB(err))
		}
		r, err := k.ChannelKeeperV2.RecvPacket(ctx, msg)
		if err != nil {
			return errRes(err)
		}
		return respV2(r.Result, nil)
	case "ackV2":
		msg := channeltypesv2.NewMsgAcknowledgement(packetV2(gm(op, "pkt")), channeltypesv2.Acknowledgement{AppAcknowledgements: hexList(op, "acks")}, proofBz, height(op, "ph"), sg)
		if err := vb(msg); err != nil {
			return errRes(errVB(err))
		}
		r, err := k.ChannelKeeperV2.Acknowledgement(ctx, msg)
		if err != nil {
			return errRes(err)
		}
		return respV2(r.Result, nil)
	case "timeoutV2":
		msg := channeltypesv2.NewMsgTimeout(packetV2(gm(op, "pkt")), proofBz, height(op, "ph"), sg)
		if err := vb(msg); err != nil {
			return errRes(errVB(err))
		}
		r, err := k.ChannelKeeperV2.Timeout(ctx, msg)
		if err != nil {
			return errRes(err)
		}
		return respV2(r.Result, nil)
	case "writeAckV2":
		err := k.ChannelKeeperV2.WriteAcknowledgement(ctx, gs(op, "dst"), gn(op, "seq"), channeltypesv2.Acknowledgement{AppAcknowledgements: hexList(op, "acks")})
		return result{class: "ok", err: err}

	// ---------------- clients / authorisation ----------------
	case "createClient":
		ct := gs(op, "ctype")
		msg, err := clienttypes.NewMsgCreateClient(&VerifClientState{ct}, &VerifConsensusState{ct}, sg)
		if err != nil {
			return result{bad: err.Error()}
		}
		if err := vb(msg); err != nil {
			return errRes(errVB(err))
		}
		r, err := k.CreateClient(ctx, msg)
		if err != nil {
			return errRes(err)
		}
		return okRes(r.ClientId)
	case "updateClient":
		ct, _, _ := clienttypes.ParseClientIdentifier(gs(op, "client"))
		msg, err := clienttypes.NewMsgUpdateClient(gs(op, "client"), &VerifClientMessage{ct}, sg)
		if err != nil {
			return result{bad: err.Error()}
		}
		if err := vb(msg); err != nil {
			return errRes(errVB(err))
		}
		_, err = k.UpdateClient(ctx, msg)
		return result{class: "ok", err: err}
	case "registerCounterparty":
		msg := clientv2types.NewMsgRegisterCounterparty(gs(op, "client"), hexList(op, "prefix"), gs(op, "cpClient"), sg)
		if err := vb(msg); err != nil {
			return errRes(errVB(err))
		}
		_, err := k.RegisterCounterparty(ctx, msg)
		return result{class: "ok", err: err}
	case "updateClientConfig":
		var rel []string
		for _, n := range gstrs(op, "relayers") {
			if a, ok := e.Signers[n]; ok {
				rel = append(rel, a)
			} else {
				rel = append(rel, n)
			}
		}
		msg := clientv2types.NewMsgUpdateClientConfig(gs(op, "client"), sg, clientv2types.NewConfig(rel...))
		if err := vb(msg); err != nil {
			return errRes(errVB(err))
		}
		_, err := k.UpdateClientConfig(ctx, msg)
		return result{class: "ok", err: err}
	case "deleteClientCreator":
		msg := clienttypes.NewMsgDeleteClientCreator(gs(op, "client"), sg)
		if err := vb(msg); err != nil {
			return errRes(errVB(err))
		}
		_, err := k.DeleteClientCreator(ctx, msg)
		return result{class: "ok", err: err}
	case "recoverClient":
		msg := clienttypes.NewMsgRecoverClient(sg, gs(op, "subject"), gs(op, "substitute"))
		if err := vb(msg); err != nil {
			return errRes(errVB(err))
		}
		_, err := k.RecoverClient(ctx, msg)
		return result{class: "ok", err: err}
	case "updateClientParams":
		msg := clienttypes.NewMsgUpdateParams(sg, clienttypes.NewParams(gstrs(op, "allowed")...))
		if err := vb(msg); err != nil {
			return errRes(errVB(err))
		}
		_, err := k.UpdateClientParams(ctx, msg)
		return result{class: "ok", err: err}
	case "updateConnParams":
		msg := connectiontypes.NewMsgUpdateParams(sg, connectiontypes.NewParams(gn(op, "maxTime")))
		if err := vb(msg); err != nil {
			return errRes(errVB(err))
		}
		_, err := k.UpdateConnectionParams(ctx, msg)
		return result{class: "ok", err: err}
	case "ibcSoftwareUpgrade":
		cs := &ibctm.ClientState{ChainId: "upgraded-2", LatestHeight: clienttypes.NewHeight(2, 1)}
		if cur, ok := e.Chain.App.GetIBCKeeper().ClientKeeper.GetClientState(ctx, "07-tendermint-0"); ok {
			if c, ok := cur.(*ibctm.ClientState); ok {
				cs = c
			}
		}
		plan := upgradetypes.Plan{Name: gsd(op, "plan", "verif-upgrade"), Height: int64(gn(op, "planHeight"))}
		msg, err := clienttypes.NewMsgIBCSoftwareUpgrade(sg, plan, cs)
		if err != nil {
			return result{bad: err.Error()}
		}
		if err := vb(msg); err != nil {
			return errRes(errVB(err))
		}
		_, err = k.IBCSoftwareUpgrade(ctx, msg)
		return result{class: "ok", err: err}
	}
	return result{bad: fmt.Sprintf("unknown op %q", f)}
}
