package lc

// Engine "localhost" (property C27): the real 09-localhost light client module and the real 02-client
// keeper / core msg server of a live ibctesting chain, against the chain's real IBC store.
//
// reset    {"f":"reset","store":[[k,v],…],"allowed":bool}   full snapshot of the IBC store
// verify   vm/vnm   (module called directly)   kvm/kvnm (through ClientKeeper.VerifyMembership)
// lifecycle init vcm cfm usm us recover upgrade   kcreate kupdate kupgrade krecover   msgupdate msgupgrade msgrecover
// env      envset envdel envallowed   (the rest of the chain writing the IBC store / governance)
//
// Every answer of a client op carries "changed": whether the IBC store differs from before the call.

import (
	"bytes"
	"crypto/sha256"
	"errors"
	"fmt"
	"os"
	"sort"
	"testing"

	storetypes "github.com/cosmos/cosmos-sdk/store/v2/types"

	sdk "github.com/cosmos/cosmos-sdk/types"

	clienttypes "github.com/cosmos/ibc-go/v11/modules/core/02-client/types"
	commitmenttypes "github.com/cosmos/ibc-go/v11/modules/core/23-commitment/types"
	commitmenttypesv2 "github.com/cosmos/ibc-go/v11/modules/core/23-commitment/types/v2"
	host "github.com/cosmos/ibc-go/v11/modules/core/24-host"
	ibcerrors "github.com/cosmos/ibc-go/v11/modules/core/errors"
	"github.com/cosmos/ibc-go/v11/modules/core/exported"
	ibctm "github.com/cosmos/ibc-go/v11/modules/light-clients/07-tendermint"
	ibctesting "github.com/cosmos/ibc-go/v11/testing"
	"github.com/cosmos/ibc-go/v11/testing/simapp"
)

type otherPath struct{}

func (otherPath) Empty() bool { return false }

type lhEnv struct {
	coord  *ibctesting.Coordinator
	a, b   *ibctesting.TestChain
	path   *ibctesting.Path
	app    *simapp.SimApp
	module exported.LightClientModule
	solo   *ibctesting.Solomachine
	tmCS   exported.ClientState
	tmCons exported.ConsensusState
	snap   map[string]string // tracked contents of the IBC store (what the model has been told)
}

var lhSingleton *lhEnv

func lhGet() *lhEnv {
	if lhSingleton != nil {
		return lhSingleton
	}
	e := &lhEnv{}
	e.coord = ibctesting.NewCoordinator(&testing.T{}, 2)
	e.a = e.coord.GetChain(ibctesting.GetChainID(1))
	e.b = e.coord.GetChain(ibctesting.GetChainID(2))
	e.path = ibctesting.NewPath(e.a, e.b)
	e.path.Setup() // clients, connection, channel: realistic IBC store contents
	e.app = e.a.App.(*simapp.SimApp)
	m, err := e.app.IBCKeeper.ClientKeeper.Route(e.ctx(), exported.LocalhostClientID)
	if err != nil {
		panic(err)
	}
	e.module = m
	e.solo = ibctesting.NewSolomachine(&testing.T{}, e.app.AppCodec(), "06-solomachine-0", "div", 1)
	e.tmCS = e.a.GetClientState(e.path.EndpointA.ClientID)
	e.tmCons, _ = e.a.GetConsensusState(e.path.EndpointA.ClientID, e.tmCS.(*ibctm.ClientState).LatestHeight)
	lhSingleton = e
	return e
}

func (e *lhEnv) ctx() sdk.Context { return e.a.GetContext() }
func (e *lhEnv) store() storetypes.KVStore {
	return e.ctx().KVStore(e.app.GetKey(exported.StoreKey))
}

func (e *lhEnv) snapshot() map[string]string {
	m := map[string]string{}
	it := e.store().Iterator(nil, nil)
	defer it.Close()
	for ; it.Valid(); it.Next() {
		m[string(it.Key())] = string(it.Value())
	}
	return m
}

func (e *lhEnv) digest() [32]byte {
	h := sha256.New()
	it := e.store().Iterator(nil, nil)
	defer it.Close()
	var l [8]byte
	for ; it.Valid(); it.Next() {
		k, v := it.Key(), it.Value()
		l[0], l[1], l[2], l[3] = byte(len(k)), byte(len(k)>>8), byte(len(v)), byte(len(v)>>8)
		h.Write(l[:])
		h.Write(k)
		h.Write(v)
	}
	var out [32]byte
	copy(out[:], h.Sum(nil))
	return out
}

func snapPairs(m map[string]string) [][2]string {
	ks := make([]string, 0, len(m))
	for k := range m {
		ks = append(ks, k)
	}
	sort.Strings(ks)
	out := make([][2]string, 0, len(ks))
	for _, k := range ks {
		out = append(out, [2]string{Hex([]byte(k)), Hex([]byte(m[k]))})
	}
	return out
}

func (e *lhEnv) allowedNow() bool {
	return e.app.IBCKeeper.ClientKeeper.GetParams(e.ctx()).IsAllowedClient(exported.Localhost)
}

// resetReq snapshots the live store as the start of a new history.
func (e *lhEnv) resetReq() M {
	e.snap = e.snapshot()
	return M{"f": "reset", "store": snapPairs(e.snap), "allowed": e.allowedNow()}
}

// sync emits envset/envdel requests for every difference between the live store and the tracked one.
func (e *lhEnv) sync(emit func(in M, out any)) {
	now := e.snapshot()
	keys := map[string]bool{}
	for k := range now {
		keys[k] = true
	}
	for k := range e.snap {
		keys[k] = true
	}
	ks := make([]string, 0, len(keys))
	for k := range keys {
		ks = append(ks, k)
	}
	sort.Strings(ks)
	for _, k := range ks {
		nv, nok := now[k]
		ov, ook := e.snap[k]
		switch {
		case nok && (!ook || ov != nv):
			emit(M{"f": "envset", "k": Hex([]byte(k)), "v": Hex([]byte(nv)), "src": "chain"}, M{"r": "ok"})
		case !nok && ook:
			emit(M{"f": "envdel", "k": Hex([]byte(k)), "src": "chain"}, M{"r": "ok"})
		}
	}
	e.snap = now
}

func lhErrClass(err error) string {
	switch {
	case err == nil:
		return ""
	case errors.Is(err, commitmenttypes.ErrInvalidProof):
		return "invalid-proof"
	case errors.Is(err, ibcerrors.ErrInvalidHeight):
		return "invalid-height"
	case errors.Is(err, ibcerrors.ErrInvalidType):
		return "invalid-type"
	case errors.Is(err, host.ErrInvalidPath):
		return "invalid-path"
	case errors.Is(err, clienttypes.ErrFailedMembershipVerification):
		return "failed-membership"
	case errors.Is(err, clienttypes.ErrFailedNonMembershipVerification):
		return "failed-non-membership"
	case errors.Is(err, clienttypes.ErrClientExists):
		return "client-exists"
	case errors.Is(err, clienttypes.ErrUpdateClientFailed):
		return "update-client-failed"
	case errors.Is(err, clienttypes.ErrInvalidUpgradeClient):
		return "invalid-upgrade-client"
	case errors.Is(err, clienttypes.ErrInvalidClientType):
		return "invalid-client-type"
	case errors.Is(err, clienttypes.ErrInvalidRecoveryClient):
		return "invalid-recovery-client"
	case errors.Is(err, clienttypes.ErrRouteNotFound):
		return "route-not-found"
	case errors.Is(err, clienttypes.ErrClientNotActive):
		return "client-not-active"
	}
	return "other:" + err.Error()
}

func lhRes(err error) M {
	if err == nil {
		return M{"r": "ok"}
	}
	return M{"r": "err", "err": lhErrClass(err)}
}

func (e *lhEnv) pathOf(in M) exported.Path {
	switch S(in, "pathKind") {
	case "other":
		return otherPath{}
	case "ptr":
		return &commitmenttypesv2.MerklePath{KeyPath: [][]byte{[]byte("ibc"), []byte("x")}}
	}
	var kp [][]byte
	for _, h := range Strs(in, "path") {
		b := B(M{"x": h}, "x")
		kp = append(kp, b)
	}
	return commitmenttypesv2.MerklePath{KeyPath: kp}
}

func (e *lhEnv) clientMsg(kind string) exported.ClientMessage {
	switch kind {
	case "tm":
		return e.b.CurrentTMClientHeader()
	case "solo":
		return e.solo.CreateHeader("div")
	case "tmmisb":
		h := e.b.CurrentTMClientHeader()
		return &ibctm.Misbehaviour{Header1: h, Header2: h}
	}
	return nil
}

// apply evaluates one request on the real code.
func (e *lhEnv) apply(in M) M {
	f := S(in, "f")
	ck := e.app.IBCKeeper.ClientKeeper
	switch f {
	case "envset":
		e.store().Set(B(in, "k"), B(in, "v"))
		e.snap[string(B(in, "k"))] = string(B(in, "v"))
		return M{"r": "ok"}
	case "envdel":
		e.store().Delete(B(in, "k"))
		delete(e.snap, string(B(in, "k")))
		return M{"r": "ok"}
	case "envallowed":
		ck.SetParams(e.ctx(), clienttypes.NewParams(Strs(in, "list")...))
		return M{"r": "ok"}
	}
	before := e.digest()
	res := Safe(func() any {
		ctx := e.ctx()
		if _, has := in["sh"]; has { // replays pin the chain's own height to the recorded one
			ctx = ctx.WithBlockHeight(int64(N(in, "sh")))
		}
		id := S(in, "id")
		h := clienttypes.NewHeight(N(in, "hr"), N(in, "hh"))
		switch f {
		case "vm":
			return lhRes(e.module.VerifyMembership(ctx, id, h, N(in, "dt"), N(in, "db"), proofOf(in), e.pathOf(in), B(in, "value")))
		case "vnm":
			return lhRes(e.module.VerifyNonMembership(ctx, id, h, N(in, "dt"), N(in, "db"), proofOf(in), e.pathOf(in)))
		case "kvm":
			return lhRes(ck.VerifyMembership(ctx, id, h, N(in, "dt"), N(in, "db"), proofOf(in), e.pathOf(in), B(in, "value")))
		case "kvnm":
			return lhRes(ck.VerifyNonMembership(ctx, id, h, N(in, "dt"), N(in, "db"), proofOf(in), e.pathOf(in)))
		case "init":
			return lhRes(e.module.Initialize(ctx, id, B(in, "cs"), B(in, "cons")))
		case "vcm":
			return lhRes(e.module.VerifyClientMessage(ctx, id, e.clientMsg(S(in, "msg"))))
		case "cfm":
			return M{"r": "bool", "b": e.module.CheckForMisbehaviour(ctx, id, e.clientMsg(S(in, "msg")))}
		case "usm":
			e.module.UpdateStateOnMisbehaviour(ctx, id, e.clientMsg(S(in, "msg")))
			return M{"r": "ok"}
		case "us":
			e.module.UpdateState(ctx, id, e.clientMsg(S(in, "msg")))
			return M{"r": "ok"}
		case "recover":
			return lhRes(e.module.RecoverClient(ctx, id, S(in, "sub")))
		case "upgrade":
			return lhRes(e.module.VerifyUpgradeAndUpdateState(ctx, id, B(in, "cs"), B(in, "cons"), B(in, "p1"), B(in, "p2")))
		case "kcreate":
			_, err := ck.CreateClient(ctx, exported.Localhost, B(in, "cs"), B(in, "cons"))
			return lhRes(err)
		case "kupdate":
			return lhRes(ck.UpdateClient(ctx, id, e.clientMsg(S(in, "msg"))))
		case "kupgrade":
			return lhRes(ck.UpgradeClient(ctx, id, B(in, "cs"), B(in, "cons"), B(in, "p1"), B(in, "p2")))
		case "krecover":
			return lhRes(ck.RecoverClient(ctx, id, S(in, "sub")))
		case "msgupdate":
			msg, err := clienttypes.NewMsgUpdateClient(id, e.clientMsg(S(in, "msg")), e.a.SenderAccount.GetAddress().String())
			if err != nil {
				panic(err)
			}
			_, err = e.app.IBCKeeper.UpdateClient(ctx, msg)
			return lhRes(err)
		case "msgupgrade":
			msg, err := clienttypes.NewMsgUpgradeClient(id, e.tmCS, e.tmCons, B(in, "p1"), B(in, "p2"), e.a.SenderAccount.GetAddress().String())
			if err != nil {
				panic(err)
			}
			_, err = e.app.IBCKeeper.UpgradeClient(ctx, msg)
			return lhRes(err)
		case "msgrecover":
			msg := clienttypes.NewMsgRecoverClient(e.app.IBCKeeper.GetAuthority(), id, S(in, "sub"))
			_, err := e.app.IBCKeeper.RecoverClient(ctx, msg)
			return lhRes(err)
		}
		return M{"bad": "unknown op " + f}
	})
	out, _ := res.(M)
	if _, p := out["panic"]; p {
		if os.Getenv("VERIF_DEBUG") != "" {
			fmt.Fprintln(os.Stderr, "panic:", f, out["panic"])
		}
		out = M{"r": "panic"}
	}
	out["changed"] = before != e.digest()
	return out
}

func proofOf(in M) []byte {
	if Bool(in, "proofNil") {
		return nil
	}
	return B(in, "proof")
}

/* ---------- generators ---------- */

var lhIDs = []string{"09-localhost", "09-localhost", "09-localhost", "09-localhost-0", "09-localhost-7", "09-localhost-18446744073709551615"}

func (e *lhEnv) genProof(r *Rng) (string, bool) {
	switch r.Intn(40) {
	case 0:
		return "", true
	case 1:
		return "", false
	case 2:
		return "00", false
	case 3:
		return "0101", false
	case 4:
		return "02", false
	case 5:
		return Hex(r.Bytes(1 + r.Intn(3))), false
	}
	return "01", false
}

func sortedKeys(m map[string]string) []string {
	ks := make([]string, 0, len(m))
	for k := range m {
		ks = append(ks, k)
	}
	sort.Strings(ks)
	return ks
}

var lhHarnessKeys = []string{"verif/a", "verif/b", "verif/c", "clients/09-localhost/clientState", "commitments/ports/transfer/channels/channel-0/sequences/1", "verif/empty"}

// genKeyValue picks a key (present real key, harness key, absent, near miss) and a candidate value.
func (e *lhEnv) genKeyValue(r *Rng) ([]byte, []byte) {
	present := sortedKeys(e.snap)
	var key []byte
	switch r.Intn(10) {
	case 0, 1, 2, 3:
		if len(present) > 0 {
			key = []byte(present[r.Intn(len(present))])
		}
	case 4, 5:
		key = []byte(lhHarnessKeys[r.Intn(len(lhHarnessKeys))])
	case 6:
		if len(present) > 0 { // near miss: truncated / extended present key
			k := []byte(present[r.Intn(len(present))])
			if r.Bool() && len(k) > 1 {
				key = k[:len(k)-1]
			} else {
				key = append(append([]byte{}, k...), byte('0'+r.Intn(3)))
			}
		}
	case 7:
		key = r.Bytes(1 + r.Intn(6))
	case 8:
		key = []byte{}
	default:
		key = []byte("verif/absent/" + U(uint64(r.Intn(5))))
	}
	if key == nil {
		key = []byte("verif/a")
	}
	var value []byte
	stored, ok := e.snap[string(key)]
	switch r.Intn(10) {
	case 0, 1, 2, 3, 4, 5:
		if ok {
			value = []byte(stored)
		} else {
			value = r.Bytes(1 + r.Intn(4))
		}
	case 6:
		if ok && len(stored) > 0 { // one byte flipped
			value = []byte(stored)
			value[r.Intn(len(value))] ^= 1 << uint(r.Intn(8))
		} else {
			value = []byte{}
		}
	case 7:
		if ok && len(stored) > 0 { // truncated / extended
			if r.Bool() {
				value = []byte(stored)[:len(stored)-1]
			} else {
				value = append([]byte(stored), 0)
			}
		} else {
			value = []byte{0}
		}
	case 8:
		value = []byte{}
	default:
		value = r.Bytes(r.Intn(5))
	}
	return key, value
}

func (e *lhEnv) genVerify(r *Rng) M {
	key, value := e.genKeyValue(r)
	proof, pnil := e.genProof(r)
	self := clienttypes.GetSelfHeight(e.ctx())
	sr, sh := self.RevisionNumber, self.RevisionHeight
	var hr, hh uint64
	switch r.Intn(24) {
	case 8, 9, 10, 11, 12:
		hr, hh = sr, sh-1-uint64(r.Intn(3)) // below
	case 13:
		hr, hh = sr, 0
	case 14, 15:
		hr, hh = sr, sh+1+uint64(r.Intn(3)) // above
	case 16:
		hr, hh = sr, ^uint64(0)
	case 17:
		hr, hh = sr+1, Pick(r, []uint64{0, 1, sh}) // higher revision, lower height: above
	case 18:
		hr, hh = sr-1, Pick(r, []uint64{sh + 5, ^uint64(0), sh}) // lower revision, higher height: not above
	case 19:
		hr, hh = 0, 0
	case 20:
		hr, hh = r.Num64(), r.Num64()
	default:
		hr, hh = sr, sh // the current height
	}
	in := M{"id": Pick(r, lhIDs), "hr": U(hr), "hh": U(hh), "sr": U(sr), "sh": U(sh), "dt": U(r.Num64()), "db": U(r.Num64()),
		"proof": proof, "proofNil": pnil, "pathKind": "merkle"}
	pfx := Pick(r, []string{"ibc", "ibc", "ibc", "", "x", "upgrade"})
	switch r.Intn(14) {
	case 0:
		in["path"] = []string{}
	case 1:
		in["path"] = []string{Hex(key)}
	case 2:
		in["path"] = []string{Hex([]byte(pfx)), Hex(key), Hex(key)}
	case 3:
		in["path"] = []string{Hex(key), Hex([]byte(pfx))} // swapped
	case 4:
		in["pathKind"] = Pick(r, []string{"other", "ptr"})
		in["path"] = []string{}
	default:
		in["path"] = []string{Hex([]byte(pfx)), Hex(key)}
	}
	switch r.Intn(4) {
	case 0:
		in["f"] = "vm"
		in["value"] = Hex(value)
	case 1:
		in["f"] = "vnm"
	case 2:
		in["f"] = "kvm"
		in["value"] = Hex(value)
	default:
		in["f"] = "kvnm"
	}
	return in
}

func (e *lhEnv) genLifecycle(r *Rng) M {
	id := Pick(r, lhIDs)
	msg := Pick(r, []string{"tm", "solo", "tmmisb", "nil"})
	sub := Pick(r, []string{"09-localhost", "07-tendermint-0", "09-localhost-1", "07-tendermint-1", "bad id", ""})
	base := M{"id": id, "hr": "0", "hh": "0"}
	switch r.Intn(14) {
	case 0:
		base["f"], base["cs"], base["cons"] = "init", Hex(r.Bytes(r.Intn(5))), Hex(r.Bytes(r.Intn(5)))
	case 1:
		base["f"], base["msg"] = "vcm", msg
	case 2:
		base["f"], base["msg"] = "cfm", msg
	case 3:
		base["f"], base["msg"] = "usm", msg
	case 4:
		base["f"], base["msg"] = "us", msg
	case 5:
		base["f"], base["sub"] = "recover", sub
	case 6:
		base["f"], base["cs"], base["cons"], base["p1"], base["p2"] = "upgrade", Hex(r.Bytes(r.Intn(5))), Hex(r.Bytes(r.Intn(5))), Hex(r.Bytes(r.Intn(3))), Hex(r.Bytes(r.Intn(3)))
	case 7:
		base["f"], base["cs"], base["cons"] = "kcreate", Hex(r.Bytes(r.Intn(5))), Hex(r.Bytes(r.Intn(5)))
	case 8:
		base["f"], base["msg"] = "kupdate", msg
	case 9:
		base["f"], base["cs"], base["cons"], base["p1"], base["p2"] = "kupgrade", Hex(r.Bytes(r.Intn(5))), Hex(r.Bytes(r.Intn(5))), Hex(r.Bytes(r.Intn(3))), Hex(r.Bytes(r.Intn(3)))
	case 10:
		base["f"], base["sub"] = "krecover", sub
	case 11:
		base["f"], base["msg"] = "msgupdate", Pick(r, []string{"tm", "solo", "tmmisb"})
	case 12:
		base["f"], base["p1"], base["p2"] = "msgupgrade", Hex(r.Bytes(1+r.Intn(3))), Hex(r.Bytes(1+r.Intn(3)))
	default:
		base["f"], base["sub"] = "msgrecover", sub
	}
	return base
}

func (e *lhEnv) genEnv(r *Rng) M {
	switch r.Intn(25) {
	case 0:
		lists := [][]string{{"*"}, {"07-tendermint", "09-localhost"}, {"07-tendermint"}, {"06-solomachine", "07-tendermint"}, {"09-localhost"}}
		return M{"f": "envallowed", "list": Pick(r, lists)}
	case 1, 2, 3, 4, 5, 6:
		k, _ := e.genKeyValue(r)
		if len(k) == 0 || string(k) == "clientParams" { // (GetParams panics without the params key: not a state governance can reach)
			k = []byte("verif/a")
		}
		return M{"f": "envdel", "k": Hex(k)}
	default:
		k, _ := e.genKeyValue(r)
		if len(k) == 0 || string(k) == "clientParams" || string(k) == "nextClientSequence" {
			k = []byte("verif/b")
		}
		v := r.Bytes(1 + r.Intn(6))
		if string(k) == "verif/empty" || r.Chance(0.05) {
			v = []byte{}
		}
		return M{"f": "envset", "k": Hex(k), "v": Hex(v)}
	}
}

// chainActivity lets the real chain write its own IBC store (client update / packet send / new block).
func (e *lhEnv) chainActivity(r *Rng) {
	Safe(func() any {
		switch r.Intn(3) {
		case 0:
			_ = e.path.EndpointA.UpdateClient()
		case 1:
			_, _ = e.path.EndpointA.SendPacket(e.a.GetTimeoutHeight(), 0, []byte("verif"))
		default:
			e.coord.CommitBlock(e.a)
		}
		return nil
	})
}

func (e *lhEnv) restoreParams() {
	if !e.allowedNow() || len(e.app.IBCKeeper.ClientKeeper.GetParams(e.ctx()).AllowedClients) != 1 {
		e.app.IBCKeeper.ClientKeeper.SetParams(e.ctx(), clienttypes.DefaultParams())
	}
}

func lhGen(r *Rng, n int, emit func(in M, out any)) {
	e := lhGet()
	for i := 0; i < n; i++ {
		e.restoreParams()
		reset := e.resetReq()
		emit(reset, M{"r": "reset", "n": len(e.snap)})
		steps := 20 + r.Intn(60)
		for j := 0; j < steps; j++ {
			switch x := r.Intn(20); {
			case x < 10:
				in := e.genVerify(r)
				emit(in, e.apply(in))
			case x < 14:
				in := e.genLifecycle(r)
				emit(in, e.apply(in))
				e.sync(emit) // a lifecycle op that wrote the store would surface here as well
			case x < 19:
				in := e.genEnv(r)
				emit(in, e.apply(in))
				e.sync(emit)
			default:
				e.chainActivity(r)
				e.sync(emit)
			}
		}
	}
	e.restoreParams()
}

/* ---------- monitor: the property evaluated directly on the implementation ---------- */

func lhMonitor(r *Rng, n int, report func(Violation)) {
	e := lhGet()
	for i := 0; i < n; i++ {
		e.restoreParams()
		reset := e.resetReq()
		history := []M{reset}
		steps := 20 + r.Intn(40)
		for j := 0; j < steps; j++ {
			var in M
			switch x := r.Intn(20); {
			case x < 11:
				in = e.genVerify(r)
				if f := S(in, "f"); f == "kvm" {
					in["f"] = "vm"
				} else if f == "kvnm" {
					in["f"] = "vnm"
				}
			case x < 15:
				in = e.genLifecycle(r)
			default:
				in = e.genEnv(r)
				if S(in, "f") == "envallowed" {
					continue
				}
			}
			history = append(history, in)
			// ground truth read straight from the store, before the call
			st := e.store()
			out := e.apply(in)
			viol := func(key, what string) {
				report(Violation{Property: "C27", Key: key, What: what, Input: M{"requests": append([]M{}, history...)}, Observed: out})
			}
			f := S(in, "f")
			if f == "envset" || f == "envdel" {
				continue
			}
			if out["changed"] == true {
				viol("store-changed", "an operation addressed to the localhost client changed the chain's IBC store")
				return
			}
			switch f {
			case "vm", "vnm":
				if out["r"] == "panic" {
					continue
				}
				path := Strs(in, "path")
				sentinel := !Bool(in, "proofNil") && S(in, "proof") == "01"
				shape := S(in, "pathKind") == "merkle" && len(path) == 2
				// the proof height must not be above the chain's own height (revision first, then height)
				hr, hh, sr, sh := N(in, "hr"), N(in, "hh"), N(in, "sr"), N(in, "sh")
				if hr > sr || (hr == sr && hh > sh) {
					shape = false
				}
				var want bool
				if sentinel && shape {
					key := B(M{"x": path[1]}, "x")
					if len(key) > 0 {
						if f == "vm" {
							bz := st.Get(key)
							want = bz != nil && bytes.Equal(bz, B(in, "value"))
						} else {
							want = !st.Has(key)
						}
					}
				}
				got := out["r"] == "ok"
				if got && !want {
					if f == "vm" {
						viol("membership-accepted", "localhost VerifyMembership succeeded although the store does not hold that value at that key under the sentinel proof")
					} else {
						viol("nonmembership-accepted", "localhost VerifyNonMembership succeeded although the key is present (or the proof/path is not the sentinel shape)")
					}
					return
				}
				if !got && want {
					viol("verification-rejected", "localhost verification failed although the store contents, sentinel proof and path satisfy the condition")
					return
				}
			case "init", "vcm", "recover", "upgrade", "kcreate", "kupdate", "kupgrade", "krecover", "msgupdate", "msgupgrade", "msgrecover":
				if out["r"] == "ok" {
					viol("lifecycle-accepted", "the localhost client accepted a create/update/upgrade/recover operation: "+f)
					return
				}
			}
		}
		// the localhost client can never be the substitute that recovers another client either
		out := Safe(func() any {
			return lhRes(e.app.IBCKeeper.ClientKeeper.RecoverClient(e.ctx(), e.path.EndpointA.ClientID, exported.LocalhostClientID))
		})
		if m, ok := out.(M); ok && m["r"] == "ok" {
			report(Violation{Property: "C27", Key: "substitute-accepted", What: "RecoverClient accepted 09-localhost as substitute", Input: M{"requests": history}, Observed: out})
		}
	}
	e.restoreParams()
}

func lhReplay(reqs []M, emit func(in M, out any)) {
	e := lhGet()
	for _, in := range reqs {
		if S(in, "f") == "reset" {
			// force the live store to the recorded contents
			want := map[string]string{}
			for _, p := range Pairs(in["store"]) {
				want[string(p[0])] = string(p[1])
			}
			st := e.store()
			for k := range e.snapshot() {
				if _, ok := want[k]; !ok {
					st.Delete([]byte(k))
				}
			}
			for k, v := range want {
				st.Set([]byte(k), []byte(v))
			}
			e.snap = e.snapshot()
			emit(in, M{"r": "reset", "n": len(e.snap)})
			continue
		}
		emit(in, e.apply(in))
	}
}

func init() {
	Register(Engine{Name: "localhost", Props: []string{"C27"}, Gen: lhGen, Monitor: lhMonitor, Replay: lhReplay})
}
