package lc

// Engine "solo" (property C26): the real 06-solomachine light client module, the real 02-client keeper / core
// msg server and real secp256k1 (single and multisig) keys, driven through /repo/testing/solomachine.go's
// Solomachine helper (GenerateSignature, ClientState, ConsensusState) with deterministic keys.
//
// Ground truth the model cannot compute is supplied by the harness: who signed which bytes (it knows what
// it signed: the marshalled SignBytes, mutated field by field), whether a misbehaviour path unmarshals as a
// MerklePath, and the marshalled HeaderData.  The SignBytes encoding itself is computed by the model.

import (
	"bytes"
	"errors"
	"fmt"
	"os"
	"testing"

	codectypes "github.com/cosmos/cosmos-sdk/codec/types"
	kmultisig "github.com/cosmos/cosmos-sdk/crypto/keys/multisig"
	"github.com/cosmos/cosmos-sdk/crypto/keys/secp256k1"
	cryptotypes "github.com/cosmos/cosmos-sdk/crypto/types"
	sdk "github.com/cosmos/cosmos-sdk/types"

	clienttypes "github.com/cosmos/ibc-go/v11/modules/core/02-client/types"
	commitmenttypes "github.com/cosmos/ibc-go/v11/modules/core/23-commitment/types"
	commitmenttypesv2 "github.com/cosmos/ibc-go/v11/modules/core/23-commitment/types/v2"
	host "github.com/cosmos/ibc-go/v11/modules/core/24-host"
	ibcerrors "github.com/cosmos/ibc-go/v11/modules/core/errors"
	"github.com/cosmos/ibc-go/v11/modules/core/exported"
	solomachine "github.com/cosmos/ibc-go/v11/modules/light-clients/06-solomachine"
	ibctesting "github.com/cosmos/ibc-go/v11/testing"
	"github.com/cosmos/ibc-go/v11/testing/simapp"
)

const soNumKeys = 6 // ids 0..5; odd ids are 2-of-2 multisig keys

type soKey struct {
	privs []cryptotypes.PrivKey
	pubs  []cryptotypes.PubKey
	pub   cryptotypes.PubKey
}

type soEnv struct {
	coord    *ibctesting.Coordinator
	chain    *ibctesting.TestChain
	app      *simapp.SimApp
	solo     *ibctesting.Solomachine // signing helper (its keys are swapped per signature)
	keys     []soKey
	keyID    map[string]int
	clientID string
	module   exported.LightClientModule
}

var soSingleton *soEnv

func soGet() *soEnv {
	if soSingleton != nil {
		return soSingleton
	}
	e := &soEnv{keyID: map[string]int{}}
	e.coord = ibctesting.NewCoordinator(&testing.T{}, 1)
	e.chain = e.coord.GetChain(ibctesting.GetChainID(1))
	e.app = e.chain.App.(*simapp.SimApp)
	e.solo = ibctesting.NewSolomachine(&testing.T{}, e.app.AppCodec(), "06-solomachine-0", "verif", 1)
	for i := 0; i < soNumKeys; i++ {
		n := 1 + i%2
		var k soKey
		for j := 0; j < n; j++ {
			p := secp256k1.GenPrivKeyFromSecret([]byte(fmt.Sprintf("verif-solo-key-%d-%d", i, j)))
			k.privs = append(k.privs, p)
			k.pubs = append(k.pubs, p.PubKey())
		}
		if n > 1 {
			k.pub = kmultisig.NewLegacyAminoPubKey(n, k.pubs)
		} else {
			k.pub = k.pubs[0]
		}
		e.keys = append(e.keys, k)
		e.keyID[string(k.pub.Bytes())] = i
	}
	soSingleton = e
	return e
}

func (e *soEnv) ctx() sdk.Context { return e.chain.GetContext() }

// signWith returns the marshalled signature data of key id over bz (Solomachine.GenerateSignature).
func (e *soEnv) signWith(id int, bz []byte) []byte {
	k := e.keys[id]
	e.solo.PrivateKeys, e.solo.PublicKeys, e.solo.PublicKey = k.privs, k.pubs, k.pub
	return e.solo.GenerateSignature(bz)
}

// signSingleMember signs with only the first member key (wrong signature data type for a multisig key).
func (e *soEnv) signSingleMember(id int, bz []byte) []byte {
	k := e.keys[id]
	e.solo.PrivateKeys, e.solo.PublicKeys, e.solo.PublicKey = k.privs[:1], k.pubs[:1], k.pubs[0]
	return e.solo.GenerateSignature(bz)
}

func (e *soEnv) anyKey(id int) *codectypes.Any {
	a, err := codectypes.NewAnyWithValue(e.keys[id].pub)
	if err != nil {
		panic(err)
	}
	return a
}

type soState struct {
	seq    uint64
	frozen bool
	key    int
	div    string
	ts     uint64
}

func (e *soEnv) observe() (soState, M) {
	csI, ok := e.app.IBCKeeper.ClientKeeper.GetClientState(e.ctx(), e.clientID)
	if !ok {
		panic("solo client missing")
	}
	cs := csI.(*solomachine.ClientState)
	pk, err := cs.ConsensusState.GetPubKey()
	if err != nil {
		panic(err)
	}
	id, known := e.keyID[string(pk.Bytes())]
	if !known {
		id = 999
	}
	st := soState{cs.Sequence, cs.IsFrozen, id, cs.ConsensusState.Diversifier, cs.ConsensusState.Timestamp}
	return st, M{"seq": U(st.seq), "frozen": st.frozen, "key": U(uint64(st.key)), "div": Hex([]byte(st.div)), "ts": U(st.ts)}
}

func soErrClass(err error) string {
	table := []struct {
		e error
		n string
	}{
		{solomachine.ErrInvalidProof, "invalid-proof"}, {ibcerrors.ErrInvalidType, "invalid-type"},
		{host.ErrInvalidPath, "invalid-path"}, {solomachine.ErrSignatureVerificationFailed, "signature-verification-failed"},
		{solomachine.ErrInvalidHeader, "solo-invalid-header"}, {clienttypes.ErrInvalidHeader, "invalid-header"},
		{clienttypes.ErrInvalidClientType, "invalid-client-type"}, {clienttypes.ErrClientNotActive, "client-not-active"},
		{clienttypes.ErrInvalidMisbehaviour, "invalid-misbehaviour"}, {solomachine.ErrInvalidSignatureAndData, "invalid-signature-and-data"},
		{clienttypes.ErrClientNotFound, "client-not-found"},
	}
	for _, t := range table {
		if errors.Is(err, t.e) {
			return t.n
		}
	}
	return "unmarshal" // unregistered errors here are protobuf unmarshalling errors
}

func (e *soEnv) create(in M) M {
	cdc := e.app.AppCodec()
	var csBz, consBz []byte
	if _, ok := in["rawCS"]; ok {
		csBz, consBz = B(in, "rawCS"), B(in, "rawCons")
	} else {
		cons := &solomachine.ConsensusState{PublicKey: e.anyKey(int(N(in, "key"))), Diversifier: string(B(in, "div")), Timestamp: N(in, "ts")}
		cs := solomachine.NewClientState(N(in, "seq"), cons)
		csBz, consBz = cdc.MustMarshal(cs), cdc.MustMarshal(cons)
		in["rawCS"], in["rawCons"] = Hex(csBz), Hex(consBz)
	}
	id, err := e.app.IBCKeeper.ClientKeeper.CreateClient(e.ctx(), exported.Solomachine, csBz, consBz)
	if err != nil {
		panic(err)
	}
	e.clientID = id
	m, err := e.app.IBCKeeper.ClientKeeper.Route(e.ctx(), id)
	if err != nil {
		panic(err)
	}
	e.module = m
	_, out := e.observe()
	out["r"] = "reset"
	return out
}

func (e *soEnv) soPath(in M) exported.Path {
	if S(in, "pathKind") != "merkle" {
		return otherPath{}
	}
	var kp [][]byte
	for _, h := range Strs(in, "path") {
		kp = append(kp, B(M{"x": h}, "x"))
	}
	return commitmenttypesv2.MerklePath{KeyPath: kp}
}

func soProofBytes(in M) []byte {
	p, _ := in["proof"].(map[string]any)
	if p == nil {
		p, _ = in["proof"].(M)
	}
	if S(p, "k") == "nil" {
		return nil
	}
	return B(p, "raw")
}

func (e *soEnv) soMsg(in M) exported.ClientMessage {
	cdc := e.app.AppCodec()
	switch S(in, "msgKind") {
	case "header":
		var h solomachine.Header
		cdc.MustUnmarshal(B(in, "raw"), &h)
		return &h
	case "misbehaviour":
		var m solomachine.Misbehaviour
		cdc.MustUnmarshal(B(in, "raw"), &m)
		return &m
	}
	return e.chain.CurrentTMClientHeader()
}

func (e *soEnv) apply(in M) M {
	f := S(in, "f")
	if f == "reset" {
		return e.create(in)
	}
	ck := e.app.IBCKeeper.ClientKeeper
	res := Safe(func() any {
		ctx := e.ctx()
		toRes := func(err error) M {
			if err == nil {
				return M{"r": "ok"}
			}
			return M{"r": "err", "err": soErrClass(err)}
		}
		h := clienttypes.NewHeight(0, 1)
		switch f {
		case "vm":
			return toRes(e.module.VerifyMembership(ctx, e.clientID, h, 0, 0, soProofBytes(in), e.soPath(in), B(in, "value")))
		case "vnm":
			return toRes(e.module.VerifyNonMembership(ctx, e.clientID, h, 0, 0, soProofBytes(in), e.soPath(in)))
		case "kvm":
			return toRes(ck.VerifyMembership(ctx, e.clientID, h, 0, 0, soProofBytes(in), e.soPath(in), B(in, "value")))
		case "kvnm":
			return toRes(ck.VerifyNonMembership(ctx, e.clientID, h, 0, 0, soProofBytes(in), e.soPath(in)))
		case "update":
			msg := e.soMsg(in)
			if Bool(in, "validate") {
				m, err := clienttypes.NewMsgUpdateClient(e.clientID, msg, e.chain.SenderAccount.GetAddress().String())
				if err != nil {
					panic(err)
				}
				if err := m.ValidateBasic(); err != nil {
					return toRes(err)
				}
				_, err = e.app.IBCKeeper.UpdateClient(ctx, m)
				return toRes(err)
			}
			return toRes(ck.UpdateClient(ctx, e.clientID, msg))
		}
		return M{"bad": "unknown op " + f}
	})
	out, _ := res.(M)
	if p, isPanic := out["panic"]; isPanic {
		if os.Getenv("VERIF_DEBUG") != "" {
			fmt.Fprintln(os.Stderr, "panic:", f, p)
		}
		out = M{"r": "panic"}
	}
	_, st := e.observe()
	for k, v := range st {
		out[k] = v
	}
	return out
}

/* ---------- generators ---------- */

type signSpec struct {
	seq, ts    uint64
	div        string
	path, data []byte
}

func (e *soEnv) signBytes(sp signSpec) []byte {
	return e.app.AppCodec().MustMarshal(&solomachine.SignBytes{Sequence: sp.seq, Timestamp: sp.ts, Diversifier: sp.div, Path: sp.path, Data: sp.data})
}

// sigData returns (marshalled signature data, its classification) for a strategy.
func (e *soEnv) sigData(r *Rng, key int, bz []byte, kind string) ([]byte, M) {
	switch kind {
	case "empty":
		return []byte{}, M{"k": "empty"}
	case "garbage":
		return []byte{0xff, 0xff, 0xff}, M{"k": "garbage"}
	case "nosum": // unmarshals into SignatureDescriptor_Data with no `sum` set (unknown field 3 only)
		return []byte{0x18, 0x01}, M{"k": "nosum"}
	case "otherkey":
		ok := (key + 2) % soNumKeys // same arity, different key
		return e.signWith(ok, bz), M{"k": "sig", "sig": M{"k": "signed", "key": ok, "bytes": Hex(bz)}}
	case "wrongtype":
		if len(e.keys[key].privs) > 1 {
			return e.signSingleMember(key, bz), M{"k": "sig", "sig": M{"k": "bad"}}
		}
		ok := (key + 1) % soNumKeys // a multisig signature for a single key
		return e.signWith(ok, bz), M{"k": "sig", "sig": M{"k": "signed", "key": ok, "bytes": Hex(bz)}}
	case "corrupt":
		sd := e.signWith(key, bz)
		sd[len(sd)-1] ^= 1
		return sd, M{"k": "sig", "sig": M{"k": "bad"}}
	}
	return e.signWith(key, bz), M{"k": "sig", "sig": M{"k": "signed", "key": key, "bytes": Hex(bz)}}
}

type soProof struct {
	in M // a complete vm/vnm request that was accepted (for replays)
}

var soKeys = []string{"connections/connection-0", "clients/07-tendermint-0/clientState", "channelEnds/ports/transfer/channels/channel-0",
	"commitments/ports/transfer/channels/channel-0/sequences/1", "receipts/ports/transfer/channels/channel-0/sequences/1", "k"}

// genProofOp builds a membership / non-membership request: valid, or with exactly one thing wrong.
func (e *soEnv) genProofOp(r *Rng, st soState) M {
	nonMember := r.Chance(0.35)
	key := []byte(Pick(r, soKeys))
	value := r.Bytes(1 + r.Intn(6))
	sp := signSpec{seq: st.seq, ts: st.ts + uint64(r.Intn(3)), div: st.div, path: key, data: value}
	if nonMember {
		sp.data = nil
	}
	proofTs := sp.ts
	signer, kind := st.key, "ok"
	mut := "none"
	if r.Chance(0.45) {
		mut = Pick(r, []string{"seq+", "seq-", "ts-sign", "ts-stale", "div", "path", "data", "otherkey", "wrongtype", "corrupt", "garbage", "nosum",
			"empty", "nilproof", "garbageproof", "pathlen", "pathother", "xmember"})
	}
	in := M{"pathKind": "merkle", "path": []string{Hex([]byte("ibc")), Hex(key)}}
	switch mut {
	case "seq+":
		sp.seq++
	case "seq-":
		sp.seq--
	case "ts-sign": // the signed timestamp differs from the proof's timestamp
		sp.ts++
	case "ts-stale":
		if st.ts > 0 {
			sp.ts, proofTs = st.ts-1, st.ts-1
		}
	case "div":
		sp.div = st.div + "x"
	case "path":
		sp.path = append(append([]byte{}, key...), 'x')
	case "data":
		if nonMember {
			sp.data = []byte{1}
		} else {
			sp.data = append(append([]byte{}, value...), 0)
		}
	case "otherkey", "wrongtype", "corrupt", "garbage", "empty", "nosum":
		kind = mut
	case "pathlen":
		in["path"] = Pick(r, [][]string{{Hex(key)}, {Hex([]byte("ibc")), Hex(key), Hex(key)}, {}})
	case "pathother":
		in["pathKind"] = "other"
	case "xmember": // a membership signature presented for non-membership and vice versa
		if nonMember {
			sp.data = value
		} else {
			sp.data = nil
		}
	}
	bz := e.signBytes(sp)
	sd, cls := e.sigData(r, signer, bz, kind)
	raw := e.app.AppCodec().MustMarshal(&solomachine.TimestampedSignatureData{SignatureData: sd, Timestamp: proofTs})
	proof := M{"k": "mk", "ts": U(proofTs), "sd": cls, "raw": Hex(raw)}
	switch mut {
	case "nilproof":
		proof = M{"k": "nil"}
	case "garbageproof":
		proof = M{"k": "garbage", "raw": "ffff"}
	}
	in["proof"] = proof
	in["mut"] = mut
	if nonMember {
		in["f"] = Pick(r, []string{"vnm", "kvnm", "kvnm"})
	} else {
		in["f"] = Pick(r, []string{"vm", "kvm", "kvm"})
		in["value"] = Hex(value)
	}
	return in
}

func (e *soEnv) genHeaderOp(r *Rng, st soState) M {
	cdc := e.app.AppCodec()
	newKey := r.Intn(soNumKeys)
	newDiv := Pick(r, []string{st.div, "verif", "d2", "", "other-div"})
	ts := st.ts + uint64(r.Intn(3))
	hd := &solomachine.HeaderData{NewPubKey: e.anyKey(newKey), NewDiversifier: newDiv}
	hdata := cdc.MustMarshal(hd)
	sp := signSpec{seq: st.seq, ts: ts, div: st.div, path: []byte(solomachine.SentinelHeaderPath), data: hdata}
	headerTs := ts
	signer, kind, mut := st.key, "ok", "none"
	if r.Chance(0.4) {
		mut = Pick(r, []string{"seq+", "seq-", "ts-sign", "ts-stale", "div", "path", "data", "otherkey", "wrongtype", "corrupt", "garbage", "nosum"})
	}
	switch mut {
	case "seq+":
		sp.seq++
	case "seq-":
		sp.seq--
	case "ts-sign":
		sp.ts++
	case "ts-stale":
		if st.ts > 1 {
			sp.ts, headerTs = st.ts-1, st.ts-1
		}
	case "div":
		sp.div = st.div + "x"
	case "path":
		sp.path = []byte("solomachine:header2")
	case "data": // signed over another new key
		sp.data = cdc.MustMarshal(&solomachine.HeaderData{NewPubKey: e.anyKey((newKey + 1) % soNumKeys), NewDiversifier: newDiv})
	default:
		if mut != "none" {
			kind = mut
		}
	}
	bz := e.signBytes(sp)
	sd, cls := e.sigData(r, signer, bz, kind)
	h := &solomachine.Header{Timestamp: headerTs, Signature: sd, NewPublicKey: e.anyKey(newKey), NewDiversifier: newDiv}
	validate := r.Bool()
	if headerTs == 0 || (newDiv != "" && len(bytes.TrimSpace([]byte(newDiv))) == 0) {
		validate = false
	}
	return M{"f": "update", "validate": validate, "msgKind": "header", "mut": mut, "raw": Hex(cdc.MustMarshal(h)),
		"header": M{"ts": U(headerTs), "sd": cls, "newKey": newKey, "newDiv": Hex([]byte(newDiv)), "hdata": Hex(hdata)}}
}

func (e *soEnv) pathDecodes(p []byte) bool {
	return e.app.AppCodec().Unmarshal(p, new(commitmenttypesv2.MerklePath)) == nil
}

func (e *soEnv) genMisbehaviourOp(r *Rng, st soState) M {
	cdc := e.app.AppCodec()
	mseq := st.seq
	switch r.Intn(6) {
	case 0:
		if st.seq > 1 {
			mseq = st.seq - 1
		}
	case 1:
		mseq = st.seq + 5
	case 2:
		mseq = 0
	}
	// canonical equivocation: both entries validly signed by the current key at the current sequence over
	// the same (marshalled MerklePath) path and different data, sent through MsgUpdateClient
	canonical := st.seq != 0 && r.Chance(0.4)
	if canonical {
		mseq = st.seq
	}
	mkPath := func() []byte {
		mp := commitmenttypes.NewMerklePath([]byte(Pick(r, soKeys)))
		if !canonical && r.Chance(0.25) {
			return []byte(Pick(r, soKeys)) // the raw key, as proofs sign it
		}
		return cdc.MustMarshal(&mp)
	}
	side := func(other *solomachine.SignatureAndData) (*solomachine.SignatureAndData, M) {
		sp := signSpec{seq: mseq, ts: st.ts + uint64(r.Intn(4)), div: st.div, path: mkPath(), data: r.Bytes(1 + r.Intn(5))}
		if other != nil && canonical {
			sp.path = other.Path // same path, different data
			for bytes.Equal(sp.data, other.Data) {
				sp.data = r.Bytes(1 + r.Intn(5))
			}
		} else if other != nil && r.Chance(0.15) {
			sp.path, sp.data = other.Path, other.Data // same message twice
		}
		if sp.ts == 0 {
			sp.ts = 1
		}
		signed := sp
		kind := "ok"
		valid := true
		if !canonical && r.Chance(0.3) {
			valid = false
			switch Pick(r, []string{"seq", "ts", "div", "path", "data", "otherkey", "corrupt", "garbage", "nosum", "emptydata"}) {
			case "seq":
				signed.seq++
			case "ts":
				signed.ts++
			case "div":
				signed.div += "x"
			case "path":
				signed.path = append(append([]byte{}, sp.path...), 0)
			case "data":
				signed.data = append(append([]byte{}, sp.data...), 0)
			case "otherkey":
				kind = "otherkey"
			case "corrupt":
				kind = "corrupt"
			case "garbage":
				kind = "garbage"
			case "nosum":
				kind = "nosum"
			case "emptydata":
				sp.data, signed.data = nil, nil
			}
		}
		sd, cls := e.sigData(r, st.key, e.signBytes(signed), kind)
		s := &solomachine.SignatureAndData{Signature: sd, Path: sp.path, Data: sp.data, Timestamp: sp.ts}
		// "valid": the entry is signed by the current key over exactly (mseq, ts, diversifier, path, data)
		return s, M{"sd": cls, "path": Hex(sp.path), "data": Hex(sp.data), "ts": U(sp.ts), "valid": valid}
	}
	one, c1 := side(nil)
	two, c2 := side(one)
	m := &solomachine.Misbehaviour{Sequence: mseq, SignatureOne: one, SignatureTwo: two}
	return M{"f": "update", "validate": canonical || r.Chance(0.7), "msgKind": "misbehaviour", "raw": Hex(cdc.MustMarshal(m)),
		"misb": M{"seq": U(mseq), "one": c1, "two": c2, "sigBytesEqual": bytes.Equal(one.Signature, two.Signature),
			"sigOneEmpty": len(one.Signature) == 0, "sigTwoEmpty": len(two.Signature) == 0,
			"pd1": e.pathDecodes(one.Path), "pd2": e.pathDecodes(two.Path)}}
}

func (e *soEnv) genReset(r *Rng) M {
	return M{"f": "reset", "seq": U(uint64(1 + r.Intn(5))), "key": r.Intn(soNumKeys), "div": Hex([]byte(Pick(r, []string{"verif", "d", ""}))),
		"ts": U(uint64(1 + r.Intn(50)))}
}

func soGen(r *Rng, n int, emit func(in M, out any)) {
	e := soGet()
	for i := 0; i < n; i++ {
		reset := e.genReset(r)
		emit(reset, e.apply(reset))
		var accepted []M
		steps := 20 + r.Intn(30)
		frozenSteps := 0
		for j := 0; j < steps; j++ {
			st, _ := e.observe()
			var in M
			switch x := r.Intn(100); {
			case x < 55:
				in = e.genProofOp(r, st)
			case x < 75:
				in = e.genHeaderOp(r, st)
			case x < 80:
				in = e.genMisbehaviourOp(r, st)
			case x < 82:
				in = M{"f": "update", "validate": false, "msgKind": "other"}
			default: // replay an earlier accepted proof / header
				if len(accepted) == 0 {
					in = e.genProofOp(r, st)
				} else {
					in = copyM(accepted[r.Intn(len(accepted))])
					in["mut"] = "replay"
				}
			}
			out := e.apply(in)
			emit(in, out)
			if out["r"] == "ok" && S(in, "msgKind") != "misbehaviour" {
				accepted = append(accepted, in)
				// replay it immediately as well
				rp := copyM(in)
				rp["mut"] = "replay"
				emit(rp, e.apply(rp))
			}
			if f, _ := out["frozen"].(bool); f {
				frozenSteps++
				if frozenSteps > 5 {
					break
				}
			}
		}
	}
}

func copyM(m M) M {
	out := M{}
	for k, v := range m {
		out[k] = v
	}
	return out
}

/* ---------- monitor ---------- */

// soMonitor checks C26 directly on the implementation: every success consumes the sequence; no proof /
// header bytes are accepted twice; an accepted signature was made over exactly the (sequence, timestamp,
// diversifier, path, data) in force; the consensus timestamp never decreases; a misbehaviour with two valid
// signatures freezes and a frozen client accepts nothing through the keeper.
func soMonitor(r *Rng, n int, report func(Violation)) {
	e := soGet()
	for i := 0; i < n; i++ {
		reset := e.genReset(r)
		history := []M{reset}
		e.apply(reset)
		if i%8 == 0 {
			e.probeEquivocation(r, history, report)
			continue
		}
		seen := map[string]bool{}
		var accepted []M
		steps := 20 + r.Intn(30)
		for j := 0; j < steps; j++ {
			st, _ := e.observe()
			var in M
			switch x := r.Intn(100); {
			case x < 50:
				in = e.genProofOp(r, st)
			case x < 66:
				in = e.genHeaderOp(r, st)
			case x < 78:
				in = e.genMisbehaviourOp(r, st)
			default:
				if len(accepted) == 0 {
					in = e.genProofOp(r, st)
				} else {
					in = copyM(accepted[r.Intn(len(accepted))])
					in["mut"] = "replay"
				}
			}
			history = append(history, in)
			out := e.apply(in)
			after, _ := e.observe()
			viol := func(key, what string) {
				report(Violation{Property: "C26", Key: key, What: what, Input: M{"requests": append([]M{}, history...)}, Observed: out})
			}
			if after.ts < st.ts {
				viol("timestamp-decreased", "the solo machine consensus timestamp decreased")
				return
			}
			if after.seq < st.seq {
				viol("sequence-decreased", "the solo machine sequence decreased")
				return
			}
			f := S(in, "f")
			ok := out["r"] == "ok"
			isMisb := S(in, "msgKind") == "misbehaviour"
			if st.frozen && ok && f != "vm" && f != "vnm" {
				viol("frozen-accepted", "a frozen solo machine client accepted "+f+" through the 02-client keeper")
				return
			}
			if isMisb && !st.frozen {
				// two valid signatures by the current key for one sequence over different data, as evidence that
				// passes ValidateBasic's documented requirements and whose paths are MerklePaths: must freeze
				mb := in["misb"].(M)
				one, two := mb["one"].(M), mb["two"].(M)
				wellFormed := func(x M) bool {
					return x["valid"] == true && len(B(x, "data")) > 0 && len(B(x, "path")) > 0 && N(x, "ts") != 0
				}
				differ := S(one, "path") != S(two, "path") || S(one, "data") != S(two, "data")
				if N(mb, "seq") != 0 && wellFormed(one) && wellFormed(two) && differ && mb["pd1"] == true && mb["pd2"] == true &&
					mb["sigBytesEqual"] == false && (!ok || !after.frozen) {
					viol("misbehaviour-not-frozen", "misbehaviour evidence with two valid signatures of the current key for one sequence over different data (paths are MerklePaths) was rejected or did not freeze the client")
					return
				}
			}
			if !ok {
				if after != st {
					viol("failed-op-changed-state", "a rejected operation changed the solo machine client state")
					return
				}
				continue
			}
			if isMisb {
				if !after.frozen {
					viol("misbehaviour-not-frozen", "accepted misbehaviour did not freeze the client")
					return
				}
				continue
			}
			if S(in, "msgKind") == "other" {
				viol("foreign-message-accepted", "a non-solomachine client message was accepted")
				return
			}
			// a successful verification
			if after.seq != st.seq+1 {
				viol("sequence-not-consumed", "a successful "+f+" did not consume the sequence")
				return
			}
			raw := S(in, "raw")
			if p, isProof := in["proof"].(M); isProof {
				raw = S(p, "raw")
			}
			if seen[raw] {
				viol("signature-accepted-twice", "the same proof / header bytes were accepted twice")
				return
			}
			seen[raw] = true
			if mut := S(in, "mut"); mut != "none" && !(mut == "ts-stale" && st.ts == 0) && !(mut == "seq-" && false) {
				// every mutation makes the signed bytes differ from what the client must check (or breaks the
				// proof's shape); ts-stale with ts=0 and similar degenerate cases are not mutations
				if !(mut == "ts-stale" && st.ts <= 1 && S(in, "msgKind") == "header") {
					viol("mutated-accepted", "accepted although the signature was not made over the exact (sequence, timestamp, diversifier, path, data) in force: mutation "+mut)
					return
				}
			}
			accepted = append(accepted, in)
		}
	}
}

// probeEquivocation replays C26.equivocation_punishable_full_false on the real code: two membership proofs
// for different values, both valid at the current sequence (each is accepted by a client in this very
// state), submitted as misbehaviour with the raw key as path.
func (e *soEnv) probeEquivocation(r *Rng, history []M, report func(Violation)) {
	cdc := e.app.AppCodec()
	st, _ := e.observe()
	key := []byte("connections/connection-0")
	mk := func(value []byte, ts uint64) (M, *solomachine.SignatureAndData) {
		sp := signSpec{seq: st.seq, ts: ts, div: st.div, path: key, data: value}
		bz := e.signBytes(sp)
		sd, cls := e.sigData(r, st.key, bz, "ok")
		raw := cdc.MustMarshal(&solomachine.TimestampedSignatureData{SignatureData: sd, Timestamp: ts})
		in := M{"f": "vm", "pathKind": "merkle", "path": []string{Hex([]byte("ibc")), Hex(key)}, "value": Hex(value), "mut": "none",
			"proof": M{"k": "mk", "ts": U(ts), "sd": cls, "raw": Hex(raw)}}
		return in, &solomachine.SignatureAndData{Signature: sd, Path: key, Data: value, Timestamp: ts}
	}
	ts := st.ts + 1
	p1, s1 := mk([]byte("value-one"), ts)
	p2, s2 := mk([]byte("value-two"), ts)
	m := &solomachine.Misbehaviour{Sequence: st.seq, SignatureOne: s1, SignatureTwo: s2}
	misb := M{"f": "update", "validate": true, "msgKind": "misbehaviour", "raw": Hex(cdc.MustMarshal(m)),
		"misb": M{"seq": U(st.seq), "one": M{"sd": p1["proof"].(M)["sd"], "path": Hex(key), "data": Hex(s1.Data), "ts": U(ts)},
			"two":           M{"sd": p2["proof"].(M)["sd"], "path": Hex(key), "data": Hex(s2.Data), "ts": U(ts)},
			"sigBytesEqual": false, "sigOneEmpty": false, "sigTwoEmpty": false, "pd1": e.pathDecodes(key), "pd2": e.pathDecodes(key)}}
	om := e.apply(misb)
	// both signatures are valid proofs at this sequence: the second is accepted on a twin client
	reset := history[0]
	o1 := e.apply(p1)
	twin := copyM(reset)
	delete(twin, "rawCS")
	delete(twin, "rawCons")
	e.apply(twin)
	o2 := e.apply(p2)
	history = append(history, misb, p1, twin, p2)
	if om["r"] != "ok" && om["frozen"] != true && o1["r"] == "ok" && o2["r"] == "ok" {
		report(Violation{Property: "C26", Key: "equivocation-unpunishable",
			What:     "two membership proofs signed for the same sequence over different values (each accepted by the client) are rejected as misbehaviour evidence: verifySignatureAndData requires SignatureAndData.Path to unmarshal as a MerklePath, but proofs are signed over the raw key KeyPath[1] (\"connections/connection-0\" does not unmarshal), so the client is not frozen",
			Input:    M{"requests": history},
			Observed: M{"misbehaviour": om, "proofOne": o1, "proofTwoOnTwinClient": o2}})
	}
}

func soReplay(reqs []M, emit func(in M, out any)) {
	e := soGet()
	for _, in := range reqs {
		emit(in, e.apply(in))
	}
}

func init() {
	Register(Engine{Name: "solo", Props: []string{"C26"}, Gen: soGen, Monitor: soMonitor, Replay: soReplay})
}
