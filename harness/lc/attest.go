package lc

// Engine "attest" (property C28): the real attestations light client module, the real 02-client keeper
// and real secp256k1 keys.
//
// Ground truth the model cannot compute is supplied by the harness, independently of ibc-go's code:
//   * every signature is classified as {signed signer digest | malformed len | unrecoverable}: the
//     harness knows which key signed which digest (its own sha256(tag || sha256(data))); mutated
//     signatures are classified with go-ethereum's recovery under the digest the code must use;
//   * the ABI decoder's verdict on the attestation data (go-ethereum abi, own argument definitions);
//   * keccak256 of the path key.

import (
	"bytes"
	"crypto/ecdsa"
	"crypto/sha256"
	"errors"
	"fmt"
	"math/big"
	"os"
	"sort"
	"strings"
	"testing"

	"github.com/ethereum/go-ethereum/accounts/abi"
	"github.com/ethereum/go-ethereum/common"
	ethcrypto "github.com/ethereum/go-ethereum/crypto"

	sdk "github.com/cosmos/cosmos-sdk/types"

	clienttypes "github.com/cosmos/ibc-go/v11/modules/core/02-client/types"
	commitmenttypesv2 "github.com/cosmos/ibc-go/v11/modules/core/23-commitment/types/v2"
	host "github.com/cosmos/ibc-go/v11/modules/core/24-host"
	ibcerrors "github.com/cosmos/ibc-go/v11/modules/core/errors"
	"github.com/cosmos/ibc-go/v11/modules/core/exported"
	"github.com/cosmos/ibc-go/v11/modules/light-clients/attestations"
	ibctesting "github.com/cosmos/ibc-go/v11/testing"
	"github.com/cosmos/ibc-go/v11/testing/simapp"
)

const atNumKeys = 12

type atEnv struct {
	coord    *ibctesting.Coordinator
	chain    *ibctesting.TestChain
	app      *simapp.SimApp
	keys     []*ecdsa.PrivateKey
	addrs    []common.Address
	addrID   map[common.Address]int // known and foreign addresses -> id
	clientID string
	module   exported.LightClientModule
}

var atSingleton *atEnv

func atGet() *atEnv {
	if atSingleton != nil {
		return atSingleton
	}
	e := &atEnv{addrID: map[common.Address]int{}}
	e.coord = ibctesting.NewCoordinator(&testing.T{}, 1)
	e.chain = e.coord.GetChain(ibctesting.GetChainID(1))
	e.app = e.chain.App.(*simapp.SimApp)
	for i := 0; i < atNumKeys; i++ {
		seed := sha256.Sum256([]byte(fmt.Sprintf("verif-attestor-key-%d", i)))
		k, err := ethcrypto.ToECDSA(seed[:])
		if err != nil {
			panic(err)
		}
		e.keys = append(e.keys, k)
		a := ethcrypto.PubkeyToAddress(k.PublicKey)
		e.addrs = append(e.addrs, a)
		e.addrID[a] = i
	}
	atSingleton = e
	return e
}

func (e *atEnv) ctx() sdk.Context { return e.chain.GetContext() }

func (e *atEnv) idOf(a common.Address) int {
	if id, ok := e.addrID[a]; ok {
		return id
	}
	id := 1000 + len(e.addrID)
	e.addrID[a] = id
	return id
}

/* ---------- independent ground truth ---------- */

func atTagged(tag byte, data []byte) []byte {
	inner := sha256.Sum256(data)
	pre := append([]byte{tag}, inner[:]...)
	out := sha256.Sum256(pre)
	return out[:]
}

var (
	atU64, _      = abi.NewType("uint64", "", nil)
	atStateArgs   = abi.Arguments{{Name: "height", Type: atU64}, {Name: "timestamp", Type: atU64}}
	atPacketTy, _ = abi.NewType("tuple", "PacketAttestation", []abi.ArgumentMarshaling{
		{Name: "height", Type: "uint64"},
		{Name: "packets", Type: "tuple[]", Components: []abi.ArgumentMarshaling{
			{Name: "path", Type: "bytes32"}, {Name: "commitment", Type: "bytes32"}}},
	})
	atPacketArgs = abi.Arguments{{Name: "attestation", Type: atPacketTy}}
)

func atDecodeState(data []byte) any {
	u, err := atStateArgs.Unpack(data)
	if err != nil || len(u) != 2 {
		return nil
	}
	h, ok1 := u[0].(uint64)
	s, ok2 := u[1].(uint64)
	if !ok1 || !ok2 {
		return nil
	}
	return []string{U(h), U(s)}
}

func atDecodePacket(data []byte) any {
	u, err := atPacketArgs.Unpack(data)
	if err != nil || len(u) != 1 {
		return nil
	}
	v, ok := u[0].(struct {
		Height  uint64 `json:"height"`
		Packets []struct {
			Path       [32]byte `json:"path"`
			Commitment [32]byte `json:"commitment"`
		} `json:"packets"`
	})
	if !ok {
		return nil
	}
	ps := [][2]string{}
	for _, p := range v.Packets {
		ps = append(ps, [2]string{Hex(p.Path[:]), Hex(p.Commitment[:])})
	}
	return M{"h": U(v.Height), "packets": ps}
}

func word(n uint64) []byte {
	b := make([]byte, 32)
	for i := 0; i < 8; i++ {
		b[31-i] = byte(n >> (8 * uint(i)))
	}
	return b
}

// stateData is abi.encode(uint64 height, uint64 timestampSeconds), built by hand so that any seconds value
// can be attested.
func stateData(h, secs uint64) []byte { return append(word(h), word(secs)...) }

func packetData(h uint64, packets [][2][]byte) []byte {
	pa := attestations.PacketAttestation{Height: h}
	for _, p := range packets {
		pa.Packets = append(pa.Packets, attestations.PacketCompact{Path: p[0], Commitment: p[1]})
	}
	bz, err := pa.ABIEncode()
	if err != nil {
		panic(err)
	}
	return bz
}

/* ---------- signatures ---------- */

type gsig struct {
	raw []byte
	cls M
}

func (e *atEnv) sign(id int, digest []byte) []byte {
	sig, err := ethcrypto.Sign(digest, e.keys[id])
	if err != nil {
		panic(err)
	}
	return sig
}

var secpN = ethcrypto.S256().Params().N

// highS returns the (r, n-s, v^1) twin of a signature.
func highS(sig []byte) []byte {
	out := append([]byte{}, sig...)
	s := new(big.Int).SetBytes(sig[32:64])
	s.Sub(secpN, s)
	sb := s.Bytes()
	copy(out[32:64], make([]byte, 32))
	copy(out[64-len(sb):64], sb)
	out[64] ^= 1
	return out
}

// classify a 65-byte blob by real recovery under the digest the code must use.
func (e *atEnv) classify(raw, want []byte) M {
	if len(raw) != 65 {
		return M{"k": "malformed", "len": len(raw)}
	}
	n := append([]byte{}, raw...)
	if n[64] == 27 || n[64] == 28 {
		n[64] -= 27
	}
	var pub *ecdsa.PublicKey
	var err error
	func() {
		defer func() {
			if r := recover(); r != nil {
				err = fmt.Errorf("panic")
			}
		}()
		pub, err = ethcrypto.SigToPub(want, n)
	}()
	if err != nil || pub == nil {
		return M{"k": "unrecoverable"}
	}
	return M{"k": "signed", "signer": e.idOf(ethcrypto.PubkeyToAddress(*pub)), "digest": Hex(want)}
}

// genuine is a signature by key id over digest, in one of its encodings.
func (e *atEnv) genuine(r *Rng, id int, digest []byte, enc int) gsig {
	raw := e.sign(id, digest)
	switch enc {
	case 1: // Ethereum v = 27/28
		raw[64] += 27
	case 2: // high-s twin
		raw = highS(raw)
	case 3: // high-s twin with v = 27/28
		raw = highS(raw)
		raw[64] += 27
	}
	return gsig{raw: raw, cls: M{"k": "signed", "signer": id, "digest": Hex(digest)}}
}

// sigList builds a signature list for (tag, data) according to a strategy; returns the list.
func (e *atEnv) sigList(r *Rng, attestors []int, quorum int, tag byte, data []byte) []gsig {
	want := atTagged(tag, data)
	perm := func(xs []int) []int {
		ys := append([]int{}, xs...)
		for i := len(ys) - 1; i > 0; i-- {
			j := r.Intn(i + 1)
			ys[i], ys[j] = ys[j], ys[i]
		}
		return ys
	}
	nonAtt := []int{}
	isAtt := map[int]bool{}
	for _, a := range attestors {
		isAtt[a] = true
	}
	for i := 0; i < atNumKeys; i++ {
		if !isAtt[i] {
			nonAtt = append(nonAtt, i)
		}
	}
	enc := func() int {
		if r.Chance(0.6) {
			return 0
		}
		return r.Intn(4)
	}
	pa := perm(attestors)
	valid := func(n int) []gsig {
		out := []gsig{}
		for i := 0; i < n && i < len(pa); i++ {
			out = append(out, e.genuine(r, pa[i], want, enc()))
		}
		return out
	}
	insert := func(l []gsig, g gsig) []gsig {
		pos := r.Intn(len(l) + 1)
		out := append([]gsig{}, l[:pos]...)
		out = append(out, g)
		return append(out, l[pos:]...)
	}
	replaceAt := func(l []gsig, g gsig) []gsig {
		if len(l) == 0 {
			return []gsig{g}
		}
		out := append([]gsig{}, l...)
		out[r.Intn(len(out))] = g
		return out
	}
	mutated := func(raw []byte) gsig { return gsig{raw: raw, cls: e.classify(raw, want)} }
	n := quorum
	if r.Chance(0.3) && quorum < len(attestors) {
		n = quorum + r.Intn(len(attestors)-quorum+1)
	}
	switch x := r.Intn(100); {
	case x < 46: // valid: between quorum and all attestors, distinct
		return valid(n)
	case x < 52: // one short of the quorum
		return valid(quorum - 1)
	case x < 55:
		return []gsig{}
	case x < 67: // a repeated signer: same bytes, or another encoding of the same signature, or a fresh signature
		l := valid(n)
		if len(l) == 0 {
			return l
		}
		src := l[r.Intn(len(l))]
		id := src.cls["signer"].(int)
		var dup gsig
		switch r.Intn(5) {
		case 0:
			dup = gsig{raw: append([]byte{}, src.raw...), cls: src.cls}
		case 1:
			raw := append([]byte{}, src.raw...)
			if raw[64] >= 27 {
				raw[64] -= 27
			} else {
				raw[64] += 27
			}
			dup = gsig{raw: raw, cls: src.cls}
		case 2:
			raw := append([]byte{}, src.raw...)
			if raw[64] >= 27 {
				raw[64] -= 27
			}
			dup = gsig{raw: highS(raw), cls: src.cls}
		default:
			dup = e.genuine(r, id, want, enc())
		}
		if r.Chance(0.5) && len(l) > 1 { // keep the length: the duplicate replaces another entry (count still >= quorum)
			out := append([]gsig{}, l...)
			for {
				i := r.Intn(len(out))
				if out[i].cls["signer"].(int) != id {
					out[i] = dup
					break
				}
			}
			return out
		}
		return insert(l, dup)
	case x < 76: // a valid signature by a key that is not an attestor
		l := valid(n)
		if len(nonAtt) == 0 {
			return l
		}
		g := e.genuine(r, nonAtt[r.Intn(len(nonAtt))], want, enc())
		if r.Bool() {
			return insert(l, g)
		}
		return replaceAt(l, g)
	case x < 86: // an attestor's signature over something else: other tag, other data, raw data hash
		l := valid(n)
		id := attestors[r.Intn(len(attestors))]
		var other []byte
		switch r.Intn(4) {
		case 0:
			other = atTagged(tag^3, data) // the other type tag (1 <-> 2)
		case 1:
			d2 := append([]byte{}, data...)
			if len(d2) > 0 {
				d2[r.Intn(len(d2))] ^= 1
			} else {
				d2 = []byte{0}
			}
			other = atTagged(tag, d2)
		case 2:
			h := sha256.Sum256(data) // undomain-separated hash
			other = h[:]
		default:
			other = atTagged(0, data)
		}
		g := e.genuine(r, id, other, enc())
		if r.Bool() {
			return insert(l, g)
		}
		return replaceAt(l, g)
	default: // malformed / unrecoverable / bit-flipped
		l := valid(n)
		base := e.sign(attestors[r.Intn(len(attestors))], want)
		var g gsig
		switch r.Intn(7) {
		case 0:
			g = mutated(base[:64])
		case 1:
			g = mutated(append(append([]byte{}, base...), 0))
		case 2:
			g = mutated([]byte{})
		case 3:
			b := append([]byte{}, base...)
			b[64] = byte(Pick(r, []int{2, 3, 4, 26, 29, 30, 255}))
			g = mutated(b)
		case 4:
			b := append([]byte{}, base...)
			copy(b[0:32], make([]byte, 32)) // r = 0
			g = mutated(b)
		case 5:
			b := append([]byte{}, base...)
			for i := 32; i < 64; i++ { // s >= n
				b[i] = 0xff
			}
			g = mutated(b)
		default:
			b := append([]byte{}, base...)
			b[r.Intn(64)] ^= 1 << uint(r.Intn(8))
			g = mutated(b)
		}
		if r.Bool() {
			return insert(l, g)
		}
		return replaceAt(l, g)
	}
}

func proofJSON(data []byte, sigs []gsig) M {
	cl := []M{}
	for _, g := range sigs {
		c := M{}
		for k, v := range g.cls {
			c[k] = v
		}
		c["raw"] = Hex(g.raw)
		cl = append(cl, c)
	}
	return M{"data": Hex(data), "sigs": cl, "decState": atDecodeState(data), "decPacket": atDecodePacket(data)}
}

func proofFromJSON(p M) *attestations.AttestationProof {
	ap := &attestations.AttestationProof{AttestationData: B(p, "data")}
	if len(ap.AttestationData) == 0 {
		ap.AttestationData = nil
	}
	for _, s := range List(p, "sigs") {
		ap.Signatures = append(ap.Signatures, B(s, "raw"))
	}
	return ap
}

/* ---------- real-code evaluation ---------- */

func atErrClass(err error) string {
	table := []struct {
		e error
		n string
	}{
		{attestations.ErrInvalidSignature, "invalid-signature"}, {attestations.ErrInvalidQuorum, "invalid-quorum"},
		{attestations.ErrDuplicateSigner, "duplicate-signer"}, {attestations.ErrUnknownSigner, "unknown-signer"},
		{attestations.ErrClientFrozen, "client-frozen"}, {attestations.ErrInvalidPath, "invalid-path"},
		{attestations.ErrInvalidAttestationData, "invalid-attestation-data"},
		{clienttypes.ErrConsensusStateNotFound, "consensus-state-not-found"},
		{attestations.ErrInvalidAttestationProof, "invalid-attestation-proof"}, {attestations.ErrInvalidHeight, "invalid-height"},
		{ibcerrors.ErrInvalidType, "invalid-type"}, {attestations.ErrInvalidValue, "invalid-value"},
		{attestations.ErrNotMember, "not-member"}, {attestations.ErrNonMembershipFailed, "non-membership-failed"},
		{clienttypes.ErrInvalidClient, "invalid-client"}, {clienttypes.ErrClientNotFound, "client-not-found"},
		{clienttypes.ErrClientNotActive, "client-not-active"}, {ibcerrors.ErrInvalidRequest, "invalid-request"},
		{clienttypes.ErrInvalidUpgradeClient, "invalid-upgrade-client"},
	}
	for _, t := range table {
		if errors.Is(err, t.e) {
			return t.n
		}
	}
	return "other:" + err.Error()
}

func (e *atEnv) observe() M {
	ctx := e.ctx()
	ck := e.app.IBCKeeper.ClientKeeper
	out := M{}
	csI, ok := ck.GetClientState(ctx, e.clientID)
	if !ok {
		return M{"frozen": false, "latest": "0", "cons": [][3]string{}, "missing": true}
	}
	cs := csI.(*attestations.ClientState)
	out["frozen"] = cs.IsFrozen
	out["latest"] = U(cs.LatestHeight)
	type ent struct {
		rev, h, ts uint64
	}
	var ents []ent
	store := ck.ClientStore(ctx, e.clientID)
	pfx := []byte(host.KeyConsensusStatePrefix + "/")
	it := store.Iterator(pfx, append(append([]byte{}, pfx[:len(pfx)-1]...), '0'))
	for ; it.Valid(); it.Next() {
		hs := strings.TrimPrefix(string(it.Key()), string(pfx))
		h, err := clienttypes.ParseHeight(hs)
		if err != nil {
			continue
		}
		c := clienttypes.MustUnmarshalConsensusState(e.app.AppCodec(), it.Value()).(*attestations.ConsensusState)
		ents = append(ents, ent{h.RevisionNumber, h.RevisionHeight, c.Timestamp})
	}
	it.Close()
	sort.Slice(ents, func(i, j int) bool {
		if ents[i].rev != ents[j].rev {
			return ents[i].rev < ents[j].rev
		}
		return ents[i].h < ents[j].h
	})
	cons := [][3]string{}
	for _, x := range ents {
		cons = append(cons, [3]string{U(x.rev), U(x.h), U(x.ts)})
	}
	out["cons"] = cons
	return out
}

func (e *atEnv) create(in M) M {
	var addrs []string
	for _, id := range natList(in["attestors"]) {
		addrs = append(addrs, e.addrs[id].Hex())
	}
	cs := attestations.NewClientState(addrs, uint32(N(in, "min")), N(in, "latest"))
	cons := &attestations.ConsensusState{Timestamp: N(in, "ts")}
	cdc := e.app.AppCodec()
	id, err := e.app.IBCKeeper.ClientKeeper.CreateClient(e.ctx(), exported.Attestations, cdc.MustMarshal(cs), cdc.MustMarshal(cons))
	if err != nil {
		panic(err)
	}
	e.clientID = id
	m, err := e.app.IBCKeeper.ClientKeeper.Route(e.ctx(), id)
	if err != nil {
		panic(err)
	}
	e.module = m
	out := e.observe()
	out["r"] = "reset"
	return out
}

func natList(v any) []int {
	var out []int
	switch a := v.(type) {
	case []int:
		return a
	case []any:
		for _, x := range a {
			switch n := x.(type) {
			case float64:
				out = append(out, int(n))
			case string:
				out = append(out, int(N(M{"x": n}, "x")))
			}
		}
	}
	return out
}

func (e *atEnv) pathOf(in M) exported.Path {
	switch S(in, "pathKind") {
	case "nil":
		return nil
	case "other":
		return otherPath{}
	}
	var kp [][]byte
	for _, h := range Strs(in, "path") {
		kp = append(kp, B(M{"x": h}, "x"))
	}
	return commitmenttypesv2.MerklePath{KeyPath: kp}
}

func (e *atEnv) proofBytes(in M) []byte {
	if _, ok := in["proofBytes"]; ok {
		return B(in, "proofBytes")
	}
	p, _ := in["proof"].(map[string]any)
	if p == nil {
		if pm, ok := in["proof"].(M); ok {
			p = pm
		}
	}
	if p == nil {
		return []byte{0xff, 0xff}
	}
	return e.app.AppCodec().MustMarshal(proofFromJSON(p))
}

func (e *atEnv) msgOf(in M) exported.ClientMessage {
	if S(in, "msgKind") != "proof" {
		return e.chain.CurrentTMClientHeader()
	}
	p, _ := in["proof"].(map[string]any)
	if p == nil {
		p, _ = in["proof"].(M)
	}
	return proofFromJSON(p)
}

func (e *atEnv) apply(in M) M {
	f := S(in, "f")
	if f == "reset" {
		return e.create(in)
	}
	ck := e.app.IBCKeeper.ClientKeeper
	res := Safe(func() any {
		ctx := e.ctx()
		toRes := func(err error) M {
			if err == nil {
				return M{"r": "ok"}
			}
			return M{"r": "err", "err": atErrClass(err)}
		}
		h := func() clienttypes.Height { return clienttypes.NewHeight(N(in, "hr"), N(in, "hh")) }
		switch f {
		case "vs":
			csI, _ := ck.GetClientState(ctx, e.clientID)
			p, _ := in["proof"].(map[string]any)
			if p == nil {
				p, _ = in["proof"].(M)
			}
			return toRes(csI.(*attestations.ClientState).VerifVerifySignatures(proofFromJSON(p), attestations.AttestationType(N(in, "ty"))))
		case "vcm":
			return toRes(e.module.VerifyClientMessage(ctx, e.clientID, e.msgOf(in)))
		case "update":
			return toRes(ck.UpdateClient(ctx, e.clientID, e.msgOf(in)))
		case "vm":
			return toRes(e.module.VerifyMembership(ctx, e.clientID, h(), 0, 0, e.proofBytes(in), e.pathOf(in), B(in, "value")))
		case "vnm":
			return toRes(e.module.VerifyNonMembership(ctx, e.clientID, h(), 0, 0, e.proofBytes(in), e.pathOf(in)))
		case "kvm":
			return toRes(ck.VerifyMembership(ctx, e.clientID, h(), 0, 0, e.proofBytes(in), e.pathOf(in), B(in, "value")))
		case "kvnm":
			return toRes(ck.VerifyNonMembership(ctx, e.clientID, h(), 0, 0, e.proofBytes(in), e.pathOf(in)))
		case "recover":
			return toRes(e.module.RecoverClient(ctx, e.clientID, e.clientID))
		case "upgrade":
			return toRes(e.module.VerifyUpgradeAndUpdateState(ctx, e.clientID, nil, nil, nil, nil))
		}
		return M{"bad": "unknown op " + f}
	})
	out, _ := res.(M)
	if p, isPanic := out["panic"]; isPanic {
		if os.Getenv("VERIF_DEBUG") != "" {
			fmt.Fprintln(os.Stderr, "panic:", f, p)
		}
		out = M{"r": "panic"}
	}
	for k, v := range e.observe() {
		out[k] = v
	}
	return out
}

/* ---------- generators ---------- */

type atHist struct {
	attestors []int
	quorum    int
	stored    map[uint64]uint64 // height -> seconds attested (revision 0)
	latest    uint64
	frozen    bool
}

func (e *atEnv) genReset(r *Rng) (M, *atHist) {
	n := 1 + r.Intn(7)
	ids := []int{}
	for _, i := range rngPerm(r, atNumKeys)[:n] {
		ids = append(ids, i)
	}
	q := 1 + r.Intn(n)
	h0 := uint64(1 + r.Intn(20))
	s0 := uint64(1000 + r.Intn(1000))
	hist := &atHist{attestors: ids, quorum: q, stored: map[uint64]uint64{h0: s0}, latest: h0}
	return M{"f": "reset", "attestors": ids, "min": q, "latest": U(h0), "ts": U(s0 * 1000000000)}, hist
}

func rngPerm(r *Rng, n int) []int {
	p := make([]int, n)
	for i := range p {
		p[i] = i
	}
	for i := n - 1; i > 0; i-- {
		j := r.Intn(i + 1)
		p[i], p[j] = p[j], p[i]
	}
	return p
}

func (h *atHist) someStored(r *Rng) uint64 {
	ks := []uint64{}
	for k := range h.stored {
		ks = append(ks, k)
	}
	sort.Slice(ks, func(i, j int) bool { return ks[i] < ks[j] })
	return ks[r.Intn(len(ks))]
}

func (e *atEnv) genUpdate(r *Rng, h *atHist, f string) M {
	var height, secs uint64
	switch x := r.Intn(20); {
	case x < 11:
		height = h.latest + 1 + uint64(r.Intn(3))
		secs = 2000 + uint64(r.Intn(100000))
	case x < 14: // an old, not stored height
		height = uint64(r.Intn(int(h.latest) + 1))
		secs = 500 + uint64(r.Intn(3000))
	case x < 17: // re-attest a stored height with the same timestamp
		height = h.someStored(r)
		secs = h.stored[height]
	case x < 18: // conflicting timestamp for a stored height
		height = h.someStored(r)
		secs = h.stored[height] + 1 + uint64(r.Intn(5))
	case x < 19: // boundary values
		height = Pick(r, []uint64{0, 1<<63 - 1, 1 << 63, 1<<64 - 1})
		secs = Pick(r, []uint64{0, 1, 18446744073, 18446744074, 1 << 55, 1<<64 - 1})
	default:
		height = h.latest + 1
		secs = uint64(r.Intn(10))
	}
	data := stateData(height, secs)
	switch r.Intn(25) {
	case 0:
		data = r.Bytes(r.Intn(70)) // undecodable
	case 1:
		data = data[:63]
	case 2:
		data = packetData(height, [][2][]byte{{r.Bytes(32), r.Bytes(32)}}) // a packet attestation sent as update
	}
	tag := byte(1)
	sigs := e.sigList(r, h.attestors, h.quorum, tag, data)
	in := M{"f": f, "msgKind": "proof", "proof": proofJSON(data, sigs)}
	if r.Chance(0.03) {
		in["msgKind"] = "other"
	}
	return in
}

func (e *atEnv) genVerify(r *Rng, h *atHist) M {
	height := h.someStored(r)
	rev := uint64(0)
	switch r.Intn(12) {
	case 0:
		height = h.latest + 1 + uint64(r.Intn(3)) // no consensus state
	case 1:
		rev = 1
	}
	attHeight := height
	if r.Chance(0.08) {
		attHeight = height + 1
	}
	key := []byte(Pick(r, []string{"commitments/ports/transfer/channels/channel-0/sequences/1", "acks/ports/transfer/channels/channel-0/sequences/1", "receipts/x", "k"}))
	kh := ethcrypto.Keccak256(key)
	np := 1 + r.Intn(4)
	var packets [][2][]byte
	for i := 0; i < np; i++ {
		packets = append(packets, [2][]byte{r.Bytes(32), r.Bytes(32)})
	}
	nonMember := r.Bool()
	f := Pick(r, []string{"vm", "vm", "kvm"})
	if nonMember {
		f = Pick(r, []string{"vnm", "vnm", "kvnm"})
	}
	value := r.Bytes(32)
	// shape the packet list
	switch x := r.Intn(20); {
	case x < 10: // the path is attested
		i := r.Intn(np)
		packets[i][0] = kh
		if nonMember {
			packets[i][1] = make([]byte, 32)
		} else {
			value = append([]byte{}, packets[i][1]...)
		}
	case x < 13: // attested twice: zero and non-zero commitment
		packets = append(packets, [2][]byte{kh, make([]byte, 32)}, [2][]byte{kh, r.Bytes(32)})
		if r.Bool() {
			packets[len(packets)-1], packets[len(packets)-2] = packets[len(packets)-2], packets[len(packets)-1]
		}
		if !nonMember {
			value = append([]byte{}, packets[len(packets)-1-r.Intn(2)][1]...)
		}
	case x < 15: // right commitment under another path
		if !nonMember {
			value = append([]byte{}, packets[0][1]...)
		} else {
			packets[0][1] = make([]byte, 32)
		}
	case x < 16: // path attested with a non-zero commitment (non-membership must fail), value differs by a bit
		i := r.Intn(np)
		packets[i][0] = kh
		value = append([]byte{}, packets[i][1]...)
		value[r.Intn(32)] ^= 1
	case x < 17:
		packets = nil
	case x < 18: // zero commitment attested, membership of the zero value
		packets[0][0] = kh
		packets[0][1] = make([]byte, 32)
		value = make([]byte, 32)
	default:
		i := r.Intn(np)
		packets[i][0] = kh
		value = append([]byte{}, packets[i][1]...)
		if nonMember {
			packets[i][1] = make([]byte, 32)
		}
	}
	data := packetData(attHeight, packets)
	switch r.Intn(30) {
	case 0:
		data = r.Bytes(r.Intn(100))
	case 1:
		data = stateData(height, 5)
	}
	sigs := e.sigList(r, h.attestors, h.quorum, 2, data)
	in := M{"f": f, "hr": U(rev), "hh": U(height), "proof": proofJSON(data, sigs), "pathKind": "merkle",
		"path": []string{Hex(key)}, "keccak": Hex(kh)}
	if !nonMember {
		switch r.Intn(20) {
		case 0:
			value = value[:31]
		case 1:
			value = []byte{}
		case 2:
			value = append(value, 0)
		}
		in["value"] = Hex(value)
	}
	switch r.Intn(25) {
	case 0:
		in["pathKind"] = "nil"
	case 1:
		in["pathKind"] = "other"
	case 2:
		in["path"] = []string{}
	case 3:
		in["path"] = []string{Hex(key), Hex(key)}
	case 4:
		in["path"] = []string{""}
		in["keccak"] = Hex(ethcrypto.Keccak256([]byte{}))
	case 5:
		in["path"] = []string{Hex([]byte("ibc")), Hex(key)}
	}
	if r.Chance(0.03) { // proof bytes that do not unmarshal
		in["proof"] = nil
		in["proofBytes"] = "ffff"
	}
	return in
}

func (e *atEnv) genOp(r *Rng, h *atHist) M {
	switch x := r.Intn(100); {
	case x < 42:
		return e.genUpdate(r, h, "update")
	case x < 50:
		return e.genUpdate(r, h, "vcm")
	case x < 88:
		return e.genVerify(r, h)
	case x < 96:
		data := stateData(h.latest+1, 7)
		ty := byte(Pick(r, []int{1, 2, 1, 2, 0, 3}))
		if ty == 2 {
			data = packetData(h.latest, [][2][]byte{{r.Bytes(32), r.Bytes(32)}})
		}
		return M{"f": "vs", "ty": int(ty), "proof": proofJSON(data, e.sigList(r, h.attestors, h.quorum, ty, data))}
	case x < 98:
		return M{"f": "recover"}
	default:
		return M{"f": "upgrade"}
	}
}

// track updates the generator's view of the history from the implementation's answer.
func (h *atHist) track(in M, out M) {
	if fz, _ := out["frozen"].(bool); fz {
		h.frozen = true
	}
	h.stored = map[uint64]uint64{}
	if cons, ok := out["cons"].([][3]string); ok {
		for _, c := range cons {
			if c[0] == "0" {
				hh := N(M{"x": c[1]}, "x")
				h.stored[hh] = N(M{"x": c[2]}, "x") / 1000000000
			}
		}
	}
	if l, ok := out["latest"].(string); ok {
		h.latest = N(M{"x": l}, "x")
	}
	if h.latest > 1<<40 {
		h.latest = 1 << 40 // keep generated heights away from overflow
	}
}

func atGen(r *Rng, n int, emit func(in M, out any)) {
	e := atGet()
	for i := 0; i < n; i++ {
		reset, h := e.genReset(r)
		emit(reset, e.apply(reset))
		steps := 15 + r.Intn(30)
		afterFrozen := 0
		for j := 0; j < steps; j++ {
			in := e.genOp(r, h)
			out := e.apply(in)
			emit(in, out)
			h.track(in, out)
			if h.frozen {
				afterFrozen++
				if afterFrozen > 6 {
					break
				}
			}
		}
	}
}

/* ---------- monitor: the property evaluated directly on the implementation ---------- */

// quorumOK recomputes, from the harness's own knowledge of who signed what, whether the signature list
// is a quorum of valid 65-byte signatures by distinct configured attestors over tagged(tag, data).
func (e *atEnv) quorumOK(p M, h *atHist, tag byte) bool {
	want := Hex(atTagged(tag, B(p, "data")))
	sigs := List(p, "sigs")
	if len(sigs) == 0 || len(sigs) < h.quorum {
		return false
	}
	isAtt := map[int]bool{}
	for _, a := range h.attestors {
		isAtt[a] = true
	}
	seen := map[int]bool{}
	for _, s := range sigs {
		if S(s, "k") != "signed" || S(s, "digest") != want {
			return false
		}
		id := int(N(s, "signer"))
		if !isAtt[id] || seen[id] {
			return false
		}
		seen[id] = true
	}
	return len(seen) >= h.quorum
}

func atMonitor(r *Rng, n int, report func(Violation)) {
	e := atGet()
	for i := 0; i < n; i++ {
		reset, h := e.genReset(r)
		history := []M{reset}
		prev := e.apply(reset)
		steps := 15 + r.Intn(25)
		if i%10 == 0 {
			e.probeTimestampWrap(r, h, history, report)
			continue
		}
		for j := 0; j < steps; j++ {
			in := e.genOp(r, h)
			history = append(history, in)
			wasFrozen := h.frozen
			storedBefore := map[uint64]uint64{}
			for k, v := range h.stored {
				storedBefore[k] = v
			}
			out := e.apply(in)
			h.track(in, out)
			viol := func(key, what string) {
				report(Violation{Property: "C28", Key: key, What: what, Input: M{"requests": append([]M{}, history...)}, Observed: out})
			}
			f := S(in, "f")
			ok := out["r"] == "ok"
			p, _ := in["proof"].(M)
			if wasFrozen {
				if ok && f != "vs" {
					viol("frozen-accepted", "a frozen attestations client accepted "+f)
					return
				}
				if fmt.Sprint(out["cons"]) != fmt.Sprint(prev["cons"]) || out["frozen"] != true {
					viol("frozen-changed", "the state of a frozen attestations client changed")
					return
				}
				prev = out
				continue
			}
			prev = out
			if !ok {
				continue
			}
			switch f {
			case "update", "vcm", "vs":
				tag := byte(1)
				if f == "vs" {
					tag = byte(N(in, "ty"))
				}
				if S(in, "msgKind") == "other" || p == nil || !e.quorumOK(p, h, tag) {
					viol("accepted-without-quorum", f+" accepted an attestation that is not signed by a quorum of distinct configured attestors over the domain-separated hash of that data")
					return
				}
				if f == "update" {
					if ds, isArr := p["decState"].([]string); isArr {
						hh := N(M{"x": ds[0]}, "x")
						secs := N(M{"x": ds[1]}, "x")
						if old, had := storedBefore[hh]; had && old != secs {
							if out["frozen"] != true {
								viol("conflict-not-frozen", "an accepted update attesting a different timestamp for a stored height did not freeze the client")
								return
							}
						}
					}
				}
			case "vm", "kvm", "vnm", "kvnm":
				if p == nil || !e.quorumOK(p, h, 2) {
					viol("accepted-without-quorum", f+" accepted a proof that is not signed by a quorum of distinct configured attestors over the packet-tagged hash of that data")
					return
				}
				dp, _ := p["decPacket"].(M)
				path := Strs(in, "path")
				if dp == nil || S(in, "pathKind") != "merkle" || len(path) != 1 || S(dp, "h") != S(in, "hh") {
					viol("membership-shape", f+" accepted a proof whose attestation data / path / height do not have the required shape")
					return
				}
				kh := Hex(ethcrypto.Keccak256(B(M{"x": path[0]}, "x")))
				pk, _ := dp["packets"].([][2]string)
				if f == "vm" || f == "kvm" {
					found := false
					for _, q := range pk {
						if q[0] == kh && q[1] == S(in, "value") && len(B(in, "value")) == 32 {
							found = true
						}
					}
					if !found {
						viol("membership-unattested", "membership accepted for a (path, value) that is not an attested 32-byte commitment at keccak(path)")
						return
					}
				} else {
					found, allZero := false, true
					for _, q := range pk {
						if q[0] == kh {
							found = true
							if !bytes.Equal(B(M{"x": q[1]}, "x"), make([]byte, 32)) {
								allZero = false
							}
						}
					}
					if !found || !allZero {
						viol("nonmembership-unattested", "non-membership accepted although the path is not attested with only zero commitments")
						return
					}
				}
			case "recover", "upgrade":
				viol("lifecycle-accepted", f+" accepted by the attestations client")
				return
			}
		}
	}
}

// probeTimestampWrap re-checks the witness fixed by /repo commit b1892f8 (C28.conflicting_seconds_freeze) on the
// real code: two quorum-signed updates for one new height attesting 1 s and 1 s + 2^55 s.
func (e *atEnv) probeTimestampWrap(r *Rng, h *atHist, history []M, report func(Violation)) {
	height := h.latest + 1
	mk := func(secs uint64) M {
		data := stateData(height, secs)
		want := atTagged(1, data)
		var sigs []gsig
		for _, id := range h.attestors[:h.quorum] {
			sigs = append(sigs, e.genuine(r, id, want, 0))
		}
		return M{"f": "update", "msgKind": "proof", "proof": proofJSON(data, sigs)}
	}
	a, b := mk(1), mk(1+1<<55)
	o1 := e.apply(a)
	o2 := e.apply(b)
	history = append(history, a, b)
	if o1["r"] == "ok" && o2["r"] == "ok" && o2["frozen"] != true {
		report(Violation{Property: "C28", Key: "timestamp-wrap-no-freeze",
			What:     "two quorum-signed updates for one height attesting different timestamps (1 s and 1 s + 2^55 s) do not freeze the client: timestampSeconds * 1e9 wraps in uint64 (abi.go ABIDecodeStateAttestation)",
			Input:    M{"requests": history},
			Observed: o2})
	}
}

func atReplay(reqs []M, emit func(in M, out any)) {
	e := atGet()
	for _, in := range reqs {
		emit(in, e.apply(in))
	}
}

func init() {
	Register(Engine{Name: "attest", Props: []string{"C28"}, Gen: atGen, Monitor: atMonitor, Replay: atReplay})
}
