// Package lc: correspondence harnesses + monitors for the light-client properties
// C26 (06-solomachine), C27 (09-localhost), C28 (attestations). Each engine is stateful: a request
// {"f":"reset",…} starts a history, every later request is one op on the real code.
package lc

import (
	"encoding/hex"
	"fmt"
	"strconv"
	"testing"

	"verif/harness/lib"
)

type (
	M   = lib.M
	Rng = lib.Rng
)

func Hex(b []byte) string          { return lib.Hex(b) }
func U(n uint64) string            { return lib.U(n) }
func Safe(f func() any) any        { return lib.Safe(f) }
func Pick[T any](r *Rng, xs []T) T { return lib.Pick(r, xs) }

// Violation extends lib.Violation with the stable key matched against known_findings.json.
type Violation struct {
	Property string `json:"property"`
	Key      string `json:"key,omitempty"`
	What     string `json:"what"`
	Input    any    `json:"input"`
	Observed any    `json:"observed"`
}

// Engine is one stateful correspondence engine.
//
//	Gen     produces n histories, evaluating every request on the real code (emit(in, out));
//	Monitor evaluates the property itself on the implementation over n histories (sound: reports only
//	        genuine violations of the property as stated);
//	Replay  re-evaluates a recorded request stream.
type Engine struct {
	Name    string
	Props   []string
	Gen     func(r *lib.Rng, n int, emit func(in M, out any))
	Monitor func(r *lib.Rng, n int, report func(Violation))
	Replay  func(reqs []M, emit func(in M, out any))
}

var Engines []Engine

func Register(e Engine) { Engines = append(Engines, e) }

// fakeTB satisfies testing.TB for ibctesting's constructors; a failed require panics.
type fakeTB struct{ testing.TB }

func (fakeTB) Helper()                   {}
func (fakeTB) Name() string              { return "verif-lc" }
func (fakeTB) Logf(string, ...any)       {}
func (fakeTB) Log(...any)                {}
func (fakeTB) Errorf(f string, a ...any) { panic("ibctesting: " + fmt.Sprintf(f, a...)) }
func (fakeTB) Error(a ...any)            { panic("ibctesting: " + fmt.Sprint(a...)) }
func (fakeTB) Fatalf(f string, a ...any) { panic("ibctesting: " + fmt.Sprintf(f, a...)) }
func (fakeTB) Fatal(a ...any)            { panic("ibctesting: " + fmt.Sprint(a...)) }
func (fakeTB) FailNow()                  { panic("ibctesting: FailNow") }
func (fakeTB) Fail()                     { panic("ibctesting: Fail") }
func (fakeTB) Failed() bool              { return false }
func (fakeTB) Cleanup(func())            {}
func (fakeTB) TempDir() string           { return "/tmp" }
func (fakeTB) Setenv(string, string)     {}

// request field accessors (requests are built by Gen or read back from JSON in replay mode)
func S(in M, k string) string { s, _ := in[k].(string); return s }

func N(in M, k string) uint64 {
	switch v := in[k].(type) {
	case string:
		n, err := strconv.ParseUint(v, 10, 64)
		if err != nil {
			panic("harness: bad number " + v)
		}
		return n
	case float64:
		return uint64(v)
	case int:
		return uint64(v)
	case uint64:
		return v
	}
	panic(fmt.Sprintf("harness: field %s missing", k))
}

func B(in M, k string) []byte {
	b, err := hex.DecodeString(S(in, k))
	if err != nil {
		panic("harness: bad hex in " + k)
	}
	if b == nil {
		b = []byte{}
	}
	return b
}

func Bool(in M, k string) bool { b, _ := in[k].(bool); return b }

func Strs(in M, k string) []string {
	switch v := in[k].(type) {
	case []string:
		return v
	case []any:
		out := make([]string, len(v))
		for i, x := range v {
			out[i], _ = x.(string)
		}
		return out
	}
	return nil
}

func List(in M, k string) []M {
	switch v := in[k].(type) {
	case []M:
		return v
	case []any:
		out := make([]M, len(v))
		for i, x := range v {
			out[i], _ = x.(map[string]any)
		}
		return out
	}
	return nil
}

// Pairs decodes [[khex,vhex],…].
func Pairs(v any) [][2][]byte {
	var out [][2][]byte
	add := func(ks, vs string) {
		k, _ := hex.DecodeString(ks)
		val, _ := hex.DecodeString(vs)
		if val == nil {
			val = []byte{}
		}
		out = append(out, [2][]byte{k, val})
	}
	switch a := v.(type) {
	case [][2]string:
		for _, p := range a {
			add(p[0], p[1])
		}
	case []any:
		for _, e := range a {
			p, _ := e.([]any)
			if len(p) == 2 {
				ks, _ := p[0].(string)
				vs, _ := p[1].(string)
				add(ks, vs)
			}
		}
	}
	return out
}
