package purefn

import (
	clienttypes "github.com/cosmos/ibc-go/v11/modules/core/02-client/types"
	connectiontypes "github.com/cosmos/ibc-go/v11/modules/core/03-connection/types"
	channeltypes "github.com/cosmos/ibc-go/v11/modules/core/04-channel/types"
	host "github.com/cosmos/ibc-go/v11/modules/core/24-host"

	. "verif/harness/lib"
)

var identFuncs = map[string]func(in M) any{
	"ident.formatClient": func(in M) any { return Ok(clienttypes.FormatClientIdentifier(S(in, "type"), N(in, "seq"))) },
	"ident.parseClient": func(in M) any {
		t, n, err := clienttypes.ParseClientIdentifier(S(in, "s"))
		if err != nil {
			return Err("invalid-id")
		}
		return Ok(M{"type": t, "seq": U(n)})
	},
	"ident.isClientFormat":       func(in M) any { return Ok(clienttypes.IsClientIDFormat(S(in, "s"))) },
	"ident.validateClientType":   func(in M) any { return Ok(clienttypes.ValidateClientType(S(in, "type")) == nil) },
	"ident.formatChannel":        func(in M) any { return Ok(channeltypes.FormatChannelIdentifier(N(in, "seq"))) },
	"ident.formatConnection":     func(in M) any { return Ok(connectiontypes.FormatConnectionIdentifier(N(in, "seq"))) },
	"ident.parseChannel": func(in M) any {
		n, err := channeltypes.ParseChannelSequence(S(in, "s"))
		if err != nil {
			return Err("invalid-id")
		}
		return Ok(U(n))
	},
	"ident.parseConnection": func(in M) any {
		n, err := connectiontypes.ParseConnectionSequence(S(in, "s"))
		if err != nil {
			return Err("invalid-id")
		}
		return Ok(U(n))
	},
}

const typeAlphabet = "abcdefghijklmnopqrstuvwxyzABCDEFGHIJKLMNOPQRSTUVWXYZ0123456789_-"

func genClientType(r *Rng) string {
	switch r.Intn(10) {
	case 0:
		return Pick(r, []string{"07-tendermint", "06-solomachine", "08-wasm", "09-localhost", "attestations", "99-verif", "a", "ab", "a-b", "a--b", "-a", "a-", "_", "0", "", " ", "a b", "a.b", "tendermint"})
	case 1:
		return r.Str(typeAlphabet, 1+r.Intn(3))
	case 2:
		return r.Str(typeAlphabet, 40+r.Intn(8)) // around the 64-char limit of the largest id
	case 3:
		return r.Str("ab-", 1+r.Intn(6))
	case 4:
		return r.Str(typeAlphabet+".+#[]<> /", 1+r.Intn(10))
	case 5:
		return r.Str("0123456789-", 1+r.Intn(8))
	default:
		return r.Str(typeAlphabet, 2+r.Intn(20))
	}
}

func seqString(r *Rng) string {
	switch r.Intn(8) {
	case 0:
		return Pick(r, []string{"18446744073709551615", "18446744073709551616", "99999999999999999999", "100000000000000000000", "00000000000000000001", "000000000000000000001", "", "0", "00", "+1", "-1", "1_0", " 1", "1 ", "0x1", "1e3", "１"})
	case 1:
		return r.Str("0123456789", 19+r.Intn(4))
	case 2:
		return "0" + U(r.Num64())
	default:
		return U(r.Num64())
	}
}

func genClientIDString(r *Rng) string {
	switch r.Intn(8) {
	case 0:
		return Pick(r, []string{"09-localhost", "09-localhost-0", "07-tendermint-0", "07-tendermint", "-0", "a-0", "a--0", "a-b-0", "a-b--0", "-a-0", "a-0\n", "a-0-", "--0", "_-0", "a- 0"})
	case 1:
		return genClientType(r) + seqString(r)
	default:
		return genClientType(r) + "-" + seqString(r)
	}
}

func init() {
	Register(Group{
		Name:  "ident",
		Props: []string{"C15"},
		Funcs: identFuncs,
		Gen: func(r *Rng, n int, emit func(M)) {
			for i := 0; i < n; i++ {
				t := genClientType(r)
				emit(M{"f": "ident.formatClient", "type": t, "seq": U(r.Num64())})
				emit(M{"f": "ident.validateClientType", "type": t})
				s := genClientIDString(r)
				emit(M{"f": "ident.parseClient", "s": s})
				emit(M{"f": "ident.isClientFormat", "s": s})
				emit(M{"f": Pick(r, []string{"ident.formatChannel", "ident.formatConnection"}), "seq": U(r.Num64())})
				fn, pre := "ident.parseChannel", "channel-"
				if r.Bool() {
					fn, pre = "ident.parseConnection", "connection-"
				}
				if r.Chance(0.25) {
					pre = Pick(r, []string{"channel-", "connection-", "channel", "chan-", "channel-channel-", "connection-connection-", ""})
				}
				emit(M{"f": fn, "s": pre + seqString(r)})
			}
		},
		Monitor: func(r *Rng, n int, report func(Violation)) {
			for i := 0; i < n; i++ {
				t := genClientType(r)
				seq := r.Num64()
				if clienttypes.ValidateClientType(t) == nil {
					id := clienttypes.FormatClientIdentifier(t, seq)
					if err := host.ClientIdentifierValidator(id); err != nil {
						report(Violation{Property: "C15", What: "generated client identifier fails identifier validation", Input: M{"type": t, "seq": U(seq)}, Observed: err.Error()})
					}
					pt, ps, err := clienttypes.ParseClientIdentifier(id)
					if err != nil || pt != t || ps != seq {
						report(Violation{Property: "C15", What: "client identifier does not parse back to its parts", Input: M{"type": t, "seq": U(seq)}, Observed: M{"type": pt, "seq": U(ps)}})
					}
				}
				ch := channeltypes.FormatChannelIdentifier(seq)
				if ps, err := channeltypes.ParseChannelSequence(ch); err != nil || ps != seq || host.ChannelIdentifierValidator(ch) != nil {
					report(Violation{Property: "C15", What: "channel identifier does not validate / parse back", Input: M{"seq": U(seq)}})
				}
				co := connectiontypes.FormatConnectionIdentifier(seq)
				if ps, err := connectiontypes.ParseConnectionSequence(co); err != nil || ps != seq || host.ConnectionIdentifierValidator(co) != nil {
					report(Violation{Property: "C15", What: "connection identifier does not validate / parse back", Input: M{"seq": U(seq)}})
				}
				// parsing never accepts a sequence that does not fit in 64 bits: the accepted value
				// re-formats to the same digits modulo leading zeros
				s := genClientIDString(r)
				if pt, ps, err := clienttypes.ParseClientIdentifier(s); err == nil && s != "09-localhost" {
					want := pt + "-"
					rest := s[len(want):]
					for len(rest) > 1 && rest[0] == '0' {
						rest = rest[1:]
					}
					if len(s) < len(want) || s[:len(want)] != want || rest != U(ps) {
						report(Violation{Property: "C15", What: "parsed client identifier sequence differs from the digits in the identifier (overflow?)", Input: M{"s": s}, Observed: M{"type": pt, "seq": U(ps)}})
					}
				}
			}
		},
	})
}
