package purefn

import (
	"errors"
	"fmt"
	"time"

	storetypes "github.com/cosmos/cosmos-sdk/store/v2/types"
	"github.com/cosmos/cosmos-sdk/codec"
	codectypes "github.com/cosmos/cosmos-sdk/codec/types"
	"github.com/cosmos/cosmos-sdk/runtime"
	"github.com/cosmos/cosmos-sdk/testutil"
	sdk "github.com/cosmos/cosmos-sdk/types"

	clienttypes "github.com/cosmos/ibc-go/v11/modules/core/02-client/types"
	connectionkeeper "github.com/cosmos/ibc-go/v11/modules/core/03-connection/keeper"
	connectiontypes "github.com/cosmos/ibc-go/v11/modules/core/03-connection/types"
	ibctm "github.com/cosmos/ibc-go/v11/modules/light-clients/07-tendermint"

	. "verif/harness/lib"
)

type delayEnv struct {
	key *storetypes.KVStoreKey
	ctx sdk.Context
	k   *connectionkeeper.Keeper
}

var dEnv *delayEnv

func getDelayEnv() *delayEnv {
	if dEnv == nil {
		key := storetypes.NewKVStoreKey("ibc")
		ctx := testutil.DefaultContext(key, storetypes.NewTransientStoreKey("t"))
		cdc := codec.NewProtoCodec(codectypes.NewInterfaceRegistry())
		dEnv = &delayEnv{key: key, ctx: ctx, k: connectionkeeper.NewKeeper(cdc, runtime.NewKVStoreService(key), nil)}
	}
	return dEnv
}

func delayClass(err error) any {
	switch {
	case err == nil:
		return Ok("ok")
	case errors.Is(err, ibctm.ErrProcessedTimeNotFound):
		return Err("processed-time-not-found")
	case errors.Is(err, ibctm.ErrProcessedHeightNotFound):
		return Err("processed-height-not-found")
	case errors.Is(err, ibctm.ErrDelayPeriodNotPassed):
		return Err("delay-not-passed")
	}
	return Err("other")
}

// evalDelayPassed runs the real verifyDelayPeriodPassed on a scratch client store.
func evalDelayPassed(in M) error {
	e := getDelayEnv()
	chainID := "chain"
	if rev := N(in, "selfRev"); rev != 0 {
		chainID = fmt.Sprintf("chain-%d", rev)
	}
	ctx, _ := e.ctx.CacheContext()
	ctx = ctx.WithChainID(chainID).WithBlockHeight(int64(N(in, "selfH"))).WithBlockTime(time.Unix(0, int64(N(in, "now"))))
	store := ctx.KVStore(e.key)
	proofHeight := clienttypes.NewHeight(1, 7)
	if in["pt"] != nil {
		ibctm.SetProcessedTime(store, proofHeight, N(in, "pt"))
	}
	if in["phH"] != nil {
		ibctm.SetProcessedHeight(store, proofHeight, clienttypes.NewHeight(N(in, "phRev"), N(in, "phH")))
	}
	return ibctm.VerifDelayPeriodPassed(ctx, store, proofHeight, N(in, "dt"), N(in, "db"))
}

func evalBlockDelay(d, e uint64) uint64 {
	env := getDelayEnv()
	ctx, _ := env.ctx.CacheContext()
	env.k.SetParams(ctx, connectiontypes.NewParams(e))
	return env.k.VerifGetBlockDelay(ctx, connectiontypes.ConnectionEnd{DelayPeriod: d})
}

var delayFuncs = map[string]func(in M) any{
	"delay.blockDelay": func(in M) any { return Ok(U(evalBlockDelay(N(in, "d"), N(in, "e")))) },
	"delay.passed":     func(in M) any { return delayClass(evalDelayPassed(in)) },
}

func genDelayPassed(r *Rng) M {
	pt := r.Num64()
	if r.Chance(0.6) {
		pt = 1_700_000_000_000_000_000 + uint64(r.Intn(1000))
	}
	dt := r.Num64()
	if r.Chance(0.5) {
		dt = uint64(r.Intn(5000))
	}
	if r.Chance(0.15) {
		dt = 0
	}
	now := pt + dt
	switch r.Intn(5) {
	case 0:
		now--
	case 1:
		now++
	case 2:
		now = r.Num64()
	}
	phRev, phH := uint64(r.Intn(3)), r.Num64()
	if r.Chance(0.7) {
		phH = uint64(r.Intn(1000))
	}
	db := r.Num64()
	if r.Chance(0.6) {
		db = uint64(r.Intn(50))
	}
	if r.Chance(0.15) {
		db = 0
	}
	selfRev, selfH := phRev, phH+db
	switch r.Intn(6) {
	case 0:
		selfH--
	case 1:
		selfH++
	case 2:
		selfRev++
	case 3:
		selfH = r.Num64()
	}
	selfH &= 1<<63 - 1 // ctx.BlockHeight is int64
	in := M{"f": "delay.passed", "now": U(now), "selfRev": U(selfRev), "selfH": U(selfH), "dt": U(dt), "db": U(db), "pt": U(pt), "phRev": U(phRev), "phH": U(phH)}
	if r.Chance(0.07) {
		in["pt"] = nil
	}
	if r.Chance(0.07) {
		in["phH"] = nil
	}
	return in
}

func init() {
	Register(Group{
		Name:  "delay",
		Props: []string{"C19"},
		Funcs: delayFuncs,
		Gen: func(r *Rng, n int, emit func(M)) {
			for _, d := range Boundary64 {
				for _, e := range Boundary64 {
					emit(M{"f": "delay.blockDelay", "d": U(d), "e": U(e)})
				}
			}
			for i := 0; i < n; i++ {
				d, e := r.Num64(), r.Num64()
				if r.Chance(0.3) && e != 0 {
					d = e*uint64(r.Intn(1000)) + uint64(r.Intn(3)) - 1
				}
				emit(M{"f": "delay.blockDelay", "d": U(d), "e": U(e)})
				emit(genDelayPassed(r))
			}
		},
		Monitor: func(r *Rng, n int, report func(Violation)) {
			check := func(d, e uint64) {
				got := evalBlockDelay(d, e)
				var want uint64
				if e != 0 {
					want = d / e
					if d%e != 0 {
						want++
					}
				}
				if got != want {
					report(Violation{Property: "C19", Key: "blockdelay-inexact", What: "getBlockDelay is not ceil(delay / maxExpectedTimePerBlock)", Input: M{"f": "delay.blockDelay", "d": U(d), "e": U(e)}, Observed: M{"got": U(got), "want": U(want)}})
				}
			}
			for _, d := range Boundary64 {
				for _, e := range Boundary64 {
					check(d, e)
				}
			}
			for i := 0; i < n; i++ {
				check(r.Num64(), r.Num64())
				// acceptance before the delay has passed (computed without wrap-around)
				in := genDelayPassed(r)
				if err := evalDelayPassed(in); err == nil {
					dt, db := N(in, "dt"), N(in, "db")
					if dt != 0 && in["pt"] != nil {
						pt, now := N(in, "pt"), N(in, "now")
						if pt+dt < pt || now < pt+dt {
							report(Violation{Property: "C19", Key: "delay-time-accepted-early", What: "proof accepted before processedTime + delayTimePeriod", Input: in})
						}
					}
					if db != 0 && in["phH"] != nil {
						ph, self := clienttypes.NewHeight(N(in, "phRev"), N(in, "phH")), clienttypes.NewHeight(N(in, "selfRev"), N(in, "selfH"))
						if ph.RevisionHeight+db < ph.RevisionHeight || self.LT(clienttypes.NewHeight(ph.RevisionNumber, ph.RevisionHeight+db)) {
							report(Violation{Property: "C19", Key: "delay-block-accepted-early", What: "proof accepted before processedHeight + delayBlockPeriod", Input: in})
						}
					}
					if (dt != 0 && in["pt"] == nil) || (db != 0 && in["phH"] == nil) {
						report(Violation{Property: "C19", Key: "delay-missing-metadata", What: "proof accepted although processed time/height is missing", Input: in})
					}
				}
			}
		},
	})
}
