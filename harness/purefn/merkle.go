package purefn

import (
	"bytes"
	"errors"
	"fmt"

	dbm "github.com/cosmos/cosmos-db"
	ics23 "github.com/cosmos/ics23/go"

	"cosmossdk.io/log/v2"

	"github.com/cosmos/cosmos-sdk/store/v2/rootmulti"
	storetypes "github.com/cosmos/cosmos-sdk/store/v2/types"

	channeltypesv2 "github.com/cosmos/ibc-go/v11/modules/core/04-channel/v2/types"
	commitmenttypes "github.com/cosmos/ibc-go/v11/modules/core/23-commitment/types"
	commitmenttypesv2 "github.com/cosmos/ibc-go/v11/modules/core/23-commitment/types/v2"

	. "verif/harness/lib"
)

// a real two-level store (multistore -> IAVL store "ibc") with random content
type mstore struct {
	store *rootmulti.Store
	key   *storetypes.KVStoreKey
	kv    map[string][]byte
	root  []byte
}

func newMstore(r *Rng) *mstore {
	db := dbm.NewMemDB()
	st := rootmulti.NewStore(db, log.NewNopLogger())
	key := storetypes.NewKVStoreKey("ibc")
	st.MountStoreWithDB(key, storetypes.StoreTypeIAVL, nil)
	other := storetypes.NewKVStoreKey("bank")
	st.MountStoreWithDB(other, storetypes.StoreTypeIAVL, nil)
	if err := st.LoadVersion(0); err != nil {
		panic(err)
	}
	m := &mstore{store: st, key: key, kv: map[string][]byte{}}
	kvs := st.GetKVStore(key)
	n := 1 + r.Intn(40)
	for i := 0; i < n; i++ {
		k := fmt.Sprintf("commitments/ports/transfer/channels/channel-%d/sequences/%d", r.Intn(3), r.Intn(60))
		if r.Chance(0.3) {
			k = string(r.Bytes(1 + r.Intn(12)))
		}
		v := r.Bytes(1 + r.Intn(40))
		kvs.Set([]byte(k), v)
		m.kv[k] = v
	}
	st.GetKVStore(other).Set([]byte("x"), []byte("y"))
	cid := st.Commit()
	m.root = cid.Hash
	return m
}

func (m *mstore) proof(key []byte) *commitmenttypes.MerkleProof {
	res, err := m.store.Query(&storetypes.RequestQuery{Path: "/ibc/key", Data: key, Prove: true})
	if err != nil || res.ProofOps == nil {
		panic(fmt.Sprint("harness: query failed: ", err))
	}
	p, err := commitmenttypes.ConvertProofs(res.ProofOps)
	if err != nil {
		panic(err)
	}
	return &p
}

// case under test: concrete arguments of VerifyMembership / VerifyNonMembership
type mcase struct {
	proof  commitmenttypes.MerkleProof
	specs  []*ics23.ProofSpec
	root   commitmenttypes.MerkleRoot
	path   commitmenttypesv2.MerklePath
	value  []byte
	member bool
}

func cloneProof(p *commitmenttypes.MerkleProof) commitmenttypes.MerkleProof {
	bz, _ := p.Marshal()
	var q commitmenttypes.MerkleProof
	if err := q.Unmarshal(bz); err != nil {
		panic(err)
	}
	return q
}

func mresClass(err error) any {
	switch {
	case err == nil:
		return Ok("ok")
	case errors.Is(err, commitmenttypes.ErrInvalidMerkleProof):
		return Err("invalid-merkle-proof")
	case errors.Is(err, commitmenttypes.ErrInvalidProof):
		return Err("invalid-proof")
	}
	return Err("other")
}

func (c *mcase) run() any {
	out := c.runRaw()
	if m, ok := out.(M); ok && m["panic"] != nil {
		return M{"panic": "index"} // the only panic: p.Proofs[0] on an empty proof list
	}
	return out
}

func (c *mcase) runRaw() any {
	return Safe(func() any {
		if c.member {
			return mresClass(c.proof.VerifyMembership(c.specs, c.root, c.path, c.value))
		}
		return mresClass(c.proof.VerifyNonMembership(c.specs, c.root, c.path))
	})
}

// request describes the case to the model: per level what ics23 itself says (ground truth computed
// here by calling the library directly with the arguments the specification prescribes).
func (c *mcase) request() M {
	n := len(c.path.KeyPath)
	levels := []M{}
	var prev []byte = c.value
	vn := false
	for i, p := range c.proof.Proofs {
		l := M{"croot": nil, "kind": "other", "specNil": i < len(c.specs) && c.specs[i] == nil, "ve": false}
		var calc []byte
		if p != nil {
			if r, err := p.Calculate(); err == nil {
				calc = r
				l["croot"] = Hex(r)
			}
			if p.GetExist() != nil {
				l["kind"] = "exist"
			} else if p.GetNonexist() != nil {
				l["kind"] = "nonexist"
			}
		}
		ki := n - 1 - i
		if calc != nil && ki >= 0 && ki < n && i < len(c.specs) && c.specs[i] != nil {
			key := c.path.KeyPath[ki]
			if ep := p.GetExist(); ep != nil {
				l["ve"] = ep.Verify(c.specs[i], calc, key, prev) == nil
			}
			if np := p.GetNonexist(); np != nil && i == 0 {
				vn = np.Verify(c.specs[0], calc, key) == nil
			}
		}
		levels = append(levels, l)
		prev = calc
	}
	keyOk := make([]bool, n)
	for i := range keyOk {
		keyOk[i] = true
	}
	f := "merkle.nonmember"
	if c.member {
		f = "merkle.member"
	}
	return M{"f": f, "proofsNil": c.proof.Proofs == nil, "levels": levels, "nSpecs": len(c.specs), "pathLen": n, "keyOk": keyOk,
		"root": Hex(c.root.Hash), "value": Hex(c.value), "vn": vn}
}

// the cases are kept so that Funcs can evaluate a generated request on the real objects
var mcases = map[string]*mcase{}

func flip(b []byte, r *Rng) []byte {
	out := append([]byte{}, b...)
	if len(out) == 0 {
		return []byte{1}
	}
	out[r.Intn(len(out))] ^= byte(1 << uint(r.Intn(8)))
	return out
}

// genMcase builds a valid case from a real store and applies at most one mutation
func genMcase(r *Rng, m *mstore) (*mcase, string) {
	var keys []string
	for k := range m.kv {
		keys = append(keys, k)
	}
	keys = SortedKeys(m.kv)
	c := &mcase{specs: commitmenttypes.GetSDKSpecs(), root: commitmenttypes.NewMerkleRoot(m.root), member: r.Chance(0.6)}
	var key []byte
	if c.member {
		key = []byte(Pick(r, keys))
		c.value = m.kv[string(key)]
	} else {
		for {
			key = []byte(fmt.Sprintf("commitments/ports/transfer/channels/channel-%d/sequences/%d", r.Intn(4), 60+r.Intn(60)))
			if r.Chance(0.3) {
				key = r.Bytes(1 + r.Intn(12))
			}
			if _, ok := m.kv[string(key)]; !ok {
				break
			}
		}
	}
	c.proof = cloneProof(m.proof(key))
	c.path = commitmenttypes.NewMerklePath([]byte("ibc"), key)
	mut := "none"
	if r.Chance(0.65) {
		switch r.Intn(18) {
		case 0:
			mut = "root-flip"
			c.root = commitmenttypes.NewMerkleRoot(flip(m.root, r))
		case 1:
			mut = "root-empty"
			c.root = commitmenttypes.NewMerkleRoot(nil)
		case 2:
			mut = "key-flip"
			c.path.KeyPath[1] = flip(key, r)
		case 3:
			mut = "key-other"
			c.path.KeyPath[1] = []byte(Pick(r, keys))
		case 4:
			mut = "store-key"
			c.path.KeyPath[0] = []byte(Pick(r, []string{"bank", "ib", "ibcx", ""}))
		case 5:
			mut = "value-flip"
			c.value = flip(c.value, r)
		case 6:
			mut = "value-empty"
			c.value = nil
		case 7:
			mut = "value-other"
			c.value = m.kv[Pick(r, keys)]
		case 8:
			mut = "drop-level"
			c.proof.Proofs = c.proof.Proofs[:1]
		case 9:
			mut = "dup-level"
			c.proof.Proofs = append(c.proof.Proofs, c.proof.Proofs[len(c.proof.Proofs)-1])
		case 10:
			mut = "swap-levels"
			c.proof.Proofs[0], c.proof.Proofs[1] = c.proof.Proofs[1], c.proof.Proofs[0]
		case 11:
			mut = "nil-spec"
			c.specs = []*ics23.ProofSpec{c.specs[0], nil}
			if r.Bool() {
				c.specs = []*ics23.ProofSpec{nil, commitmenttypes.GetSDKSpecs()[1]}
			}
		case 12:
			mut = "swap-specs"
			c.specs = []*ics23.ProofSpec{c.specs[1], c.specs[0]}
		case 13:
			mut = "path-len"
			if r.Bool() {
				c.path = commitmenttypes.NewMerklePath(key)
			} else {
				c.path = commitmenttypes.NewMerklePath([]byte("ibc"), key, []byte("x"))
			}
		case 14:
			mut = "proof-bytes"
			// corrupt a byte inside the lowest proof (leaf prefix / inner op / value)
			p0 := c.proof.Proofs[0]
			if ep := p0.GetExist(); ep != nil {
				switch r.Intn(3) {
				case 0:
					ep.Value = flip(ep.Value, r)
				case 1:
					ep.Key = flip(ep.Key, r)
				default:
					if len(ep.Path) > 0 {
						io := ep.Path[r.Intn(len(ep.Path))]
						io.Prefix = flip(io.Prefix, r)
					} else {
						ep.Leaf.Prefix = flip(ep.Leaf.Prefix, r)
					}
				}
			} else if np := p0.GetNonexist(); np != nil {
				np.Key = flip(np.Key, r)
			}
		case 16, 17:
			// a self-consistent forgery: an inner step of the lowest proof is altered so that it violates the
			// proof spec (prefix far longer than the IAVL spec allows), and everything above it - the store
			// proof's value and the root - is recomputed from the altered proof. Every hash chains; only the
			// per-step spec check of ICS-23 can reject it.
			if c.member && len(c.proof.Proofs) == 2 {
				ep0, ep1 := c.proof.Proofs[0].GetExist(), c.proof.Proofs[1].GetExist()
				if ep0 != nil && ep1 != nil && len(ep0.Path) > 0 {
					io := ep0.Path[r.Intn(len(ep0.Path))]
					io.Prefix = append(append([]byte{}, io.Prefix...), r.Bytes(40+r.Intn(20))...)
					if sub, err := c.proof.Proofs[0].Calculate(); err == nil {
						ep1.Value = sub
						if top, err := c.proof.Proofs[1].Calculate(); err == nil {
							c.root = commitmenttypes.NewMerkleRoot(top)
							mut = "inner-spec-consistent"
						}
					}
				}
			}
		case 15:
			mut = "wrong-kind"
			// membership proof used for non-membership of an existing key and vice versa
			other := []byte(Pick(r, keys))
			if c.member {
				c.proof = cloneProof(m.proof(append([]byte{}, append(key, 'z')...)))
			} else {
				c.proof = cloneProof(m.proof(other))
				c.path.KeyPath[1] = other
			}
		}
	}
	if r.Chance(0.02) {
		mut = "nil-proofs"
		c.proof.Proofs = nil
	}
	if r.Chance(0.01) {
		mut = "no-levels"
		c.proof.Proofs = []*ics23.CommitmentProof{}
		c.specs = []*ics23.ProofSpec{}
		c.path = commitmenttypes.NewMerklePath()
		if c.member && r.Bool() {
			c.value = m.root // the degenerate "value is the root" case
		}
	}
	return c, mut
}

func buildPathEval(in M) any {
	var prefix [][]byte
	var before [][]byte
	for _, it := range List(in, "prefix") {
		d := B(it, "data")
		capn := int(N(it, "cap"))
		if capn < len(d) {
			capn = len(d)
		}
		buf := make([]byte, len(d), capn)
		copy(buf, d)
		prefix = append(prefix, buf)
		before = append(before, append([]byte{}, d...))
	}
	mp := channeltypesv2.BuildMerklePath(prefix, B(in, "path"))
	pre, out := []string{}, []string{}
	for _, p := range prefix {
		pre = append(pre, Hex(p))
	}
	for _, p := range mp.KeyPath {
		out = append(out, Hex(p))
	}
	_ = before
	return M{"prefix": pre, "out": out}
}

var merkleFuncs = map[string]func(in M) any{
	"merkle.member": func(in M) any {
		c := mcases[S(in, "id")]
		if c == nil {
			return M{"bad": "case not in this process (merkle cases cannot be replayed from the request alone)"}
		}
		return c.run()
	},
	"merkle.nonmember": func(in M) any {
		c := mcases[S(in, "id")]
		if c == nil {
			return M{"bad": "case not in this process"}
		}
		return c.run()
	},
	"merkle.buildpath": func(in M) any {
		out := Safe(func() any { return buildPathEval(in) })
		if m, ok := out.(M); ok && m["panic"] != nil {
			return M{"panic": "empty-prefix"}
		}
		return out
	},
}

func genBuildPath(r *Rng) M {
	n := r.Intn(4)
	pre := []M{}
	for i := 0; i < n; i++ {
		d := r.Bytes(r.Intn(6))
		if r.Chance(0.5) {
			d = []byte(Pick(r, []string{"ibc", "", "a", "clients/07-tendermint-0/"}))
		}
		capn := len(d)
		if r.Chance(0.6) {
			capn += r.Intn(12)
		}
		pre = append(pre, M{"data": Hex(d), "cap": capn})
	}
	return M{"f": "merkle.buildpath", "prefix": pre, "path": Hex(r.Bytes(r.Intn(10)))}
}

func init() {
	Register(Group{
		Name:  "merkle",
		Props: []string{"C18"},
		Funcs: merkleFuncs,
		Gen: func(r *Rng, n int, emit func(M)) {
			var m *mstore
			for i := 0; i < n; i++ {
				if i%25 == 0 {
					m = newMstore(r)
				}
				c, mut := genMcase(r, m)
				req := c.request()
				id := fmt.Sprintf("%d-%d", r.U64(), i)
				req["id"], req["mut"] = id, mut
				mcases[id] = c
				emit(req)
				delete(mcases, id)
				emit(genBuildPath(r))
			}
		},
		Monitor: func(r *Rng, n int, report func(Violation)) {
			var m *mstore
			for i := 0; i < n; i++ {
				if i%25 == 0 {
					m = newMstore(r)
				}
				c, mut := genMcase(r, m)
				res := c.run()
				if rm, ok := res.(M); ok && rm["ok"] != nil && len(c.path.KeyPath) == 2 {
					// ground truth from the store the proof was taken from
					storeKey, key := c.path.KeyPath[0], c.path.KeyPath[1]
					v, present := m.kv[string(key)]
					good := bytes.Equal(c.root.Hash, m.root) && string(storeKey) == "ibc"
					if c.member {
						good = good && present && bytes.Equal(v, c.value) && len(c.value) > 0
					} else {
						good = good && !present
					}
					if !good {
						report(Violation{Property: "C18", What: "proof verified although the store under that root does not hold / lack that key-value", Input: M{"mutation": mut, "member": c.member, "key": Hex(key), "value": Hex(c.value), "root": Hex(c.root.Hash)}})
					}
				}
				// BuildMerklePath never changes the caller's prefix
				bp := genBuildPath(r)
				var before []string
				for _, it := range List(bp, "prefix") {
					before = append(before, S(it, "data"))
				}
				out := Safe(func() any { return buildPathEval(bp) })
				if om, ok := out.(M); ok && om["prefix"] != nil {
					after := om["prefix"].([]string)
					for k := range after {
						if after[k] != before[k] {
							report(Violation{Property: "C18", What: "BuildMerklePath changed the caller's prefix", Input: bp, Observed: om})
						}
					}
				}
			}
		},
	})
}
