package purefn

import (
	"errors"
	"math/big"
	"sort"

	sdkmath "cosmossdk.io/math"

	storetypes "github.com/cosmos/cosmos-sdk/store/v2/types"
	"github.com/cosmos/cosmos-sdk/testutil"
	sdk "github.com/cosmos/cosmos-sdk/types"

	transfertypes "github.com/cosmos/ibc-go/v11/modules/apps/transfer/types"
	clienttypes "github.com/cosmos/ibc-go/v11/modules/core/02-client/types"
	ibcerrors "github.com/cosmos/ibc-go/v11/modules/core/errors"

	. "verif/harness/lib"
)

var authzCtx *sdk.Context

func getAuthzCtx() sdk.Context {
	if authzCtx == nil {
		ctx := testutil.DefaultContext(storetypes.NewKVStoreKey("a"), storetypes.NewTransientStoreKey("ta"))
		authzCtx = &ctx
	}
	return authzCtx.WithGasMeter(storetypes.NewInfiniteGasMeter())
}

func bigOf(s string) sdkmath.Int {
	b, ok := new(big.Int).SetString(s, 10)
	if !ok {
		panic("harness: bad int " + s)
	}
	return sdkmath.NewIntFromBigInt(b)
}

func coinsOf(v any) sdk.Coins {
	var cs sdk.Coins
	for _, c := range List(M{"x": v}, "x") {
		cs = append(cs, sdk.Coin{Denom: S(c, "d"), Amount: bigOf(S(c, "n"))})
	}
	sort.Slice(cs, func(i, j int) bool { return cs[i].Denom < cs[j].Denom })
	return cs
}

func allocsOf(in M) []transfertypes.Allocation {
	var out []transfertypes.Allocation
	for _, a := range List(in, "allocs") {
		out = append(out, transfertypes.Allocation{SourcePort: S(a, "port"), SourceChannel: S(a, "chan"), SpendLimit: coinsOf(a["limit"]),
			AllowList: Strs(a, "allow"), AllowedPacketData: Strs(a, "memos")})
	}
	return out
}

func allocsM(as []transfertypes.Allocation) []M {
	out := []M{}
	for _, a := range as {
		lim := []M{}
		for _, c := range a.SpendLimit {
			lim = append(lim, M{"d": c.Denom, "n": c.Amount.String()})
		}
		al, me := a.AllowList, a.AllowedPacketData
		if al == nil {
			al = []string{}
		}
		if me == nil {
			me = []string{}
		}
		out = append(out, M{"port": a.SourcePort, "chan": a.SourceChannel, "limit": lim, "allow": al, "memos": me})
	}
	return out
}

func msgOf(m M) *transfertypes.MsgTransfer {
	return &transfertypes.MsgTransfer{SourcePort: S(m, "port"), SourceChannel: S(m, "chan"), Token: sdk.Coin{Denom: S(m, "denom"), Amount: bigOf(S(m, "amount"))},
		Sender: "sender", Receiver: S(m, "receiver"), Memo: S(m, "memo"), TimeoutHeight: clienttypes.NewHeight(1, 100)}
}

// acceptOnce runs the real Accept; returns the canonical response and the grant to use next.
func acceptOnce(allocs []transfertypes.Allocation, m M) (any, []transfertypes.Allocation) {
	a := transfertypes.NewTransferAuthorization(append([]transfertypes.Allocation{}, allocs...)...)
	resp, err := a.Accept(getAuthzCtx(), msgOf(m))
	if err != nil {
		switch {
		case errors.Is(err, ibcerrors.ErrNotFound):
			return Err("not-found"), allocs
		case errors.Is(err, ibcerrors.ErrInvalidAddress):
			return Err("invalid-address"), allocs
		case errors.Is(err, transfertypes.ErrInvalidAuthorization):
			return Err("invalid-authorization"), allocs
		case errors.Is(err, ibcerrors.ErrInsufficientFunds):
			return Err("insufficient-funds"), allocs
		}
		return Err("other"), allocs
	}
	if resp.Delete {
		return M{"accept": resp.Accept, "delete": true}, nil
	}
	if resp.Updated == nil {
		return M{"accept": resp.Accept, "delete": false, "updated": nil}, allocs
	}
	upd := resp.Updated.(*transfertypes.TransferAuthorization).Allocations
	return M{"accept": resp.Accept, "delete": false, "updated": allocsM(upd)}, upd
}

var authzFuncs = map[string]func(in M) any{
	"authz.accept": func(in M) any { r, _ := acceptOnce(allocsOf(in), in["msg"].(M)); return r },
	"authz.run": func(in M) any {
		g := allocsOf(in)
		out := []any{}
		for _, m := range List(in, "msgs") {
			var r any
			r, g = acceptOnce(g, m)
			out = append(out, r)
		}
		return Ok(out)
	},
}

const maxU256 = "115792089237316195423570985008687907853269984665640564039457584007913129639935"

var azDenoms = []string{"uatom", "stake", "ibc/ABC"}
var azRecv = []string{"alice", "bob", "carol"}
var azMemos = []string{"", " ", "m1", " m1 ", "m2", "{\"forward\":1}"}

func genGrant(r *Rng) []M {
	n := 1 + r.Intn(3)
	var out []M
	for i := 0; i < n; i++ {
		lim := []M{}
		for _, d := range azDenoms {
			if r.Chance(0.6) {
				amt := U(uint64(1 + r.Intn(40)))
				if r.Chance(0.25) {
					amt = maxU256
				}
				lim = append(lim, M{"d": d, "n": amt})
			}
		}
		if len(lim) == 0 {
			lim = append(lim, M{"d": "uatom", "n": "10"})
		}
		allow := []string{}
		if r.Chance(0.4) {
			for _, a := range azRecv {
				if r.Chance(0.6) {
					allow = append(allow, a)
				}
			}
		}
		memos := []string{}
		switch r.Intn(8) {
		case 0, 1, 2:
			memos = []string{"*"}
		case 3, 4:
			memos = []string{Pick(r, azMemos[2:]), Pick(r, azMemos[2:])}
		case 5:
			memos = []string{"*", "m1"}
		}
		out = append(out, M{"port": "transfer", "chan": "channel-" + U(uint64(i)), "limit": lim, "allow": allow, "memos": memos})
	}
	return out
}

func genAzMsg(r *Rng, grant []M) M {
	ch := "channel-" + U(uint64(r.Intn(len(grant))))
	if r.Chance(0.08) {
		ch = "channel-" + U(uint64(len(grant)))
	}
	amt := U(uint64(1 + r.Intn(15)))
	if r.Chance(0.05) {
		amt = maxU256
	}
	port := "transfer"
	if r.Chance(0.05) {
		port = "other"
	}
	memo := ""
	if r.Chance(0.3) {
		memo = Pick(r, azMemos)
	}
	return M{"port": port, "chan": ch, "denom": Pick(r, azDenoms), "amount": amt, "receiver": Pick(r, azRecv), "memo": memo}
}

func init() {
	Register(Group{
		Name:  "authz",
		Props: []string{"C36"},
		Funcs: authzFuncs,
		Gen: func(r *Rng, n int, emit func(M)) {
			for i := 0; i < n; i++ {
				g := genGrant(r)
				emit(M{"f": "authz.accept", "allocs": g, "msg": genAzMsg(r, g)})
				k := 3 + r.Intn(25)
				msgs := make([]M, k)
				for j := range msgs {
					msgs[j] = genAzMsg(r, g)
				}
				emit(M{"f": "authz.run", "allocs": g, "msgs": msgs})
			}
		},
		Monitor: func(r *Rng, n int, report func(Violation)) {
			max, _ := new(big.Int).SetString(maxU256, 10)
			for i := 0; i < n; i++ {
				gm := genGrant(r)
				in := M{"allocs": gm}
				g := allocsOf(in)
				type key struct{ p, c, d string }
				initial := map[key]*big.Int{}
				allow := map[string][]string{}
				memos := map[string][]string{}
				for _, a := range g {
					for _, c := range a.SpendLimit {
						initial[key{a.SourcePort, a.SourceChannel, c.Denom}] = c.Amount.BigInt()
					}
					allow[a.SourceChannel] = a.AllowList
					memos[a.SourceChannel] = a.AllowedPacketData
				}
				spent := map[key]*big.Int{}
				var hist []M
				for j := 0; j < 30; j++ {
					m := genAzMsg(r, gm)
					hist = append(hist, m)
					var resp any
					resp, g = acceptOnce(g, m)
					rm, _ := resp.(M)
					if acc, _ := rm["accept"].(bool); !acc {
						continue
					}
					k := key{S(m, "port"), S(m, "chan"), S(m, "denom")}
					lim, ok := initial[k]
					amt := bigOf(S(m, "amount")).BigInt()
					if !ok {
						report(Violation{Property: "C36", What: "transfer accepted on a port/channel/denom without allocation", Input: M{"allocs": gm, "msgs": hist}})
						continue
					}
					if lim.Cmp(max) != 0 {
						if spent[k] == nil {
							spent[k] = new(big.Int)
						}
						spent[k].Add(spent[k], amt)
						if spent[k].Cmp(lim) > 0 {
							report(Violation{Property: "C36", What: "grantee moved more than the granted spend limit", Input: M{"allocs": gm, "msgs": hist}})
						}
						if amt.Cmp(max) == 0 {
							report(Violation{Property: "C36", What: "'entire balance' sentinel accepted against a bounded limit", Input: M{"allocs": gm, "msgs": hist}})
						}
					}
					if al := allow[S(m, "chan")]; len(al) > 0 {
						found := false
						for _, a := range al {
							if a == S(m, "receiver") {
								found = true
							}
						}
						if !found {
							report(Violation{Property: "C36", What: "transfer accepted to a receiver outside the allow list", Input: M{"allocs": gm, "msgs": hist}})
						}
					}
					if me := memos[S(m, "chan")]; len(me) == 0 && len(trimSpace(S(m, "memo"))) != 0 {
						report(Violation{Property: "C36", What: "non-empty memo accepted although no memo is allowed", Input: M{"allocs": gm, "msgs": hist}})
					}
				}
			}
		},
	})
}

func trimSpace(s string) string {
	for len(s) > 0 && (s[0] == ' ' || s[0] == '\t' || s[0] == '\n') {
		s = s[1:]
	}
	for len(s) > 0 && (s[len(s)-1] == ' ' || s[len(s)-1] == '\t' || s[len(s)-1] == '\n') {
		s = s[:len(s)-1]
	}
	return s
}
