package purefn

import (
	"fmt"

	portkeeper "github.com/cosmos/ibc-go/v11/modules/core/05-port/keeper"
	porttypes "github.com/cosmos/ibc-go/v11/modules/core/05-port/types"
	"github.com/cosmos/ibc-go/v11/modules/core/api"

	. "verif/harness/lib"
)

// named modules: only identity matters for routing
type modV1 struct {
	porttypes.IBCModule
	name string
}
type modV2 struct {
	api.IBCModule
	name string
}

func routeV1Names(routes, ports []string) []any {
	rtr := porttypes.NewRouter()
	for _, r := range routes {
		rtr.AddRoute(r, modV1{name: r})
	}
	k := portkeeper.NewKeeper()
	k.Router = rtr
	out := make([]any, len(ports))
	for i, p := range ports {
		if m, ok := k.Route(p); ok {
			out[i] = m.(modV1).name
		}
	}
	return out
}

// buildV2 applies the registrations; a panic in AddRoute/AddPrefixRoute propagates to the caller
func buildV2(ops []M) *api.Router {
	rtr := api.NewRouter()
	for _, o := range ops {
		n := S(o, "n")
		if S(o, "k") == "route" {
			rtr.AddRoute(n, modV2{name: n})
		} else {
			rtr.AddPrefixRoute(n, modV2{name: n})
		}
	}
	return rtr
}

func lookupV2(rtr *api.Router, ports []string) []any {
	out := make([]any, len(ports))
	for i, p := range ports {
		if rtr.HasRoute(p) {
			out[i] = rtr.Route(p).(modV2).name
		}
	}
	return out
}

var routerFuncs = map[string]func(in M) any{
	"router.v1": func(in M) any { return Ok(routeV1Names(Strs(in, "routes"), Strs(in, "ports"))) },
	"router.v2": func(in M) any {
		var rtr *api.Router
		if p := Safe(func() any { rtr = buildV2(List(in, "ops")); return nil }); p != nil {
			return M{"panic": "register"}
		}
		return Ok(lookupV2(rtr, Strs(in, "ports")))
	},
}

var routeWords = []string{"transfer", "icahost", "icacontroller", "mock", "mockblock", "ica", "a", "ab", "abc", "b", "wasm", "gmp", "port", "tr", "host"}

func genName(r *Rng) string {
	switch r.Intn(6) {
	case 0:
		return Pick(r, routeWords) + Pick(r, routeWords)
	case 1:
		return r.Str("ab", 1+r.Intn(4))
	case 2:
		w := Pick(r, routeWords)
		return w[:1+r.Intn(len(w))]
	default:
		return Pick(r, routeWords)
	}
}

func genPorts(r *Rng, names []string) []string {
	ports := []string{}
	for i := 0; i < 6; i++ {
		switch r.Intn(4) {
		case 0:
			ports = append(ports, genName(r))
		case 1:
			if len(names) > 0 {
				ports = append(ports, Pick(r, names)+"-"+r.Str("abcxyz0123", 1+r.Intn(5)))
			}
		case 2:
			if len(names) > 0 {
				ports = append(ports, r.Str("xyz", r.Intn(3))+Pick(r, names)+r.Str("xyz", r.Intn(3)))
			}
		default:
			if len(names) > 0 {
				ports = append(ports, Pick(r, names))
			}
		}
	}
	return ports
}

func shuffle[T any](r *Rng, xs []T) []T {
	out := append([]T{}, xs...)
	for i := len(out) - 1; i > 0; i-- {
		j := r.Intn(i + 1)
		out[i], out[j] = out[j], out[i]
	}
	return out
}

func genV1Routes(r *Rng) []string {
	seen := map[string]bool{}
	var routes []string
	for i := 0; i < 1+r.Intn(6); i++ {
		n := genName(r)
		if !seen[n] {
			seen[n] = true
			routes = append(routes, n)
		}
	}
	return routes
}

func genV2Ops(r *Rng) []M {
	ops := []M{}
	for i := 0; i < 1+r.Intn(6); i++ {
		k := "route"
		if r.Chance(0.4) {
			k = "pre"
		}
		n := genName(r)
		if r.Chance(0.03) {
			n = Pick(r, []string{"", "a-b", "a b", "a/b"})
		}
		ops = append(ops, M{"k": k, "n": n})
	}
	return ops
}

func init() {
	Register(Group{
		Name:  "router",
		Props: []string{"C48"},
		Funcs: routerFuncs,
		Gen: func(r *Rng, n int, emit func(M)) {
			for i := 0; i < n; i++ {
				routes := genV1Routes(r)
				emit(M{"f": "router.v1", "routes": routes, "ports": genPorts(r, routes)})
				ops := genV2Ops(r)
				var names []string
				for _, o := range ops {
					names = append(names, S(o, "n"))
				}
				emit(M{"f": "router.v2", "ops": ops, "ports": genPorts(r, names)})
			}
		},
		Monitor: func(r *Rng, n int, report func(Violation)) {
			for i := 0; i < n; i++ {
				// v1: same route set registered in two orders, looked up repeatedly (fresh map each time)
				routes := genV1Routes(r)
				ports := genPorts(r, routes)
				a := fmt.Sprint(routeV1Names(routes, ports))
				for k := 0; k < 3; k++ {
					if b := fmt.Sprint(routeV1Names(shuffle(r, routes), ports)); a != b {
						report(Violation{Property: "C48", What: "v1 port routing depends on registration order / map iteration", Input: M{"routes": routes, "ports": ports}, Observed: M{"a": a, "b": b}})
					}
				}
				// v2: any registration order that does not panic gives the same lookups; repeated lookups agree
				ops := genV2Ops(r)
				var names []string
				for _, o := range ops {
					names = append(names, S(o, "n"))
				}
				ports2 := genPorts(r, names)
				var results []string
				for k := 0; k < 4; k++ {
					var rtr *api.Router
					o := ops
					if k > 0 {
						o = shuffle(r, ops)
					}
					if p := Safe(func() any { rtr = buildV2(o); return nil }); p != nil {
						continue
					}
					res := fmt.Sprint(lookupV2(rtr, ports2))
					for rep := 0; rep < 3; rep++ {
						if again := fmt.Sprint(lookupV2(rtr, ports2)); again != res {
							report(Violation{Property: "C48", What: "v2 lookup is not stable across repeated map iteration", Input: M{"ops": o, "ports": ports2}, Observed: M{"a": res, "b": again}})
						}
					}
					results = append(results, res)
				}
				for _, x := range results {
					if x != results[0] {
						report(Violation{Property: "C48", What: "v2 port routing depends on registration order", Input: M{"ops": ops, "ports": ports2}, Observed: M{"a": results[0], "b": x}})
					}
				}
			}
		},
	})
}
