// Package purefn: stateless functions of ibc-go evaluated in-process and compared with the Lean model.
package purefn

import (
	"encoding/hex"
	"fmt"
	"strconv"

	"verif/harness/lib"
)

// Group is one family of functions.
//   Funcs   evaluates one request (the same JSON object the model receives) on the real code;
//   Gen     produces requests (structured, mostly valid, plus a malformed stream);
//   Monitor evaluates the property itself on the implementation (used to search for a
//           property-level failing input; sound: it reports only genuine property violations).
type Group struct {
	Name    string
	Props   []string
	Funcs   map[string]func(in lib.M) any
	Gen     func(r *lib.Rng, n int, emit func(lib.M))
	Monitor func(r *lib.Rng, n int, report func(lib.Violation))
}

var Groups []Group

func Register(g Group) { Groups = append(Groups, g) }

// Eval dispatches a request to the group that implements it.
func Eval(in lib.M) any {
	f, _ := in["f"].(string)
	for _, g := range Groups {
		if fn, ok := g.Funcs[f]; ok {
			return lib.Safe(func() any { return fn(in) })
		}
	}
	return lib.M{"bad": "unknown function " + f}
}

// accessors for request fields (requests are built by Gen or read back from JSON in replay mode)
func S(in lib.M, k string) string {
	s, ok := in[k].(string)
	if !ok {
		panic(fmt.Sprintf("harness: field %s missing", k))
	}
	return s
}

func N(in lib.M, k string) uint64 {
	switch v := in[k].(type) {
	case string:
		n, err := strconv.ParseUint(v, 10, 64)
		if err != nil {
			panic("harness: bad number " + v)
		}
		return n
	case float64:
		return uint64(v)
	case int:
		return uint64(v)
	case uint64:
		return v
	}
	panic(fmt.Sprintf("harness: field %s missing", k))
}

func B(in lib.M, k string) []byte {
	b, err := hex.DecodeString(S(in, k))
	if err != nil {
		panic("harness: bad hex")
	}
	return b
}

func Bool(in lib.M, k string) bool { b, _ := in[k].(bool); return b }

func Strs(in lib.M, k string) []string {
	switch v := in[k].(type) {
	case []string:
		return v
	case []any:
		out := make([]string, len(v))
		for i, x := range v {
			out[i], _ = x.(string)
		}
		return out
	}
	return nil
}

func List(in lib.M, k string) []lib.M {
	switch v := in[k].(type) {
	case []lib.M:
		return v
	case []any:
		out := make([]lib.M, len(v))
		for i, x := range v {
			out[i], _ = x.(map[string]any)
		}
		return out
	}
	return nil
}
