package purefn

import (
	"slices"

	connectiontypes "github.com/cosmos/ibc-go/v11/modules/core/03-connection/types"

	. "verif/harness/lib"
)

func versionOf(m M) *connectiontypes.Version {
	fs := Strs(m, "features")
	if fs == nil {
		fs = []string{}
	}
	return connectiontypes.NewVersion(S(m, "id"), fs)
}

func versionsOf(in M, k string) []*connectiontypes.Version {
	var out []*connectiontypes.Version
	for _, m := range List(in, k) {
		out = append(out, versionOf(m))
	}
	return out
}

func versionM(v *connectiontypes.Version) M {
	fs := v.Features
	if fs == nil {
		fs = []string{}
	}
	return M{"id": v.Identifier, "features": fs}
}

func sub(in M, k string) M {
	switch v := in[k].(type) {
	case M:
		return v
	}
	return nil
}

var versionFuncs = map[string]func(in M) any{
	"version.pick": func(in M) any {
		v, err := connectiontypes.PickVersion(versionsOf(in, "sup"), versionsOf(in, "cp"))
		if err != nil {
			return Err("negotiation-failed")
		}
		return Ok(versionM(v))
	},
	"version.isSupported": func(in M) any {
		return Ok(connectiontypes.IsSupportedVersion(versionsOf(in, "sup"), versionOf(sub(in, "proposed"))))
	},
	"version.intersection": func(in M) any {
		r := connectiontypes.GetFeatureSetIntersection(Strs(in, "src"), Strs(in, "cp"))
		if r == nil {
			r = []string{}
		}
		return Ok(r)
	},
	"version.verifyProposed": func(in M) any {
		return Ok(versionOf(sub(in, "v")).VerifyProposedVersion(versionOf(sub(in, "proposed"))) == nil)
	},
}

var verIDs = []string{"1", "2", "", " ", "1 ", "v1"}
var verFeatures = []string{"ORDER_ORDERED", "ORDER_UNORDERED", "X", "", "ORDER_DAG"}

func genFeatures(r *Rng) []string {
	n := r.Intn(4)
	if r.Chance(0.1) {
		n = 5 + r.Intn(3)
	}
	fs := make([]string, n)
	for i := range fs {
		if r.Chance(0.75) {
			fs[i] = verFeatures[r.Intn(2)]
		} else {
			fs[i] = Pick(r, verFeatures)
		}
	}
	return fs
}

// derived returns a version likely to be acceptable against v: same id, a sub-multiset of its features
func derived(r *Rng, v M) M {
	var fs []string
	for _, f := range v["features"].([]string) {
		if r.Chance(0.7) {
			fs = append(fs, f)
		}
	}
	if fs == nil {
		fs = []string{}
	}
	return M{"id": v["id"], "features": fs}
}

func genVersionM(r *Rng) M {
	id := "1"
	if r.Chance(0.25) {
		id = Pick(r, verIDs)
	}
	return M{"id": id, "features": genFeatures(r)}
}

func genVersionList(r *Rng) []M {
	n := r.Intn(4)
	if r.Chance(0.1) {
		n = 4 + r.Intn(3)
	}
	vs := make([]M, n)
	for i := range vs {
		vs[i] = genVersionM(r)
	}
	return vs
}

func init() {
	Register(Group{
		Name:  "version",
		Props: []string{"C13"},
		Funcs: versionFuncs,
		Gen: func(r *Rng, n int, emit func(M)) {
			for i := 0; i < n; i++ {
				sup, cp := genVersionList(r), genVersionList(r)
				emit(M{"f": "version.pick", "sup": sup, "cp": cp})
				prop := genVersionM(r)
				if len(sup) > 0 && r.Chance(0.6) {
					prop = derived(r, Pick(r, sup))
				}
				emit(M{"f": "version.isSupported", "sup": sup, "proposed": prop})
				emit(M{"f": "version.intersection", "src": genFeatures(r), "cp": genFeatures(r)})
				v := genVersionM(r)
				p2 := genVersionM(r)
				if r.Chance(0.6) {
					p2 = derived(r, v)
				}
				emit(M{"f": "version.verifyProposed", "v": v, "proposed": p2})
			}
		},
		Monitor: func(r *Rng, n int, report func(Violation)) {
			for i := 0; i < n; i++ {
				supM, cpM := genVersionList(r), genVersionList(r)
				in := M{"f": "version.pick", "sup": supM, "cp": cpM}
				sup, cp := versionsOf(in, "sup"), versionsOf(in, "cp")
				v, err := connectiontypes.PickVersion(sup, cp)
				if err != nil {
					continue
				}
				// identifier supported by both sides; features ⊆ both feature sets of some pair with that identifier; non-empty
				okPair := false
				for _, s := range sup {
					for _, c := range cp {
						if s.Identifier != v.Identifier || c.Identifier != v.Identifier {
							continue
						}
						all := true
						for _, f := range v.Features {
							if !slices.Contains(s.Features, f) || !slices.Contains(c.Features, f) {
								all = false
							}
						}
						// and nothing common to both is missing
						for _, f := range s.Features {
							if slices.Contains(c.Features, f) && !slices.Contains(v.Features, f) {
								all = false
							}
						}
						if all {
							okPair = true
						}
					}
				}
				if !okPair || len(v.Features) == 0 {
					report(Violation{Property: "C13", What: "negotiated version is not an identifier both sides support with the intersection of their features", Input: in, Observed: versionM(v)})
				}
			}
		},
	})
}
