package purefn

import (
	"bytes"

	channeltypesv2 "github.com/cosmos/ibc-go/v11/modules/core/04-channel/v2/types"
	host "github.com/cosmos/ibc-go/v11/modules/core/24-host"
	hostv2 "github.com/cosmos/ibc-go/v11/modules/core/24-host/v2"

	. "verif/harness/lib"
)

const idAlphabet = "abcdefghijklmnopqrstuvwxyzABCDEFGHIJKLMNOPQRSTUVWXYZ0123456789._+-#[]<>"

func v1KeyOf(kind, port, ch string, seq uint64) []byte {
	switch kind {
	case "channelEnd":
		return host.ChannelKey(port, ch)
	case "nextRecv":
		return host.NextSequenceRecvKey(port, ch)
	case "nextAck":
		return host.NextSequenceAckKey(port, ch)
	case "recvStart":
		return host.RecvStartSequenceKey(port, ch)
	case "commitment":
		return host.PacketCommitmentKey(port, ch, seq)
	case "ack":
		return host.PacketAcknowledgementKey(port, ch, seq)
	case "receipt":
		return host.PacketReceiptKey(port, ch, seq)
	}
	panic("kind")
}

func v2KeyOf(kind, id string, seq uint64) []byte {
	switch kind {
	case "commitment":
		return hostv2.PacketCommitmentKey(id, seq)
	case "receipt":
		return hostv2.PacketReceiptKey(id, seq)
	case "ack":
		return hostv2.PacketAcknowledgementKey(id, seq)
	}
	panic("kind")
}

func v2PrefixOf(kind, id string) []byte {
	switch kind {
	case "commitment":
		return hostv2.PacketCommitmentPrefixKey(id)
	case "receipt":
		return hostv2.PacketReceiptPrefixKey(id)
	case "ack":
		return hostv2.PacketAcknowledgementPrefixKey(id)
	}
	panic("kind")
}

var keyFuncs = map[string]func(in M) any{
	"keys.v1": func(in M) any { return Ok(Hex(v1KeyOf(S(in, "kind"), S(in, "port"), S(in, "chan"), N(in, "seq")))) },
	"keys.v1prefix": func(in M) any {
		switch S(in, "kind") {
		case "commitment":
			return Ok(Hex(host.PacketCommitmentPrefixKey(S(in, "port"), S(in, "chan"))))
		case "ack":
			return Ok(Hex(host.PacketAcknowledgementPrefixKey(S(in, "port"), S(in, "chan"))))
		}
		panic("kind")
	},
	"keys.v2":          func(in M) any { return Ok(Hex(v2KeyOf(S(in, "kind"), S(in, "id"), N(in, "seq")))) },
	"keys.v2prefix":    func(in M) any { return Ok(Hex(v2PrefixOf(S(in, "kind"), S(in, "id")))) },
	"keys.nextSeqSend": func(in M) any { return Ok(Hex(hostv2.NextSequenceSendKey(S(in, "id")))) },
	"keys.async":       func(in M) any { return Ok(Hex(channeltypesv2.AsyncPacketKey(S(in, "id"), N(in, "seq")))) },
	"keys.asyncprefix": func(in M) any { return Ok(Hex(channeltypesv2.AsyncPacketPrefixKey(S(in, "id")))) },
	"keys.alias":       func(in M) any { return Ok(Hex(channeltypesv2.AliasKey(S(in, "id")))) },
	"keys.client":      func(in M) any { return Ok(Hex(host.FullClientKey(S(in, "id"), []byte(S(in, "path"))))) },
	"keys.connection":  func(in M) any { return Ok(Hex(host.ConnectionKey(S(in, "id")))) },
	"keys.validId": func(in M) any {
		id := S(in, "id")
		return M{"client": host.ClientIdentifierValidator(id) == nil, "connection": host.ConnectionIdentifierValidator(id) == nil,
			"channel": host.ChannelIdentifierValidator(id) == nil, "port": host.PortIdentifierValidator(id) == nil}
	},
}

// genID draws identifiers that stress the key layout: boundary lengths, every alphabet character,
// ids that are prefixes of each other, ids containing the v2 suffix words, digit-only tails.
func genID(r *Rng) string {
	switch r.Intn(12) {
	case 0:
		return Pick(r, []string{"channel-0", "channel-1", "channel-10", "channel-100", "07-tendermint-0", "07-tendermint-01", "connection-0", "connection-10", "transfer", "icahost", "mock"})
	case 1:
		return r.Str(idAlphabet, 1+r.Intn(4))
	case 2:
		return r.Str(idAlphabet, 60+r.Intn(8))
	case 3:
		return r.Str(idAlphabet, 126+r.Intn(5))
	case 4:
		return Pick(r, []string{"ab", "abasync_packet", "abalias", "abcd", "abcdasync_packet", "abcdasync_packet-1", "channel-1alias", "sequences", "ports", "channels", "commitments", "acks"})
	case 5:
		s := r.Str(idAlphabet, 2+r.Intn(10))
		return s + "-" + U(r.Num64())
	case 6:
		return r.Str("0123456789", 1+r.Intn(12))
	default:
		return r.Str(idAlphabet, 2+r.Intn(30))
	}
}

// malformed ids for the validators only (keys are only ever built from validated ids)
func genBadID(r *Rng) string {
	switch r.Intn(6) {
	case 0:
		return ""
	case 1:
		return " "
	case 2:
		return genID(r) + "/" + genID(r)
	case 3:
		return genID(r) + Pick(r, []string{" ", "\t", "!", "@", "$", "%", "^", "&", "*", "(", ")", "=", "~", "`", "'", "\"", ":", ";", ",", "?", "|", "\\", "{", "}"})
	case 4:
		return r.Str(idAlphabet, 129+r.Intn(3))
	default:
		return genID(r)
	}
}

var v1Kinds = []string{"channelEnd", "nextRecv", "nextAck", "recvStart", "commitment", "ack", "receipt"}
var v2Kinds = []string{"commitment", "receipt", "ack"}

func init() {
	Register(Group{
		Name:  "keys",
		Props: []string{"C16"},
		Funcs: keyFuncs,
		Gen: func(r *Rng, n int, emit func(M)) {
			for i := 0; i < n; i++ {
				p, c, id := genID(r), genID(r), genID(r)
				emit(M{"f": "keys.v1", "kind": Pick(r, v1Kinds), "port": p, "chan": c, "seq": U(r.Num64())})
				emit(M{"f": "keys.v1prefix", "kind": Pick(r, []string{"commitment", "ack"}), "port": p, "chan": c})
				emit(M{"f": "keys.v2", "kind": Pick(r, v2Kinds), "id": id, "seq": U(r.Num64())})
				emit(M{"f": "keys.v2prefix", "kind": Pick(r, v2Kinds), "id": id})
				emit(M{"f": Pick(r, []string{"keys.nextSeqSend", "keys.asyncprefix", "keys.alias", "keys.connection"}), "id": id})
				emit(M{"f": "keys.async", "id": id, "seq": U(r.Num64())})
				emit(M{"f": "keys.client", "id": id, "path": Pick(r, []string{"clientState", "consensusStates/1-5", "connections", "x/y", ""})})
				emit(M{"f": "keys.validId", "id": genBadID(r)})
			}
		},
		Monitor: func(r *Rng, n int, report func(Violation)) {
			valid := func(s string) bool { return host.PortIdentifierValidator(s) == nil }
			type tup struct {
				v2         bool
				kind, p, c string
				seq        uint64
			}
			for i := 0; i < n; i++ {
				// a small pool of related identifiers; all keys of all tuples must be pairwise distinct
				pool := []string{genID(r), genID(r), genID(r)}
				pool = append(pool, pool[0]+"0", pool[0]+"1", pool[1]+pool[2])
				var ids []string
				for _, s := range pool {
					if valid(s) {
						ids = append(ids, s)
					}
				}
				if len(ids) < 2 {
					continue
				}
				seqs := []uint64{r.Num64(), r.Num64(), 1, 10, 0x2f, 0x2f00, 1 << 56, 2 << 56, 3 << 56}
				seen := map[string]tup{}
				var tups []tup
				for j := 0; j < 40; j++ {
					t := tup{v2: r.Bool(), seq: Pick(r, seqs)}
					if t.v2 {
						t.kind, t.p = Pick(r, v2Kinds), Pick(r, ids)
					} else {
						t.kind, t.p, t.c = Pick(r, v1Kinds), Pick(r, ids), Pick(r, ids)
						if t.kind == "channelEnd" || t.kind == "nextRecv" || t.kind == "nextAck" || t.kind == "recvStart" {
							t.seq = 0
						}
					}
					tups = append(tups, t)
				}
				keyOf := func(t tup) []byte {
					if t.v2 {
						return v2KeyOf(t.kind, t.p, t.seq)
					}
					return v1KeyOf(t.kind, t.p, t.c, t.seq)
				}
				for _, t := range tups {
					k := string(keyOf(t))
					if o, ok := seen[k]; ok && o != t {
						report(Violation{Property: "C16", What: "two distinct protocol objects share a store key", Input: M{"a": M{"v2": o.v2, "kind": o.kind, "p": o.p, "c": o.c, "seq": U(o.seq)}, "b": M{"v2": t.v2, "kind": t.kind, "p": t.p, "c": t.c, "seq": U(t.seq)}}, Observed: Hex([]byte(k))})
					}
					seen[k] = t
				}
				// prefix confinement for the three public v2 kinds and the v1 per-channel prefixes
				for _, t := range tups {
					k := keyOf(t)
					for _, id := range ids {
						for _, kind := range v2Kinds {
							if t.v2 && bytes.HasPrefix(k, v2PrefixOf(kind, id)) && (id != t.p || kind != t.kind) {
								report(Violation{Property: "C16", What: "v2 prefix iteration for one (kind, id) returns another's key", Input: M{"prefixKind": kind, "prefixId": id, "keyKind": t.kind, "keyId": t.p, "seq": U(t.seq)}})
							}
						}
						for _, id2 := range ids {
							if !t.v2 && t.kind == "commitment" && bytes.HasPrefix(k, host.PacketCommitmentPrefixKey(id, id2)) && (id != t.p || id2 != t.c) {
								report(Violation{Property: "C16", What: "v1 commitment prefix iteration for one channel returns another's key", Input: M{"port": id, "chan": id2, "keyPort": t.p, "keyChan": t.c}})
							}
						}
						// client namespaces
						if id != t.p && bytes.HasPrefix(host.FullClientKey(t.p, []byte("clientState")), append(host.FullClientKey(id, nil))) {
							report(Violation{Property: "C16", What: "client store prefix of one client contains another client's key", Input: M{"a": id, "b": t.p}})
						}
					}
				}
			}
		},
	})
}
