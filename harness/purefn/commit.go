package purefn

import (
	"bytes"
	"crypto/sha256"

	clienttypes "github.com/cosmos/ibc-go/v11/modules/core/02-client/types"
	channeltypes "github.com/cosmos/ibc-go/v11/modules/core/04-channel/types"
	channeltypesv2 "github.com/cosmos/ibc-go/v11/modules/core/04-channel/v2/types"

	. "verif/harness/lib"
)

func v1Packet(in M) channeltypes.Packet {
	// the uncommitted fields (sequence, ports, channels) are filled with fixed values: C07 says the
	// commitment is a function of timeout and data only, which the monitor checks by varying them.
	return channeltypes.NewPacket(B(in, "data"), 1, "p", "c", "dp", "dc", clienttypes.NewHeight(N(in, "rev"), N(in, "h")), N(in, "ts"))
}

func v2Packet(in M) channeltypesv2.Packet {
	var ps []channeltypesv2.Payload
	for _, p := range List(in, "payloads") {
		ps = append(ps, channeltypesv2.Payload{SourcePort: string(B(p, "sp")), DestinationPort: string(B(p, "dp")), Version: string(B(p, "ver")), Encoding: string(B(p, "enc")), Value: B(p, "val")})
	}
	return channeltypesv2.Packet{Sequence: 1, SourceClient: "src", DestinationClient: string(B(in, "dest")), TimeoutTimestamp: N(in, "ts"), Payloads: ps}
}

var commitFuncs = map[string]func(in M) any{
	"sha256":       func(in M) any { h := sha256.Sum256(B(in, "data")); return Ok(Hex(h[:])) },
	"commit.v1":    func(in M) any { return Ok(Hex(channeltypes.CommitPacket(v1Packet(in)))) },
	"commit.ackv1": func(in M) any { return Ok(Hex(channeltypes.CommitAcknowledgement(B(in, "ack")))) },
	"commit.v2":    func(in M) any { return Ok(Hex(channeltypesv2.CommitPacket(v2Packet(in)))) },
	"commit.ackv2": func(in M) any {
		var acks [][]byte
		for _, a := range Strs(in, "acks") {
			acks = append(acks, B(M{"x": a}, "x"))
		}
		return Ok(Hex(channeltypesv2.CommitAcknowledgement(channeltypesv2.Acknowledgement{AppAcknowledgements: acks})))
	},
}

func smallBytes(r *Rng) []byte {
	switch r.Intn(6) {
	case 0:
		return nil
	case 1:
		return []byte(Pick(r, []string{"a", "ab", "abc", "b", "bc", "c", "transfer", "ics20-1", "application/json"}))
	case 2:
		return r.Bytes(r.Intn(4))
	case 3:
		return r.Bytes(31 + r.Intn(3)) // around one hash block
	case 4:
		return r.Bytes(55 + r.Intn(10)) // around the SHA-256 padding boundary
	default:
		return r.Bytes(r.Intn(200))
	}
}

func genPayloadM(r *Rng) M {
	return M{"sp": Hex(smallBytes(r)), "dp": Hex(smallBytes(r)), "ver": Hex(smallBytes(r)), "enc": Hex(smallBytes(r)), "val": Hex(smallBytes(r))}
}

func genV2(r *Rng) M {
	n := r.Intn(5)
	if r.Chance(0.1) {
		n = 5 + r.Intn(4)
	}
	ps := make([]M, n)
	for i := range ps {
		ps[i] = genPayloadM(r)
	}
	return M{"f": "commit.v2", "dest": Hex(smallBytes(r)), "ts": U(r.Num64()), "payloads": ps}
}

func genV1(r *Rng) M {
	return M{"f": "commit.v1", "ts": U(r.Num64()), "rev": U(r.Num64()), "h": U(r.Num64()), "data": Hex(smallBytes(r))}
}

// mutate one field of a v2 request (or shift a boundary between two adjacent fields)
func mutateV2(r *Rng, in M) M {
	out := M{"f": "commit.v2", "dest": in["dest"], "ts": in["ts"]}
	ps := append([]M{}, in["payloads"].([]M)...)
	for i := range ps {
		c := M{}
		for k, v := range ps[i] {
			c[k] = v
		}
		ps[i] = c
	}
	switch r.Intn(7) {
	case 0:
		out["dest"] = Hex(append(B(in, "dest"), 'x'))
	case 1:
		out["ts"] = U(N(in, "ts") + 1)
	case 2:
		if len(ps) > 0 {
			ps = ps[:len(ps)-1]
		} else {
			ps = append(ps, genPayloadM(r))
		}
	case 3:
		if len(ps) > 1 {
			i := r.Intn(len(ps) - 1)
			ps[i], ps[i+1] = ps[i+1], ps[i]
		} else {
			ps = append(ps, genPayloadM(r))
		}
	case 4:
		if len(ps) > 0 {
			// shift a byte across the boundary of two adjacent fields
			keys := []string{"sp", "dp", "ver", "enc", "val"}
			i, k := r.Intn(len(ps)), r.Intn(4)
			a, b := B(ps[i], keys[k]), B(ps[i], keys[k+1])
			if len(b) > 0 {
				ps[i][keys[k]] = Hex(append(append([]byte{}, a...), b[0]))
				ps[i][keys[k+1]] = Hex(b[1:])
			} else {
				ps[i][keys[k+1]] = Hex([]byte{0})
			}
		} else {
			ps = append(ps, genPayloadM(r))
		}
	case 5:
		if len(ps) > 0 {
			ps = append(ps, ps[r.Intn(len(ps))])
		} else {
			ps = append(ps, genPayloadM(r))
		}
	default:
		if len(ps) > 0 {
			i := r.Intn(len(ps))
			k := Pick(r, []string{"sp", "dp", "ver", "enc", "val"})
			ps[i][k] = Hex(append(B(ps[i], k), byte(r.Intn(256))))
		} else {
			out["dest"] = Hex(append(B(in, "dest"), 0))
		}
	}
	out["payloads"] = ps
	return out
}

func init() {
	Register(Group{
		Name:  "commit",
		Props: []string{"C07"},
		Funcs: commitFuncs,
		Gen: func(r *Rng, n int, emit func(M)) {
			for i := 0; i < n; i++ {
				emit(M{"f": "sha256", "data": Hex(smallBytes(r))})
				emit(genV1(r))
				emit(M{"f": "commit.ackv1", "ack": Hex(smallBytes(r))})
				v2 := genV2(r)
				emit(v2)
				emit(mutateV2(r, v2))
				k := r.Intn(5)
				acks := make([]string, k)
				for j := range acks {
					acks[j] = Hex(smallBytes(r))
				}
				emit(M{"f": "commit.ackv2", "acks": acks})
			}
		},
		Monitor: func(r *Rng, n int, report func(Violation)) {
			for i := 0; i < n; i++ {
				// v1: commitment depends on exactly (timeout height, timeout timestamp, data)
				a := genV1(r)
				pa := v1Packet(a)
				pb := pa
				pb.Sequence, pb.SourcePort, pb.SourceChannel, pb.DestinationPort, pb.DestinationChannel = r.Num64(), "x", "y", "z", "w"
				if !bytes.Equal(channeltypes.CommitPacket(pa), channeltypes.CommitPacket(pb)) {
					report(Violation{Property: "C07", What: "v1 commitment depends on a field outside (timeout, data)", Input: a})
				}
				b := genV1(r)
				switch r.Intn(5) {
				case 0:
					b = M{"f": "commit.v1", "ts": U(N(a, "ts") + 1), "rev": a["rev"], "h": a["h"], "data": a["data"]}
				case 1:
					b = M{"f": "commit.v1", "ts": a["ts"], "rev": U(N(a, "rev") + 1), "h": a["h"], "data": a["data"]}
				case 2:
					b = M{"f": "commit.v1", "ts": a["ts"], "rev": a["h"], "h": a["rev"], "data": a["data"]}
				case 3:
					b = M{"f": "commit.v1", "ts": a["ts"], "rev": a["rev"], "h": a["h"], "data": Hex(append(B(a, "data"), 0))}
				}
				differ := N(a, "ts") != N(b, "ts") || N(a, "rev") != N(b, "rev") || N(a, "h") != N(b, "h") || !bytes.Equal(B(a, "data"), B(b, "data"))
				if differ && bytes.Equal(channeltypes.CommitPacket(v1Packet(a)), channeltypes.CommitPacket(v1Packet(b))) {
					report(Violation{Property: "C07", What: "two v1 packets differing in a committed field share a commitment", Input: M{"a": a, "b": b}})
				}
				// v2: any single-field / boundary / order mutation changes the commitment
				x := genV2(r)
				y := mutateV2(r, x)
				px, py := v2Packet(x), v2Packet(y)
				same := px.DestinationClient == py.DestinationClient && px.TimeoutTimestamp == py.TimeoutTimestamp && len(px.Payloads) == len(py.Payloads)
				if same {
					for k := range px.Payloads {
						p, q := px.Payloads[k], py.Payloads[k]
						if p.SourcePort != q.SourcePort || p.DestinationPort != q.DestinationPort || p.Version != q.Version || p.Encoding != q.Encoding || !bytes.Equal(p.Value, q.Value) {
							same = false
						}
					}
				}
				if !same && bytes.Equal(channeltypesv2.CommitPacket(px), channeltypesv2.CommitPacket(py)) {
					report(Violation{Property: "C07", What: "two v2 packets differing in a committed field share a commitment", Input: M{"a": x, "b": y}})
				}
				pz := px
				pz.Sequence, pz.SourceClient = r.Num64(), "other"
				if !bytes.Equal(channeltypesv2.CommitPacket(px), channeltypesv2.CommitPacket(pz)) {
					report(Violation{Property: "C07", What: "v2 commitment depends on a field outside (dest client, timeout, payloads)", Input: x})
				}
				// v2 acks: order and boundaries matter
				k := 2 + r.Intn(3)
				acks := make([][]byte, k)
				for j := range acks {
					acks[j] = smallBytes(r)
				}
				sw := append([][]byte{}, acks...)
				sw[0], sw[1] = sw[1], sw[0]
				if !bytes.Equal(acks[0], acks[1]) && bytes.Equal(
					channeltypesv2.CommitAcknowledgement(channeltypesv2.Acknowledgement{AppAcknowledgements: acks}),
					channeltypesv2.CommitAcknowledgement(channeltypesv2.Acknowledgement{AppAcknowledgements: sw})) {
					report(Violation{Property: "C07", What: "v2 ack commitment ignores app-ack order", Input: M{"acks": len(acks)}})
				}
				merged := append([][]byte{append(append([]byte{}, acks[0]...), acks[1]...)}, acks[2:]...)
				if bytes.Equal(
					channeltypesv2.CommitAcknowledgement(channeltypesv2.Acknowledgement{AppAcknowledgements: acks}),
					channeltypesv2.CommitAcknowledgement(channeltypesv2.Acknowledgement{AppAcknowledgements: merged})) {
					report(Violation{Property: "C07", What: "v2 ack commitment ignores app-ack boundaries", Input: M{"acks": len(acks)}})
				}
			}
		},
	})
}
