package purefn

import (
	clienttypes "github.com/cosmos/ibc-go/v11/modules/core/02-client/types"
	channeltypes "github.com/cosmos/ibc-go/v11/modules/core/04-channel/types"

	. "verif/harness/lib"
)

func genHeight(r *Rng) clienttypes.Height {
	return clienttypes.NewHeight(r.Num64(), r.Num64())
}

// near returns a height close to h (same, ±1 in either component, revision boundary twin).
func near(r *Rng, h clienttypes.Height) clienttypes.Height {
	switch r.Intn(8) {
	case 0:
		return h
	case 1:
		return clienttypes.NewHeight(h.RevisionNumber, h.RevisionHeight+1)
	case 2:
		return clienttypes.NewHeight(h.RevisionNumber, h.RevisionHeight-1)
	case 3:
		return clienttypes.NewHeight(h.RevisionNumber+1, 0)
	case 4:
		return clienttypes.NewHeight(h.RevisionNumber-1, ^uint64(0))
	case 5:
		return clienttypes.NewHeight(h.RevisionHeight, h.RevisionNumber)
	default:
		return genHeight(r)
	}
}

func heightStrings(r *Rng) string {
	switch r.Intn(10) {
	case 0:
		return genHeight(r).String()
	case 1:
		return U(r.Num64()) + "-" + U(r.Num64()) + "-" + U(r.Num64())
	case 2:
		return U(r.Num64())
	case 3:
		return "0" + U(r.Num64()) + "-00" + U(r.Num64())
	case 4:
		return Pick(r, []string{"18446744073709551615-18446744073709551615", "18446744073709551616-1", "1-18446744073709551616",
			"-1", "1-", "-", "", "--", "+1-2", "1-+2", "1_0-2", "0x1-2", " 1-2", "1-2 ", "1--2", "99999999999999999999999-1", "00000000000000000000000001-2"})
	case 5:
		return r.Str("0123456789-", r.Intn(12))
	case 6:
		return r.Str("0123456789-+ _a", r.Intn(8))
	default:
		return U(r.Num64()) + "-" + U(r.Num64())
	}
}

func hOf(in M, kr, kh string) clienttypes.Height { return clienttypes.NewHeight(N(in, kr), N(in, kh)) }

var heightFuncs = map[string]func(in M) any{
	"height.compare": func(in M) any {
		a, b := hOf(in, "ar", "ah"), hOf(in, "br", "bh")
		return M{"cmp": I(a.Compare(b)), "lt": a.LT(b), "lte": a.LTE(b), "gt": a.GT(b), "gte": a.GTE(b), "eq": a.EQ(b), "zero": a.IsZero()}
	},
	"height.format": func(in M) any { return Ok(hOf(in, "ar", "ah").String()) },
	"height.parse": func(in M) any {
		h, err := clienttypes.ParseHeight(S(in, "s"))
		if err != nil {
			return Err("invalid-height")
		}
		return Ok(M{"rev": U(h.RevisionNumber), "h": U(h.RevisionHeight)})
	},
	"timeout.elapsed": func(in M) any {
		t := channeltypes.NewTimeout(hOf(in, "tr", "th"), N(in, "tts"))
		h, ts := hOf(in, "r", "h"), N(in, "ts")
		// heightElapsed is unexported; observe it through the exported API: a timeout with zero
		// timestamp elapses iff its height elapsed. TimestampElapsed is exported.
		hOnly := channeltypes.NewTimeout(t.Height, 0)
		return M{"elapsed": t.Elapsed(h, ts), "hElapsed": hOnly.Elapsed(h, ts), "tElapsed": t.TimestampElapsed(ts), "valid": t.IsValid()}
	},
}

func init() {
	Register(Group{
		Name:  "height",
		Props: []string{"C17"},
		Funcs: heightFuncs,
		Gen: func(r *Rng, n int, emit func(M)) {
			for i := 0; i < n; i++ {
				a := genHeight(r)
				b := near(r, a)
				emit(M{"f": "height.compare", "ar": U(a.RevisionNumber), "ah": U(a.RevisionHeight), "br": U(b.RevisionNumber), "bh": U(b.RevisionHeight)})
				emit(M{"f": "height.format", "ar": U(a.RevisionNumber), "ah": U(a.RevisionHeight)})
				emit(M{"f": "height.parse", "s": heightStrings(r)})
				var th clienttypes.Height
				if r.Chance(0.25) {
					th = clienttypes.ZeroHeight()
				} else {
					th = near(r, a)
				}
				var tts uint64
				if !r.Chance(0.3) {
					tts = r.Num64()
				}
				ts := tts
				switch r.Intn(4) {
				case 0:
					ts = tts + 1
				case 1:
					ts = tts - 1
				case 2:
					ts = r.Num64()
				}
				emit(M{"f": "timeout.elapsed", "tr": U(th.RevisionNumber), "th": U(th.RevisionHeight), "tts": U(tts),
					"r": U(a.RevisionNumber), "h": U(a.RevisionHeight), "ts": U(ts)})
			}
		},
		Monitor: func(r *Rng, n int, report func(Violation)) {
			le := func(a, b clienttypes.Height) bool { return a.LTE(b) }
			for i := 0; i < n; i++ {
				a := genHeight(r)
				b := near(r, a)
				c := near(r, b)
				// specification: lexicographic on (revision, height)
				want := int64(0)
				switch {
				case a.RevisionNumber < b.RevisionNumber, a.RevisionNumber == b.RevisionNumber && a.RevisionHeight < b.RevisionHeight:
					want = -1
				case a.RevisionNumber > b.RevisionNumber, a.RevisionNumber == b.RevisionNumber && a.RevisionHeight > b.RevisionHeight:
					want = 1
				}
				if got := a.Compare(b); got != want {
					report(Violation{Property: "C17", What: "Compare is not lexicographic by revision then height", Input: M{"a": a.String(), "b": b.String()}, Observed: M{"got": got, "want": want}})
				}
				if !le(a, a) {
					report(Violation{Property: "C17", What: "LTE not reflexive", Input: M{"a": a.String()}, Observed: nil})
				}
				if le(a, b) && le(b, a) && a != b {
					report(Violation{Property: "C17", What: "LTE not antisymmetric", Input: M{"a": a.String(), "b": b.String()}, Observed: nil})
				}
				if le(a, b) && le(b, c) && !le(a, c) {
					report(Violation{Property: "C17", What: "LTE not transitive", Input: M{"a": a.String(), "b": b.String(), "c": c.String()}, Observed: nil})
				}
				if !le(a, b) && !le(b, a) {
					report(Violation{Property: "C17", What: "LTE not total", Input: M{"a": a.String(), "b": b.String()}, Observed: nil})
				}
				if a.LT(b) != (le(a, b) && a != b) || a.GT(b) != b.LT(a) || a.GTE(b) != b.LTE(a) || a.EQ(b) != (a == b) {
					report(Violation{Property: "C17", What: "comparison predicates disagree", Input: M{"a": a.String(), "b": b.String()}, Observed: nil})
				}
				if p, err := clienttypes.ParseHeight(a.String()); err != nil || p != a {
					report(Violation{Property: "C17", What: "format/parse does not round-trip", Input: M{"a": a.String()}, Observed: M{"parsed": p.String()}})
				}
				// elapsed monotone; zero never elapses
				t := channeltypes.NewTimeout(near(r, a), r.Num64())
				if r.Chance(0.3) {
					t.Height = clienttypes.ZeroHeight()
				}
				if r.Chance(0.3) {
					t.Timestamp = 0
				}
				ts := r.Num64()
				ts2 := ts + uint64(r.Intn(3))
				if ts2 < ts {
					ts2 = ts
				}
				if t.Elapsed(a, ts) && le(a, b) && !t.Elapsed(b, ts2) {
					report(Violation{Property: "C17", What: "elapsed timeout stops being elapsed at a greater height/time", Input: M{"timeout": t.String(), "h": a.String(), "ts": U(ts), "h2": b.String(), "ts2": U(ts2)}, Observed: nil})
				}
				if t.Height.IsZero() && t.Timestamp == 0 && t.Elapsed(a, ts) {
					report(Violation{Property: "C17", What: "zero timeout elapsed", Input: M{"h": a.String(), "ts": U(ts)}, Observed: nil})
				}
				if t.Height.IsZero() && channeltypes.NewTimeout(t.Height, 0).Elapsed(a, ts) {
					report(Violation{Property: "C17", What: "zero timeout height elapsed", Input: M{"h": a.String()}, Observed: nil})
				}
				if t.Timestamp == 0 && t.TimestampElapsed(ts) {
					report(Violation{Property: "C17", What: "zero timeout timestamp elapsed", Input: M{"ts": U(ts)}, Observed: nil})
				}
			}
		},
	})
}
