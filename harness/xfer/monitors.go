package xfer

import (
	"crypto/sha256"
	"fmt"
	"strings"

	sdkmath "cosmossdk.io/math"

	ratelimitkeeper "github.com/cosmos/ibc-go/v11/modules/apps/rate-limiting/keeper"
	transfertypes "github.com/cosmos/ibc-go/v11/modules/apps/transfer/types"
	channeltypes "github.com/cosmos/ibc-go/v11/modules/core/04-channel/types"

	. "verif/harness/lib"
)

// Viol is a lib.Violation with the stable key used to match known findings and the request list
// that reproduces it.
type Viol struct {
	Property string `json:"property"`
	What     string `json:"what"`
	Input    any    `json:"input"`
	Observed any    `json:"observed"`
	Key      string `json:"key,omitempty"`
	Requests []M    `json:"requests,omitempty"`
}

// Monitors evaluate the properties themselves on the implementation's state (sound: every report
// is a real deviation of the real code from the property statement, computed from the harness's own
// record of what it sent and relayed).
type Monitors struct {
	report  func(Viol)
	hist    []M
	initSup []map[string]sdkmath.Int
	strict  bool // lifecycle-respecting history: conservation monitors are meaningful
}

func (m *Monitors) emit(w *World, prop, what string, in any, obs any) {
	if m == nil || m.report == nil {
		return
	}
	v := Viol{Property: prop, What: what, Input: in, Observed: obs}
	v.Requests = append([]M{}, m.hist...)
	m.report(v)
}

func (m *Monitors) failedOp(in M, kind string, d M) {
	if m == nil {
		return
	}
	if !deltaEmpty(d) {
		prop := "C30"
		if kind == "ack" || kind == "timeout" {
			prop = "C32"
		}
		m.emit(nil, prop, "a failed or redundant "+kind+" changed balances", in, d)
	}
}

func isEscrowOrModule(name string) bool {
	return strings.HasPrefix(name, "esc:") || name == "mod:transfer"
}

func ibcDenomOfPath(path string) string {
	return transfertypes.ExtractDenomFromPath(path).IBCDenom()
}

func voucherOf(prefixID, path string) string {
	h := sha256.Sum256([]byte("transfer/" + prefixID + "/" + path))
	return fmt.Sprintf("ibc/%X", h[:])
}

func (m *Monitors) afterTransfer(w *World, in M, p *Pkt, before, after *Snap) {
	if m == nil {
		return
	}
	sender := str(in, "sender")
	for k, d := range p.sendDelta {
		if !strings.HasPrefix(k, "bal|") || !d.IsNegative() {
			continue
		}
		name, denom := splitKey(k[4:])
		if name == sender {
			p.SentCoin = denom
			continue
		}
		m.emit(w, "C49", "MsgTransfer debited an account other than its sender", in, M{"debited": name, "denom": denom, "by": d.String()})
	}
	if boolean(in, "tx") && str(in, "signer") != sender {
		m.emit(w, "C49", "MsgTransfer signed by another account moved the sender's tokens", in, nil)
	}
	for k, d := range p.sendDelta {
		if strings.HasPrefix(k, "sup|") && d.IsNegative() {
			p.Burned = true
		}
	}
	// C42: the denomination the rate limiter would charge for this packet
	rl := ratelimitkeeper.ParseDenomFromSendPacket(transfertypes.FungibleTokenPacketData{Denom: p.Denom, Amount: p.Amount.String(), Sender: "s", Receiver: "r"})
	if p.SentCoin != "" && rl != p.SentCoin {
		m.emit(w, "C42", "rate limiting charges a send to a different denomination than ICS-20 debits", in, M{"charged": rl, "moved": p.SentCoin, "packetDenom": p.Denom})
	}
	m.global(w, in)
}

func (m *Monitors) afterRecv(w *World, in M, p *Pkt, before, after *Snap) {
	if m == nil {
		return
	}
	sd := signedDelta(before, after)
	if !p.RecvOK {
		if len(sd) > 0 {
			m.emit(w, "C30", "a failed receive changed balances on the receiving chain", in, fmt.Sprint(sd))
		}
		// C33: a returning voucher may only be refused for a receive-side reason the harness created
		// itself (receiving disabled, receiver blocked / undecodable)
		if p.Burned && w.recvEnabled[p.Dst] && w.plainReceiver(p.Dst, p.Recvr) {
			m.emit(w, "C33", "the origin chain refused a returning voucher", in, M{"packetDenom": p.Denom, "amount": p.Amount.String()})
		}
		m.global(w, in)
		return
	}
	credited := ""
	for k, d := range sd {
		if !strings.HasPrefix(k, "bal|") {
			continue
		}
		name, denom := splitKey(k[4:])
		switch {
		case d.IsPositive() && name == p.Recvr:
			credited = denom
			if !d.Equal(p.Amount) {
				m.emit(w, "C30", "receiver credited an amount different from the packet amount", in, M{"credited": d.String(), "packet": p.Amount.String()})
			}
		case d.IsPositive():
			m.emit(w, "C49", "a receive credited an account other than the packet receiver", in, M{"credited": name, "denom": denom})
		case d.IsNegative() && name == escName("transfer", p.DstID):
		case d.IsNegative() && name == p.Recvr:
			// receiver is the escrow account itself: net effect may be zero or negative only if it is the channel escrow
		default:
			m.emit(w, "C49", "a receive debited an account that is not the channel escrow", in, M{"debited": name, "denom": denom})
		}
	}
	if p.Recvr == escName("transfer", p.DstID) && credited == "" {
		// unescrow from the channel escrow to itself: no visible balance change; the released coin is
		// the one whose tracked total went down
		credited = "-"
		for k, d := range sd {
			if strings.HasPrefix(k, "esc|") && d.IsNegative() {
				key := p.Recvr + "|" + k[4:]
				w.donated[p.Dst][key] = get(w.donated[p.Dst], key).Add(p.Amount)
			}
		}
	} else if strings.HasPrefix(p.Recvr, "esc:") && credited != "" {
		// tokens delivered to an escrow address as an ordinary receiver are not IBC-escrowed funds
		key := p.Recvr + "|" + credited
		w.donated[p.Dst][key] = get(w.donated[p.Dst], key).Add(p.Amount)
	}
	if credited != "" && credited != "-" {
		var rl string
		data := transfertypes.FungibleTokenPacketData{Denom: p.Denom, Amount: p.Amount.String(), Sender: "s", Receiver: "r"}
		pk := channeltypes.Packet{SourcePort: "transfer", SourceChannel: p.SrcID, DestinationPort: "transfer", DestinationChannel: p.DstID}
		rl = ratelimitkeeper.ParseDenomFromRecvPacket(pk, data)
		if rl != credited {
			m.emit(w, "C42", "rate limiting charges a receive to a different denomination than ICS-20 credits", in, M{"charged": rl, "moved": credited, "packetDenom": p.Denom})
		}
	}
	// C33: a voucher burnt on the other side must come back as the token it was minted from
	if p.Burned {
		want := strings.TrimPrefix(p.Denom, "transfer/"+p.SrcID+"/")
		wantCoin := ibcDenomOfPath(want)
		if credited != "-" && credited != wantCoin {
			m.emit(w, "C33", "returning voucher was not released as the original token", in, M{"credited": credited, "want": wantCoin})
		}
		for k, d := range sd {
			if strings.HasPrefix(k, "sup|") && !d.IsZero() {
				m.emit(w, "C33", "returning voucher changed a supply instead of releasing escrow", in, M{"key": k, "by": d.String()})
			}
		}
	}
	m.global(w, in)
}

func (m *Monitors) refundCheck(w *World, in M, p *Pkt, before, after *Snap, how string) {
	sd := signedDelta(before, after)
	// C32: the refund is exactly the inverse of the send on the sending chain
	keys := map[string]bool{}
	for k := range sd {
		keys[k] = true
	}
	for k := range p.sendDelta {
		keys[k] = true
	}
	for k := range keys {
		if !get(sd, k).Add(get(p.sendDelta, k)).IsZero() {
			m.emit(w, "C32", how+" refund does not restore the pre-send state", in, M{"key": k, "send": get(p.sendDelta, k).String(), "refund": get(sd, k).String()})
			break
		}
	}
	for k, d := range sd {
		if strings.HasPrefix(k, "bal|") && d.IsPositive() {
			name, denom := splitKey(k[4:])
			if name != p.Sender {
				m.emit(w, "C49", how+" refund credited an account other than the original sender", in, M{"credited": name, "denom": denom})
			}
		}
		if strings.HasPrefix(k, "bal|") && d.IsNegative() {
			name, denom := splitKey(k[4:])
			if !isEscrowOrModule(name) {
				m.emit(w, "C49", how+" refund debited a user account", in, M{"debited": name, "denom": denom})
			}
		}
	}
}

func (m *Monitors) afterAck(w *World, in M, p *Pkt, before, after *Snap) {
	if m == nil {
		return
	}
	if p.RecvOK {
		if sd := signedDelta(before, after); len(sd) > 0 {
			m.emit(w, "C32", "a success acknowledgement changed balances on the sending chain", in, fmt.Sprint(sd))
		}
	} else {
		m.refundCheck(w, in, p, before, after, "error-ack")
	}
	m.global(w, in)
}

func (m *Monitors) afterTimeout(w *World, in M, p *Pkt, before, after *Snap) {
	if m == nil {
		return
	}
	m.refundCheck(w, in, p, before, after, "timeout")
	m.global(w, in)
}

func (m *Monitors) afterBankSend(w *World, in M, before, after *Snap) {
	if m == nil {
		return
	}
	m.global(w, in)
}

// failedTransfer: C33 — a held voucher sent back over the channel it came from must be accepted.
func (m *Monitors) failedTransfer(w *World, in M, cls string, snap *Snap) {
	if m == nil {
		return
	}
	denom := str(in, "denom")
	if !strings.HasPrefix(denom, "ibc/") || !boolean(in, "tx") || str(in, "signer") != str(in, "sender") {
		return
	}
	if boolean(in, "alias") {
		// sending over the v2 alias is a different protocol: v2 OnSendPacket refuses every base
		// denomination containing '/' by design; the v1 channel itself remains usable
		return
	}
	c := num(in, "chain")
	ch := w.chains[c]
	d, err := ch.GetSimApp().TransferKeeper.GetDenomFromIBCDenom(ch.GetContext(), denom)
	if err != nil || len(d.Trace) == 0 {
		return
	}
	if d.Trace[0].PortId != "transfer" || d.Trace[0].ChannelId != str(in, "chan") || str(in, "port") != "transfer" {
		return
	}
	switch cls {
	case "transfer/3", "transfer/6", "host/2":
		m.emit(w, "C33", "a voucher cannot be sent back over the channel it was received on", in, M{"class": cls, "path": d.Path()})
	}
}

// global invariants over all chains, evaluated on the real state after every successful op
func (m *Monitors) global(w *World, in M) {
	if m == nil || !m.strict {
		return
	}
	snaps := make([]*Snap, len(w.chains))
	for c := range w.chains {
		snaps[c] = w.Snapshot(c)
	}
	// C30: native supply never changes
	for c := range w.chains {
		for d := range w.natives[c] {
			if init, ok := m.initSup[c][d]; ok && !get(snaps[c].Sup, d).Equal(init) {
				m.emit(w, "C30", "IBC changed the total supply of a native denomination", in, M{"chain": c, "denom": d, "was": init.String(), "now": get(snaps[c].Sup, d).String()})
			}
		}
	}
	// C31: tracked total escrow vs escrow account balances
	for c := range w.chains {
		sums := map[string]sdkmath.Int{}
		for k, v := range snaps[c].Bal {
			name, denom := splitKey(k)
			if strings.HasPrefix(name, "esc:") {
				sums[denom] = get(sums, denom).Add(v).Sub(get(w.donated[c], name+"|"+denom))
			}
		}
		keys := map[string]bool{}
		for k := range sums {
			keys[k] = true
		}
		for k := range snaps[c].Esc {
			keys[k] = true
		}
		for d := range keys {
			if !get(sums, d).Equal(get(snaps[c].Esc, d)) {
				m.emit(w, "C31", "tracked total escrow differs from the IBC-escrowed balance of the escrow accounts", in, M{"chain": c, "denom": d, "tracked": get(snaps[c].Esc, d).String(), "escrowed": get(sums, d).String()})
			}
		}
	}
	// C30: per channel-end pair, escrow = voucher supply + in flight
	for _, l := range w.links {
		m.conserveDir(w, in, snaps, l, l.A, l.AID, l.B, l.BID)
		m.conserveDir(w, in, snaps, l, l.B, l.BID, l.A, l.AID)
	}
}

func (m *Monitors) conserveDir(w *World, in M, snaps []*Snap, l *Link, x int, idX string, y int, idY string) {
	esc := escName("transfer", idX)
	paths := map[string]bool{}
	chX := w.chains[x]
	for k := range snaps[x].Bal {
		name, denom := splitKey(k)
		if name != esc {
			continue
		}
		if strings.HasPrefix(denom, "ibc/") {
			if d, err := chX.GetSimApp().TransferKeeper.GetDenomFromIBCDenom(chX.GetContext(), denom); err == nil {
				paths[d.Path()] = true
			}
		} else {
			paths[denom] = true
		}
	}
	pre := "transfer/" + idY + "/"
	for p := range snaps[y].Den {
		if strings.HasPrefix(p, pre) {
			paths[strings.TrimPrefix(p, pre)] = true
		}
	}
	for _, p := range w.order {
		if p.Src == x && p.SrcID == idX {
			paths[p.Denom] = true
		}
	}
	own := "transfer/" + idX + "/"
	for path := range paths {
		if strings.HasPrefix(path, own) {
			continue // X is the sink for this denomination on this channel
		}
		coinX := ibcDenomOfPath(path)
		voucherY := voucherOf(idY, path)
		lhs := get(snaps[x].Bal, esc+"|"+coinX).Sub(get(w.donated[x], esc+"|"+coinX))
		rhs := get(snaps[y].Sup, voucherY)
		for _, p := range w.order {
			if p.Src == x && p.SrcID == idX && p.Denom == path {
				minted := p.Received && p.RecvOK
				refunded := p.TimedOut || (p.Acked && !p.RecvOK)
				if !minted && !refunded {
					rhs = rhs.Add(p.Amount)
				}
			}
			if p.Src == y && p.SrcID == idY && p.Denom == pre+path {
				released := p.Received && p.RecvOK
				refunded := p.TimedOut || (p.Acked && !p.RecvOK)
				if !released && !refunded {
					rhs = rhs.Add(p.Amount)
				}
			}
		}
		if !lhs.Equal(rhs) {
			m.emit(w, "C30", "escrow on the source differs from voucher supply on the destination plus in-flight amounts", in,
				M{"source": x, "channel": idX, "dest": y, "destChannel": idY, "path": path, "escrow": lhs.String(), "supply+inflight": rhs.String()})
		}
	}
}
