package xfer

import (
	"crypto/sha256"
	"encoding/json"
	"errors"
	"fmt"
	"regexp"
	"sort"
	"strings"
	"testing"
	"time"

	"github.com/cosmos/gogoproto/proto"

	errorsmod "cosmossdk.io/errors"
	sdkmath "cosmossdk.io/math"

	sdk "github.com/cosmos/cosmos-sdk/types"
	authtypes "github.com/cosmos/cosmos-sdk/x/auth/types"
	banktypes "github.com/cosmos/cosmos-sdk/x/bank/types"
	minttypes "github.com/cosmos/cosmos-sdk/x/mint/types"

	abci "github.com/cometbft/cometbft/abci/types"

	transfertypes "github.com/cosmos/ibc-go/v11/modules/apps/transfer/types"
	clienttypes "github.com/cosmos/ibc-go/v11/modules/core/02-client/types"
	channeltypes "github.com/cosmos/ibc-go/v11/modules/core/04-channel/types"
	channeltypesv2 "github.com/cosmos/ibc-go/v11/modules/core/04-channel/v2/types"
	host "github.com/cosmos/ibc-go/v11/modules/core/24-host"
	hostv2 "github.com/cosmos/ibc-go/v11/modules/core/24-host/v2"
	ibctesting "github.com/cosmos/ibc-go/v11/testing"

	. "verif/harness/lib"
)

// Link is one pair of channel ends. Kind "v1": a v1 transfer channel (also usable through its v2
// alias); kind "v2": the pair of light-client ids used directly by IBC v2.
type Link struct {
	A, B     int
	AID, BID string
	V1       bool
	path     *ibctesting.Path
}

// Pkt is the harness's own record of a packet it sent and what it did with it (ground truth for the
// monitors; never derived from the model).
type Pkt struct {
	Src, Dst       int
	SrcID, DstID   string
	Seq            uint64
	V2             bool
	link           *Link
	v1             channeltypes.Packet
	v2             channeltypesv2.Packet
	Denom          string // packet denomination path
	Amount         sdkmath.Int
	Sender, Recvr  string // symbolic
	TimeoutHeight  clienttypes.Height
	TimeoutNs      uint64 // v1: nanoseconds; v2: seconds*1e9
	Received       bool
	RecvOK         bool
	ackV1          []byte
	ackV2          channeltypesv2.Acknowledgement
	Acked, TimedOut bool
	sendDelta      map[string]sdkmath.Int // signed balance/supply/escrow changes of the send tx (source chain)
	SentCoin       string                 // coin denomination debited from the sender
	Burned         bool
}

type World struct {
	coord   *ibctesting.Coordinator
	chains  []*ibctesting.TestChain
	links   []*Link
	book    map[string]string // symbolic -> bech32
	rbook   map[string]string // bech32 -> symbolic
	names   []string
	pkts    map[string]*Pkt
	order   []*Pkt
	donated []map[string]sdkmath.Int // per chain: "escrowName|denom" -> amount credited to escrow accounts outside ICS-20 escrowing
	natives []map[string]bool        // per chain: native denominations minted at reset (supply must stay constant)
	hoplike bool                     // the world contains hop-like native denominations (known findings)
	nativeList [][]string
	recvEnabled []bool
}

var chainLetters = []string{"A", "B", "C"}

func pktKey(c int, id string, seq uint64) string { return fmt.Sprintf("%d|%s|%d", c, id, seq) }

func escName(port, ch string) string { return "esc:" + port + "/" + ch }

// NewWorld builds three chains with transfer channels A-B (two channels), B-C, C-A and registers the
// IBC v2 counterparties on the same light clients. natives[i] are minted to the users of chain i.
func NewWorld(natives [][]string, hoplike bool) *World {
	w := &World{book: map[string]string{}, rbook: map[string]string{}, pkts: map[string]*Pkt{}, hoplike: hoplike, nativeList: natives}
	w.coord = ibctesting.NewCoordinator(&testing.T{}, 3)
	for i := 1; i <= 3; i++ {
		w.chains = append(w.chains, w.coord.GetChain(ibctesting.GetChainID(i)))
	}
	// channel ids are chosen explicitly (deterministic across worlds, different on the two ends except
	// for the last link)
	mk := func(first *ibctesting.Path, a, b int, seqA, seqB uint64) *ibctesting.Path {
		p := ibctesting.NewTransferPath(w.chains[a], w.chains[b]).DisableUniqueChannelIDs()
		if first == nil {
			p.SetupConnections()
			p.SetupCounterparties()
		} else {
			p.EndpointA.ClientID, p.EndpointB.ClientID = first.EndpointA.ClientID, first.EndpointB.ClientID
			p.EndpointA.ConnectionID, p.EndpointB.ConnectionID = first.EndpointA.ConnectionID, first.EndpointB.ConnectionID
		}
		w.chains[a].App.GetIBCKeeper().ChannelKeeper.SetNextChannelSequence(w.chains[a].GetContext(), seqA)
		w.chains[b].App.GetIBCKeeper().ChannelKeeper.SetNextChannelSequence(w.chains[b].GetContext(), seqB)
		p.CreateChannels()
		return p
	}
	type spec struct {
		a, b       int
		seqA, seqB uint64
	}
	for _, s := range []spec{{0, 1, 1, 2}, {1, 2, 3, 0}, {2, 0, 4, 5}} {
		p := mk(nil, s.a, s.b, s.seqA, s.seqB)
		w.links = append(w.links, &Link{A: s.a, B: s.b, AID: p.EndpointA.ChannelID, BID: p.EndpointB.ChannelID, V1: true, path: p})
		w.links = append(w.links, &Link{A: s.a, B: s.b, AID: p.EndpointA.ClientID, BID: p.EndpointB.ClientID, V1: false, path: p})
	}
	{
		p := mk(w.links[0].path, 0, 1, 6, 6)
		w.links = append(w.links, &Link{A: 0, B: 1, AID: p.EndpointA.ChannelID, BID: p.EndpointB.ChannelID, V1: true, path: p})
	}
	// address book
	add := func(name, addr string) {
		w.book[name] = addr
		w.rbook[addr] = name
		w.names = append(w.names, name)
	}
	for i, ch := range w.chains {
		for k := 0; k < len(ch.SenderAccounts); k++ {
			add(fmt.Sprintf("%s%d", chainLetters[i], k), ch.SenderAccounts[k].SenderAccount.GetAddress().String())
		}
	}
	add("mod:transfer", authtypes.NewModuleAddress(transfertypes.ModuleName).String())
	add("mod:mint", authtypes.NewModuleAddress(minttypes.ModuleName).String())
	add("mod:distribution", authtypes.NewModuleAddress("distribution").String())
	add("mod:gov", authtypes.NewModuleAddress("gov").String())
	for _, l := range w.links {
		for _, id := range []string{l.AID, l.BID} {
			n := escName("transfer", id)
			if _, ok := w.book[n]; !ok {
				add(n, transfertypes.GetEscrowAddress("transfer", id).String())
			}
		}
	}
	for k := 1; k <= 2; k++ {
		h := sha256.Sum256([]byte(fmt.Sprintf("fresh%d", k)))
		add(fmt.Sprintf("fresh%d", k), sdk.AccAddress(h[:20]).String())
	}
	sort.Strings(w.names)
	// native denominations
	for i, ch := range w.chains {
		w.donated = append(w.donated, map[string]sdkmath.Int{})
		w.recvEnabled = append(w.recvEnabled, true)
		nat := map[string]bool{ibctesting.SecondaryDenom: true}
		ctx := ch.GetContext()
		for _, d := range natives[i] {
			nat[d] = true
			for k := 1; k < 5; k++ {
				coins := sdk.NewCoins(sdk.NewCoin(d, sdkmath.NewInt(1_000_000_000_000)))
				must(ch.GetSimApp().BankKeeper.MintCoins(ctx, minttypes.ModuleName, coins))
				must(ch.GetSimApp().BankKeeper.SendCoinsFromModuleToAccount(ctx, minttypes.ModuleName, ch.SenderAccounts[k].SenderAccount.GetAddress(), coins))
			}
		}
		w.natives = append(w.natives, nat)
		ch.NextBlock()
	}
	return w
}

func must(err error) {
	if err != nil {
		panic(err)
	}
}

func (w *World) real(name string) string {
	if a, ok := w.book[name]; ok {
		return a
	}
	return name
}

// plainReceiver: the name is a decodable address that the bank of chain c does not block
func (w *World) plainReceiver(c int, name string) bool {
	a, ok := w.book[name]
	if !ok {
		return false
	}
	addr, err := sdk.AccAddressFromBech32(a)
	if err != nil {
		return false
	}
	return name == "mod:transfer" || !w.chains[c].GetSimApp().BankKeeper.BlockedAddr(addr)
}

func (w *World) sym(addr string) string {
	if n, ok := w.rbook[addr]; ok {
		return n
	}
	return addr
}

// ---------------------------------------------------------------------------------------------
// snapshots

var ignoredStakeHolders = map[string]bool{}

type Snap struct {
	Bal map[string]sdkmath.Int // "name|denom"
	Sup map[string]sdkmath.Int
	Esc map[string]sdkmath.Int
	Den map[string]bool
}

func (w *World) Snapshot(c int) *Snap {
	ch := w.chains[c]
	app := ch.GetSimApp()
	ctx := ch.GetContext()
	s := &Snap{Bal: map[string]sdkmath.Int{}, Sup: map[string]sdkmath.Int{}, Esc: map[string]sdkmath.Int{}, Den: map[string]bool{}}
	app.BankKeeper.IterateAllBalances(ctx, func(addr sdk.AccAddress, coin sdk.Coin) bool {
		name, tracked := w.rbook[addr.String()]
		if !tracked {
			if coin.Denom == sdk.DefaultBondDenom {
				return false // validators, pools, fee collector: moved by the mint/staking modules every block
			}
			name = "addr:" + addr.String()
		} else if coin.Denom == sdk.DefaultBondDenom && strings.HasPrefix(name, "mod:") {
			return false
		}
		s.Bal[name+"|"+coin.Denom] = coin.Amount
		return false
	})
	app.BankKeeper.IterateTotalSupply(ctx, func(coin sdk.Coin) bool {
		if coin.Denom != sdk.DefaultBondDenom {
			s.Sup[coin.Denom] = coin.Amount
		}
		return false
	})
	for _, coin := range app.TransferKeeper.GetAllTotalEscrowed(ctx) {
		s.Esc[coin.Denom] = coin.Amount
	}
	for _, d := range app.TransferKeeper.GetAllDenoms(ctx) {
		s.Den[d.Path()] = true
	}
	return s
}

func splitKey(k string) (string, string) {
	i := strings.Index(k, "|")
	return k[:i], k[i+1:]
}

func get(m map[string]sdkmath.Int, k string) sdkmath.Int {
	if v, ok := m[k]; ok {
		return v
	}
	return sdkmath.ZeroInt()
}

func diffMap(a, b map[string]sdkmath.Int, split bool) [][]string {
	keys := map[string]bool{}
	for k := range a {
		keys[k] = true
	}
	for k := range b {
		keys[k] = true
	}
	rows := [][]string{}
	for k := range keys {
		if !get(a, k).Equal(get(b, k)) {
			if split {
				n, d := splitKey(k)
				rows = append(rows, []string{n, d, get(b, k).String()})
			} else {
				rows = append(rows, []string{k, get(b, k).String()})
			}
		}
	}
	sortRows(rows)
	return rows
}

func sortRows(rows [][]string) {
	sort.Slice(rows, func(i, j int) bool {
		a, b := rows[i], rows[j]
		for k := 0; k < len(a) && k < len(b); k++ {
			if a[k] != b[k] {
				return a[k] < b[k]
			}
		}
		return len(a) < len(b)
	})
}

func Delta(a, b *Snap) M {
	den := [][]string{}
	for p := range b.Den {
		if !a.Den[p] {
			den = append(den, []string{p})
		}
	}
	sortRows(den)
	return M{"bal": diffMap(a.Bal, b.Bal, true), "sup": diffMap(a.Sup, b.Sup, false), "esc": diffMap(a.Esc, b.Esc, false), "den": den}
}

func (s *Snap) View() M {
	empty := &Snap{Bal: map[string]sdkmath.Int{}, Sup: map[string]sdkmath.Int{}, Esc: map[string]sdkmath.Int{}, Den: map[string]bool{}}
	return Delta(empty, s)
}

func deltaEmpty(d M) bool {
	for _, k := range []string{"bal", "sup", "esc", "den"} {
		if len(d[k].([][]string)) > 0 {
			return false
		}
	}
	return true
}

// signed changes "bal|name|denom", "sup|denom", "esc|denom" between two snapshots
func signedDelta(a, b *Snap) map[string]sdkmath.Int {
	out := map[string]sdkmath.Int{}
	add := func(prefix string, x, y map[string]sdkmath.Int) {
		keys := map[string]bool{}
		for k := range x {
			keys[k] = true
		}
		for k := range y {
			keys[k] = true
		}
		for k := range keys {
			d := get(y, k).Sub(get(x, k))
			if !d.IsZero() {
				out[prefix+"|"+k] = d
			}
		}
	}
	add("bal", a.Bal, b.Bal)
	add("sup", a.Sup, b.Sup)
	add("esc", a.Esc, b.Esc)
	return out
}

// ---------------------------------------------------------------------------------------------
// result classification

func classOf(res *abci.ExecTxResult, err error) string {
	if res != nil && res.Code != 0 {
		return fmt.Sprintf("%s/%d", res.Codespace, res.Code)
	}
	if err != nil {
		cs, code, _ := errorsmod.ABCIInfo(err, false)
		return fmt.Sprintf("%s/%d", cs, code)
	}
	return ""
}

func isPanicResult(res *abci.ExecTxResult) bool {
	// baseapp turns a recovered panic into ErrPanic (sdk/111222)
	return res != nil && res.Codespace == "sdk" && res.Code == 111222
}

var ackCodeRe = regexp.MustCompile(`ABCI code: (\d+):`)

// ---------------------------------------------------------------------------------------------
// ops

func (w *World) endpoints(l *Link, from int) (src, dst *ibctesting.Endpoint) {
	if l.path.EndpointA.Chain == w.chains[from] && l.A == from {
		return l.path.EndpointA, l.path.EndpointB
	}
	return l.path.EndpointB, l.path.EndpointA
}

func (w *World) findLink(c int, id string) (*Link, bool) {
	for _, l := range w.links {
		if (l.A == c && l.AID == id) || (l.B == c && l.BID == id) {
			return l, true
		}
	}
	return nil, false
}

func (w *World) peerOf(l *Link, c int, id string) (int, string) {
	if l.A == c && l.AID == id {
		return l.B, l.BID
	}
	return l.A, l.AID
}

func (w *World) account(c int, name string) (ibctesting.SenderAccount, bool) {
	addr := w.real(name)
	for _, a := range w.chains[c].SenderAccounts {
		if a.SenderAccount.GetAddress().String() == addr {
			return a, true
		}
	}
	return ibctesting.SenderAccount{}, false
}

// deliver sends one message in a transaction signed by acc, keeping the local sequence number in step
// with the chain (an ante-handler failure does not consume a sequence number).
func (w *World) deliver(c int, acc ibctesting.SenderAccount, msgs ...sdk.Msg) (*abci.ExecTxResult, error) {
	ch := w.chains[c]
	on := ch.GetSimApp().AccountKeeper.GetAccount(ch.GetContext(), acc.SenderAccount.GetAddress())
	must(acc.SenderAccount.SetSequence(on.GetSequence()))
	res, err := ch.SendMsgsWithSender(acc, msgs...)
	return res, err
}

func parseAmount(s string) sdkmath.Int {
	v, ok := sdkmath.NewIntFromString(s)
	if !ok {
		panic("harness: bad amount " + s)
	}
	return v
}

func str(in M, k string) string { s, _ := in[k].(string); return s }
func boolean(in M, k string) bool { b, _ := in[k].(bool); return b }
func num(in M, k string) int {
	switch v := in[k].(type) {
	case float64:
		return int(v)
	case int:
		return v
	case string:
		var n int
		fmt.Sscan(v, &n)
		return n
	}
	return 0
}
func u64(in M, k string) uint64 {
	switch v := in[k].(type) {
	case float64:
		return uint64(v)
	case int:
		return uint64(v)
	case uint64:
		return v
	case string:
		var n uint64
		fmt.Sscan(v, &n)
		return n
	}
	return 0
}


// Exec runs one request on the real chains and returns the canonical answer. Monitors are fed from
// the snapshots taken here.
func (w *World) Exec(in M, mon *Monitors) any {
	switch str(in, "f") {
	case "reset":
		return M{"r": "ok"}
	case "transfer":
		return w.execTransfer(in, mon)
	case "sendv2":
		return w.execSendV2(in, mon)
	case "recv":
		return w.execRecv(in, mon)
	case "ack":
		return w.execAck(in, mon)
	case "timeout":
		return w.execTimeout(in, mon)
	case "params":
		c := num(in, "chain")
		ch := w.chains[c]
		ch.GetSimApp().TransferKeeper.SetParams(ch.GetContext(), transfertypes.NewParams(boolean(in, "send"), boolean(in, "recv")))
		ch.NextBlock()
		w.recvEnabled[c] = boolean(in, "recv")
		return M{"r": "ok"}
	case "banksend":
		return w.execBankSend(in, mon)
	case "view":
		return w.Snapshot(num(in, "chain")).View()
	case "advance":
		w.Advance(time.Duration(num(in, "minutes"))*time.Minute, num(in, "blocks"))
		return M{"r": "ok"}
	}
	return M{"bad": "unknown op"}
}

// timeouts: kind "far" never elapses, "near" elapses after an `advance`, "past" is already invalid
func (w *World) timeoutFor(kind string, c int, v2 bool) (clienttypes.Height, uint64) {
	now := w.coord.CurrentTime
	switch kind {
	case "near":
		if v2 {
			return clienttypes.ZeroHeight(), uint64(now.Add(20 * time.Minute).Unix())
		}
		return clienttypes.ZeroHeight(), uint64(now.Add(20 * time.Minute).UnixNano())
	case "nearh":
		// height timeout on the counterparty (v1 only): 12 blocks ahead of what it has now
		return clienttypes.ZeroHeight(), 0
	case "past":
		// long before any block of any chain
		return clienttypes.ZeroHeight(), 1
	case "zero":
		return clienttypes.ZeroHeight(), 0
	}
	if v2 {
		return clienttypes.ZeroHeight(), uint64(now.Add(12 * time.Hour).Unix())
	}
	return clienttypes.NewHeight(1, 1_000_000), 0
}

func (w *World) execTransfer(in M, mon *Monitors) any {
	c := num(in, "chain")
	ch := w.chains[c]
	id := str(in, "chan")
	link, hasLink := w.findLink(c, id)
	alias := boolean(in, "alias")
	v2 := alias || !hasLink || !link.V1
	if str(in, "port") != "transfer" {
		v2 = true
	}
	amt := parseAmount(str(in, "amount"))
	tkind := str(in, "timeout")
	var th clienttypes.Height
	var ts uint64
	if tkind == "nearh" && hasLink && !v2 {
		pc, _ := w.peerOf(link, c, id)
		th = clienttypes.NewHeight(1, uint64(w.chains[pc].ProposedHeader.Height)+12)
	} else {
		if tkind == "nearh" {
			tkind = "near"
		}
		th, ts = w.timeoutFor(tkind, c, v2)
	}
	msg := &transfertypes.MsgTransfer{
		SourcePort: str(in, "port"), SourceChannel: id,
		Token:  sdk.Coin{Denom: str(in, "denom"), Amount: amt},
		Sender: w.real(str(in, "sender")), Receiver: w.real(str(in, "receiver")),
		TimeoutHeight: th, TimeoutTimestamp: ts, Memo: str(in, "memo"),
		Encoding: str(in, "encoding"), UseAliasing: alias,
	}
	before := w.Snapshot(c)
	var res *abci.ExecTxResult
	var err error
	var events []abci.Event
	out := Safe(func() any {
		if boolean(in, "tx") {
			acc, ok := w.account(c, str(in, "signer"))
			if !ok {
				return M{"bad": "signer has no key on this chain"}
			}
			res, err = w.deliver(c, acc, msg)
			if res != nil {
				events = res.Events
			}
		} else {
			ctx := ch.GetContext()
			cctx, write := ctx.CacheContext()
			_, err = ch.GetSimApp().TransferKeeper.Transfer(cctx, msg)
			if err == nil {
				write()
				events = cctx.EventManager().ABCIEvents()
			}
			ch.NextBlock()
		}
		return nil
	})
	if out != nil {
		if m, ok := out.(M); ok && m["panic"] != nil {
			ch.NextBlock()
			return M{"r": "panic"}
		}
		return out
	}
	after := w.Snapshot(c)
	d := Delta(before, after)
	if err != nil || (res != nil && res.Code != 0) {
		if isPanicResult(res) {
			mon.failedOp(in, "transfer", d)
			return M{"r": "panic"}
		}
		mon.failedOp(in, "transfer", d)
		return M{"r": "err", "cls": classOf(res, err)}
	}
	// successful: record the packet
	p := &Pkt{Src: c, SrcID: id, V2: v2, link: link, TimeoutHeight: th, Sender: str(in, "sender"), Recvr: str(in, "receiver")}
	var data []byte
	if v2 {
		pk, perr := ibctesting.ParseV2PacketFromEvents(events)
		if perr != nil {
			return M{"bad": "no v2 packet in events: " + perr.Error()}
		}
		p.v2, p.Seq, p.DstID = pk, pk.Sequence, pk.DestinationClient
		p.TimeoutNs = pk.TimeoutTimestamp * 1_000_000_000
		data = pk.Payloads[0].Value
		if pk.Payloads[0].Encoding != transfertypes.EncodingJSON {
			ftpd, derr := transfertypes.UnmarshalPacketData(data, transfertypes.V1, pk.Payloads[0].Encoding)
			if derr != nil {
				return M{"bad": "cannot decode own packet"}
			}
			data, _ = json.Marshal(transfertypes.FungibleTokenPacketData{Denom: ftpd.Token.Denom.Path(), Amount: ftpd.Token.Amount, Sender: ftpd.Sender, Receiver: ftpd.Receiver, Memo: ftpd.Memo})
		}
	} else {
		pk, perr := ibctesting.ParseV1PacketFromEvents(events)
		if perr != nil {
			return M{"bad": "no v1 packet in events: " + perr.Error()}
		}
		p.v1, p.Seq, p.DstID = pk, pk.Sequence, pk.DestinationChannel
		p.TimeoutNs = pk.TimeoutTimestamp
		data = pk.Data
	}
	var ftpd transfertypes.FungibleTokenPacketData
	if jerr := json.Unmarshal(data, &ftpd); jerr != nil {
		return M{"bad": "packet data: " + jerr.Error()}
	}
	p.Denom, p.Amount = ftpd.Denom, parseAmount(ftpd.Amount)
	if hasLink {
		p.Dst, _ = w.peerOf(link, c, id)
	}
	p.sendDelta = signedDelta(before, after)
	w.pkts[pktKey(c, id, p.Seq)] = p
	w.order = append(w.order, p)
	mon.afterTransfer(w, in, p, before, after)
	return M{"r": "ok", "seq": U(p.Seq), "pkt": M{"denom": ftpd.Denom, "amount": ftpd.Amount, "sender": w.sym(ftpd.Sender),
		"receiver": w.sym(ftpd.Receiver), "dst": p.DstID, "v2": v2}, "delta": d}
}

// execSendV2 delivers a raw IBC v2 MsgSendPacket with one ICS-20 payload, signed by `signer`.
func (w *World) execSendV2(in M, mon *Monitors) any {
	c := num(in, "chain")
	id := str(in, "chan")
	link, hasLink := w.findLink(c, id)
	_, ts := w.timeoutFor(str(in, "timeout"), c, true)
	ftpd := transfertypes.FungibleTokenPacketData{Denom: str(in, "denom"), Amount: str(in, "amount"), Sender: w.real(str(in, "sender")),
		Receiver: w.real(str(in, "receiver")), Memo: str(in, "memo")}
	bz, _ := json.Marshal(ftpd)
	payload := channeltypesv2.NewPayload("transfer", "transfer", transfertypes.V1, transfertypes.EncodingJSON, bz)
	acc, ok := w.account(c, str(in, "signer"))
	if !ok {
		return M{"bad": "signer has no key on this chain"}
	}
	msg := channeltypesv2.NewMsgSendPacket(id, ts, acc.SenderAccount.GetAddress().String(), payload)
	before := w.Snapshot(c)
	res, err := w.deliver(c, acc, msg)
	after := w.Snapshot(c)
	d := Delta(before, after)
	if err != nil {
		mon.failedOp(in, "transfer", d)
		if isPanicResult(res) {
			return M{"r": "panic"}
		}
		return M{"r": "err", "cls": classOf(res, err)}
	}
	pk, perr := ibctesting.ParseV2PacketFromEvents(res.Events)
	if perr != nil {
		return M{"bad": "no v2 packet in events"}
	}
	p := &Pkt{Src: c, SrcID: id, V2: true, link: link, Sender: str(in, "sender"), Recvr: str(in, "receiver"), v2: pk, Seq: pk.Sequence,
		DstID: pk.DestinationClient, TimeoutNs: pk.TimeoutTimestamp * 1_000_000_000, Denom: ftpd.Denom, Amount: parseAmount(ftpd.Amount)}
	if hasLink {
		p.Dst, _ = w.peerOf(link, c, id)
	}
	p.sendDelta = signedDelta(before, after)
	w.pkts[pktKey(c, id, p.Seq)] = p
	w.order = append(w.order, p)
	mon.afterTransfer(w, in, p, before, after)
	return M{"r": "ok", "seq": U(p.Seq), "pkt": M{"denom": ftpd.Denom, "amount": ftpd.Amount, "sender": w.sym(ftpd.Sender),
		"receiver": w.sym(ftpd.Receiver), "dst": p.DstID, "v2": true}, "delta": d}
}

func (w *World) relayer(c int, in M) ibctesting.SenderAccount {
	if r := str(in, "relayer"); r != "" {
		if a, ok := w.account(c, r); ok {
			return a
		}
	}
	return w.chains[c].SenderAccounts[0]
}

func (w *World) lookup(in M) (*Pkt, bool) {
	p, ok := w.pkts[pktKey(num(in, "chain"), str(in, "chan"), u64(in, "seq"))]
	return p, ok
}

// Elapsed reports the harness's own verdict on whether the packet's timeout has passed on chain c
// (block about to be produced): +1 surely elapsed, -1 surely not, 0 too close to call.
func (w *World) Elapsed(p *Pkt, c int, committed bool) int {
	ch := w.chains[c]
	var now time.Time
	var height uint64
	if committed {
		now = ch.LatestCommittedHeader.GetTime()
		height = uint64(ch.LatestCommittedHeader.GetHeight().GetRevisionHeight())
	} else {
		now = w.coord.CurrentTime
		height = uint64(ch.ProposedHeader.Height)
	}
	verdict := -1
	if !p.TimeoutHeight.IsZero() {
		th := p.TimeoutHeight.RevisionHeight
		switch {
		case p.TimeoutHeight.RevisionNumber != 1:
			verdict = -1
		case height >= th+2:
			return 1
		case height+6 >= th:
			verdict = 0
		}
	}
	if p.TimeoutNs != 0 {
		t := time.Unix(0, int64(p.TimeoutNs))
		switch {
		case now.After(t.Add(2 * time.Minute)):
			return 1
		case now.Add(2 * time.Minute).After(t):
			return 0
		}
	}
	return verdict
}

func (w *World) execRecv(in M, mon *Monitors) any {
	p, ok := w.lookup(in)
	if !ok || p.link == nil {
		return M{"bad": "no such packet"}
	}
	_, dst := w.endpoints(p.link, p.Src)
	must(dst.UpdateClient())
	before := w.Snapshot(p.Dst)
	rel := w.relayer(p.Dst, in)
	var res *abci.ExecTxResult
	var err error
	if p.V2 {
		proof, ph := dst.Counterparty.QueryProof(hostv2.PacketCommitmentKey(p.v2.SourceClient, p.Seq))
		res, err = w.deliver(p.Dst, rel, channeltypesv2.NewMsgRecvPacket(p.v2, proof, ph, rel.SenderAccount.GetAddress().String()))
	} else {
		proof, ph := dst.Counterparty.QueryProof(host.PacketCommitmentKey(p.v1.SourcePort, p.v1.SourceChannel, p.Seq))
		res, err = w.deliver(p.Dst, rel, channeltypes.NewMsgRecvPacket(p.v1, proof, ph, rel.SenderAccount.GetAddress().String()))
	}
	after := w.Snapshot(p.Dst)
	d := Delta(before, after)
	if err != nil {
		mon.failedOp(in, "recv", d)
		if isPanicResult(res) {
			return M{"r": "panic"}
		}
		return M{"r": "err", "cls": classOf(res, err)}
	}
	// NOOP?
	if isNoop(res, p.V2, "recv") {
		mon.failedOp(in, "recv", d)
		return M{"r": "noop"}
	}
	p.Received = true
	out := M{"r": "ok", "delta": d}
	if p.V2 {
		ackBz, aerr := ibctesting.ParseAckV2FromEvents(res.Events)
		if aerr != nil {
			return M{"bad": "no v2 ack in events"}
		}
		must(proto.Unmarshal(ackBz, &p.ackV2))
		p.RecvOK = len(p.ackV2.AppAcknowledgements) == 1 && string(p.ackV2.AppAcknowledgements[0]) != string(channeltypesv2.ErrorAcknowledgement[:])
		if p.RecvOK {
			out["ack"] = "success"
		} else {
			out["ack"] = "error"
			out["code"] = "v2"
		}
	} else {
		ackBz, aerr := ibctesting.ParseAckFromEvents(res.Events)
		if aerr != nil {
			return M{"bad": "no ack in events"}
		}
		p.ackV1 = ackBz
		var ack channeltypes.Acknowledgement
		must(transfertypes.ModuleCdc.UnmarshalJSON(ackBz, &ack))
		p.RecvOK = ack.Success()
		if p.RecvOK {
			out["ack"] = "success"
		} else {
			out["ack"] = "error"
			if m := ackCodeRe.FindStringSubmatch(ack.GetError()); m != nil {
				out["code"] = m[1]
			} else {
				out["code"] = "?"
			}
		}
	}
	mon.afterRecv(w, in, p, before, after)
	return out
}

func isNoop(res *abci.ExecTxResult, v2 bool, kind string) bool {
	var msgData sdk.TxMsgData
	if err := proto.Unmarshal(res.Data, &msgData); err != nil || len(msgData.MsgResponses) == 0 {
		return false
	}
	bz := msgData.MsgResponses[0].Value
	switch {
	case v2 && kind == "recv":
		var r channeltypesv2.MsgRecvPacketResponse
		return proto.Unmarshal(bz, &r) == nil && r.Result == channeltypesv2.NOOP
	case v2 && kind == "ack":
		var r channeltypesv2.MsgAcknowledgementResponse
		return proto.Unmarshal(bz, &r) == nil && r.Result == channeltypesv2.NOOP
	case v2 && kind == "timeout":
		var r channeltypesv2.MsgTimeoutResponse
		return proto.Unmarshal(bz, &r) == nil && r.Result == channeltypesv2.NOOP
	case kind == "recv":
		var r channeltypes.MsgRecvPacketResponse
		return proto.Unmarshal(bz, &r) == nil && r.Result == channeltypes.NOOP
	case kind == "ack":
		var r channeltypes.MsgAcknowledgementResponse
		return proto.Unmarshal(bz, &r) == nil && r.Result == channeltypes.NOOP
	default:
		var r channeltypes.MsgTimeoutResponse
		return proto.Unmarshal(bz, &r) == nil && r.Result == channeltypes.NOOP
	}
}

func (w *World) execAck(in M, mon *Monitors) any {
	p, ok := w.lookup(in)
	if !ok || p.link == nil {
		return M{"bad": "no such packet"}
	}
	if !p.Received {
		return M{"bad": "not received"}
	}
	src, _ := w.endpoints(p.link, p.Src)
	must(src.UpdateClient())
	before := w.Snapshot(p.Src)
	rel := w.relayer(p.Src, in)
	var res *abci.ExecTxResult
	var err error
	if p.V2 {
		proof, ph := src.Counterparty.QueryProof(hostv2.PacketAcknowledgementKey(p.v2.DestinationClient, p.Seq))
		res, err = w.deliver(p.Src, rel, channeltypesv2.NewMsgAcknowledgement(p.v2, p.ackV2, proof, ph, rel.SenderAccount.GetAddress().String()))
	} else {
		proof, ph := src.Counterparty.QueryProof(host.PacketAcknowledgementKey(p.v1.DestinationPort, p.v1.DestinationChannel, p.Seq))
		res, err = w.deliver(p.Src, rel, channeltypes.NewMsgAcknowledgement(p.v1, p.ackV1, proof, ph, rel.SenderAccount.GetAddress().String()))
	}
	after := w.Snapshot(p.Src)
	d := Delta(before, after)
	if err != nil {
		mon.failedOp(in, "ack", d)
		if isPanicResult(res) {
			return M{"r": "panic"}
		}
		return M{"r": "err", "cls": classOf(res, err)}
	}
	if isNoop(res, p.V2, "ack") {
		mon.failedOp(in, "ack", d)
		return M{"r": "noop"}
	}
	p.Acked = true
	mon.afterAck(w, in, p, before, after)
	return M{"r": "ok", "delta": d}
}

func (w *World) execTimeout(in M, mon *Monitors) any {
	p, ok := w.lookup(in)
	if !ok || p.link == nil {
		return M{"bad": "no such packet"}
	}
	src, _ := w.endpoints(p.link, p.Src)
	w.coord.CommitBlock(w.chains[p.Dst])
	must(src.UpdateClient())
	before := w.Snapshot(p.Src)
	rel := w.relayer(p.Src, in)
	var res *abci.ExecTxResult
	var err error
	if p.V2 {
		proof, ph := src.Counterparty.QueryProof(hostv2.PacketReceiptKey(p.v2.DestinationClient, p.Seq))
		res, err = w.deliver(p.Src, rel, channeltypesv2.NewMsgTimeout(p.v2, proof, ph, rel.SenderAccount.GetAddress().String()))
	} else {
		proof, ph := src.Counterparty.QueryProof(host.PacketReceiptKey(p.v1.DestinationPort, p.v1.DestinationChannel, p.Seq))
		res, err = w.deliver(p.Src, rel, channeltypes.NewMsgTimeout(p.v1, 1, proof, ph, rel.SenderAccount.GetAddress().String()))
	}
	after := w.Snapshot(p.Src)
	d := Delta(before, after)
	if err != nil {
		mon.failedOp(in, "timeout", d)
		if isPanicResult(res) {
			return M{"r": "panic"}
		}
		return M{"r": "err", "cls": classOf(res, err)}
	}
	if isNoop(res, p.V2, "timeout") {
		mon.failedOp(in, "timeout", d)
		return M{"r": "noop"}
	}
	p.TimedOut = true
	mon.afterTimeout(w, in, p, before, after)
	return M{"r": "ok", "delta": d}
}

func (w *World) execBankSend(in M, mon *Monitors) any {
	c := num(in, "chain")
	acc, ok := w.account(c, str(in, "from"))
	if !ok {
		return M{"bad": "no key"}
	}
	to, err := sdk.AccAddressFromBech32(w.real(str(in, "to")))
	if err != nil {
		return M{"bad": "bad to"}
	}
	before := w.Snapshot(c)
	coin := sdk.Coin{Denom: str(in, "denom"), Amount: parseAmount(str(in, "amount"))}
	res, err := w.deliver(c, acc, banktypes.NewMsgSend(acc.SenderAccount.GetAddress(), to, sdk.Coins{coin}))
	after := w.Snapshot(c)
	d := Delta(before, after)
	if err != nil {
		mon.failedOp(in, "banksend", d)
		return M{"r": "err", "cls": classOf(res, err)}
	}
	if strings.HasPrefix(str(in, "to"), "esc:") {
		k := str(in, "to") + "|" + coin.Denom
		w.donated[c][k] = get(w.donated[c], k).Add(coin.Amount)
	}
	mon.afterBankSend(w, in, before, after)
	return M{"r": "ok", "delta": d}
}

// Advance moves the clock forward on all chains and commits a block on each, so that consensus states
// with the later time exist.
func (w *World) Advance(d time.Duration, blocks int) {
	if d > 0 {
		w.coord.IncrementTimeBy(d)
	}
	for k := 0; k < blocks; k++ {
		for _, ch := range w.chains {
			w.coord.CommitBlock(ch)
		}
	}
}

// ResetRequest describes this world to the model.
func (w *World) ResetRequest() M {
	links := []M{}
	for _, l := range w.links {
		links = append(links, M{"a": l.A, "aid": l.AID, "b": l.B, "bid": l.BID, "v1": l.V1})
	}
	book := []M{}
	for _, n := range w.names {
		addr, _ := sdk.AccAddressFromBech32(w.book[n])
		bl := []bool{}
		for _, ch := range w.chains {
			bl = append(bl, ch.GetSimApp().BankKeeper.BlockedAddr(addr))
		}
		book = append(book, M{"name": n, "blocked": bl})
	}
	bal, sup := [][]any{}, [][]any{}
	for c := range w.chains {
		s := w.Snapshot(c)
		keys := SortedKeys(s.Bal)
		for _, k := range keys {
			n, d := splitKey(k)
			bal = append(bal, []any{c, n, d, s.Bal[k].String()})
		}
		for _, d := range SortedKeys(s.Sup) {
			sup = append(sup, []any{c, d, s.Sup[d].String()})
		}
	}
	return M{"f": "reset", "chains": len(w.chains), "links": links, "book": book, "bal": bal, "sup": sup, "hoplike": w.hoplike, "natives": w.nativeList}
}

var errNotFound = errors.New("not found")
