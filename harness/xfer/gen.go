package xfer

import (
	"fmt"
	"strings"

	sdkmath "cosmossdk.io/math"

	. "verif/harness/lib"
)

// ground-truth classes of core IBC's verdicts in situations the harness creates on purpose
// (the model echoes them; what is compared is *whether* and *when* core rejects)
const (
	coreSendPastV1    = "channel/40"
	coreSendPastV2    = "channelv2/9"
	coreSendZeroV1    = "channel/13"
	coreSendZeroV2    = "channelv2/8"
	coreRecvElapsedV1 = "channel/40"
	coreRecvElapsedV2 = "channelv2/9"
	coreRecvGoneV1    = "commitment/2"
	coreRecvGoneV2    = "commitment/2"
	coreTimeoutEarlyV1 = "channel/39"
	coreTimeoutEarlyV2 = "channelv2/10"
	coreTimeoutRecvdV1 = "commitment/2"
	coreTimeoutRecvdV2 = "commitment/2"
)

var hopFreeNatives = [][]string{
	{"uatom", "gamm/pool/1", "factory/cosmos1abc/utok"},
	{"uosmo", "a/b/c"},
	{"ujuno", "x:y.z_w-v/q"},
}

var hopLikeNatives = [][]string{
	{"uatom", "transfer/channel-1/uatom", "transfer/channel-0/ufoo", "ab/channel-1", "transfer/channel-7/x", "transfer/07-tendermint-0/ufoo"},
	{"uosmo", "transfer/channel-2/uosmo", "xy/channel-0", "transfer/channel-1/ab"},
	{"ujuno", "transfer/channel-1/transfer/channel-2/ujuno"},
}

type Gen struct {
	r   *Rng
	w   *World
	mon *Monitors
	out func(in M, res any)
}

func (g *Gen) do(in M) any {
	g.mon.hist = append(g.mon.hist, in)
	res := g.w.Exec(in, g.mon)
	if str(in, "f") == "transfer" {
		if m, ok := res.(M); ok && m["r"] == "err" {
			g.mon.failedTransfer(g.w, in, m["cls"].(string), nil)
		}
	}
	g.out(in, res)
	return res
}

func (g *Gen) localUser(c int) string { return fmt.Sprintf("%s%d", chainLetters[c], 1+g.r.Intn(4)) }

// ends returns the channel/client ids usable on chain c with their link
func (g *Gen) ends(c int) []struct {
	id string
	l  *Link
} {
	out := []struct {
		id string
		l  *Link
	}{}
	for _, l := range g.w.links {
		if l.A == c {
			out = append(out, struct {
				id string
				l  *Link
			}{l.AID, l})
		}
		if l.B == c {
			out = append(out, struct {
				id string
				l  *Link
			}{l.BID, l})
		}
	}
	return out
}

func (g *Gen) receiver(peer int) string {
	switch x := g.r.Intn(100); {
	case x < 68:
		return fmt.Sprintf("%s%d", chainLetters[peer], g.r.Intn(5))
	case x < 74:
		return Pick(g.r, []string{"mod:mint", "mod:distribution"})
	case x < 78:
		return Pick(g.r, []string{"notanaddress", "cosmos1qqqq", "osmo1clpqr4nrk4khgkxj78fcwwh6dl3uw4ep88n0y4", "0x1234"})
	case x < 83:
		es := g.ends(peer)
		return escName("transfer", es[g.r.Intn(len(es))].id)
	case x < 88:
		return Pick(g.r, []string{"fresh1", "fresh2"})
	case x < 92:
		return "mod:transfer"
	case x < 94:
		return "mod:gov"
	case x < 96:
		return Pick(g.r, []string{" ", "\t", ""})
	default:
		// an account of a third chain (a valid address everywhere)
		return fmt.Sprintf("%s%d", chainLetters[g.r.Intn(3)], g.r.Intn(5))
	}
}

func (g *Gen) amount(bal sdkmath.Int) string {
	switch x := g.r.Intn(100); {
	case x < 50:
		return U(uint64(1 + g.r.Intn(5000)))
	case x < 58:
		return bal.String()
	case x < 66:
		return "115792089237316195423570985008687907853269984665640564039457584007913129639935" // 2^256-1: entire balance
	case x < 70:
		return "0"
	case x < 74:
		return bal.AddRaw(1).String()
	case x < 78:
		return "9223372036854775808" // 2^63
	case x < 82:
		return "1"
	case x < 86:
		if bal.IsPositive() {
			return bal.QuoRaw(2).AddRaw(1).String()
		}
		return "7"
	default:
		return U(uint64(1 + g.r.Intn(1_000_000)))
	}
}

func (g *Gen) genTransfer() {
	w := g.w
	c := g.r.Intn(3)
	sender := g.localUser(c)
	snap := w.Snapshot(c)
	// denominations the sender holds
	held := []string{}
	for k, v := range snap.Bal {
		n, d := splitKey(k)
		if n == sender && v.IsPositive() && d != "stake" {
			held = append(held, d)
		}
	}
	if len(held) == 0 {
		return
	}
	sortStrings(held)
	vouchers := []string{}
	for _, d := range held {
		if strings.HasPrefix(d, "ibc/") {
			vouchers = append(vouchers, d)
		}
	}
	denom := held[g.r.Intn(len(held))]
	if len(vouchers) > 0 && g.r.Chance(0.5) {
		denom = vouchers[g.r.Intn(len(vouchers))]
	}
	ends := g.ends(c)
	e := ends[g.r.Intn(len(ends))]
	// send a voucher back over the channel it came from, half of the time
	if strings.HasPrefix(denom, "ibc/") && g.r.Chance(0.55) {
		ch := w.chains[c]
		if d, err := ch.GetSimApp().TransferKeeper.GetDenomFromIBCDenom(ch.GetContext(), denom); err == nil && len(d.Trace) > 0 {
			for _, x := range ends {
				if x.id == d.Trace[0].ChannelId {
					e = x
				}
			}
		}
	}
	// a native denomination shaped like a voucher path of one of this chain's own channel ends
	// ("transfer/<end>/rest"): send it over exactly that end most of the time, so that a refund re-parses
	// the packet denomination as a voucher of the sending channel (the case the MsgTransfer guard exists for)
	if w.hoplike && !strings.HasPrefix(denom, "ibc/") {
		var mine []string
		for _, d := range held {
			if seg := strings.Split(d, "/"); len(seg) >= 3 && seg[0] == "transfer" {
				for _, x := range ends {
					if x.id == seg[1] {
						mine = append(mine, d)
					}
				}
			}
		}
		if len(mine) > 0 && g.r.Chance(0.25) {
			denom = mine[g.r.Intn(len(mine))]
		}
		if seg := strings.Split(denom, "/"); len(seg) >= 3 && seg[0] == "transfer" && g.r.Chance(0.6) {
			for _, x := range ends {
				if x.id == seg[1] {
					e = x
				}
			}
		}
	}
	peer, _ := w.peerOf(e.l, c, e.id)
	in := M{"f": "transfer", "chain": c, "port": "transfer", "chan": e.id, "denom": denom,
		"amount": g.amount(get(snap.Bal, sender+"|"+denom)), "sender": sender, "signer": sender, "tx": true,
		"receiver": g.receiver(peer), "memo": "", "alias": false, "encoding": "", "timeout": "far", "coreErr": ""}
	if g.r.Chance(0.04) {
		in["denom"] = Pick(g.r, []string{"ibc/27394FB092D2ECCD56123C74F36E4C1F926001CEADA9CA97EA622B25F41E5EB2", "nosuchdenom", "ibc/zz", "ibc/", "ibc", strings.ToLower(denom)})
	}
	if e.l.V1 && g.r.Chance(0.3) {
		in["alias"] = true
	}
	v2 := in["alias"].(bool) || !e.l.V1
	if g.r.Chance(0.03) {
		in["port"] = Pick(g.r, []string{"icahost", "transfer2", "t"})
		v2 = true
	}
	unknown := false
	if g.r.Chance(0.03) {
		in["chan"] = Pick(g.r, []string{"channel-99", "07-tendermint-77", "mychannel00", "channel-1x"})
		in["alias"] = false
		v2, unknown = true, true
	}
	if v2 && g.r.Chance(0.3) {
		in["encoding"] = Pick(g.r, []string{"application/json", "application/x-protobuf", "application/x-solidity-abi", "application/x-solidity-abi", "text/plain"})
	}
	if !unknown {
		switch x := g.r.Intn(100); {
		case x < 55:
		case x < 85:
			in["timeout"] = "near"
		case x < 92:
			in["timeout"] = "nearh"
		case x < 96:
			in["timeout"] = "past"
			if v2 {
				in["coreErr"] = coreSendPastV2
			} else {
				in["coreErr"] = coreSendPastV1
			}
		default:
			in["timeout"] = "zero"
			if v2 {
				in["coreErr"] = coreSendZeroV2
			} else {
				in["coreErr"] = coreSendZeroV1
			}
		}
	}
	if g.r.Chance(0.08) {
		// signer / sender mismatch
		other := g.localUser(c)
		if g.r.Bool() {
			in["signer"] = other
		} else {
			in["sender"] = other
		}
	}
	if g.r.Chance(0.04) {
		in["tx"] = false // msg server called directly (no ValidateBasic, no signature check)
		if g.r.Bool() {
			in["sender"] = Pick(g.r, []string{"notanaddress", "fresh1", "mod:mint", "mod:transfer"})
		}
	}
	g.do(in)
}

// genSendV2: a raw v2 MsgSendPacket; the payload's sender is the signer most of the time
func (g *Gen) genSendV2() {
	w := g.w
	c := g.r.Intn(3)
	signer := g.localUser(c)
	snap := w.Snapshot(c)
	held := []string{}
	for k, v := range snap.Bal {
		n, d := splitKey(k)
		if n == signer && v.IsPositive() && d != "stake" {
			held = append(held, d)
		}
	}
	if len(held) == 0 {
		return
	}
	sortStrings(held)
	denom := held[g.r.Intn(len(held))]
	path := denom
	if strings.HasPrefix(denom, "ibc/") {
		ch := w.chains[c]
		d, err := ch.GetSimApp().TransferKeeper.GetDenomFromIBCDenom(ch.GetContext(), denom)
		if err != nil {
			return
		}
		path = d.Path()
	}
	ends := g.ends(c)
	e := ends[g.r.Intn(len(ends))]
	peer, _ := w.peerOf(e.l, c, e.id)
	in := M{"f": "sendv2", "chain": c, "chan": e.id, "denom": path, "amount": g.amount(get(snap.Bal, signer+"|"+denom)),
		"sender": signer, "signer": signer, "tx": true, "receiver": g.receiver(peer), "memo": "", "timeout": "far", "coreErr": ""}
	if in["amount"] == "115792089237316195423570985008687907853269984665640564039457584007913129639935" {
		in["amount"] = "17"
	}
	if g.r.Chance(0.4) {
		in["timeout"] = "near"
	}
	switch x := g.r.Intn(10); {
	case x < 3:
		in["sender"] = g.localUser(c) // possibly someone else's tokens
	case x < 4:
		in["sender"] = Pick(g.r, []string{"notanaddress", "mod:transfer", fmt.Sprintf("%s%d", chainLetters[peer], 1)})
	}
	g.do(in)
}

func sortStrings(s []string) {
	for i := 1; i < len(s); i++ {
		for j := i; j > 0 && s[j] < s[j-1]; j-- {
			s[j], s[j-1] = s[j-1], s[j]
		}
	}
}

func (g *Gen) pick(filter func(p *Pkt) bool) *Pkt {
	c := []*Pkt{}
	for _, p := range g.w.order {
		if p.link != nil && filter(p) {
			c = append(c, p)
		}
	}
	if len(c) == 0 {
		return nil
	}
	return c[g.r.Intn(len(c))]
}

func (g *Gen) ref(f string, p *Pkt) M {
	in := M{"f": f, "chain": p.Src, "chan": p.SrcID, "seq": U(p.Seq)}
	if g.r.Chance(0.5) {
		c := p.Src
		if f == "recv" {
			c = p.Dst
		}
		in["relayer"] = fmt.Sprintf("%s%d", chainLetters[c], g.r.Intn(5))
	}
	return in
}

func (g *Gen) genRecv(any bool) {
	p := g.pick(func(p *Pkt) bool { return any || !p.Received })
	if p == nil {
		return
	}
	v := g.w.Elapsed(p, p.Dst, false)
	if v == 0 {
		return
	}
	in := g.ref("recv", p)
	in["elapsed"] = v > 0
	in["coreErr"] = ""
	switch {
	case v > 0:
		in["coreErr"] = map[bool]string{false: coreRecvElapsedV1, true: coreRecvElapsedV2}[p.V2]
	case p.Acked || p.TimedOut:
		// the commitment is gone: v1 fails the proof before its replay check; v2 answers NOOP first
		in["coreErr"] = map[bool]string{false: coreRecvGoneV1, true: coreRecvGoneV2}[p.V2]
	}
	g.do(in)
}

func (g *Gen) genAck(any bool) {
	p := g.pick(func(p *Pkt) bool { return p.Received && (any || !p.Acked) })
	if p == nil {
		return
	}
	g.do(g.ref("ack", p))
}

func (g *Gen) genTimeout() {
	p := g.pick(func(p *Pkt) bool { return !p.Acked && !p.TimedOut && (p.TimeoutNs != 0 || !p.TimeoutHeight.IsZero()) })
	if p == nil || g.r.Chance(0.1) {
		p = g.pick(func(p *Pkt) bool { return true })
	}
	if p == nil {
		return
	}
	if g.r.Chance(0.6) {
		g.do(M{"f": "advance", "minutes": 60, "blocks": 1})
	}
	// the proof is taken at the destination's latest committed block; make sure one exists at "now"
	g.do(M{"f": "advance", "minutes": 0, "blocks": 1})
	v := g.w.Elapsed(p, p.Dst, true)
	if v == 0 {
		return
	}
	in := g.ref("timeout", p)
	in["elapsed"] = v > 0
	in["coreErr"] = ""
	switch {
	case v < 0:
		in["coreErr"] = map[bool]string{false: coreTimeoutEarlyV1, true: coreTimeoutEarlyV2}[p.V2]
	case p.Acked || p.TimedOut:
	case p.Received:
		in["coreErr"] = map[bool]string{false: coreTimeoutRecvdV1, true: coreTimeoutRecvdV2}[p.V2]
	}
	g.do(in)
}

func (g *Gen) genBankSend() {
	c := g.r.Intn(3)
	from := g.localUser(c)
	snap := g.w.Snapshot(c)
	held := []string{}
	for k, v := range snap.Bal {
		n, d := splitKey(k)
		if n == from && v.IsPositive() && d != "stake" {
			held = append(held, d)
		}
	}
	if len(held) == 0 {
		return
	}
	sortStrings(held)
	d := held[g.r.Intn(len(held))]
	to := g.localUser(c)
	switch x := g.r.Intn(10); {
	case x < 3:
		es := g.ends(c)
		to = escName("transfer", es[g.r.Intn(len(es))].id)
	case x < 4:
		to = Pick(g.r, []string{"mod:mint", "mod:transfer", "mod:gov", "fresh1"})
	}
	amt := U(uint64(1 + g.r.Intn(3000)))
	if g.r.Chance(0.1) {
		amt = get(snap.Bal, from+"|"+d).AddRaw(1).String()
	}
	g.do(M{"f": "banksend", "chain": c, "from": from, "to": to, "denom": d, "amount": amt})
}

// happy: an honest transfer relayed at once (recv + ack). back = send a held voucher home.
func (g *Gen) happy(back bool) {
	w := g.w
	c := g.r.Intn(3)
	ends := g.ends(c)
	for try := 0; try < 6; try++ {
		sender := g.localUser(c)
		snap := w.Snapshot(c)
		held := []string{}
		for k, v := range snap.Bal {
			n, d := splitKey(k)
			if n == sender && v.IsPositive() && d != "stake" && strings.HasPrefix(d, "ibc/") == back {
				held = append(held, d)
			}
		}
		if len(held) == 0 {
			c = g.r.Intn(3)
			ends = g.ends(c)
			continue
		}
		sortStrings(held)
		denom := held[g.r.Intn(len(held))]
		e := ends[g.r.Intn(len(ends))]
		if back {
			ch := w.chains[c]
			d, err := ch.GetSimApp().TransferKeeper.GetDenomFromIBCDenom(ch.GetContext(), denom)
			if err != nil || len(d.Trace) == 0 {
				continue
			}
			found := false
			for _, x := range ends {
				if x.id == d.Trace[0].ChannelId {
					e, found = x, true
				}
			}
			if !found {
				continue
			}
		}
		if !hopFree(denom) {
			continue
		}
		peer, _ := w.peerOf(e.l, c, e.id)
		amt := get(snap.Bal, sender+"|"+denom)
		if amt.GT(sdkmath.NewInt(5000)) {
			amt = sdkmath.NewInt(int64(1 + g.r.Intn(5000)))
		}
		in := M{"f": "transfer", "chain": c, "port": "transfer", "chan": e.id, "denom": denom, "amount": amt.String(),
			"sender": sender, "signer": sender, "tx": true, "receiver": fmt.Sprintf("%s%d", chainLetters[peer], 1+g.r.Intn(4)),
			"memo": "", "alias": e.l.V1 && g.r.Chance(0.3), "encoding": "", "timeout": "far", "coreErr": ""}
		res, _ := g.do(in).(M)
		if res["r"] != "ok" {
			return
		}
		seq := res["seq"]
		if g.r.Chance(0.85) {
			g.do(M{"f": "recv", "chain": c, "chan": e.id, "seq": seq, "elapsed": false, "coreErr": ""})
			if g.r.Chance(0.8) {
				g.do(M{"f": "ack", "chain": c, "chan": e.id, "seq": seq})
			}
		}
		return
	}
}

// History runs one history of about n ops on a fresh world.
func (g *Gen) History(n int) {
	g.do(g.w.ResetRequest())
	for i := 0; i < 5; i++ {
		g.happy(false)
	}
	for i := 0; i < n; i++ {
		switch x := g.r.Intn(100); {
		case x < 5:
			g.genSendV2()
		case x < 13:
			g.happy(g.r.Chance(0.75))
		case x < 36:
			g.genTransfer()
		case x < 60:
			g.genRecv(g.r.Chance(0.15))
		case x < 76:
			g.genAck(g.r.Chance(0.2))
		case x < 86:
			g.genTimeout()
		case x < 89:
			c := g.r.Intn(3)
			g.do(M{"f": "params", "chain": c, "send": g.r.Chance(0.6), "recv": g.r.Chance(0.6)})
		case x < 94:
			g.genBankSend()
		case x < 97:
			g.do(M{"f": "advance", "minutes": 1 + g.r.Intn(90), "blocks": 1})
		default:
			g.do(M{"f": "view", "chain": g.r.Intn(3)})
		}
	}
	// drain: bring every packet to a terminal state, then compare the full views
	for c := 0; c < 3; c++ {
		g.do(M{"f": "params", "chain": c, "send": true, "recv": true})
	}
	for _, p := range g.w.order {
		if p.link == nil || p.Acked || p.TimedOut {
			continue
		}
		if !p.Received {
			if v := g.w.Elapsed(p, p.Dst, false); v < 0 {
				in := g.ref("recv", p)
				in["elapsed"], in["coreErr"] = false, ""
				g.do(in)
			} else {
				g.do(M{"f": "advance", "minutes": 120, "blocks": 16})
				if g.w.Elapsed(p, p.Dst, true) > 0 {
					in := g.ref("timeout", p)
					in["elapsed"], in["coreErr"] = true, ""
					g.do(in)
				}
			}
		}
		if p.Received && !p.Acked {
			g.do(g.ref("ack", p))
		}
	}
	for c := 0; c < 3; c++ {
		g.do(M{"f": "view", "chain": c})
	}
}
