// Package xfer: ICS-20 token transfer on real ibctesting chains, compared with the Lean model
// (engine "xfer" of the xfermodel executable).
package xfer

import (
	"fmt"
	"testing"
	"time"

	ibctesting "github.com/cosmos/ibc-go/v11/testing"
)

func Main() int {
	t0 := time.Now()
	coord := ibctesting.NewCoordinator(&testing.T{}, 3)
	a, b := coord.GetChain(ibctesting.GetChainID(1)), coord.GetChain(ibctesting.GetChainID(2))
	p := ibctesting.NewTransferPath(a, b)
	p.Setup()
	fmt.Println(p.EndpointA.ChannelID, p.EndpointB.ChannelID, time.Since(t0))
	return 0
}
