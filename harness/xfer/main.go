// Package xfer: ICS-20 token transfer on real ibctesting chains, compared with the Lean model
// (engine "xfer" of the xfermodel executable).
//
//	xfer -groups denom,world,hoplike,findings -n 300 -monitor 300 -cases c.jsonl -violations v.jsonl
//	xfer -replay requests.jsonl -cases c.jsonl
//
// Groups: denom    stateless denomination algebra (C34, C42, C33 pure parts)
//
//	world    random histories on three chains, hop-free native denominations
//	hoplike  the same with native denominations shaped like voucher paths (known findings F3)
//	findings deterministic replays of the witnesses of the `_full_false` theorems
package xfer

import (
	"bufio"
	"encoding/json"
	"flag"
	"fmt"
	"os"
	"strings"

	. "verif/harness/lib"
)

func Main() int {
	groups := flag.String("groups", "", "comma-separated group names (empty = all)")
	n := flag.Int("n", 200, "iterations (denom: request bundles; world groups: ops)")
	mon := flag.Int("monitor", 200, "monitor iterations (denom group)")
	casesPath := flag.String("cases", "cases.jsonl", "output: correspondence cases")
	violPath := flag.String("violations", "violations.jsonl", "output: monitor violations")
	replay := flag.String("replay", "", "evaluate the requests of this JSON-lines file instead of generating")
	flag.Parse()
	cs, err := NewSink(*casesPath)
	if err != nil {
		fmt.Fprintln(os.Stderr, err)
		return 2
	}
	if *replay != "" {
		doReplay(*replay, cs)
		cs.Close()
		fmt.Printf("cases=%d\n", cs.N)
		return 0
	}
	vs, err := NewSink(*violPath)
	if err != nil {
		fmt.Fprintln(os.Stderr, err)
		return 2
	}
	want := map[string]bool{}
	for _, g := range strings.Split(*groups, ",") {
		if g != "" {
			want[g] = true
		}
	}
	on := func(g string) bool { return len(want) == 0 || want[g] }
	seed := EnvSeed()
	perKey := map[string]int{}
	report := func(v Viol) {
		k := v.Property + "|" + v.Key + "|" + v.What
		perKey[k]++
		if perKey[k] <= 3 {
			vs.Put(v)
		}
	}
	put := func(in M, out any) { cs.Put(Case{In: in, Out: out}) }
	if on("denom") {
		r := NewRng(seed ^ 0xD0)
		GenDenom(r.Fork(), *n, put)
		MonitorDenom(r.Fork(), *mon, report)
	}
	if on("findings") {
		Findings(put, report)
	}
	for _, grp := range []string{"world", "hoplike"} {
		if !on(grp) {
			continue
		}
		r := NewRng(seed ^ uint64(len(grp))*0x9E37)
		left := *n
		for left > 0 {
			k := 60 + r.Intn(60)
			if k > left {
				k = left
			}
			left -= k
			natives := hopFreeNatives
			if grp == "hoplike" {
				natives = hopLikeNatives
			}
			w := NewWorld(natives, grp == "hoplike")
			m := &Monitors{report: report, strict: true}
			m.initSup = initialSupplies(w)
			g := &Gen{r: r.Fork(), w: w, mon: m, out: put}
			g.History(k)
		}
	}
	cs.Close()
	vs.Close()
	fmt.Printf("cases=%d violations=%d\n", cs.N, vs.N)
	return 0
}

func doReplay(path string, cs *Sink) {
	f, err := os.Open(path)
	if err != nil {
		fmt.Fprintln(os.Stderr, err)
		os.Exit(2)
	}
	defer f.Close()
	sc := bufio.NewScanner(f)
	sc.Buffer(make([]byte, 1<<20), 1<<26)
	var w *World
	mon := &Monitors{}
	for sc.Scan() {
		var in M
		if err := json.Unmarshal(sc.Bytes(), &in); err != nil {
			continue
		}
		if inner, ok := in["in"].(map[string]any); ok {
			in = inner
		}
		var out any
		switch {
		case str(in, "f") == "reset":
			nat := [][]string{}
			if l, ok := in["natives"].([]any); ok {
				for _, x := range l {
					row := []string{}
					if xs, ok := x.([]any); ok {
						for _, y := range xs {
							s, _ := y.(string)
							row = append(row, s)
						}
					}
					nat = append(nat, row)
				}
			}
			for len(nat) < 3 {
				nat = append(nat, nil)
			}
			w = NewWorld(nat, boolean(in, "hoplike"))
			out = M{"r": "ok"}
			in = w.ResetRequest()
		case isPure(str(in, "f")):
			out = EvalPure(in)
		case w == nil:
			out = M{"bad": "no world"}
		default:
			out = Safe(func() any { return w.Exec(in, mon) })
		}
		cs.Put(Case{In: in, Out: out})
	}
}
