// Package xfer: ICS-20 token transfer on real ibctesting chains, compared with the Lean model
// (engine "xfer" of the xfermodel executable).
package xfer

import (
	"fmt"

	ibctesting "github.com/cosmos/ibc-go/v11/testing"
)

func Main() int {
	fmt.Println(ibctesting.FirstChannelID)
	return 0
}
