package xfer

import (
	"fmt"

	sdkmath "cosmossdk.io/math"

	ratelimitkeeper "github.com/cosmos/ibc-go/v11/modules/apps/rate-limiting/keeper"
	transfertypes "github.com/cosmos/ibc-go/v11/modules/apps/transfer/types"
	channeltypes "github.com/cosmos/ibc-go/v11/modules/core/04-channel/types"

	. "verif/harness/lib"
)

// Findings replays, against the real modules, the witnesses of the `_full_false` theorems
// (DESIGN §6 F3 / F5 and the two-segment variant).  Every confirmed witness is reported with its
// stable key (matched against known_findings.json by bin/check); the histories are also emitted as
// correspondence cases, so the model is compared with the code on exactly these paths.
func Findings(put func(M, any), report func(Viol)) {
	// ---- F5 (C42): counterparty channel id not in ibc-go's format -----------------------------
	{
		sp, sc, dp, dc, denom := "transfer", "mychannel00", "transfer", "channel-0", "transfer/mychannel00/uatom"
		in1 := M{"f": "rl.recv", "sp": sp, "sc": sc, "dp": dp, "dc": dc, "denom": denom}
		in2 := M{"f": "ics20.recv", "sp": sp, "sc": sc, "dp": dp, "dc": dc, "denom": denom}
		o1, o2 := EvalPure(in1), EvalPure(in2)
		put(in1, o1)
		put(in2, o2)
		charged := o1.(M)["ok"]
		if m, ok := o2.(M); ok && m["coin"] != nil && m["coin"] != charged {
			report(Viol{Property: "C42", Key: "C42:foreign-channel-id-format",
				What:  "receive from a counterparty channel id that is not channel-N/<type>-N: rate limiter strips the prefix by string match, ICS-20 mints a voucher",
				Input: in2, Observed: M{"charged": charged, "moved": m["coin"], "mode": m["mode"]}, Requests: []M{in1, in2}})
		}
	}
	// ---- two-segment base (C42 receive) ----------------------------------------------------------
	{
		in1 := M{"f": "rl.recv", "sp": "transfer", "sc": "channel-0", "dp": "transfer", "dc": "channel-5", "denom": "ab/channel-1"}
		in2 := M{"f": "ics20.recv", "sp": "transfer", "sc": "channel-0", "dp": "transfer", "dc": "channel-5", "denom": "ab/channel-1"}
		o1, o2 := EvalPure(in1), EvalPure(in2)
		put(in1, o1)
		put(in2, o2)
		charged := o1.(M)["ok"]
		if m, ok := o2.(M); ok && m["coin"] != nil && m["coin"] != charged {
			report(Viol{Property: "C42", Key: "C42:hoplike-native-base",
				What:  "receive of the two-segment base ab/channel-1: rate limiter hashes the path with a trailing slash, ICS-20 mints the voucher of the path without it",
				Input: in2, Observed: M{"charged": charged, "moved": m["coin"]}, Requests: []M{in1, in2}})
		}
	}
	// ---- F3 on real chains -----------------------------------------------------------------------
	// the world is built first so that the channel ids are known; the hop-like natives are named after them
	cA, cB := "channel-1", "channel-2" // the v1 channel A(0) <-> B(1) of every world (world.go)
	fake := "transfer/" + cA + "/ufoo" // on A: native coin named like "ufoo received over cA"
	two := "ab/" + cB
	w := NewWorld([][]string{{fake, two, "transfer/channel-7/x"}, {}, {}}, true)
	mon := &Monitors{}
	var hist []M
	do := func(in M) M {
		hist = append(hist, in)
		out := w.Exec(in, mon)
		put(in, out)
		m, _ := out.(M)
		return m
	}
	do(w.ResetRequest())
	tr := func(c int, ch, denom, amt, from, to string) M {
		return do(M{"f": "transfer", "chain": c, "port": "transfer", "chan": ch, "denom": denom, "amount": amt, "sender": from, "signer": from,
			"tx": true, "receiver": to, "memo": "", "alias": false, "encoding": "", "timeout": "near", "coreErr": ""})
	}
	relay := func(c int, ch string, seq any) (M, M) {
		r := do(M{"f": "recv", "chain": c, "chan": ch, "seq": seq, "elapsed": false, "coreErr": ""})
		a := do(M{"f": "ack", "chain": c, "chan": ch, "seq": seq})
		return r, a
	}
	bal := func(c int, name, denom string) sdkmath.Int { return get(w.Snapshot(c).Bal, name+"|"+denom) }

	// (1) C42 send: the native coin transfer/channel-7/x
	{
		before := bal(0, "A1", "transfer/channel-7/x")
		r := tr(0, cA, "transfer/channel-7/x", "5", "A1", "B1")
		if r["r"] == "ok" {
			moved := before.Sub(bal(0, "A1", "transfer/channel-7/x"))
			charged := ratelimitkeeper.ParseDenomFromSendPacket(transfertypes.FungibleTokenPacketData{Denom: "transfer/channel-7/x"})
			if moved.Equal(sdkmath.NewInt(5)) && charged != "transfer/channel-7/x" {
				report(Viol{Property: "C42", Key: "C42:hoplike-native-base",
					What:     "send of the native coin transfer/channel-7/x: ICS-20 escrows that coin, the rate limiter charges ibc/HASH(transfer/channel-7/x)",
					Input:    hist[len(hist)-1], Observed: M{"charged": charged, "moved": "transfer/channel-7/x"}, Requests: append([]M{}, hist...)})
			}
		}
	}
	// (2) C30: B's real ufoo, escrowed for A, is released against A's look-alike native coin
	{
		r := tr(1, cB, "ufoo", "1000", "B1", "A2") // honest: B escrows 1000 ufoo, A2 gets a voucher
		relay(1, cB, r["seq"])
		escBefore := bal(1, escName("transfer", cB), "ufoo")
		b3 := bal(1, "B3", "ufoo")
		r2 := tr(0, cA, fake, "400", "A1", "B3") // A1 sends 400 of the look-alike native coin
		rr, _ := relay(0, cA, r2["seq"])
		escAfter := bal(1, escName("transfer", cB), "ufoo")
		if rr["ack"] == "success" && escBefore.Sub(escAfter).Equal(sdkmath.NewInt(400)) && bal(1, "B3", "ufoo").Sub(b3).Equal(sdkmath.NewInt(400)) {
			voucher := voucherOf(cA, "ufoo")
			report(Viol{Property: "C30", Key: "C30:hoplike-native-base",
				What: fmt.Sprintf("A sends its native coin %q over %s; B parses it as ufoo returning home and releases 400 real ufoo from escrow: escrow on B (%s) no longer covers the %s vouchers on A (%s)",
					fake, cA, escAfter, voucher, get(w.Snapshot(0).Sup, voucher)),
				Input: hist[len(hist)-2], Observed: M{"escrowB": escAfter.String(), "voucherSupplyA": get(w.Snapshot(0).Sup, voucher).String()}, Requests: append([]M{}, hist...)})
		}
		// (3) C33: … and the round trip A -> B -> A of that native coin does not return it
		native := bal(0, "A1", fake)
		r3 := tr(1, cB, "ufoo", "400", "B3", "A1") // B3 sends "back" what it received
		rr3, _ := relay(1, cB, r3["seq"])
		if rr3["ack"] == "success" && bal(0, "A1", fake).Equal(native) {
			report(Viol{Property: "C33", Key: "C33:hoplike-native-base",
				What:     fmt.Sprintf("round trip of A's native coin %q over %s/%s: the return leg credits a voucher of ufoo, the native coin stays locked in escrow", fake, cA, cB),
				Input:    hist[len(hist)-2], Observed: M{"nativeBalanceA1": bal(0, "A1", fake).String(), "before": native.String()}, Requests: append([]M{}, hist...)})
		}
	}
	// (4) C32: timeout refund of a hop-like native coin mints a voucher instead of releasing the escrow
	{
		native := bal(0, "A2", fake)
		r := tr(0, cA, fake, "50", "A2", "B2")
		do(M{"f": "advance", "minutes": 120, "blocks": 2})
		t := do(M{"f": "timeout", "chain": 0, "chan": cA, "seq": r["seq"], "elapsed": true, "coreErr": ""})
		if t["r"] == "ok" && !bal(0, "A2", fake).Equal(native) {
			report(Viol{Property: "C32", Key: "C32:hoplike-native-base",
				What:     fmt.Sprintf("timeout of a transfer of the native coin %q over %s: the refund mints ibc/HASH to the sender; the native coin is not returned", fake, cA),
				Input:    hist[len(hist)-1], Observed: M{"nativeBalance": bal(0, "A2", fake).String(), "beforeSend": native.String(), "delta": t["delta"]}, Requests: append([]M{}, hist...)})
		}
	}
	// (5) C33: the voucher of a two-segment base x/channel-N can never be sent anywhere again
	{
		r := tr(0, cA, two, "30", "A1", "B1")
		rr, _ := relay(0, cA, r["seq"])
		voucher := voucherOf(cB, two)
		if rr["ack"] == "success" && bal(1, "B1", voucher).IsPositive() {
			back := tr(1, cB, voucher, "10", "B1", "A1")
			if back["r"] == "err" {
				report(Viol{Property: "C33", Key: "C33:hoplike-native-base",
					What:     fmt.Sprintf("voucher of the native coin %q received on B cannot be sent back (or anywhere): MsgTransfer fails with %v", two, back["cls"]),
					Input:    hist[len(hist)-1], Observed: back, Requests: append([]M{}, hist...)})
			}
			pk := channeltypes.Packet{SourcePort: "transfer", SourceChannel: cA, DestinationPort: "transfer", DestinationChannel: cB}
			if charged := ratelimitkeeper.ParseDenomFromRecvPacket(pk, transfertypes.FungibleTokenPacketData{Denom: two}); charged != voucher {
				report(Viol{Property: "C42", Key: "C42:hoplike-native-base",
					What:  fmt.Sprintf("receive of the two-segment base %q on real chains: minted %s, rate limiter charges %s", two, voucher, charged),
					Input: hist[len(hist)-3], Observed: M{"charged": charged, "moved": voucher}, Requests: append([]M{}, hist...)})
			}
		}
	}
	for c := 0; c < 3; c++ {
		do(M{"f": "view", "chain": c})
	}
}

func initialSupplies(w *World) []map[string]sdkmath.Int {
	out := []map[string]sdkmath.Int{}
	for c := range w.chains {
		out = append(out, w.Snapshot(c).Sup)
	}
	return out
}
