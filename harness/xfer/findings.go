package xfer

import (
	"fmt"

	sdkmath "cosmossdk.io/math"

	ratelimitkeeper "github.com/cosmos/ibc-go/v11/modules/apps/rate-limiting/keeper"
	transfertypes "github.com/cosmos/ibc-go/v11/modules/apps/transfer/types"
	channeltypes "github.com/cosmos/ibc-go/v11/modules/core/04-channel/types"

	. "verif/harness/lib"
)

// Findings replays, against the real modules, the witnesses that refuted C30 / C32 / C33 / C42 before
// the fixes 4b2f809 (Transfer rejects base denominations that would be re-parsed as a trace) and 143f4d3
// (ParseDenomFromRecvPacket takes ICS-20's decision).  They are regression cases now: each formerly
// failing input must be rejected or handled consistently; a reproduction is reported as a fresh
// violation.  The histories are also emitted as correspondence cases.
func Findings(put func(M, any), report func(Viol)) {
	// ---- F5 (C42): counterparty channel id not in ibc-go's format; two-segment base ------------
	for _, x := range [][5]string{{"transfer", "mychannel00", "transfer", "channel-0", "transfer/mychannel00/uatom"},
		{"transfer", "channel-0", "transfer", "channel-5", "ab/channel-1"},
		{"transfer", "channel-3", "transfer", "channel-5", "transfer/channel-3/ab/channel-1"}} {
		in1 := M{"f": "rl.recv", "sp": x[0], "sc": x[1], "dp": x[2], "dc": x[3], "denom": x[4]}
		in2 := M{"f": "ics20.recv", "sp": x[0], "sc": x[1], "dp": x[2], "dc": x[3], "denom": x[4]}
		o1, o2 := EvalPure(in1), EvalPure(in2)
		put(in1, o1)
		put(in2, o2)
		charged := o1.(M)["ok"]
		if m, ok := o2.(M); ok && m["coin"] != nil && m["coin"] != charged {
			report(Viol{Property: "C42", What: "receive: rate limiter and ICS-20 disagree on the denomination (regression of 143f4d3)",
				Input: in2, Observed: M{"charged": charged, "moved": m["coin"], "mode": m["mode"]}, Requests: []M{in1, in2}})
		}
	}
	// ---- F3 on real chains -----------------------------------------------------------------------
	cA, cB := "channel-1", "channel-2" // the v1 channel A(0) <-> B(1) of every world (world.go)
	fake := "transfer/" + cA + "/ufoo" // on A: native coin named like "ufoo received over cA"
	two := "ab/" + cB
	w := NewWorld([][]string{{fake, two, "transfer/channel-7/x"}, {}, {}}, true)
	mon := &Monitors{}
	var hist []M
	do := func(in M) M {
		hist = append(hist, in)
		out := w.Exec(in, mon)
		put(in, out)
		m, _ := out.(M)
		return m
	}
	do(w.ResetRequest())
	tr := func(c int, ch, denom, amt, from, to string, alias bool) M {
		return do(M{"f": "transfer", "chain": c, "port": "transfer", "chan": ch, "denom": denom, "amount": amt, "sender": from, "signer": from,
			"tx": true, "receiver": to, "memo": "", "alias": alias, "encoding": "", "timeout": "near", "coreErr": ""})
	}
	relay := func(c int, ch string, seq any) (M, M) {
		r := do(M{"f": "recv", "chain": c, "chan": ch, "seq": seq, "elapsed": false, "coreErr": ""})
		a := do(M{"f": "ack", "chain": c, "chan": ch, "seq": seq})
		return r, a
	}
	bal := func(c int, name, denom string) sdkmath.Int { return get(w.Snapshot(c).Bal, name+"|"+denom) }
	// a hop-like native coin must not leave the chain any more
	rejected := func(prop string, r M, what string) bool {
		if r["r"] == "err" && r["cls"] == "transfer/3" {
			return true
		}
		if r["r"] != "ok" {
			return true // failed for another reason: nothing moved
		}
		report(Viol{Property: prop, What: what + " (regression of 4b2f809: the transfer was accepted)", Input: hist[len(hist)-1], Observed: r, Requests: append([]M{}, hist...)})
		return false
	}
	// honest traffic first: B escrows 1000 ufoo for A
	r0 := tr(1, cB, "ufoo", "1000", "B1", "A2", false)
	relay(1, cB, r0["seq"])
	escBefore := bal(1, escName("transfer", cB), "ufoo")
	for _, alias := range []bool{false, true} {
		// (1) C42 send / (2) C30 / (3) C33 / (4) C32: every attack starts with sending the look-alike coin
		if r := tr(0, cA, "transfer/channel-7/x", "5", "A1", "B1", alias); !rejected("C42", r, "send of the native coin transfer/channel-7/x") {
			relay(0, cA, r["seq"])
		}
		if r := tr(0, cA, fake, "400", "A1", "B3", alias); !rejected("C30", r, "A's native coin "+fake+" sent over "+cA) {
			relay(0, cA, r["seq"])
		}
		if r := tr(0, cA, two, "30", "A1", "B1", alias); !rejected("C33", r, "native coin "+two+" whose voucher could never be sent again") {
			relay(0, cA, r["seq"])
		}
	}
	// direct IBC v2 client path
	if r := tr(0, "07-tendermint-0", fake, "7", "A1", "B3", false); !rejected("C30", r, "A's native coin "+fake+" sent over the v2 client") {
		relay(0, "07-tendermint-0", r["seq"])
	}
	if escAfter := bal(1, escName("transfer", cB), "ufoo"); !escAfter.Equal(escBefore) {
		report(Viol{Property: "C30", What: fmt.Sprintf("escrow of real ufoo on B changed from %s to %s although only look-alike coins were offered", escBefore, escAfter),
			Input: hist[len(hist)-1], Observed: nil, Requests: append([]M{}, hist...)})
	}
	// the honest voucher still returns home
	v := voucherOf(cA, "ufoo")
	a2 := bal(0, "A2", v)
	rb := tr(0, cA, v, "250", "A2", "B4", false)
	b4 := bal(1, "B4", "ufoo")
	if rb["r"] == "ok" {
		rr, _ := relay(0, cA, rb["seq"])
		if rr["ack"] != "success" || !bal(1, "B4", "ufoo").Sub(b4).Equal(sdkmath.NewInt(250)) || !a2.Sub(bal(0, "A2", v)).Equal(sdkmath.NewInt(250)) {
			report(Viol{Property: "C33", What: "an honest voucher of ufoo did not return as ufoo", Input: hist[len(hist)-2], Observed: rr, Requests: append([]M{}, hist...)})
		}
	} else {
		report(Viol{Property: "C33", What: "an honest voucher of ufoo could not be sent back", Input: hist[len(hist)-1], Observed: rb, Requests: append([]M{}, hist...)})
	}
	_ = ratelimitkeeper.ParseDenomFromSendPacket
	_ = transfertypes.ModuleName
	_ = channeltypes.ORDERED
	for c := 0; c < 3; c++ {
		do(M{"f": "view", "chain": c})
	}
}

func initialSupplies(w *World) []map[string]sdkmath.Int {
	out := []map[string]sdkmath.Int{}
	for c := range w.chains {
		out = append(out, w.Snapshot(c).Sup)
	}
	return out
}
