package xfer

import (
	"crypto/sha256"
	"encoding/hex"
	"errors"
	"fmt"
	"strings"
	"testing"

	sdkmath "cosmossdk.io/math"

	sdk "github.com/cosmos/cosmos-sdk/types"

	ratelimitkeeper "github.com/cosmos/ibc-go/v11/modules/apps/rate-limiting/keeper"
	transfertypes "github.com/cosmos/ibc-go/v11/modules/apps/transfer/types"
	clienttypes "github.com/cosmos/ibc-go/v11/modules/core/02-client/types"
	channeltypes "github.com/cosmos/ibc-go/v11/modules/core/04-channel/types"
	host "github.com/cosmos/ibc-go/v11/modules/core/24-host"
	ibcerrors "github.com/cosmos/ibc-go/v11/modules/core/errors"
	ibctesting "github.com/cosmos/ibc-go/v11/testing"

	. "verif/harness/lib"
)

func isPure(f string) bool {
	return strings.HasPrefix(f, "denom.") || strings.HasPrefix(f, "rl.") || strings.HasPrefix(f, "escrow.") || f == "ics20.recv"
}

func denomOut(d transfertypes.Denom) M {
	tr := [][]string{}
	for _, h := range d.Trace {
		tr = append(tr, []string{h.PortId, h.ChannelId})
	}
	valid := "ok"
	if err := d.Validate(); err != nil {
		switch {
		case errors.Is(err, transfertypes.ErrInvalidDenomForTransfer):
			valid = "blank-base"
		case errors.Is(err, host.ErrInvalidID):
			valid = "bad-hop"
		default:
			valid = "other"
		}
	}
	return M{"trace": tr, "base": d.Base, "valid": valid, "path": d.Path(), "ibc": d.IBCDenom(), "native": d.IsNative(),
		"hopFree": d.ValidateBaseNotHopLike() == nil}
}

func safePure(f func() any) (out any) {
	defer func() {
		if e := recover(); e != nil {
			out = M{"panic": true}
		}
	}()
	return f()
}

func EvalPure(in M) any {
	return safePure(func() any {
		switch str(in, "f") {
		case "denom.extract":
			return denomOut(transfertypes.ExtractDenomFromPath(str(in, "s")))
		case "denom.build":
			hops := []transfertypes.Hop{}
			switch v := in["trace"].(type) {
			case [][]string:
				for _, h := range v {
					hops = append(hops, transfertypes.NewHop(h[0], h[1]))
				}
			case []any:
				for _, h := range v {
					hh := h.([]any)
					hops = append(hops, transfertypes.NewHop(hh[0].(string), hh[1].(string)))
				}
			}
			d := transfertypes.NewDenom(str(in, "base"), hops...)
			out := denomOut(d)
			out["hasPrefix"] = d.HasPrefix(str(in, "hp"), str(in, "hc"))
			return out
		case "denom.ids":
			s := str(in, "s")
			return M{"chanFmt": channeltypes.IsChannelIDFormat(s), "chanValid": channeltypes.IsValidChannelID(s),
				"clientFmt": clienttypes.IsClientIDFormat(s), "clientValid": clienttypes.IsValidClientID(s),
				"portOk": host.PortIdentifierValidator(s) == nil, "chanOk": host.ChannelIdentifierValidator(s) == nil}
		case "denom.coin":
			s := str(in, "s")
			msg := transfertypes.MsgTransfer{SourcePort: "transfer", SourceChannel: "channel-0", Token: sdk.Coin{Denom: s, Amount: sdkmath.OneInt()},
				Sender: "s", Receiver: "r"}
			err := msg.ValidateBasic()
			return M{"sdk": sdk.ValidateDenom(s) == nil, "ibc": !errors.Is(err, ibcerrors.ErrInvalidCoins)}
		case "escrow.addr":
			return Ok(hex.EncodeToString(transfertypes.GetEscrowAddress(str(in, "p"), str(in, "c"))))
		case "rl.send":
			return Ok(ratelimitkeeper.ParseDenomFromSendPacket(transfertypes.FungibleTokenPacketData{Denom: str(in, "denom")}))
		case "rl.recv":
			pk := channeltypes.Packet{SourcePort: str(in, "sp"), SourceChannel: str(in, "sc"), DestinationPort: str(in, "dp"), DestinationChannel: str(in, "dc")}
			return Ok(ratelimitkeeper.ParseDenomFromRecvPacket(pk, transfertypes.FungibleTokenPacketData{Denom: str(in, "denom")}))
		case "ics20.recv":
			return ics20Recv(str(in, "sp"), str(in, "sc"), str(in, "dp"), str(in, "dc"), str(in, "denom"))
		}
		return M{"bad": "unknown function"}
	})
}

// ---------------------------------------------------------------------------------------------
// the coin ICS-20 really moves on receive, observed on a scratch chain

var scratch *ibctesting.TestChain

func scratchChain() *ibctesting.TestChain {
	if scratch == nil {
		coord := ibctesting.NewCoordinator(&testing.T{}, 1)
		scratch = coord.GetChain(ibctesting.GetChainID(1))
	}
	return scratch
}

// ics20Recv calls the real Keeper.OnRecvPacket in a discarded cache context, after funding the
// destination escrow account with every coin an unwinding receive could ask for (each suffix of the
// path, as a base denomination and as a voucher), and reports which coin reached the receiver.
func ics20Recv(sp, sc, dp, dc, denom string) any {
	ch := scratchChain()
	app := ch.GetSimApp()
	ctx, _ := ch.GetContext().CacheContext()
	recv := ch.SenderAccounts[3].SenderAccount.GetAddress()
	data, err := transfertypes.PacketDataV1ToV2(transfertypes.FungibleTokenPacketData{Denom: denom, Amount: "7", Sender: "s", Receiver: recv.String()})
	if err != nil {
		return Err("invalid-denom")
	}
	esc := transfertypes.GetEscrowAddress(dp, dc)
	segs := strings.Split(denom, "/")
	for i := 0; i < len(segs); i++ {
		suffix := strings.Join(segs[i:], "/")
		h := sha256.Sum256([]byte(suffix))
		for _, cand := range []string{suffix, fmt.Sprintf("ibc/%X", h[:])} {
			if sdk.ValidateDenom(cand) != nil {
				continue
			}
			coins := sdk.NewCoins(sdk.NewCoin(cand, sdkmath.NewInt(1000)))
			if app.BankKeeper.MintCoins(ctx, "mint", coins) == nil {
				_ = app.BankKeeper.SendCoinsFromModuleToAccount(ctx, "mint", esc, coins)
				app.TransferKeeper.SetTotalEscrowForDenom(ctx, sdk.NewCoin(cand, sdkmath.NewInt(1000)))
			}
		}
	}
	before := app.BankKeeper.GetAllBalances(ctx, recv)
	if err := app.TransferKeeper.OnRecvPacket(ctx, data, sp, sc, dp, dc); err != nil {
		return M{"err": "recv-failed", "detail": classOf(nil, err)}
	}
	after := app.BankKeeper.GetAllBalances(ctx, recv)
	diff, _ := after.SafeSub(before...)
	moved := ""
	for _, c := range diff {
		if c.Amount.IsPositive() {
			moved = c.Denom
		}
	}
	mode := "mint"
	if app.BankKeeper.GetBalance(ctx, esc, moved).Amount.Equal(sdkmath.NewInt(993)) {
		mode = "unescrow"
	}
	return M{"mode": mode, "coin": moved}
}

// ---------------------------------------------------------------------------------------------
// generators

var idPool = []string{"channel-0", "channel-1", "channel-7", "channel-18446744073709551615", "channel-18446744073709551616",
	"channel-00", "channel-", "channel-1a", "channel-123456789012345678901", "channel-12345678901234567890", "channel--1", "Channel-1", "channel-1 ",
	"07-tendermint-0", "07-tendermint-12", "09-localhost", "09-localhost-1", "a-1", "a--1", "-1", "a-", "x_y-3", "_-1", "a-b-c-99999999999999999999",
	"a-b-18446744073709551615", "wasm-client-12345678901234567890", "connection-0", "mychannel00", "1-1", "a.b-1", "a-1-", "08-wasm-1", "10-gno-0",
	"xion-07-tendermint-3", "pool-1", "a+b-1", "a-b_-1"}

var portPool = []string{"transfer", "t", "icahost", "ibc", "a.b", "x[1]", "<p>", "tr ansfer", "wasm.cosmos1abc", "gamm", "factory", "ab", "xy"}

var basePool = []string{"uatom", "x", "", " ", "gamm", "pool", "1", "ibc", "27394FB092D2ECCD56123C74F36E4C1F926001CEADA9CA97EA622B25F41E5EB2",
	"ufoo", "stake", "cosmos1abc", "utok", "ab", "\t", "a b"}

const denomAlphabet = "abcxyzCHNL019-_.:/#[]<>+ "

func genSegment(r *Rng) string {
	switch r.Intn(10) {
	case 0, 1, 2:
		return Pick(r, idPool)
	case 3, 4:
		return Pick(r, portPool)
	case 5, 6:
		return Pick(r, basePool)
	case 7:
		return fmt.Sprintf("channel-%d", r.Intn(20))
	case 8:
		return r.Str(denomAlphabet, r.Intn(7))
	default:
		return fmt.Sprintf("%s-%d", Pick(r, []string{"07-tendermint", "08-wasm", "x", "a_b"}), r.Intn(100))
	}
}

func genPath(r *Rng) string {
	switch r.Intn(12) {
	case 0:
		return genSegment(r)
	case 1:
		return r.Str(denomAlphabet, r.Intn(16))
	case 2:
		// well-formed voucher path
		s := ""
		for i := r.Intn(4); i >= 0; i-- {
			s += "transfer/" + fmt.Sprintf("channel-%d", r.Intn(12)) + "/"
		}
		return s + Pick(r, basePool)
	}
	n := 1 + r.Intn(7)
	segs := make([]string, n)
	for i := range segs {
		if i%2 == 0 && r.Chance(0.5) {
			segs[i] = Pick(r, portPool)
		} else {
			segs[i] = genSegment(r)
		}
	}
	s := strings.Join(segs, "/")
	if r.Chance(0.05) {
		s = "/" + s
	}
	if r.Chance(0.05) {
		s += "/"
	}
	return s
}

func genValidChan(r *Rng) string {
	switch r.Intn(4) {
	case 0:
		return Pick(r, []string{"07-tendermint-0", "07-tendermint-12", "08-wasm-1", "09-localhost"})
	default:
		return fmt.Sprintf("channel-%d", r.Intn(30))
	}
}

func GenDenom(r *Rng, n int, emit func(M, any)) {
	put := func(in M) { emit(in, EvalPure(in)) }
	for i := 0; i < n; i++ {
		s := genPath(r)
		put(M{"f": "denom.extract", "s": s})
		put(M{"f": "denom.ids", "s": genSegment(r)})
		put(M{"f": "denom.coin", "s": Pick(r, []string{genPath(r), "ibc/" + r.Str("0123456789ABCDEFabcdefg", 64), "ibc/" + r.Str("0123456789ABCDEF", 2*r.Intn(40)), "ibc", "ibc/", "ibc/ ", "Uatom", "1abc", "ab", "abc"})})
		// a constructed Denom
		hops := [][]string{}
		for k := r.Intn(4); k > 0; k-- {
			hops = append(hops, []string{Pick(r, portPool), genSegment(r)})
		}
		hp, hc := Pick(r, portPool), genSegment(r)
		if len(hops) > 0 && r.Chance(0.6) {
			hp, hc = hops[0][0], hops[0][1]
		}
		put(M{"f": "denom.build", "trace": hops, "base": Pick(r, []string{genPath(r), Pick(r, basePool)}), "hp": hp, "hc": hc})
		put(M{"f": "escrow.addr", "p": Pick(r, portPool), "c": genSegment(r)})
		put(M{"f": "rl.send", "denom": s})
		sp, sc, dp, dc := "transfer", genSegment(r), "transfer", genValidChan(r)
		if r.Chance(0.7) {
			sc = genValidChan(r)
		}
		d := s
		if r.Chance(0.5) {
			d = sp + "/" + sc + "/" + s
		}
		put(M{"f": "rl.recv", "sp": sp, "sc": sc, "dp": dp, "dc": dc, "denom": d})
		if i%4 == 0 {
			put(M{"f": "ics20.recv", "sp": sp, "sc": sc, "dp": dp, "dc": dc, "denom": d})
		}
	}
}

func hopFree(base string) bool {
	segs := strings.Split(base, "/")
	return len(segs) < 2 || !(channeltypes.IsValidChannelID(segs[1]) || clienttypes.IsValidClientID(segs[1]))
}

// MonitorDenom evaluates C34 and the pure part of C42/C33 on the implementation.
func MonitorDenom(r *Rng, n int, report func(Viol)) {
	for i := 0; i < n; i++ {
		s := genPath(r)
		d := transfertypes.ExtractDenomFromPath(s)
		if d.Validate() == nil {
			if d.Path() != s {
				report(Viol{Property: "C34", What: "an accepted path does not serialise back to itself", Input: M{"s": s}, Observed: M{"path": d.Path()}})
			}
			want := s
			if len(d.Trace) > 0 {
				h := sha256.Sum256([]byte(s))
				want = fmt.Sprintf("ibc/%X", h[:])
			}
			if d.IBCDenom() != want {
				report(Viol{Property: "C34", What: "voucher name is not ibc/ + SHA-256 of the path", Input: M{"s": s}, Observed: M{"ibc": d.IBCDenom(), "want": want}})
			}
		}
		// escrow addresses of distinct valid pairs differ
		p1, c1, p2, c2 := Pick(r, portPool), genSegment(r), Pick(r, portPool), genSegment(r)
		if host.PortIdentifierValidator(p1) == nil && host.PortIdentifierValidator(p2) == nil && (p1 != p2 || c1 != c2) &&
			transfertypes.GetEscrowAddress(p1, c1).Equals(transfertypes.GetEscrowAddress(p2, c2)) {
			report(Viol{Property: "C34", What: "two (port, channel) pairs share an escrow address", Input: M{"a": p1 + "/" + c1, "b": p2 + "/" + c2}})
		}
		// C42 / C33 on stable shapes: ibc-go formatted channel ids, hop-free bases
		base := Pick(r, []string{"uatom", "gamm/pool/1", "a/b/c", "factory/cosmos1abc/utok", "ufoo", "x:y.z_w-v/q", "abc"})
		if !hopFree(base) {
			continue
		}
		hops := []transfertypes.Hop{}
		for k := r.Intn(3); k > 0; k-- {
			hops = append(hops, transfertypes.NewHop("transfer", genValidChan(r)))
		}
		tok := transfertypes.NewDenom(base, hops...)
		if got := ratelimitkeeper.ParseDenomFromSendPacket(transfertypes.FungibleTokenPacketData{Denom: tok.Path()}); got != tok.IBCDenom() {
			report(Viol{Property: "C42", What: "send: rate limiter and ICS-20 disagree on a path-stable denomination", Input: M{"path": tok.Path()}, Observed: M{"charged": got, "moved": tok.IBCDenom()}})
		}
		sc, dc := genValidChan(r), fmt.Sprintf("channel-%d", r.Intn(30))
		path := tok.Path()
		if r.Chance(0.5) {
			path = "transfer/" + sc + "/" + path
		}
		pk := channeltypes.Packet{SourcePort: "transfer", SourceChannel: sc, DestinationPort: "transfer", DestinationChannel: dc}
		charged := ratelimitkeeper.ParseDenomFromRecvPacket(pk, transfertypes.FungibleTokenPacketData{Denom: path})
		if i%8 == 0 {
			if res, ok := ics20Recv("transfer", sc, "transfer", dc, path).(M); ok && res["coin"] != nil && res["coin"] != charged {
				report(Viol{Property: "C42", What: "receive: rate limiter and ICS-20 disagree on a path-stable denomination", Input: M{"path": path, "sc": sc, "dc": dc}, Observed: M{"charged": charged, "moved": res["coin"]}})
			}
		}
		// C33 (denomination level): the return leg releases the base itself
		if len(hops) == 0 {
			ret := "transfer/" + sc + "/" + base
			if res, ok := ics20Recv("transfer", sc, "transfer", dc, ret).(M); i%8 == 1 && ok && res["coin"] != nil && (res["coin"] != base || res["mode"] != "unescrow") {
				report(Viol{Property: "C33", What: "returning voucher of a hop-free base is not released as the base", Input: M{"path": ret}, Observed: res})
			}
		}
	}
}
