// Package misc: stateless engines of the misc cluster; every file registers its group in init().
package misc
