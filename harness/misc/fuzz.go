package misc

// Engine "fuzz" (property C47): stateless validation and decoders never panic.
//
//   correspondence  the ibc-go-authored parsers (ParseClientIdentifier, ParseHeight, ParseChainID,
//                   SetRevisionNumber, ParseIdentifier, Parse{Channel,Connection}Sequence,
//                   Parse{Channel,Connection}Path, parseClientStatePath, ExtractDenomFromPath,
//                   GetHeightFromIterationKey, PFM forward-metadata and callbacks memo extractors)
//                   evaluated under recover() and compared with the Lean model in which every
//                   index/slice/panic is explicit (value, error class, or panic — all three compared)
//   monitor         exploration: ValidateBasic of every message / packet-data / client-message type
//                   of /repo/modules (main module) on reflectively generated values — mostly valid
//                   field contents drawn from name-directed pools, arbitrary strings/bytes, nil
//                   nested pointers, nil / empty / mistyped Any, empty slices, nil math.Int — plus
//                   wire round trips (marshal, mutate bytes, unmarshal with interface unpacking,
//                   ValidateBasic) and the JSON / memo / metadata / tx decoders on mutated and
//                   random bytes. Any panic is a Violation carrying the input.

import (
	"encoding/json"
	"errors"
	"fmt"
	"os"
	"reflect"
	"runtime"
	"strings"
	"time"

	"github.com/cosmos/gogoproto/proto"

	sdkmath "cosmossdk.io/math"

	"github.com/cosmos/cosmos-sdk/codec"
	codectypes "github.com/cosmos/cosmos-sdk/codec/types"
	sdk "github.com/cosmos/cosmos-sdk/types"

	gmptypes "github.com/cosmos/ibc-go/v11/modules/apps/27-gmp/types"
	icacontrollertypes "github.com/cosmos/ibc-go/v11/modules/apps/27-interchain-accounts/controller/types"
	icahosttypes "github.com/cosmos/ibc-go/v11/modules/apps/27-interchain-accounts/host/types"
	icatypes "github.com/cosmos/ibc-go/v11/modules/apps/27-interchain-accounts/types"
	callbacktypes "github.com/cosmos/ibc-go/v11/modules/apps/callbacks/types"
	pfmtypes "github.com/cosmos/ibc-go/v11/modules/apps/packet-forward-middleware/types"
	ratelimittypes "github.com/cosmos/ibc-go/v11/modules/apps/rate-limiting/types"
	transfertypes "github.com/cosmos/ibc-go/v11/modules/apps/transfer/types"
	clienttypes "github.com/cosmos/ibc-go/v11/modules/core/02-client/types"
	clientv2types "github.com/cosmos/ibc-go/v11/modules/core/02-client/v2/types"
	connectiontypes "github.com/cosmos/ibc-go/v11/modules/core/03-connection/types"
	channeltypes "github.com/cosmos/ibc-go/v11/modules/core/04-channel/types"
	channelv2types "github.com/cosmos/ibc-go/v11/modules/core/04-channel/v2/types"
	commitmenttypes "github.com/cosmos/ibc-go/v11/modules/core/23-commitment/types"
	host "github.com/cosmos/ibc-go/v11/modules/core/24-host"
	ibcerrors "github.com/cosmos/ibc-go/v11/modules/core/errors"
	coretypes "github.com/cosmos/ibc-go/v11/modules/core/types"
	solomachine "github.com/cosmos/ibc-go/v11/modules/light-clients/06-solomachine"
	ibctm "github.com/cosmos/ibc-go/v11/modules/light-clients/07-tendermint"
	attestations "github.com/cosmos/ibc-go/v11/modules/light-clients/attestations"

	. "verif/harness/lib"
	"verif/harness/misc/reg"
)

// ---------------------------------------------------------------- parser correspondence

// safeParse evaluates f; a run-time panic (index, slice, nil dereference, explicit panic) is the
// answer {"panic":"yes"}.
func safeParse(f func() any) (out any) {
	defer func() {
		if e := recover(); e != nil {
			out = M{"panic": "yes"}
		}
	}()
	return f()
}

func idErr(err error) M {
	if errors.Is(err, host.ErrInvalidID) {
		return Err("invalid-id")
	}
	return Err("invalid-sequence")
}

func forwardOut(m pfmtypes.ForwardMetadata) M {
	out := M{"receiver": m.Receiver, "port": m.Port, "channel": m.Channel, "retries": nil, "next": nil}
	if m.Retries != nil {
		out["retries"] = U(uint64(*m.Retries))
	}
	if m.Next != nil {
		out["next"] = forwardOut(m.Next.Forward)
	}
	return out
}

var fuzzFuncs = map[string]func(in M) any{
	"parse.clientId": func(in M) any {
		return safeParse(func() any {
			t, n, err := clienttypes.ParseClientIdentifier(reg.S(in, "s"))
			if err != nil {
				return idErr(err)
			}
			return Ok(M{"type": t, "seq": U(n)})
		})
	},
	"parse.height": func(in M) any {
		return safeParse(func() any {
			h, err := clienttypes.ParseHeight(reg.S(in, "s"))
			if err != nil {
				return Err("invalid-height")
			}
			return Ok(M{"rev": U(h.RevisionNumber), "h": U(h.RevisionHeight)})
		})
	},
	"parse.chainId": func(in M) any {
		return safeParse(func() any { return Ok(U(clienttypes.ParseChainID(reg.S(in, "s")))) })
	},
	"parse.revisionFormat": func(in M) any {
		return safeParse(func() any { return Ok(clienttypes.IsRevisionFormat(reg.S(in, "s"))) })
	},
	"parse.setRevision": func(in M) any {
		return safeParse(func() any {
			s, err := clienttypes.SetRevisionNumber(reg.S(in, "s"), reg.N(in, "rev"))
			if err != nil {
				return Err("invalid-chain-id")
			}
			return Ok(s)
		})
	},
	"parse.identifier": func(in M) any {
		return safeParse(func() any {
			n, err := host.ParseIdentifier(reg.S(in, "s"), reg.S(in, "prefix"))
			if err != nil {
				return idErr(err)
			}
			return Ok(U(n))
		})
	},
	"parse.channelSeq": func(in M) any {
		return safeParse(func() any {
			n, err := channeltypes.ParseChannelSequence(reg.S(in, "s"))
			if err != nil {
				return idErr(err)
			}
			return Ok(U(n))
		})
	},
	"parse.connectionSeq": func(in M) any {
		return safeParse(func() any {
			n, err := connectiontypes.ParseConnectionSequence(reg.S(in, "s"))
			if err != nil {
				return idErr(err)
			}
			return Ok(U(n))
		})
	},
	"parse.channelPath": func(in M) any {
		return safeParse(func() any {
			p, c, err := host.ParseChannelPath(reg.S(in, "s"))
			if err != nil {
				return Err("invalid-path")
			}
			return Ok(M{"port": p, "channel": c})
		})
	},
	"parse.connectionPath": func(in M) any {
		return safeParse(func() any {
			c, err := host.ParseConnectionPath(reg.S(in, "s"))
			if err != nil {
				return Err("invalid-path")
			}
			return Ok(c)
		})
	},
	// parseClientStatePath is unexported; MustParseClientStatePath panics with err.Error() (a string)
	// on a returned error, a slip in the parser itself would be a runtime.Error.
	"parse.clientStatePath": func(in M) any {
		var out any
		func() {
			defer func() {
				if e := recover(); e != nil {
					if _, isRuntime := e.(runtime.Error); isRuntime {
						out = M{"panic": "yes"}
					} else {
						out = Err("invalid-path")
					}
				}
			}()
			out = Ok(host.MustParseClientStatePath(reg.S(in, "s")))
		}()
		return out
	},
	"parse.extractDenom": func(in M) any {
		return safeParse(func() any {
			d := transfertypes.ExtractDenomFromPath(reg.S(in, "s"))
			tr := make([][]string, 0, len(d.Trace))
			for _, h := range d.Trace {
				tr = append(tr, []string{h.PortId, h.ChannelId})
			}
			return Ok(M{"trace": tr, "base": d.Base})
		})
	},
	"parse.iterKey": func(in M) any {
		return safeParse(func() any {
			h := ibctm.GetHeightFromIterationKey(reg.B(in, "key"))
			return Ok(M{"rev": U(h.GetRevisionNumber()), "h": U(h.GetRevisionHeight())})
		})
	},
	"memo.forward": func(in M) any {
		return safeParse(func() any {
			d := transfertypes.FungibleTokenPacketData{Denom: "uatom", Amount: "1", Sender: "a", Receiver: "b", Memo: reg.S(in, "memo")}
			m, _, err := pfmtypes.GetPacketMetadataFromPacketdata(d)
			if err != nil {
				switch {
				case errors.Is(err, pfmtypes.ErrMetadataKeyNotFound):
					return Err("metadata-key-not-found")
				case errors.Is(err, pfmtypes.ErrInvalidForwardMetadata):
					return Err("invalid-forward-metadata")
				}
				return Err("other") // plain errors (retries range, duration)
			}
			return Ok(forwardOut(m.Forward))
		})
	},
	"memo.callback": func(in M) any {
		return safeParse(func() any {
			d := transfertypes.FungibleTokenPacketData{Denom: "uatom", Amount: "1", Sender: "a", Receiver: "b", Memo: reg.S(in, "memo")}
			cb, _, err := callbacktypes.GetCallbackData(d, "ics20-1", "transfer", ^uint64(0), ^uint64(0), reg.S(in, "key"))
			if err != nil {
				switch {
				case errors.Is(err, callbacktypes.ErrCallbackKeyNotFound):
					return Err("callback-key-not-found")
				case errors.Is(err, callbacktypes.ErrInvalidCallbackData):
					return Err("invalid-callback-data")
				}
				return Err("other")
			}
			return Ok(M{"address": cb.CallbackAddress, "commitGas": U(cb.CommitGasLimit), "calldata": Hex(cb.Calldata)})
		})
	},
}

var idAlphabet = "abcdefghijklmnopqrstuvwxyz0123456789-_"

func genIdLike(r *Rng) string {
	switch r.Intn(16) {
	case 0:
		return Pick(r, []string{"07-tendermint", "06-solomachine", "09-localhost", "08-wasm", "channel", "connection", "a", "a-b", "x_y", "-", "", "my-client-type"}) + "-" + U(r.Num64())
	case 1:
		return Pick(r, []string{"channel-", "connection-", "07-tendermint-"}) + U(r.Num64())
	case 2:
		return Pick(r, []string{"09-localhost", "09-localhost-0", "channel-18446744073709551615", "channel-18446744073709551616", "channel-99999999999999999999",
			"channel-100000000000000000000", "connection-18446744073709551616", "07-tendermint-18446744073709551616", "channel-", "channel--1", "channel-+1", "channel-01",
			"channel-0channel-1", "channel-channel-1", "xchannel-1", "-1", "a--1", "a-", "-a-1", "a_-1", "a-b-", "- -1", " -1", "\t-1", "a\n-1", "a.b-1", "07-tendermint-0-1"})
	case 3:
		return r.Str(idAlphabet, r.Intn(12)) + "-" + r.Str("0123456789", r.Intn(24))
	case 4:
		return r.Str(idAlphabet+" /.\n", r.Intn(14))
	case 5, 6, 7, 8:
		return Pick(r, []string{"channel-", "connection-", "07-tendermint-", "06-solomachine-"}) + U(uint64(r.Intn(1000)))
	default:
		return r.Str(idAlphabet, 1+r.Intn(10)) + "-" + U(uint64(r.Intn(1000)))
	}
}

func genChainID(r *Rng) string {
	switch r.Intn(10) {
	case 0:
		return Pick(r, []string{"cosmoshub-4", "testchain1-1", "a-1", "a-0", "a-01", "a-10", "-1", "a--1", "a-1-", "a-b-2", "a\n-1", "a-\n1", "\n-1", "a-1\n", "a -1", "1", "", "-", "a-", "a-x",
			"a-18446744073709551615", "a-18446744073709551616", "a-99999999999999999999", "a-100000000000000000000000", "a-b-c-18446744073709551616", "ü-1", "a-١"})
	case 1, 2:
		return r.Str(idAlphabet, 1+r.Intn(8)) + "-" + U(r.Num64())
	case 3:
		return r.Str(idAlphabet, 1+r.Intn(8)) + "-" + r.Str("0123456789", 18+r.Intn(6))
	case 4:
		return r.Str(idAlphabet+"\n ", r.Intn(10))
	default:
		return r.Str(idAlphabet, 1+r.Intn(8)) + "-" + U(uint64(1+r.Intn(50)))
	}
}

func genPath(r *Rng) string {
	seg := func() string {
		return Pick(r, []string{"ports", "channels", "clients", "clientState", "connections", "transfer", "channel-0", "07-tendermint-0", "connection-3", "", " ", "x", "sequences", "7"})
	}
	n := Pick(r, []int{0, 1, 2, 3, 3, 4, 5, 5, 6, 7})
	parts := make([]string, n)
	for i := range parts {
		parts[i] = seg()
	}
	switch r.Intn(8) {
	case 0:
		return host.ChannelPath(seg(), seg())
	case 1:
		return "channelEnds/" + host.ChannelPath("transfer", "channel-5")
	case 2:
		return string(host.FullClientStateKey("07-tendermint-" + U(uint64(r.Intn(9)))))
	case 3:
		return "connections/connection-" + U(uint64(r.Intn(9)))
	}
	return strings.Join(parts, "/")
}

func genDenomPath(r *Rng) string {
	hop := func() string {
		return Pick(r, []string{"transfer", "icahost", "port", "", "a b"}) + "/" + Pick(r, []string{"channel-0", "channel-18446744073709551615", "channel-18446744073709551616", "07-tendermint-1", "09-localhost", "channel-x", "chan", "", "connection-0"})
	}
	base := Pick(r, []string{"uatom", "gamm/pool/1", "", "/", "a/b", "ibc/ABC", "transfer/channel-0", "channel-0", "x/", "/x"})
	n := Pick(r, []int{0, 0, 1, 1, 2, 3, 6})
	s := ""
	for i := 0; i < n; i++ {
		s += hop() + "/"
	}
	if r.Chance(0.1) {
		return s
	}
	return s + base
}

// jsonTree builds a memo: mostly well-formed forward/callback metadata, with wrong types, missing
// keys, nested "next" (object or string-encoded) mixed in. Numbers are small integers.
func forwardTree(r *Rng, depth int) map[string]any {
	fw := map[string]any{}
	put := func(k string, good any) {
		switch r.Intn(12) {
		case 0: // missing
		case 1:
			fw[k] = Pick(r, []any{nil, 7, true, []any{"x"}, map[string]any{"a": "b"}})
		default:
			fw[k] = good
		}
	}
	put("receiver", Pick(r, []string{"cosmos1abc", "", "r"}))
	put("port", Pick(r, []string{"transfer", "p", ""}))
	put("channel", Pick(r, []string{"channel-0", "channel-77", "x"}))
	if r.Chance(0.4) {
		fw["timeout"] = Pick(r, []any{600000000000, "10m", "1h30m", 0, true, []any{}, nil})
	}
	if r.Chance(0.4) {
		fw["retries"] = Pick(r, []any{0, 1, 2, 255, 256, -1, 1000, "3", nil, true})
	}
	if depth > 0 && r.Chance(0.5) {
		next := map[string]any{"forward": forwardTree(r, depth-1)}
		switch r.Intn(6) {
		case 0:
			b, _ := json.Marshal(next)
			fw["next"] = string(b)
		case 1:
			fw["next"] = Pick(r, []any{"not json", 5, nil, []any{}, map[string]any{"forward": "x"}, map[string]any{}})
		default:
			fw["next"] = next
		}
	}
	return fw
}

func genMemo(r *Rng) string {
	top := map[string]any{}
	if r.Chance(0.85) {
		switch r.Intn(10) {
		case 0:
			top["forward"] = Pick(r, []any{"str", 1, nil, []any{}, true})
		default:
			top["forward"] = forwardTree(r, 3)
		}
	}
	for _, key := range []string{"src_callback", "dest_callback"} {
		if r.Chance(0.7) {
			cb := map[string]any{}
			if r.Chance(0.9) {
				cb["address"] = Pick(r, []any{"cosmos1contract", "0xabc", "", " ", 5, nil})
			}
			if r.Chance(0.5) {
				cb["gas_limit"] = Pick(r, []any{"200000", "0", "", "18446744073709551615", "18446744073709551616", "-1", "abc", 5, nil, "1e3"})
			}
			if r.Chance(0.5) {
				cb["calldata"] = Pick(r, []any{"", "00ff", "ABCD", "abc", "zz", 7, nil, "0x00"})
			}
			if r.Chance(0.1) {
				top[key] = Pick(r, []any{"s", 3, nil, []any{}})
			} else {
				top[key] = cb
			}
		}
	}
	switch r.Intn(20) {
	case 0:
		return ""
	case 1:
		return Pick(r, []string{"{", "[]", "null", "5", "\"s\"", "{}", "{\"forward\":", " "})
	}
	b, _ := json.Marshal(top)
	return string(b)
}

func fuzzGen(r *Rng, n int, emit func(M)) {
	for i := 0; i < n; i++ {
		id := genIdLike(r)
		emit(M{"f": "parse.clientId", "s": id})
		emit(M{"f": "parse.channelSeq", "s": Pick(r, []string{id, genIdLike(r)})})
		emit(M{"f": "parse.connectionSeq", "s": Pick(r, []string{id, genIdLike(r)})})
		pfx := Pick(r, []string{"channel-", "channel-", "connection-", "connection-", "07-tendermint-", "a", "-", "ch", "channel-channel-"})
		ids := genIdLike(r)
		if r.Chance(0.4) {
			ids = pfx + Pick(r, []string{U(r.Num64()), U(uint64(r.Intn(100))), "18446744073709551616", "", "x", "1" + pfx + "2"})
		}
		emit(M{"f": "parse.identifier", "s": ids, "prefix": pfx})
		emit(M{"f": "parse.height", "s": heightLike(r)})
		cid := genChainID(r)
		emit(M{"f": "parse.chainId", "s": cid})
		emit(M{"f": "parse.revisionFormat", "s": genChainID(r)})
		emit(M{"f": "parse.setRevision", "s": Pick(r, []string{cid, genChainID(r)}), "rev": U(r.Num64())})
		p := genPath(r)
		emit(M{"f": "parse.channelPath", "s": p})
		emit(M{"f": "parse.connectionPath", "s": Pick(r, []string{p, genPath(r)})})
		emit(M{"f": "parse.clientStatePath", "s": Pick(r, []string{p, genPath(r)})})
		emit(M{"f": "parse.extractDenom", "s": genDenomPath(r)})
		var key []byte
		switch r.Intn(6) {
		case 0:
			key = ibctm.IterationKey(clienttypes.NewHeight(r.Num64(), r.Num64()))
		case 1:
			key = append(ibctm.IterationKey(clienttypes.NewHeight(r.Num64(), r.Num64())), r.Bytes(r.Intn(4))...)
		case 2:
			k := ibctm.IterationKey(clienttypes.NewHeight(r.Num64(), r.Num64()))
			key = k[:r.Intn(len(k))]
		case 3:
			key = r.Bytes(Pick(r, []int{0, 1, 21, 22, 23, 29, 30, 31, 37, 38, 39, 60}))
		default:
			key = ibctm.IterationKey(clienttypes.NewHeight(uint64(r.Intn(5)), uint64(r.Intn(1000))))
		}
		emit(M{"f": "parse.iterKey", "key": Hex(key)})
		memo := genMemo(r)
		emit(M{"f": "memo.forward", "memo": memo})
		emit(M{"f": "memo.callback", "memo": memo, "key": Pick(r, []string{"src_callback", "dest_callback"})})
	}
}

func heightLike(r *Rng) string {
	switch r.Intn(8) {
	case 0:
		return U(r.Num64()) + "-" + U(r.Num64()) + "-" + U(r.Num64())
	case 1:
		return U(r.Num64())
	case 2:
		return Pick(r, []string{"18446744073709551616-1", "1-18446744073709551616", "-1", "1-", "-", "", "--", "+1-2", "1-+2", " 1-2", "1--2", "00000000000000000000000001-2"})
	case 3:
		return r.Str("0123456789-", r.Intn(12))
	default:
		return U(r.Num64()) + "-" + U(r.Num64())
	}
}

// ---------------------------------------------------------------- ValidateBasic exploration

type validator interface{ ValidateBasic() error }

// every type of the main module that has a ValidateBasic method (08-wasm is a separate Go module)
var vbTypes = []func() any{
	func() any { return &gmptypes.Acknowledgement{} }, func() any { return &gmptypes.MsgSendCall{} }, func() any { return &gmptypes.GMPPacketData{} },
	func() any { return &icacontrollertypes.MsgUpdateParams{} }, func() any { return &icacontrollertypes.MsgRegisterInterchainAccount{} },
	func() any { return &icacontrollertypes.MsgSendTx{} }, func() any { return &icahosttypes.MsgUpdateParams{} }, func() any { return &icahosttypes.MsgModuleQuerySafe{} },
	func() any { return &icatypes.InterchainAccountPacketData{} },
	func() any { return &ratelimittypes.MsgRemoveRateLimit{} }, func() any { return &ratelimittypes.MsgResetRateLimit{} },
	func() any { return &ratelimittypes.MsgAddRateLimit{} }, func() any { return &ratelimittypes.MsgUpdateRateLimit{} },
	func() any { return &transfertypes.MsgTransfer{} }, func() any { return &transfertypes.MsgUpdateParams{} },
	func() any { return &transfertypes.InternalTransferRepresentation{} }, func() any { return &transfertypes.FungibleTokenPacketData{} },
	func() any { return &transfertypes.TransferAuthorization{} },
	func() any { return &clienttypes.UpgradeProposal{} }, func() any { return &clienttypes.ClientUpdateProposal{} },
	func() any { return &clienttypes.MsgUpdateClient{} }, func() any { return &clienttypes.MsgUpgradeClient{} }, func() any { return &clienttypes.MsgRecoverClient{} },
	func() any { return &clienttypes.MsgIBCSoftwareUpgrade{} }, func() any { return &clienttypes.MsgUpdateParams{} }, func() any { return &clienttypes.MsgDeleteClientCreator{} },
	func() any { return &clienttypes.MsgCreateClient{} },
	func() any { return &clientv2types.MsgRegisterCounterparty{} }, func() any { return &clientv2types.MsgUpdateClientConfig{} },
	func() any { return &connectiontypes.ConnectionEnd{} }, func() any { return &connectiontypes.Counterparty{} }, func() any { return &connectiontypes.IdentifiedConnection{} },
	func() any { return &connectiontypes.MsgConnectionOpenAck{} }, func() any { return &connectiontypes.MsgConnectionOpenConfirm{} }, func() any { return &connectiontypes.MsgUpdateParams{} },
	func() any { return &connectiontypes.MsgConnectionOpenInit{} }, func() any { return &connectiontypes.MsgConnectionOpenTry{} },
	func() any { return &channeltypes.Acknowledgement{} }, func() any { return &channeltypes.Channel{} }, func() any { return &channeltypes.Counterparty{} },
	func() any { return &channeltypes.IdentifiedChannel{} }, func() any { return &channeltypes.MsgChannelOpenAck{} }, func() any { return &channeltypes.MsgChannelOpenConfirm{} },
	func() any { return &channeltypes.MsgChannelCloseInit{} }, func() any { return &channeltypes.MsgChannelCloseConfirm{} }, func() any { return &channeltypes.MsgRecvPacket{} },
	func() any { return &channeltypes.MsgTimeout{} }, func() any { return &channeltypes.MsgTimeoutOnClose{} }, func() any { return &channeltypes.MsgAcknowledgement{} },
	func() any { return &channeltypes.MsgChannelOpenInit{} }, func() any { return &channeltypes.MsgChannelOpenTry{} }, func() any { return &channeltypes.Packet{} },
	func() any { return &channelv2types.MsgAcknowledgement{} }, func() any { return &channelv2types.MsgTimeout{} }, func() any { return &channelv2types.MsgSendPacket{} },
	func() any { return &channelv2types.MsgRecvPacket{} }, func() any { return &channelv2types.Packet{} }, func() any { return &channelv2types.Payload{} },
	func() any { return &solomachine.ConsensusState{} }, func() any { return &solomachine.Header{} }, func() any { return &solomachine.Misbehaviour{} },
	func() any { return &solomachine.SignatureAndData{} },
	func() any { return &ibctm.ConsensusState{} }, func() any { return &ibctm.Header{} }, func() any { return &ibctm.Misbehaviour{} },
	func() any { return &attestations.AttestationProof{} }, func() any { return &attestations.ConsensusState{} },
}

// client states carry Validate() instead of ValidateBasic()
type validater interface{ Validate() error }

// Validate() methods that message validation calls on nested values
var validateTypes = []func() any{
	func() any { return &ibctm.ClientState{} }, func() any { return &solomachine.ClientState{} }, func() any { return &attestations.ClientState{} },
	func() any { return &transfertypes.Token{} }, func() any { return &transfertypes.Denom{} }, func() any { return &transfertypes.Hop{} },
	func() any { return &clientv2types.CounterpartyInfo{} }, func() any { return &clientv2types.Config{} },
	func() any { return &channelv2types.Acknowledgement{} },
}

// messages packed into Any fields
var anyPool = []func() proto.Message{
	func() proto.Message { return &ibctm.ClientState{} }, func() proto.Message { return &ibctm.ConsensusState{} },
	func() proto.Message { return &ibctm.Header{} }, func() proto.Message { return &ibctm.Misbehaviour{} },
	func() proto.Message { return &solomachine.ClientState{} }, func() proto.Message { return &solomachine.ConsensusState{} },
	func() proto.Message { return &solomachine.Header{} }, func() proto.Message { return &solomachine.Misbehaviour{} },
	func() proto.Message { return &attestations.ClientState{} }, func() proto.Message { return &attestations.ConsensusState{} },
	func() proto.Message { return &transfertypes.MsgTransfer{} }, func() proto.Message { return &channeltypes.MsgChannelOpenInit{} },
}

var (
	anyPtrType   = reflect.TypeOf((*codectypes.Any)(nil))
	intType      = reflect.TypeOf(sdkmath.Int{})
	timeType     = reflect.TypeOf(time.Time{})
	durationType = reflect.TypeOf(time.Duration(0))
	validAddr    = sdk.AccAddress(make([]byte, 20)).String()
	validAddr2   = sdk.AccAddress([]byte("verif-harness-addr-2")).String()
)

var namePools = map[string][]string{
	"signer": {validAddr, validAddr2}, "sender": {validAddr, validAddr2, "cosmos1x"}, "authority": {validAddr}, "owner": {validAddr}, "creator": {validAddr},
	"receiver": {validAddr2, "0x7F5c764cBc14f9669B88837ca1490cCa17c31607", "r"}, "address": {validAddr, "cosmos1contract"},
	"port": {"transfer", "icahost", "mock"}, "channel": {"channel-0", "channel-7", "channel-18446744073709551615"},
	"client": {"07-tendermint-0", "06-solomachine-2", "09-localhost", "08-wasm-1", "10-attestations-0"}, "connection": {"connection-0", "connection-9"},
	"version": {"ics20-1", "ics27-2", "1", "{}", ""}, "denom": {"uatom", "transfer/channel-0/uatom", "ibc/27394FB092D2ECCD56123C74F36E4C1F926001CEADA9CA97EA622B25F41E5EB2", "gamm/pool/1"},
	"amount": {"1", "100", "115792089237316195423570985008687907853269984665640564039457584007913129639935"},
	"chain":  {"testchain1-1", "cosmoshub-4", "chain", "a-18446744073709551615"}, "encoding": {"application/json", "application/x-protobuf", "application/x-solidity-abi", "proto3", "proto3json", ""},
	"memo": {"", "{}", "{\"forward\":{\"receiver\":\"r\",\"port\":\"transfer\",\"channel\":\"channel-1\"}}"}, "base": {"uatom", "stake"},
	"identifier": {"1"}, "features": {"ORDER_ORDERED", "ORDER_UNORDERED"}, "title": {"title"}, "description": {"description"}, "name": {"upgrade-name"},
	"diversifier": {"diversifier"}, "txtype": {"sdk_multi_msg"}, "type": {"/ibc.applications.transfer.v1.MsgTransfer", "07-tendermint"},
}

var namePoolKeys = SortedKeys(namePools)

var advStrings = []string{"", " ", "\t", "/", "a/b", "\x00", "ü", "channel--1", "channel-18446744073709551616", "channel-99999999999999999999", "07-tendermint-18446744073709551616",
	"a-99999999999999999999", "connection-", "-1", "+5", "0x10", "010", "1e9", "NaN", "null", "{", "[]", "../..", "ibc/", "ibc/zz", "ibc", strings.Repeat("a", 129), strings.Repeat("x/", 70)}

type filler struct {
	r       *Rng
	adv     float64 // per-field probability of an adversarial value
	cdc     *codec.ProtoCodec
	depth   int
	inSlice int
}

func (f *filler) str(name string) string {
	r := f.r
	if r.Chance(f.adv) {
		switch r.Intn(5) {
		case 0:
			return string(r.Bytes(r.Intn(40)))
		case 1:
			return r.Str(asciiAlpha, Pick(r, []int{1, 2, 63, 64, 65, 128, 129, 2048, 2049, 5000, 33000}))
		default:
			return Pick(r, advStrings)
		}
	}
	ln := strings.ToLower(name)
	for _, key := range namePoolKeys { // sorted: map iteration order must not influence the run
		if strings.Contains(ln, key) {
			return Pick(r, namePools[key])
		}
	}
	return r.Str(asciiAlpha, 1+r.Intn(20))
}

func (f *filler) bytes(name string) []byte {
	r := f.r
	if r.Chance(f.adv) {
		return Pick(r, [][]byte{nil, {}, {0}, r.Bytes(1), r.Bytes(31), r.Bytes(33), r.Bytes(5000)})
	}
	ln := strings.ToLower(name)
	switch {
	case strings.Contains(ln, "hash") || strings.Contains(ln, "root"):
		return r.Bytes(32)
	case strings.Contains(ln, "addr"):
		return r.Bytes(20)
	}
	return r.Bytes(1 + r.Intn(48))
}

func (f *filler) any() *codectypes.Any {
	r := f.r
	switch {
	case r.Chance(f.adv):
		switch r.Intn(4) {
		case 0:
			return nil
		case 1:
			return &codectypes.Any{}
		case 2:
			return &codectypes.Any{TypeUrl: Pick(r, []string{"/ibc.lightclients.tendermint.v1.ClientState", "/x", "", "/ibc.lightclients.solomachine.v3.Header"}), Value: r.Bytes(r.Intn(60))}
		default:
			a, _ := codectypes.NewAnyWithValue(&transfertypes.MsgTransfer{})
			return a
		}
	}
	msg := Pick(r, anyPool)()
	f.fill(reflect.ValueOf(msg).Elem(), "")
	var a *codectypes.Any
	func() {
		defer func() { _ = recover() }() // marshalling a Go-built value is the harness's business, not a decoder
		a, _ = codectypes.NewAnyWithValue(msg)
	}()
	return a
}

func (f *filler) fill(v reflect.Value, name string) {
	if !v.CanSet() {
		return
	}
	r := f.r
	f.depth++
	defer func() { f.depth-- }()
	if f.depth > 9 {
		return
	}
	t := v.Type()
	switch {
	case t == anyPtrType:
		if a := f.any(); a != nil {
			v.Set(reflect.ValueOf(a))
		}
		return
	case t == intType:
		switch {
		case r.Chance(f.adv):
			v.Set(reflect.ValueOf(Pick(r, []sdkmath.Int{{}, sdkmath.ZeroInt(), sdkmath.NewInt(-5)})))
		default:
			v.Set(reflect.ValueOf(sdkmath.NewIntFromUint64(1 + r.Num64()%1000000)))
		}
		return
	case t == timeType:
		if r.Chance(f.adv) {
			v.Set(reflect.ValueOf(Pick(r, []time.Time{{}, time.Unix(0, 0), time.Unix(-1, 0), time.Unix(1<<40, 0)})))
		} else {
			v.Set(reflect.ValueOf(time.Unix(1700000000+int64(r.Intn(100000)), 0).UTC()))
		}
		return
	case t == durationType:
		if r.Chance(f.adv) {
			v.SetInt(Pick(r, []int64{0, -1, 1, 1 << 62, -1 << 63}))
		} else {
			v.SetInt(int64(time.Hour) * int64(1+r.Intn(500)))
		}
		return
	}
	switch v.Kind() {
	case reflect.String:
		v.SetString(f.str(name))
	case reflect.Bool:
		v.SetBool(r.Bool())
	case reflect.Uint8, reflect.Uint16, reflect.Uint32, reflect.Uint64, reflect.Uint:
		if r.Chance(f.adv) {
			v.SetUint(Pick(r, []uint64{0, 1, 1<<32 - 1, 1<<63 - 1, 1 << 63, ^uint64(0)}) & (1<<uint(t.Bits()) - 1 | (1<<uint(t.Bits()-1))<<1 - 1))
		} else {
			v.SetUint((1 + r.Num64()%100000) & (uint64(1)<<uint(t.Bits()-1) - 1))
		}
	case reflect.Int8, reflect.Int16, reflect.Int32, reflect.Int64, reflect.Int:
		if _, isEnum := v.Interface().(fmt.Stringer); isEnum && t.Kind() == reflect.Int32 {
			if r.Chance(f.adv) {
				v.SetInt(Pick(r, []int64{0, -1, 7, 100}))
			} else {
				v.SetInt(int64(1 + r.Intn(3)))
			}
			return
		}
		if r.Chance(f.adv) {
			v.SetInt(Pick(r, []int64{0, -1, 1<<31 - 1, -1 << 31}))
		} else {
			v.SetInt(int64(1 + r.Intn(100000)))
		}
	case reflect.Float32, reflect.Float64:
		v.SetFloat(float64(r.Intn(100)))
	case reflect.Slice:
		if t.Elem().Kind() == reflect.Uint8 {
			if b := f.bytes(name); b != nil {
				v.SetBytes(b)
			}
			return
		}
		n := Pick(r, []int{1, 1, 1, 2, 3})
		if r.Chance(f.adv) {
			n = Pick(r, []int{0, 0, 5, 40})
		}
		s := reflect.MakeSlice(t, n, n)
		for i := 0; i < n; i++ {
			f.inSlice++
			f.fill(s.Index(i), name)
			f.inSlice--
		}
		if n > 0 || r.Bool() {
			v.Set(s)
		}
	case reflect.Array:
		for i := 0; i < v.Len(); i++ {
			f.fill(v.Index(i), name)
		}
	case reflect.Ptr:
		// a nil element of a repeated field is not representable on the wire: never generated
		if r.Chance(f.adv) && f.inSlice == 0 {
			return // nil nested pointer
		}
		defer func(n int) { f.inSlice = n }(f.inSlice)
		f.inSlice = 0
		p := reflect.New(t.Elem())
		f.fill(p.Elem(), name)
		v.Set(p)
	case reflect.Struct:
		for i := 0; i < v.NumField(); i++ {
			f.fill(v.Field(i), t.Field(i).Name)
		}
	case reflect.Map:
		// proto maps are rare in ibc-go messages: leave nil or one entry
		if r.Bool() && t.Key().Kind() == reflect.String {
			m := reflect.MakeMap(t)
			e := reflect.New(t.Elem()).Elem()
			f.fill(e, name)
			m.SetMapIndex(reflect.ValueOf(f.str(name)).Convert(t.Key()), e)
			v.Set(m)
		}
	}
}

func panicClass(e any) string {
	s := fmt.Sprint(e)
	switch {
	case strings.Contains(s, "regex allowed non-number value as last split element for chainID"):
		return "parse-chain-id-overflow"
	case strings.Contains(s, "nil pointer dereference"):
		return "nil-deref"
	case strings.Contains(s, "index out of range"):
		return "index-out-of-range"
	case strings.Contains(s, "slice bounds out of range"):
		return "slice-bounds"
	case strings.Contains(s, "interface conversion"):
		return "type-assertion"
	case strings.Contains(s, "after 10000-01-01") || strings.Contains(s, "before 0001-01-01"):
		return "timestamp-out-of-range"
	}
	w := strings.Fields(s)
	if len(w) > 6 {
		w = w[:6]
	}
	return strings.Join(w, "-")
}

func describe(v any) string {
	s := fmt.Sprintf("%+v", v)
	if len(s) > 1500 {
		s = s[:1500] + "…"
	}
	return s
}

// innermostIBCFrame names the innermost function of /repo/modules on the panicking stack: the root
// cause site, whatever outer message carried the value.
func innermostIBCFrame() string {
	pcs := make([]uintptr, 64)
	n := runtime.Callers(3, pcs)
	frames := runtime.CallersFrames(pcs[:n])
	for {
		fr, more := frames.Next()
		if i := strings.Index(fr.Function, "github.com/cosmos/ibc-go/v11/modules/"); i >= 0 {
			// keep the last two path elements: "rate-limiting/types.(*MsgAddRateLimit).ValidateBasic"
			fn := fr.Function[i+len("github.com/cosmos/ibc-go/v11/modules/"):]
			parts := strings.Split(fn, "/")
			if len(parts) > 2 {
				parts = parts[len(parts)-2:]
			}
			return strings.Join(parts, "/")
		}
		if !more {
			return ""
		}
	}
}

// call runs f under recover and reports a panic. The finding key names the root cause: the
// innermost ibc-go function on the panicking stack plus the panic class (a panic raised by
// ParseChainID has its own key whatever reached it).
func call(report func(reg.Violation), site string, input func() any, f func()) {
	defer func() {
		if e := recover(); e != nil {
			cls := panicClass(e)
			root := innermostIBCFrame()
			if root == "" {
				root = site
			}
			key := "panic/" + root + "/" + cls
			if cls == "parse-chain-id-overflow" {
				key = "parse-chain-id-overflow"
			}
			report(reg.Violation{Property: "C47", Key: key, What: site + " panicked in " + root + ": " + cls, Input: input(), Observed: M{"panic": fmt.Sprint(e)}})
		}
	}()
	f()
}

func tmClientStateRaw(chainID string) *ibctm.ClientState {
	return ibctm.NewClientState(chainID, ibctm.DefaultTrustLevel, time.Hour, 2*time.Hour, time.Minute,
		clienttypes.NewHeight(1, 10), commitmenttypes.GetSDKSpecs(), []string{"upgrade", "upgradedIBCState"})
}

func newCodec() *codec.ProtoCodec {
	ir := codectypes.NewInterfaceRegistry()
	coretypes.RegisterInterfaces(ir)
	ibctm.RegisterInterfaces(ir)
	solomachine.RegisterInterfaces(ir)
	attestations.RegisterInterfaces(ir)
	transfertypes.RegisterInterfaces(ir)
	icatypes.RegisterInterfaces(ir)
	icacontrollertypes.RegisterInterfaces(ir)
	icahosttypes.RegisterInterfaces(ir)
	ratelimittypes.RegisterInterfaces(ir)
	gmptypes.RegisterInterfaces(ir)
	pfmtypes.RegisterInterfaces(ir)
	return codec.NewProtoCodec(ir)
}

func typeName(v any) string { return strings.TrimPrefix(reflect.TypeOf(v).String(), "*") }

func fuzzMonitor(r *Rng, n int, report func(reg.Violation)) {
	cdc := newCodec()
	// regression corpus: the witnesses of the nine panics fixed by 011a55d, 72a91a5, 80c430e, 989746f, 7737863,
	// 23d73d2 and 8087a4d; each must now return (an error), a panic is a fresh violation
	call(report, "clienttypes.MsgCreateClient.ValidateBasic", func() any { return "MsgCreateClient{ClientState: nil, Signer: <valid>}" }, func() {
		_ = clienttypes.MsgCreateClient{Signer: validAddr}.ValidateBasic()
	})
	call(report, "ibctm.ClientState.Validate", func() any { return M{"chainId": "a-99999999999999999999"} }, func() {
		_ = tmClientStateRaw("a-99999999999999999999").Validate()
	})
	call(report, "solomachine.Misbehaviour.ValidateBasic", func() any { return "solomachine.Misbehaviour{Sequence: 1} (signature_one / signature_two absent)" }, func() {
		_ = solomachine.Misbehaviour{Sequence: 1}.ValidateBasic()
	})
	call(report, "solomachine.ClientState.UnpackInterfaces", func() any {
		return "MsgCreateClient carrying a solomachine ClientState without consensus_state, decoded with interface unpacking"
	}, func() {
		a, _ := codectypes.NewAnyWithValue(&solomachine.ClientState{Sequence: 1})
		bz, err := cdc.Marshal(&clienttypes.MsgCreateClient{ClientState: a, ConsensusState: a, Signer: validAddr})
		if err == nil {
			_ = cdc.Unmarshal(bz, &clienttypes.MsgCreateClient{})
		}
	})
	call(report, "ibctm.Misbehaviour.ValidateBasic", func() any { return "tendermint Misbehaviour whose headers carry no signed_header" }, func() {
		h := func() *ibctm.Header {
			return &ibctm.Header{TrustedHeight: clienttypes.NewHeight(1, 5), TrustedValidators: tmHeader("a-1", 12, clienttypes.NewHeight(1, 5), 1).TrustedValidators}
		}
		_ = ibctm.Misbehaviour{ClientId: "07-tendermint-0", Header1: h(), Header2: h()}.ValidateBasic()
	})
	call(report, "ibctm.Misbehaviour.ValidateBasic", func() any {
		return "valid tendermint Misbehaviour with commit.signatures[0].timestamp.seconds = 2^40 (year > 9999)"
	}, func() {
		h1, h2 := tmHeader("a-1", 12, clienttypes.NewHeight(1, 10), 1), tmHeader("a-1", 12, clienttypes.NewHeight(1, 10), 2)
		h2.Commit.Signatures[0].Timestamp = time.Unix(1<<40, 0)
		_ = ibctm.NewMisbehaviour("07-tendermint-0", h1, h2).ValidateBasic()
	})
	call(report, "ratelimittypes.MsgAddRateLimit.ValidateBasic", func() any { return "MsgAddRateLimit with max_percent_send / max_percent_recv absent (nil math.Int)" }, func() {
		_ = (&ratelimittypes.MsgAddRateLimit{Signer: validAddr, Denom: "uatom", ChannelOrClientId: "channel-0", DurationHours: 1}).ValidateBasic()
	})
	call(report, "ratelimittypes.MsgUpdateRateLimit.ValidateBasic", func() any { return "MsgUpdateRateLimit with max_percent_send / max_percent_recv absent (nil math.Int)" }, func() {
		_ = (&ratelimittypes.MsgUpdateRateLimit{Signer: validAddr, Denom: "uatom", ChannelOrClientId: "channel-0", DurationHours: 1}).ValidateBasic()
	})
	call(report, "transfertypes.TransferAuthorization.ValidateBasic", func() any {
		return "TransferAuthorization with a spend_limit coin whose amount is absent (nil math.Int)"
	}, func() {
		_ = (&transfertypes.TransferAuthorization{Allocations: []transfertypes.Allocation{{SourcePort: "transfer", SourceChannel: "channel-0", SpendLimit: sdk.Coins{{Denom: "uatom"}}}}}).ValidateBasic()
	})
	seeds := seedCorpus()
	for i, mk := range seeds { // a pristine seed must validate, otherwise the corpus is stale
		if v, ok := mk().(validator); ok {
			if err := v.ValidateBasic(); err != nil {
				fmt.Fprintf(os.Stderr, "harness: seed %d (%s) no longer validates: %v\n", i, typeName(v), err)
			}
		} else if v, ok := mk().(validater); ok {
			if err := v.Validate(); err != nil {
				fmt.Fprintf(os.Stderr, "harness: seed %d (%s) no longer validates: %v\n", i, typeName(v), err)
			}
		}
	}
	accepted, tried := map[string]int{}, map[string]int{}
	defer func() {
		if os.Getenv("VERIF_FUZZ_STATS") != "" {
			for _, k := range SortedKeys(tried) {
				fmt.Fprintf(os.Stderr, "%-70s tried=%d accepted=%d\n", k, tried[k], accepted[k])
			}
		}
	}()
	for i := 0; i < n; i++ {
		for round := 0; round < 3; round++ {
			f := &filler{r: r, adv: Pick(r, []float64{0, 0.02, 0.08, 0.3}), cdc: cdc}
			// ValidateBasic / Validate on generated values
			mk := Pick(r, vbTypes)
			msg := mk()
			f.fill(reflect.ValueOf(msg).Elem(), "")
			site := typeName(msg) + ".ValidateBasic"
			tried[site]++
			call(report, site, func() any { return describe(msg) }, func() {
				if msg.(validator).ValidateBasic() == nil {
					accepted[site]++
				}
			})
			// wire round trip: marshal, optionally mutate, unmarshal with interface unpacking, validate
			if pm, ok := msg.(proto.Message); ok {
				var bz []byte
				func() {
					defer func() { _ = recover() }() // see filler.any
					bz, _ = cdc.Marshal(pm)
				}()
				if bz != nil {
					if r.Chance(0.7) {
						bz = mutate(r, bz)
					}
					back := mk()
					call(report, typeName(msg)+".Unmarshal+ValidateBasic", func() any { return M{"bytes": Hex(bz)} }, func() {
						if err := cdc.Unmarshal(bz, back.(proto.Message)); err == nil {
							_ = back.(validator).ValidateBasic()
						}
					})
				}
			}
			vt := Pick(r, validateTypes)()
			if vv, ok := vt.(validater); ok {
				f.fill(reflect.ValueOf(vt).Elem(), "")
				call(report, typeName(vt)+".Validate", func() any { return describe(vt) }, func() { _ = vv.Validate() })
			}
		}

		// valid seeds with one or two fields replaced adversarially (any depth), direct and through the wire
		for round := 0; round < 3; round++ {
			seed := Pick(r, seeds)()
			mutateFields(r, cdc, seed, Pick(r, []int{0, 1, 1, 1, 2, 3}))
			site := typeName(seed) + ".ValidateBasic"
			tried["seed:"+site]++
			call(report, site, func() any { return describe(seed) }, func() {
				switch v := seed.(type) {
				case validator:
					if v.ValidateBasic() == nil {
						accepted["seed:"+site]++
					}
				case validater:
					_ = v.Validate()
				}
			})
			if pm, ok := seed.(proto.Message); ok {
				var bz []byte
				func() {
					defer func() { _ = recover() }()
					bz, _ = cdc.Marshal(pm)
				}()
				if bz != nil {
					if r.Chance(0.6) {
						bz = mutate(r, bz)
					}
					back := reflect.New(reflect.TypeOf(seed).Elem()).Interface()
					call(report, typeName(seed)+".Unmarshal+ValidateBasic", func() any { return M{"bytes": Hex(bz)} }, func() {
						if err := cdc.Unmarshal(bz, back.(proto.Message)); err == nil {
							if v, ok := back.(validator); ok {
								_ = v.ValidateBasic()
							}
						}
					})
				}
			}
		}

		// decoders on mutated / random bytes
		memo := genMemo(r)
		if r.Chance(0.5) {
			memo = string(mutate(r, []byte(memo)))
		}
		data := transfertypes.FungibleTokenPacketData{Denom: "uatom", Amount: "1", Sender: "a", Receiver: "b", Memo: memo}
		in := func() any { return M{"memo": memo} }
		call(report, "pfm.GetPacketMetadataFromPacketdata", in, func() { _, _, _ = pfmtypes.GetPacketMetadataFromPacketdata(data) })
		call(report, "callbacks.GetCallbackData", in, func() {
			_, _, _ = callbacktypes.GetCallbackData(data, "ics20-1", "transfer", r.Num64(), r.Num64(), Pick(r, []string{"src_callback", "dest_callback"}))
			g := gmptypes.GMPPacketData{Sender: "s", Memo: memo}
			_, _, _ = callbacktypes.GetCallbackData(g, "ics27-2", "gmpport", r.Num64(), r.Num64(), Pick(r, []string{"src_callback", "dest_callback"}))
			_, _, _ = callbacktypes.GetCallbackData(memo, "v", "p", 1, 1, "src_callback")
		})
		call(report, "FungibleTokenPacketData.GetCustomPacketData", in, func() { _ = data.GetCustomPacketData(Pick(r, []string{"forward", "src_callback", "", "x"})) })
		meta := icatypes.NewDefaultMetadataString("connection-0", "connection-1")
		if r.Chance(0.7) {
			meta = string(mutate(r, []byte(meta)))
		}
		call(report, "icatypes.MetadataFromVersion", func() any { return M{"version": meta} }, func() {
			m, err := icatypes.MetadataFromVersion(meta)
			if err == nil {
				_ = icatypes.IsPreviousMetadataEqual(meta, m)
			}
		})
		var raw []byte
		switch r.Intn(4) {
		case 0:
			raw = randomBytes(r)
		case 1:
			raw = mutate(r, channeltypes.NewResultAcknowledgement([]byte{1}).Acknowledgement())
		case 2:
			raw = mutate(r, channeltypes.NewErrorAcknowledgement(ibcerrors.ErrInvalidType).Acknowledgement())
		default:
			pd := icatypes.InterchainAccountPacketData{Type: icatypes.EXECUTE_TX, Data: r.Bytes(10), Memo: "m"}
			raw = mutate(r, pd.GetBytes())
		}
		rawIn := func() any { return M{"bytes": Hex(raw)} }
		call(report, "channeltypes.Acknowledgement.UnmarshalJSON", rawIn, func() {
			var ack channeltypes.Acknowledgement
			if err := transfertypes.ModuleCdc.UnmarshalJSON(raw, &ack); err == nil {
				_ = ack.ValidateBasic()
				_ = ack.Success()
				_ = ack.Acknowledgement()
			}
		})
		call(report, "icatypes.InterchainAccountPacketData.UnmarshalJSON", rawIn, func() {
			var pd icatypes.InterchainAccountPacketData
			if err := icatypes.ModuleCdc.UnmarshalJSON(raw, &pd); err == nil {
				_ = pd.ValidateBasic()
			}
			pd2 := icatypes.InterchainAccountPacketData{}
			_ = pd2.UnmarshalJSON(raw)
		})
		call(report, "icatypes.DeserializeCosmosTx", rawIn, func() {
			_, _ = icatypes.DeserializeCosmosTx(cdc, raw, Pick(r, []string{icatypes.EncodingProtobuf, icatypes.EncodingProto3JSON, "x"}))
		})
		call(report, "channelv2types.Packet/Ack.Unmarshal", rawIn, func() {
			var p channelv2types.Packet
			if proto.Unmarshal(raw, &p) == nil {
				_ = p.ValidateBasic()
				_ = channelv2types.CommitPacket(p)
			}
			var a channelv2types.Acknowledgement
			if proto.Unmarshal(raw, &a) == nil {
				_ = a.Validate()
			}
		})
		call(report, "commitmenttypes.MerkleProof.Unmarshal", rawIn, func() {
			var mp commitmenttypes.MerkleProof
			if cdc.Unmarshal(raw, &mp) == nil {
				_ = mp.GetProofs()
			}
		})
		s := genIdLike(r)
		if r.Chance(0.3) {
			s = string(r.Bytes(r.Intn(30)))
		}
		sIn := func() any { return M{"s": s} }
		call(report, "identifier validators", sIn, func() {
			_ = host.ClientIdentifierValidator(s)
			_ = host.ConnectionIdentifierValidator(s)
			_ = host.ChannelIdentifierValidator(s)
			_ = host.PortIdentifierValidator(s)
			_ = clienttypes.ValidateClientType(s)
			_ = clienttypes.IsValidClientID(s)
			_ = channeltypes.IsValidChannelID(s)
			_, _ = transfertypes.ParseHexHash(s)
			_ = transfertypes.ExtractDenomFromPath(s).Validate()
			_, _ = clienttypes.ParseHeight(s)
			_, _, _ = clienttypes.ParseClientIdentifier(s)
			_, _ = channeltypes.ParseChannelSequence(s)
			_, _ = connectiontypes.ParseConnectionSequence(s)
			_, _, _ = host.ParseChannelPath(s)
			_, _ = host.ParseConnectionPath(s)
			_, _ = clienttypes.SetRevisionNumber(s, r.Num64())
		})
	}
}

func init() {
	reg.Register(reg.Group{Name: "fuzz", Props: []string{"C47"}, Funcs: fuzzFuncs, Gen: fuzzGen, Monitor: fuzzMonitor})
}
