// Package reg: registry and command-line runner shared by the misc-cluster harness binaries
// (cmd/misc: stateless codec/fuzz/map-range engines; cmd/miscchain: ibctesting-based genesis and
// determinism engines).
//
// A Group contributes
//
//	Funcs    request -> implementation answer (stateless; also used by -replay),
//	Gen      generated requests (each is evaluated through Funcs and written as a case),
//	Cases    generated (request, answer) pairs for engines that compute the answer while generating,
//	Monitor  property monitors on the implementation (sound: only genuine violations are reported).
package reg

import (
	"bufio"
	"encoding/hex"
	"encoding/json"
	"flag"
	"fmt"
	"os"
	"strconv"
	"strings"

	"verif/harness/lib"
)

// Violation is lib.Violation plus the stable key matched against known_findings.json.
type Violation struct {
	Property string  `json:"property"`
	Key      string  `json:"key,omitempty"`
	What     string  `json:"what"`
	Input    any     `json:"input"`
	Observed any     `json:"observed"`
	Requests []lib.M `json:"requests,omitempty"`
}

type Group struct {
	Name    string
	Props   []string
	Funcs   map[string]func(in lib.M) any
	Gen     func(r *lib.Rng, n int, emit func(lib.M))
	Cases   func(r *lib.Rng, n int, emit func(in lib.M, out any))
	Monitor func(r *lib.Rng, n int, report func(Violation))
}

var Groups []Group

func Register(g Group) { Groups = append(Groups, g) }

// Eval dispatches a request to the group that implements it.
func Eval(in lib.M) any {
	f, _ := in["f"].(string)
	for _, g := range Groups {
		if fn, ok := g.Funcs[f]; ok {
			return lib.Safe(func() any { return fn(in) })
		}
	}
	return lib.M{"bad": "unknown function " + f}
}

// request field accessors (requests are built by Gen or read back from JSON in replay mode)
func S(in lib.M, k string) string {
	s, ok := in[k].(string)
	if !ok {
		panic(fmt.Sprintf("harness: field %s missing", k))
	}
	return s
}

func N(in lib.M, k string) uint64 {
	switch v := in[k].(type) {
	case string:
		n, err := strconv.ParseUint(v, 10, 64)
		if err != nil {
			panic("harness: bad number " + v)
		}
		return n
	case float64:
		return uint64(v)
	case int:
		return uint64(v)
	case uint64:
		return v
	}
	panic(fmt.Sprintf("harness: field %s missing", k))
}

func B(in lib.M, k string) []byte {
	b, err := hex.DecodeString(S(in, k))
	if err != nil {
		panic("harness: bad hex")
	}
	return b
}

func Bool(in lib.M, k string) bool { b, _ := in[k].(bool); return b }

func Strs(in lib.M, k string) []string {
	switch v := in[k].(type) {
	case []string:
		return v
	case []any:
		out := make([]string, len(v))
		for i, x := range v {
			out[i], _ = x.(string)
		}
		return out
	}
	return nil
}

func List(in lib.M, k string) []lib.M {
	switch v := in[k].(type) {
	case []lib.M:
		return v
	case []any:
		out := make([]lib.M, len(v))
		for i, x := range v {
			out[i], _ = x.(map[string]any)
		}
		return out
	}
	return nil
}

func hash(s string) uint64 {
	h := uint64(1469598103934665603)
	for i := 0; i < len(s); i++ {
		h ^= uint64(s[i])
		h *= 1099511628211
	}
	return h
}

// Main implements the harness binary contract of CONVENTIONS.md.
func Main() {
	groups := flag.String("groups", "", "comma-separated group names (empty = all)")
	n := flag.Int("n", 200, "iterations per group")
	mon := flag.Int("monitor", 200, "monitor iterations per group")
	casesPath := flag.String("cases", "cases.jsonl", "output: correspondence cases")
	violPath := flag.String("violations", "violations.jsonl", "output: monitor violations")
	replay := flag.String("replay", "", "evaluate the requests of this JSON-lines file instead of generating")
	flag.Parse()
	if *replay != "" {
		doReplay(*replay, *casesPath)
		return
	}
	want := map[string]bool{}
	for _, g := range strings.Split(*groups, ",") {
		if g != "" {
			want[g] = true
		}
	}
	cs, err := lib.NewSink(*casesPath)
	if err != nil {
		fmt.Fprintln(os.Stderr, err)
		os.Exit(2)
	}
	vs, err := lib.NewSink(*violPath)
	if err != nil {
		fmt.Fprintln(os.Stderr, err)
		os.Exit(2)
	}
	seed := lib.EnvSeed()
	found := 0
	for _, g := range Groups {
		if len(want) > 0 && !want[g.Name] {
			continue
		}
		found++
		r := lib.NewRng(seed ^ hash(g.Name))
		r1, r2, r3 := r.Fork(), r.Fork(), r.Fork()
		if g.Gen != nil {
			g.Gen(r1, *n, func(in lib.M) { cs.Put(lib.Case{In: in, Out: Eval(in)}) })
		}
		if g.Cases != nil {
			g.Cases(r2, *n, func(in lib.M, out any) { cs.Put(lib.Case{In: in, Out: out}) })
		}
		if g.Monitor != nil {
			perKey := map[string]int{}
			g.Monitor(r3, *mon, func(v Violation) {
				k := v.Property + "|" + v.Key + "|" + v.What
				if perKey[k] < 5 {
					vs.Put(v)
				}
				perKey[k]++
			})
		}
	}
	cs.Close()
	vs.Close()
	if found == 0 {
		fmt.Fprintln(os.Stderr, "no such group")
		os.Exit(2)
	}
	fmt.Printf("cases=%d violations=%d\n", cs.N, vs.N)
}

func doReplay(path, out string) {
	f, err := os.Open(path)
	if err != nil {
		fmt.Fprintln(os.Stderr, err)
		os.Exit(2)
	}
	defer f.Close()
	cs, err := lib.NewSink(out)
	if err != nil {
		fmt.Fprintln(os.Stderr, err)
		os.Exit(2)
	}
	sc := bufio.NewScanner(f)
	sc.Buffer(make([]byte, 1<<20), 1<<28)
	for sc.Scan() {
		var in lib.M
		if err := json.Unmarshal(sc.Bytes(), &in); err != nil {
			continue
		}
		if inner, ok := in["in"].(map[string]any); ok {
			in = inner
		}
		cs.Put(lib.Case{In: in, Out: Eval(in)})
	}
	cs.Close()
	fmt.Printf("cases=%d\n", cs.N)
}
