package misc

// Engine "codec" (property C35): packet-data encodings of ICS-20, GMP and the attestation light
// client evaluated on the real code.
//
//   correspondence  generated valid values -> Go encode (compared byte for byte with the Lean
//                   encoder), the Go-encoded bytes -> Go decode and Lean decode (so both
//                   directions Go->Lean and Lean->Go are covered), byte-level mutations and random
//                   bytes -> every Go decoder under recover() and the Lean decoder (same accept /
//                   reject decision, same decoded value; a Go panic is an output the model never has)
//   monitor         the property itself on the implementation: decode(encode x) = x with the amount
//                   compared as an integer (JSON, protobuf, ABI); no decoder panics on arbitrary
//                   bytes; protobuf decoding rejects an appended unknown field.
//                   JSON goes through encoding/json: it is covered by the monitor only (no model).

import (
	"bytes"
	"encoding/json"
	"errors"
	"math/big"

	"github.com/cosmos/gogoproto/proto"

	sdkmath "cosmossdk.io/math"

	"github.com/cosmos/cosmos-sdk/codec/unknownproto"

	gmptypes "github.com/cosmos/ibc-go/v11/modules/apps/27-gmp/types"
	transfertypes "github.com/cosmos/ibc-go/v11/modules/apps/transfer/types"
	ibcerrors "github.com/cosmos/ibc-go/v11/modules/core/errors"
	attestations "github.com/cosmos/ibc-go/v11/modules/light-clients/attestations"

	. "verif/harness/lib"
	"verif/harness/misc/reg"
)

// ---------------------------------------------------------------- value <-> request helpers

func ftpdOf(in M) transfertypes.FungibleTokenPacketData {
	return transfertypes.FungibleTokenPacketData{Denom: string(reg.B(in, "denom")), Amount: reg.S(in, "amount"),
		Sender: string(reg.B(in, "sender")), Receiver: string(reg.B(in, "receiver")), Memo: string(reg.B(in, "memo"))}
}

func ftpdReq(f string, d transfertypes.FungibleTokenPacketData) M {
	return M{"f": f, "denom": Hex([]byte(d.Denom)), "amount": d.Amount, "sender": Hex([]byte(d.Sender)),
		"receiver": Hex([]byte(d.Receiver)), "memo": Hex([]byte(d.Memo))}
}

func ftpdOut(d *transfertypes.FungibleTokenPacketData) M {
	return M{"denom": Hex([]byte(d.Denom)), "amount": d.Amount, "sender": Hex([]byte(d.Sender)),
		"receiver": Hex([]byte(d.Receiver)), "memo": Hex([]byte(d.Memo))}
}

func gmpOf(in M) gmptypes.GMPPacketData {
	return gmptypes.GMPPacketData{Sender: string(reg.B(in, "sender")), Receiver: string(reg.B(in, "receiver")),
		Salt: reg.B(in, "salt"), Payload: reg.B(in, "payload"), Memo: string(reg.B(in, "memo"))}
}

func gmpReq(f string, d gmptypes.GMPPacketData) M {
	return M{"f": f, "sender": Hex([]byte(d.Sender)), "receiver": Hex([]byte(d.Receiver)), "salt": Hex(d.Salt),
		"payload": Hex(d.Payload), "memo": Hex([]byte(d.Memo))}
}

func gmpOut(d *gmptypes.GMPPacketData) M {
	return M{"sender": Hex([]byte(d.Sender)), "receiver": Hex([]byte(d.Receiver)), "salt": Hex(d.Salt),
		"payload": Hex(d.Payload), "memo": Hex([]byte(d.Memo))}
}

func packetAttOf(in M) attestations.PacketAttestation {
	pa := attestations.PacketAttestation{Height: reg.N(in, "height")}
	for _, p := range reg.List(in, "packets") {
		pa.Packets = append(pa.Packets, attestations.PacketCompact{Path: reg.B(p, "path"), Commitment: reg.B(p, "commitment")})
	}
	return pa
}

func packetAttReq(f string, pa attestations.PacketAttestation) M {
	ps := make([]M, 0, len(pa.Packets))
	for _, p := range pa.Packets {
		ps = append(ps, M{"path": Hex(p.Path), "commitment": Hex(p.Commitment)})
	}
	return M{"f": f, "height": U(pa.Height), "packets": ps}
}

func errClass(err error) string {
	switch {
	case errors.Is(err, transfertypes.ErrAbiDecoding), errors.Is(err, gmptypes.ErrAbiDecoding):
		return "abi-decoding"
	case errors.Is(err, transfertypes.ErrAbiEncoding), errors.Is(err, gmptypes.ErrAbiEncoding):
		return "abi-encoding"
	case errors.Is(err, attestations.ErrInvalidAttestationData):
		return "invalid-attestation"
	case errors.Is(err, attestations.ErrInvalidTimestamp):
		return "invalid-timestamp"
	case errors.Is(err, ibcerrors.ErrInvalidType):
		return "invalid-type"
	case errors.Is(err, gmptypes.ErrInvalidEncoding):
		return "invalid-encoding"
	}
	return "other"
}

// ics20Decode runs the real transfertypes.UnmarshalPacketData (decode + ValidateBasic) and the bare
// decoding steps it is made of; the bare steps give the decoded value before validation, the real
// function pins that they are indeed what UnmarshalPacketData does (decode failures are exactly
// ibcerrors.ErrInvalidType; validation never yields that class).
func ics20Decode(bz []byte, encoding string, bare func() (*transfertypes.FungibleTokenPacketData, error)) any {
	_, realErr := transfertypes.UnmarshalPacketData(bz, transfertypes.V1, encoding)
	realDecodeFailed := realErr != nil && errors.Is(realErr, ibcerrors.ErrInvalidType)
	d, err := bare()
	if realDecodeFailed != (err != nil) {
		return M{"inconsistent": "UnmarshalPacketData and its decoding steps disagree", "real": realErr != nil, "bare": err != nil}
	}
	if err != nil {
		return nil
	}
	if realErr == nil != (d.ValidateBasic() == nil) {
		return M{"inconsistent": "UnmarshalPacketData acceptance differs from ValidateBasic of the decoded value"}
	}
	return d
}

func protoIcs20Bare(bz []byte) func() (*transfertypes.FungibleTokenPacketData, error) {
	return func() (*transfertypes.FungibleTokenPacketData, error) {
		d := &transfertypes.FungibleTokenPacketData{}
		if err := unknownproto.RejectUnknownFieldsStrict(bz, d, unknownproto.DefaultAnyResolver{}); err != nil {
			return nil, err
		}
		if err := proto.Unmarshal(bz, d); err != nil {
			return nil, err
		}
		return d, nil
	}
}

var codecFuncs = map[string]func(in M) any{
	"abi.ics20.enc": func(in M) any {
		d := ftpdOf(in)
		bz, err := transfertypes.MarshalPacketData(d, transfertypes.V1, transfertypes.EncodingABI)
		if err != nil {
			return Err(errClass(err))
		}
		return Ok(Hex(bz))
	},
	"abi.ics20.dec": func(in M) any {
		bz := reg.B(in, "data")
		r := ics20Decode(bz, transfertypes.EncodingABI, func() (*transfertypes.FungibleTokenPacketData, error) {
			return transfertypes.DecodeABIFungibleTokenPacketData(bz)
		})
		switch v := r.(type) {
		case nil:
			return Err("abi-decoding")
		case *transfertypes.FungibleTokenPacketData:
			return Ok(ftpdOut(v))
		}
		return r
	},
	"abi.gmp.enc": func(in M) any {
		d := gmpOf(in)
		bz, err := gmptypes.MarshalPacketData(&d, gmptypes.Version, gmptypes.EncodingABI)
		if err != nil {
			return Err(errClass(err))
		}
		return Ok(Hex(bz))
	},
	"abi.gmp.dec": func(in M) any {
		d, err := gmptypes.DecodeABIGMPPacketData(reg.B(in, "data"))
		if err != nil {
			return Err(errClass(err))
		}
		return Ok(gmpOut(d))
	},
	"abi.gmp.unmarshal": func(in M) any {
		d, err := gmptypes.UnmarshalPacketData(reg.B(in, "data"), gmptypes.Version, gmptypes.EncodingABI)
		if err != nil {
			return Err(errClass(err))
		}
		return Ok(gmpOut(d))
	},
	"abi.gmpack.enc": func(in M) any {
		a := gmptypes.NewAcknowledgement(reg.B(in, "result"))
		bz, err := gmptypes.MarshalAcknowledgement(&a, gmptypes.Version, gmptypes.EncodingABI)
		if err != nil {
			return Err(errClass(err))
		}
		return Ok(Hex(bz))
	},
	"abi.gmpack.dec": func(in M) any {
		a, err := gmptypes.DecodeABIAcknowledgement(reg.B(in, "data"))
		if err != nil {
			return Err(errClass(err))
		}
		return Ok(M{"result": Hex(a.Result)})
	},
	"abi.gmpack.unmarshal": func(in M) any {
		a, err := gmptypes.UnmarshalAcknowledgement(reg.B(in, "data"), gmptypes.Version, gmptypes.EncodingABI)
		if err != nil {
			return Err(errClass(err))
		}
		return Ok(M{"result": Hex(a.Result)})
	},
	"abi.state.enc": func(in M) any {
		sa := attestations.StateAttestation{Height: reg.N(in, "height"), Timestamp: reg.N(in, "timestamp")}
		bz, err := sa.ABIEncode()
		if err != nil {
			return Err(errClass(err))
		}
		return Ok(Hex(bz))
	},
	"abi.state.dec": func(in M) any {
		sa, err := attestations.ABIDecodeStateAttestation(reg.B(in, "data"))
		if err != nil {
			return Err(errClass(err))
		}
		return Ok(M{"height": U(sa.Height), "timestamp": U(sa.Timestamp)})
	},
	"abi.packetatt.enc": func(in M) any {
		pa := packetAttOf(in)
		bz, err := pa.ABIEncode()
		if err != nil {
			return Err(errClass(err))
		}
		return Ok(Hex(bz))
	},
	"abi.packetatt.dec": func(in M) any {
		pa, err := attestations.ABIDecodePacketAttestation(reg.B(in, "data"))
		if err != nil {
			return Err(errClass(err))
		}
		ps := make([]M, 0, len(pa.Packets))
		for _, p := range pa.Packets {
			ps = append(ps, M{"path": Hex(p.Path), "commitment": Hex(p.Commitment)})
		}
		return Ok(M{"height": U(pa.Height), "packets": ps})
	},
	"abi.compact.enc": func(in M) any {
		pc := attestations.PacketCompact{Path: reg.B(in, "path"), Commitment: reg.B(in, "commitment")}
		bz, err := pc.ABIEncode()
		if err != nil {
			return Err(errClass(err))
		}
		return Ok(Hex(bz))
	},
	"proto.ics20.enc": func(in M) any {
		d := transfertypes.FungibleTokenPacketData{Denom: string(reg.B(in, "denom")), Amount: string(reg.B(in, "amount")),
			Sender: string(reg.B(in, "sender")), Receiver: string(reg.B(in, "receiver")), Memo: string(reg.B(in, "memo"))}
		bz, err := transfertypes.MarshalPacketData(d, transfertypes.V1, transfertypes.EncodingProtobuf)
		if err != nil {
			return Err(errClass(err))
		}
		return Ok(Hex(bz))
	},
	"proto.ics20.dec": func(in M) any {
		bz := reg.B(in, "data")
		r := ics20Decode(bz, transfertypes.EncodingProtobuf, protoIcs20Bare(bz))
		switch v := r.(type) {
		case nil:
			return Err("invalid-type")
		case *transfertypes.FungibleTokenPacketData:
			return Ok(M{"denom": Hex([]byte(v.Denom)), "amount": Hex([]byte(v.Amount)), "sender": Hex([]byte(v.Sender)),
				"receiver": Hex([]byte(v.Receiver)), "memo": Hex([]byte(v.Memo))})
		}
		return r
	},
	"proto.ics20.raw": func(in M) any {
		v := &transfertypes.FungibleTokenPacketData{}
		if err := proto.Unmarshal(reg.B(in, "data"), v); err != nil {
			return Err("proto")
		}
		return Ok(M{"denom": Hex([]byte(v.Denom)), "amount": Hex([]byte(v.Amount)), "sender": Hex([]byte(v.Sender)),
			"receiver": Hex([]byte(v.Receiver)), "memo": Hex([]byte(v.Memo))})
	},
	"proto.gmp.enc": func(in M) any {
		d := gmpOf(in)
		bz, err := gmptypes.MarshalPacketData(&d, gmptypes.Version, gmptypes.EncodingProtobuf)
		if err != nil {
			return Err(errClass(err))
		}
		return Ok(Hex(bz))
	},
	"proto.gmp.dec": func(in M) any {
		d, err := gmptypes.UnmarshalPacketData(reg.B(in, "data"), gmptypes.Version, gmptypes.EncodingProtobuf)
		if err != nil {
			return Err(errClass(err))
		}
		return Ok(gmpOut(d))
	},
	"proto.gmp.raw": func(in M) any {
		d := &gmptypes.GMPPacketData{}
		if err := proto.Unmarshal(reg.B(in, "data"), d); err != nil {
			return Err("proto")
		}
		return Ok(gmpOut(d))
	},
	"proto.gmpack.enc": func(in M) any {
		a := gmptypes.NewAcknowledgement(reg.B(in, "result"))
		bz, err := gmptypes.MarshalAcknowledgement(&a, gmptypes.Version, gmptypes.EncodingProtobuf)
		if err != nil {
			return Err(errClass(err))
		}
		return Ok(Hex(bz))
	},
	"proto.gmpack.dec": func(in M) any {
		a, err := gmptypes.UnmarshalAcknowledgement(reg.B(in, "data"), gmptypes.Version, gmptypes.EncodingProtobuf)
		if err != nil {
			return Err(errClass(err))
		}
		return Ok(M{"result": Hex(a.Result)})
	},
	"proto.gmpack.raw": func(in M) any {
		a := &gmptypes.Acknowledgement{}
		if err := proto.Unmarshal(reg.B(in, "data"), a); err != nil {
			return Err("proto")
		}
		return Ok(M{"result": Hex(a.Result)})
	},
	"proto.reject": func(in M) any {
		var msg proto.Message
		switch reg.N(in, "k") {
		case 5:
			msg = &transfertypes.FungibleTokenPacketData{}
		case 1:
			msg = &gmptypes.Acknowledgement{}
		default:
			panic("harness: proto.reject supports k=1,5")
		}
		if err := unknownproto.RejectUnknownFieldsStrict(reg.B(in, "data"), msg, unknownproto.DefaultAnyResolver{}); err != nil {
			return Err("unknown-field")
		}
		return Ok("clean")
	},
	"amount.parse": func(in M) any {
		s := reg.S(in, "s")
		out := M{"sdk": nil, "big10": nil, "valid": nil}
		if a, ok := sdkmath.NewIntFromString(s); ok {
			out["sdk"] = a.String()
		}
		if b, ok := new(big.Int).SetString(s, 10); ok {
			out["big10"] = b.String()
			if b.Sign() == 0 && len(s) > 0 && s[0] == '-' {
				out["big10"] = "-0" // the model keeps the sign it read; EncodeABI treats both as zero
			}
		}
		d := transfertypes.FungibleTokenPacketData{Denom: "uatom", Amount: s, Sender: "a", Receiver: "b"}
		if d.ValidateBasic() == nil {
			a, _ := sdkmath.NewIntFromString(s)
			out["valid"] = a.String()
		}
		return out
	},
}

// ---------------------------------------------------------------- generators

var lenTable = []int{0, 0, 1, 2, 5, 12, 31, 32, 33, 44, 63, 64, 65, 100, 127, 128, 129, 255, 256, 300}

func genLen(r *Rng) int {
	switch r.Intn(12) {
	case 0:
		return 1000 + r.Intn(3000)
	case 1, 2, 3:
		return r.Intn(40)
	default:
		return lenTable[r.Intn(len(lenTable))]
	}
}

const asciiAlpha = "abcdefghijklmnopqrstuvwxyzABCDEFGHIJKLMNOPQRSTUVWXYZ0123456789/-_.:"

func genStr(r *Rng) string {
	n := genLen(r)
	switch r.Intn(6) {
	case 0:
		return string(r.Bytes(n)) // arbitrary bytes, also invalid UTF-8
	case 1:
		return Pick(r, []string{"uatom", "transfer/channel-0/uatom", "ibc/27394FB092D2ECCD56123C74F36E4C1F926001CEADA9CA97EA622B25F41E5EB2",
			"cosmos1qypqxpq9qcrsszg2pvxq6rs0zqg3yyc5lzv7xu", "0x7F5c764cBc14f9669B88837ca1490cCa17c31607", "{\"forward\":{\"receiver\":\"x\",\"port\":\"transfer\",\"channel\":\"channel-1\"}}", " ", ""})
	default:
		return r.Str(asciiAlpha, n)
	}
}

var two256 = new(big.Int).Lsh(big.NewInt(1), 256)

// genAmount: mostly canonical decimals (what ibc-go itself writes), plus boundary values and the
// non-canonical spellings big.Int accepts in base 0 / base 10.
func genAmount(r *Rng) string {
	switch r.Intn(14) {
	case 0, 1, 2, 3, 4:
		return U(r.Num64())
	case 5:
		b := new(big.Int).SetBytes(r.Bytes(1 + r.Intn(32)))
		return b.String()
	case 6:
		return Pick(r, []string{new(big.Int).Sub(two256, big.NewInt(1)).String(), two256.String(), new(big.Int).Add(two256, big.NewInt(7)).String(),
			"1", "0", "18446744073709551616", "340282366920938463463374607431768211456"})
	case 7:
		return Pick(r, []string{"+", "-", ""}) + U(r.Num64())
	case 8:
		return Pick(r, []string{"0", "00", "000"}) + U(r.Num64())
	case 9:
		return Pick(r, []string{"0x", "0X", "0b", "0B", "0o", "0O", "0"}) + r.Str("0123456789abcdefABCDEF_", r.Intn(6))
	case 10:
		return r.Str("0123456789_", 1+r.Intn(8))
	case 11:
		return Pick(r, []string{"", " ", "+", "-", "-0", "+0", "0x", "0_1", "1_000", "1__0", "_1", "1_", "1e3", "1.0", " 5", "5 ", "٣", "010", "0x10", "08", "0b2", "0o8", "0xg", "-0x1", "+0b1"})
	default:
		return r.Str("0123456789", 1+r.Intn(78))
	}
}

func genFtpd(r *Rng) transfertypes.FungibleTokenPacketData {
	return transfertypes.FungibleTokenPacketData{Denom: genStr(r), Amount: genAmount(r), Sender: genStr(r), Receiver: genStr(r), Memo: genStr(r)}
}

func genGmp(r *Rng) gmptypes.GMPPacketData {
	d := gmptypes.GMPPacketData{Sender: genStr(r), Receiver: genStr(r), Salt: r.Bytes(Pick(r, []int{0, 0, 1, 8, 31, 32, 33})), Payload: r.Bytes(genLen(r)), Memo: genStr(r)}
	return d
}

func genPacketAtt(r *Rng) attestations.PacketAttestation {
	pa := attestations.PacketAttestation{Height: r.Num64()}
	n := Pick(r, []int{0, 0, 1, 1, 2, 3, 5, 17})
	for i := 0; i < n; i++ {
		pl, cl := 32, 32
		if r.Chance(0.15) {
			pl = Pick(r, []int{0, 1, 31, 33, 64})
		}
		if r.Chance(0.15) {
			cl = Pick(r, []int{0, 1, 31, 33, 64})
		}
		pa.Packets = append(pa.Packets, attestations.PacketCompact{Path: r.Bytes(pl), Commitment: r.Bytes(cl)})
	}
	return pa
}

func be32(v *big.Int) []byte {
	b := make([]byte, 32)
	v.FillBytes(b)
	return b
}

// mutate: structure-aware byte-level mutations of an encoding.
func mutate(r *Rng, bz []byte) []byte {
	out := append([]byte{}, bz...)
	k := 1 + r.Intn(3)
	for ; k > 0; k-- {
		switch r.Intn(12) {
		case 0: // flip a bit
			if len(out) > 0 {
				out[r.Intn(len(out))] ^= 1 << uint(r.Intn(8))
			}
		case 1: // random byte
			if len(out) > 0 {
				out[r.Intn(len(out))] = byte(r.U64())
			}
		case 2: // truncate
			if len(out) > 0 {
				out = out[:r.Intn(len(out))]
			}
		case 3: // extend
			out = append(out, r.Bytes(1+r.Intn(40))...)
		case 4, 5, 6: // overwrite a 32-byte word with an interesting value (offsets / lengths)
			if len(out) >= 32 {
				w := r.Intn(len(out)/32) * 32
				var v *big.Int
				switch r.Intn(10) {
				case 0:
					v = big.NewInt(0)
				case 1:
					v = big.NewInt(int64(len(out)))
				case 2:
					v = big.NewInt(int64(len(out) - 32))
				case 3:
					v = big.NewInt(int64(len(out) + 1))
				case 4:
					v = new(big.Int).SetUint64(r.Num64())
				case 5:
					v = new(big.Int).Sub(two256, big.NewInt(int64(1+r.Intn(64))))
				case 6:
					v = new(big.Int).Lsh(big.NewInt(1), uint(Pick(r, []int{31, 32, 62, 63, 64, 255})))
				case 7:
					v = big.NewInt(int64(r.Intn(len(out) + 1)))
				case 8:
					v = big.NewInt(int64(32 * r.Intn(len(out)/32+2)))
				default:
					v = new(big.Int).SetBytes(out[w : w+32])
					v.Add(v, big.NewInt(int64(r.Intn(65)-32)))
					if v.Sign() < 0 {
						v = big.NewInt(0)
					}
					v.Mod(v, two256)
				}
				copy(out[w:w+32], be32(v))
			}
		case 7: // drop a word
			if len(out) >= 32 {
				w := r.Intn(len(out)/32) * 32
				out = append(out[:w], out[w+32:]...)
			}
		case 8: // duplicate a chunk
			if len(out) > 0 {
				a := r.Intn(len(out))
				b := a + r.Intn(len(out)-a)
				out = append(out[:b], append(append([]byte{}, out[a:b]...), out[b:]...)...)
			}
		case 9: // protobuf-ish: append an extra field
			num := Pick(r, []uint64{0, 1, 2, 5, 6, 7, 15, 16, 1 << 10, 1<<28 + 1, 1<<29 - 1, 1 << 29, 1<<31 - 1, 1 << 31, 1<<32 + 1, 1<<61 - 1})
			wt := uint64(r.Intn(8))
			out = appendVarint(out, num<<3|wt)
			switch wt {
			case 0:
				out = appendVarint(out, r.Num64())
			case 1:
				out = append(out, r.Bytes(8)...)
			case 2:
				n := r.Intn(6)
				out = appendVarint(out, uint64(n))
				out = append(out, r.Bytes(n)...)
			case 5:
				out = append(out, r.Bytes(4)...)
			}
		case 10: // protobuf-ish: non-minimal / overlong varint somewhere
			if len(out) > 0 {
				p := r.Intn(len(out))
				ext := []byte{out[p] | 0x80}
				for j := r.Intn(10); j > 0; j-- {
					ext = append(ext, 0x80)
				}
				ext = append(ext, byte(r.Intn(3)))
				out = append(out[:p], append(ext, out[p+1:]...)...)
			}
		default: // swap two bytes
			if len(out) > 1 {
				a, b := r.Intn(len(out)), r.Intn(len(out))
				out[a], out[b] = out[b], out[a]
			}
		}
	}
	return out
}

func appendVarint(b []byte, v uint64) []byte {
	for v >= 0x80 {
		b = append(b, byte(v)|0x80)
		v >>= 7
	}
	return append(b, byte(v))
}

func randomBytes(r *Rng) []byte {
	switch r.Intn(5) {
	case 0:
		return r.Bytes(r.Intn(8))
	case 1: // word-aligned with small words (plausible offsets)
		n := 1 + r.Intn(12)
		var out []byte
		for i := 0; i < n; i++ {
			out = append(out, be32(big.NewInt(int64(32*r.Intn(n+2)+Pick(r, []int{0, 0, 0, 1, 5, 31}))))...)
		}
		return out
	case 2:
		return r.Bytes(32 * r.Intn(10))
	default:
		return r.Bytes(r.Intn(400))
	}
}

func hexOf(out any) ([]byte, bool) {
	m, ok := out.(M)
	if !ok {
		return nil, false
	}
	s, ok := m["ok"].(string)
	if !ok {
		return nil, false
	}
	b, err := hexDecode(s)
	return b, err == nil
}

func codecGen(r *Rng, n int, emit func(M)) {
	// every encoder/decoder pair: (enc request builder, dec function names)
	type pair struct {
		enc  func() M
		decs []string
	}
	for i := 0; i < n; i++ {
		pairs := []pair{
			{func() M { return ftpdReq("abi.ics20.enc", genFtpd(r)) }, []string{"abi.ics20.dec"}},
			{func() M { return gmpReq("abi.gmp.enc", genGmp(r)) }, []string{"abi.gmp.dec", "abi.gmp.unmarshal"}},
			{func() M { return M{"f": "abi.gmpack.enc", "result": Hex(r.Bytes(genLen(r)))} }, []string{"abi.gmpack.dec", "abi.gmpack.unmarshal"}},
			{func() M {
				ts := r.Num64()
				if r.Chance(0.4) {
					ts = ts / 1000000000 * 1000000000
				}
				return M{"f": "abi.state.enc", "height": U(r.Num64()), "timestamp": U(ts)}
			}, []string{"abi.state.dec"}},
			{func() M { return packetAttReq("abi.packetatt.enc", genPacketAtt(r)) }, []string{"abi.packetatt.dec"}},
			{func() M {
				d := genFtpd(r)
				return M{"f": "proto.ics20.enc", "denom": Hex([]byte(d.Denom)), "amount": Hex([]byte(d.Amount)), "sender": Hex([]byte(d.Sender)),
					"receiver": Hex([]byte(d.Receiver)), "memo": Hex([]byte(d.Memo))}
			}, []string{"proto.ics20.dec", "proto.ics20.raw"}},
			{func() M { return gmpReq("proto.gmp.enc", genGmp(r)) }, []string{"proto.gmp.dec", "proto.gmp.raw"}},
			{func() M { return M{"f": "proto.gmpack.enc", "result": Hex(r.Bytes(genLen(r)))} }, []string{"proto.gmpack.dec", "proto.gmpack.raw"}},
		}
		for _, p := range pairs {
			req := p.enc()
			emit(req)
			bz, ok := hexOf(reg.Eval(req))
			if !ok {
				bz = randomBytes(r)
			}
			for _, d := range p.decs {
				emit(M{"f": d, "data": Hex(bz)})
				emit(M{"f": d, "data": Hex(mutate(r, bz))})
				if r.Chance(0.5) {
					emit(M{"f": d, "data": Hex(mutate(r, mutate(r, bz)))})
				}
				if r.Chance(0.3) {
					emit(M{"f": d, "data": Hex(randomBytes(r))})
				}
			}
		}
		pc := attestations.PacketCompact{Path: r.Bytes(Pick(r, []int{0, 31, 32, 32, 33})), Commitment: r.Bytes(Pick(r, []int{0, 31, 32, 32, 40}))}
		emit(M{"f": "abi.compact.enc", "path": Hex(pc.Path), "commitment": Hex(pc.Commitment)})
		emit(M{"f": "amount.parse", "s": genAmount(r)})
		// unknown-field rejection on its own
		d := genFtpd(r)
		bz, _ := proto.Marshal(&d)
		emit(M{"f": "proto.reject", "k": 5, "data": Hex(mutate(r, bz))})
	}
}

func hexDecode(s string) ([]byte, error) {
	b := make([]byte, len(s)/2)
	for i := 0; i+1 < len(s); i += 2 {
		hi, lo := unhex(s[i]), unhex(s[i+1])
		if hi < 0 || lo < 0 {
			return nil, errors.New("bad hex")
		}
		b[i/2] = byte(hi<<4 | lo)
	}
	return b, nil
}

func unhex(c byte) int {
	switch {
	case '0' <= c && c <= '9':
		return int(c - '0')
	case 'a' <= c && c <= 'f':
		return int(c-'a') + 10
	case 'A' <= c && c <= 'F':
		return int(c-'A') + 10
	}
	return -1
}

// ---------------------------------------------------------------- monitor

// amountInt is the integer an ICS-20 receiver credits for an amount string (every consumer in
// ibc-go reads it with sdkmath.NewIntFromString).
func amountInt(s string) (sdkmath.Int, bool) { return sdkmath.NewIntFromString(s) }

func sameTransfer(a, b transfertypes.FungibleTokenPacketData) bool {
	ai, ok1 := amountInt(a.Amount)
	bi, ok2 := amountInt(b.Amount)
	return a.Denom == b.Denom && a.Sender == b.Sender && a.Receiver == b.Receiver && a.Memo == b.Memo && ok1 && ok2 && ai.Equal(bi)
}

func noPanic(report func(reg.Violation), what string, input any, f func()) {
	defer func() {
		if e := recover(); e != nil {
			report(reg.Violation{Property: "C35", Key: "panic/" + what, What: "decoder panicked: " + what, Input: input, Observed: M{"panic": errString(e)}})
		}
	}()
	f()
}

func errString(e any) string {
	if err, ok := e.(error); ok {
		return err.Error()
	}
	if s, ok := e.(string); ok {
		return s
	}
	return "panic"
}

// validFtpd draws a value that passes ValidateBasic (the property quantifies over valid values).
func validFtpd(r *Rng) transfertypes.FungibleTokenPacketData {
	for {
		d := genFtpd(r)
		if r.Chance(0.7) {
			d.Denom = Pick(r, []string{"uatom", "transfer/channel-0/uatom", "transfer/channel-7/transfer/07-tendermint-3/stake", "ibc/27394FB092D2ECCD56123C74F36E4C1F926001CEADA9CA97EA622B25F41E5EB2", "gamm/pool/1"})
		}
		if r.Chance(0.7) {
			d.Sender, d.Receiver = r.Str(asciiAlpha, 1+r.Intn(60)), r.Str(asciiAlpha, 1+r.Intn(60))
		}
		if d.ValidateBasic() == nil {
			return d
		}
	}
}

func codecMonitor(r *Rng, n int, report func(reg.Violation)) {
	encodings := []string{transfertypes.EncodingJSON, transfertypes.EncodingProtobuf, transfertypes.EncodingABI}
	checkFtpd := func(d transfertypes.FungibleTokenPacketData) {
		for _, enc := range encodings {
			in := M{"value": ftpdOut(&d), "encoding": enc}
			if enc == transfertypes.EncodingJSON && !jsonRepresentable(d.Denom, d.Amount, d.Sender, d.Receiver, d.Memo) {
				continue // strings that are not valid UTF-8 are not representable in JSON
			}
			noPanic(report, "ics20/"+enc, in, func() {
				bz, err := transfertypes.MarshalPacketData(d, transfertypes.V1, enc)
				if err != nil {
					key := "roundtrip/ics20-encode-fails/" + enc
					if enc == transfertypes.EncodingABI {
						if _, ok := new(big.Int).SetString(d.Amount, 10); !ok {
							key = "abi-amount-base/encode-fails"
						}
					}
					report(reg.Violation{Property: "C35", Key: key, What: "a valid ICS-20 packet data value cannot be encoded (" + enc + ")", Input: in, Observed: err.Error()})
					return
				}
				got, err := transfertypes.UnmarshalPacketData(bz, transfertypes.V1, enc)
				if err != nil {
					report(reg.Violation{Property: "C35", Key: "roundtrip/ics20-decode-fails/" + enc, What: "the encoding of a valid ICS-20 packet data value does not decode (" + enc + ")", Input: in, Observed: err.Error()})
					return
				}
				back := transfertypes.FungibleTokenPacketData{Denom: got.Token.Denom.Path(), Amount: got.Token.Amount, Sender: got.Sender, Receiver: got.Receiver, Memo: got.Memo}
				want := d
				want.Denom = transfertypes.ExtractDenomFromPath(d.Denom).Path()
				if !sameTransfer(want, back) {
					key := "roundtrip/ics20-differs/" + enc
					wi, _ := amountInt(want.Amount)
					bi, _ := amountInt(back.Amount)
					if enc == transfertypes.EncodingABI && want.Denom == back.Denom && want.Sender == back.Sender && want.Receiver == back.Receiver && want.Memo == back.Memo && !wi.Equal(bi) {
						if b10, ok := new(big.Int).SetString(d.Amount, 10); ok && b10.Cmp(wi.BigInt()) != 0 {
							key = "abi-amount-base/differs"
						}
					}
					report(reg.Violation{Property: "C35", Key: key, What: "decode(encode x) is a different transfer (" + enc + ")", Input: in, Observed: ftpdOut(&back)})
				}
			})
		}
		// protobuf: an appended unknown field must be rejected
		noPanic(report, "ics20/proto-unknown", ftpdOut(&d), func() {
			bz, _ := transfertypes.MarshalPacketData(d, transfertypes.V1, transfertypes.EncodingProtobuf)
			// any field number: low ones and the "non-critical" ranges (bit 11 set: 1024-2047, 3072-4095, ...),
			// which the SDK's tx decoder tolerates but packet data decoding must not
			num := uint64(6 + r.Intn(1000))
			switch r.Intn(4) {
			case 0:
				num = []uint64{1024, 1025, 1500, 2047, 2048, 3072, 4095, 1 << 20, 1<<20 | 1<<10, 1<<29 - 1}[r.Intn(10)]
			case 1:
				num = uint64(1024 + r.Intn(1024) + 2048*r.Intn(8))
			}
			ext := appendVarint(append([]byte{}, bz...), num<<3|2)
			ext = append(appendVarint(ext, 3), 'a', 'b', 'c')
			if _, err := transfertypes.UnmarshalPacketData(ext, transfertypes.V1, transfertypes.EncodingProtobuf); err == nil {
				report(reg.Violation{Property: "C35", Key: "proto-unknown-field-accepted/ics20", What: "protobuf decoding accepted an unknown field", Input: M{"data": Hex(ext), "field": U(num)}, Observed: "ok"})
			}
		})
	}
	// regression inputs: the witnesses of the amount-base finding fixed by 6129489 ("010" was validated as 8
	// and ABI-encoded as 10; "0x10" could not be encoded) must round-trip now
	checkFtpd(transfertypes.FungibleTokenPacketData{Denom: "uatom", Amount: "010", Sender: "a", Receiver: "b"})
	checkFtpd(transfertypes.FungibleTokenPacketData{Denom: "uatom", Amount: "0x10", Sender: "a", Receiver: "b"})
	for i := 0; i < n; i++ {
		checkFtpd(validFtpd(r))

		// GMP packet data and acknowledgement
		g := genGmp(r)
		for _, enc := range []string{gmptypes.EncodingJSON, gmptypes.EncodingProtobuf, gmptypes.EncodingABI} {
			in := M{"value": gmpOut(&g), "encoding": enc}
			noPanic(report, "gmp/"+enc, in, func() {
				bz, err := gmptypes.MarshalPacketData(&g, gmptypes.Version, enc)
				if err != nil {
					report(reg.Violation{Property: "C35", Key: "roundtrip/gmp-encode-fails/" + enc, What: "GMP packet data cannot be encoded", Input: in, Observed: err.Error()})
					return
				}
				got, err := gmptypes.UnmarshalPacketData(bz, gmptypes.Version, enc)
				if err != nil {
					if enc == gmptypes.EncodingJSON && !jsonRepresentable(g.Sender, g.Receiver, g.Memo) {
						return // strings that are not valid UTF-8 are not representable in JSON
					}
					report(reg.Violation{Property: "C35", Key: "roundtrip/gmp-decode-fails/" + enc, What: "the encoding of GMP packet data does not decode", Input: in, Observed: err.Error()})
					return
				}
				if got.Sender != g.Sender || got.Receiver != g.Receiver || got.Memo != g.Memo || !bytes.Equal(got.Salt, g.Salt) || !bytes.Equal(got.Payload, g.Payload) {
					report(reg.Violation{Property: "C35", Key: "roundtrip/gmp-differs/" + enc, What: "decode(encode x) differs for GMP packet data", Input: in, Observed: gmpOut(got)})
				}
			})
			ack := gmptypes.NewAcknowledgement(r.Bytes(genLen(r)))
			noPanic(report, "gmpack/"+enc, M{"result": Hex(ack.Result), "encoding": enc}, func() {
				bz, err := gmptypes.MarshalAcknowledgement(&ack, gmptypes.Version, enc)
				if err != nil {
					report(reg.Violation{Property: "C35", Key: "roundtrip/gmpack-encode-fails/" + enc, What: "GMP acknowledgement cannot be encoded", Input: Hex(ack.Result), Observed: err.Error()})
					return
				}
				got, err := gmptypes.UnmarshalAcknowledgement(bz, gmptypes.Version, enc)
				if err != nil || !bytes.Equal(got.Result, ack.Result) {
					report(reg.Violation{Property: "C35", Key: "roundtrip/gmpack-differs/" + enc, What: "decode(encode x) differs for GMP acknowledgement", Input: M{"result": Hex(ack.Result), "encoding": enc}, Observed: errOr(err)})
				}
			})
		}
		// protobuf unknown field for GMP
		noPanic(report, "gmp/proto-unknown", gmpOut(&g), func() {
			bz, _ := gmptypes.MarshalPacketData(&g, gmptypes.Version, gmptypes.EncodingProtobuf)
			gnum := uint64(6 + r.Intn(100))
			if r.Intn(3) == 0 {
				gnum = uint64(1024 + r.Intn(1024) + 2048*r.Intn(8)) // "non-critical" range (bit 11 set)
			}
			ext := append(appendVarint(appendVarint(append([]byte{}, bz...), gnum<<3|2), 1), 'x')
			if _, err := gmptypes.UnmarshalPacketData(ext, gmptypes.Version, gmptypes.EncodingProtobuf); err == nil {
				report(reg.Violation{Property: "C35", Key: "proto-unknown-field-accepted/gmp", What: "protobuf decoding accepted an unknown field", Input: Hex(ext), Observed: "ok"})
			}
		})

		// attestation ABI: values representable in the encoding = whole seconds, 32-byte words
		sa := attestations.StateAttestation{Height: r.Num64(), Timestamp: r.Num64() / 1000000000 * 1000000000}
		noPanic(report, "attestation/state", M{"height": U(sa.Height), "timestamp": U(sa.Timestamp)}, func() {
			bz, err := sa.ABIEncode()
			if err == nil {
				var got *attestations.StateAttestation
				got, err = attestations.ABIDecodeStateAttestation(bz)
				if err == nil && *got == sa {
					return
				}
			}
			report(reg.Violation{Property: "C35", Key: "roundtrip/state-attestation", What: "decode(encode x) differs for StateAttestation", Input: M{"height": U(sa.Height), "timestamp": U(sa.Timestamp)}, Observed: errOr(err)})
		})
		pa := genPacketAtt(r)
		for j := range pa.Packets {
			pa.Packets[j].Path, pa.Packets[j].Commitment = r.Bytes(32), r.Bytes(32)
		}
		noPanic(report, "attestation/packet", packetAttReq("", pa), func() {
			bz, err := pa.ABIEncode()
			if err == nil {
				var got *attestations.PacketAttestation
				got, err = attestations.ABIDecodePacketAttestation(bz)
				if err == nil && got.Height == pa.Height && len(got.Packets) == len(pa.Packets) {
					same := true
					for j := range pa.Packets {
						same = same && bytes.Equal(got.Packets[j].Path, pa.Packets[j].Path) && bytes.Equal(got.Packets[j].Commitment, pa.Packets[j].Commitment)
					}
					if same {
						return
					}
				}
			}
			report(reg.Violation{Property: "C35", Key: "roundtrip/packet-attestation", What: "decode(encode x) differs for PacketAttestation", Input: packetAttReq("", pa), Observed: errOr(err)})
		})

		// arbitrary and mutated bytes into every decoder: error or value, never a panic
		seeds := [][]byte{randomBytes(r)}
		if bz, err := transfertypes.MarshalPacketData(validFtpd(r), transfertypes.V1, Pick(r, encodings)); err == nil {
			seeds = append(seeds, mutate(r, bz))
		}
		if bz, err := gmptypes.MarshalPacketData(&g, gmptypes.Version, Pick(r, encodings)); err == nil {
			seeds = append(seeds, mutate(r, bz))
		}
		if bz, err := pa.ABIEncode(); err == nil {
			seeds = append(seeds, mutate(r, bz))
		}
		for _, bz := range seeds {
			in := M{"data": Hex(bz)}
			for _, enc := range append(encodings, "", "application/unknown") {
				noPanic(report, "ics20.UnmarshalPacketData/"+enc, in, func() { _, _ = transfertypes.UnmarshalPacketData(bz, transfertypes.V1, enc) })
				noPanic(report, "gmp.UnmarshalPacketData/"+enc, in, func() { _, _ = gmptypes.UnmarshalPacketData(bz, gmptypes.Version, enc) })
				noPanic(report, "gmp.UnmarshalAcknowledgement/"+enc, in, func() { _, _ = gmptypes.UnmarshalAcknowledgement(bz, gmptypes.Version, enc) })
			}
			noPanic(report, "DecodeABIFungibleTokenPacketData", in, func() { _, _ = transfertypes.DecodeABIFungibleTokenPacketData(bz) })
			noPanic(report, "DecodeABIGMPPacketData", in, func() { _, _ = gmptypes.DecodeABIGMPPacketData(bz) })
			noPanic(report, "DecodeABIAcknowledgement", in, func() { _, _ = gmptypes.DecodeABIAcknowledgement(bz) })
			noPanic(report, "ABIDecodeStateAttestation", in, func() { _, _ = attestations.ABIDecodeStateAttestation(bz) })
			noPanic(report, "ABIDecodePacketAttestation", in, func() { _, _ = attestations.ABIDecodePacketAttestation(bz) })
			noPanic(report, "json.Unmarshal(FungibleTokenPacketData)", in, func() {
				var d transfertypes.FungibleTokenPacketData
				_ = json.Unmarshal(bz, &d)
			})
		}
	}
}

func jsonRepresentable(ss ...string) bool {
	for _, s := range ss {
		b, err := json.Marshal(s)
		if err != nil {
			return false
		}
		var back string
		if json.Unmarshal(b, &back) != nil || back != s {
			return false
		}
	}
	return true
}

func errOr(err error) any {
	if err != nil {
		return err.Error()
	}
	return "decoded value differs"
}

func init() {
	reg.Register(reg.Group{Name: "codec", Props: []string{"C35"}, Funcs: codecFuncs, Gen: codecGen, Monitor: codecMonitor})
}
