// Engine "maprange" (property C45): the exported functions behind the range-over-map sites of
// /repo/modules, evaluated on the real code and compared with the Lean folds of
// lean/IbcVerif/Model/MapRange.lean through the case protocol.
//
//	maprange.port.keys        05-port Router: AddRoute in the given order, then Keys()
//	maprange.api.router       IBC v2 api.Router: a wiring sequence of AddRoute / AddPrefixRoute calls
//	                          (a panic is an outcome, classified by its message) and routing queries
//	maprange.pfm.initGenesis  packet-forward-middleware Keeper.InitGenesis over a Go map of in-flight packets
//
// Go randomises the iteration order at every `range`, so each request is evaluated several times on
// freshly built objects; all repetitions have to agree (an order-dependent answer that reaches
// routing / stored state is reported as a C45 violation) and the agreed answer has to equal the
// model's, which evaluates the fold in request order (Props/C45.lean: any order gives the same).
package misc

import (
	"fmt"
	"sort"
	"strconv"
	"strings"

	"github.com/cosmos/cosmos-sdk/codec"
	codectypes "github.com/cosmos/cosmos-sdk/codec/types"
	"github.com/cosmos/cosmos-sdk/runtime"
	storetypes "github.com/cosmos/cosmos-sdk/store/v2/types"
	"github.com/cosmos/cosmos-sdk/testutil"

	pfmkeeper "github.com/cosmos/ibc-go/v11/modules/apps/packet-forward-middleware/keeper"
	pfmtypes "github.com/cosmos/ibc-go/v11/modules/apps/packet-forward-middleware/types"
	porttypes "github.com/cosmos/ibc-go/v11/modules/core/05-port/types"
	"github.com/cosmos/ibc-go/v11/modules/core/api"

	. "verif/harness/lib"
	"verif/harness/misc/reg"
)

const mapRangeReps = 6

// identifiable modules; the embedded interface is nil, no callback is ever invoked
type idModV1 struct {
	porttypes.IBCModule
	id int
}

type idModV2 struct {
	api.IBCModule
	id int
}

func panicText(f func()) (msg string, panicked bool) {
	defer func() {
		if e := recover(); e != nil {
			msg, panicked = fmt.Sprint(e), true
		}
	}()
	f()
	return "", false
}

func portKeysOnce(keys []string) any {
	rtr := porttypes.NewRouter()
	for i, k := range keys {
		rtr.AddRoute(k, idModV1{id: i})
	}
	return Ok(rtr.Keys())
}

func after(msg, marker string) string {
	i := strings.LastIndex(msg, marker)
	if i < 0 {
		return "?"
	}
	return msg[i+len(marker):]
}

func classifyRouterPanic(msg string) string {
	switch {
	case strings.Contains(msg, "can only contain alphanumeric characters"):
		return "panic:notalnum"
	case strings.Contains(msg, "has already been registered"):
		return "panic:dup"
	case strings.Contains(msg, "is already matched by registered prefix route: "):
		return "panic:matched-by-prefix:" + after(msg, "registered prefix route: ")
	case strings.Contains(msg, "is a prefix for already registered route"):
		return "panic:prefix-of-route"
	case strings.Contains(msg, "has already been covered by registered prefix: "):
		return "panic:covered-by:" + after(msg, "registered prefix: ")
	case strings.Contains(msg, "is a prefix for already registered prefix"):
		return "panic:covers"
	}
	return "panic:other:" + msg
}

func apiRouterOnce(ops []M, qs []string) M {
	rtr := api.NewRouter()
	outs := make([]string, 0, len(ops))
	for i, o := range ops {
		p := reg.S(o, "p")
		var msg string
		var bad bool
		switch reg.S(o, "op") {
		case "route":
			msg, bad = panicText(func() { rtr.AddRoute(p, idModV2{id: i}) })
		case "prefix":
			msg, bad = panicText(func() { rtr.AddPrefixRoute(p, idModV2{id: i}) })
		default:
			panic("harness: unknown router op")
		}
		if bad {
			outs = append(outs, classifyRouterPanic(msg))
		} else {
			outs = append(outs, "ok")
		}
	}
	routes := make([]string, 0, len(qs))
	for _, q := range qs {
		if !rtr.HasRoute(q) {
			routes = append(routes, "none")
			continue
		}
		m, ok := rtr.Route(q).(idModV2)
		if !ok {
			routes = append(routes, "?")
			continue
		}
		routes = append(routes, strconv.Itoa(m.id))
	}
	return M{"ops": outs, "routes": routes}
}

func pairs(in M, k string) [][2]string {
	var out [][2]string
	switch v := in[k].(type) {
	case [][2]string:
		return v
	case []any:
		for _, x := range v {
			a, _ := x.([]any)
			if len(a) == 2 {
				s0, _ := a[0].(string)
				s1, _ := a[1].(string)
				out = append(out, [2]string{s0, s1})
			}
		}
	}
	return out
}

var pfmCdc = codec.NewProtoCodec(codectypes.NewInterfaceRegistry())

func pfmInitOnce(pre, entries [][2]string) (out any) {
	key := storetypes.NewKVStoreKey(pfmtypes.StoreKey)
	ctx := testutil.DefaultContext(key, storetypes.NewTransientStoreKey("t"))
	k := pfmkeeper.NewKeeper(pfmCdc, nil, runtime.NewKVStoreService(key), nil, nil, nil, "authority")
	st := ctx.KVStore(key)
	for _, p := range pre {
		st.Set([]byte(p[0]), pfmCdc.MustMarshal(&pfmtypes.InFlightPacket{OriginalSenderAddress: p[1]}))
	}
	gs := pfmtypes.GenesisState{InFlightPackets: map[string]pfmtypes.InFlightPacket{}}
	for _, e := range entries {
		gs.InFlightPackets[e[0]] = pfmtypes.InFlightPacket{OriginalSenderAddress: e[1]}
	}
	if msg, bad := panicText(func() { k.InitGenesis(ctx, gs) }); bad {
		if strings.Contains(msg, "key is nil or empty") {
			return M{"panic": "empty-key"}
		}
		return M{"panic": msg}
	}
	dump := [][2]string{}
	it := st.Iterator(nil, nil)
	defer it.Close()
	for ; it.Valid(); it.Next() {
		var p pfmtypes.InFlightPacket
		pfmCdc.MustUnmarshal(it.Value(), &p)
		dump = append(dump, [2]string{string(it.Key()), p.OriginalSenderAddress})
	}
	return Ok(dump)
}

// repeat evaluates f several times; if the answers differ the differing pair is returned
func repeat(f func() any) (any, bool) {
	first := f()
	fs := fmt.Sprint(first)
	for i := 1; i < mapRangeReps; i++ {
		x := f()
		if fmt.Sprint(x) != fs {
			return M{"unstable": []any{first, x}}, false
		}
	}
	return first, true
}

func mapRangeEval(in M) (any, bool) {
	switch reg.S(in, "f") {
	case "maprange.port.keys":
		keys := reg.Strs(in, "keys")
		return repeat(func() any { return portKeysOnce(keys) })
	case "maprange.api.router":
		ops, qs := reg.List(in, "ops"), reg.Strs(in, "q")
		return repeat(func() any { return apiRouterOnce(ops, qs) })
	case "maprange.pfm.initGenesis":
		pre, entries := pairs(in, "pre"), pairs(in, "entries")
		return repeat(func() any { return pfmInitOnce(pre, entries) })
	case "maprange.api.panicmsgs":
		// replay-only witness (never generated, no model answer): the distinct panic *texts* of one
		// colliding AddPrefixRoute call over 64 freshly built routers.  Props/C45.lean
		// site_api_addPrefixRoute_*_message_full_false: the named route is iteration-order dependent.
		seen := map[string]bool{}
		for i := 0; i < 64; i++ {
			rtr := api.NewRouter()
			for j, p := range reg.Strs(in, "routes") {
				rtr.AddRoute(p, idModV2{id: j})
			}
			for j, p := range reg.Strs(in, "prefixes") {
				rtr.AddPrefixRoute(p, idModV2{id: j})
			}
			msg, _ := panicText(func() { rtr.AddPrefixRoute(reg.S(in, "add"), idModV2{}) })
			seen[msg] = true
		}
		return M{"msgs": SortedKeys(seen)}, true
	}
	panic("harness: unknown maprange function")
}

func genKey(r *Rng, alphabet string, maxLen int) string { return r.Str(alphabet, 1+r.Intn(maxLen)) }

func distinctKeys(r *Rng, n int, alphabet string, maxLen int) []string {
	seen := map[string]bool{}
	out := []string{}
	for len(out) < n {
		k := genKey(r, alphabet, maxLen)
		if !seen[k] {
			seen[k] = true
			out = append(out, k)
		}
	}
	return out
}

func genMapRange(r *Rng) M {
	switch r.Intn(3) {
	case 0:
		alpha := Pick(r, []string{"abAB01", "abcdefghijklmnopqrstuvwxyz", "tTrR9"})
		return M{"f": "maprange.port.keys", "keys": distinctKeys(r, r.Intn(9), alpha, 6)}
	case 1:
		// small alphabet and short strings: prefix collisions are the point
		n := 2 + r.Intn(8)
		ops := make([]M, n)
		for i := range ops {
			op := "prefix"
			if r.Intn(3) == 0 {
				op = "route"
			}
			p := genKey(r, "ab", 4)
			switch r.Intn(20) {
			case 0:
				p = ""
			case 1:
				p += "-"
			case 2:
				p = genKey(r, "abc", 6)
			}
			ops[i] = M{"op": op, "p": p}
		}
		qs := make([]string, 5)
		for i := range qs {
			qs[i] = genKey(r, "ab", 6)
		}
		if r.Bool() {
			qs[0] = reg.S(ops[r.Intn(n)], "p")
		}
		return M{"f": "maprange.api.router", "ops": ops, "q": qs}
	default:
		ks := distinctKeys(r, 1+r.Intn(8), "abc/0", 5)
		cut := r.Intn(len(ks) + 1)
		var pre, entries [][2]string
		for i, k := range ks {
			if i < cut && r.Bool() {
				pre = append(pre, [2]string{k, "old" + strconv.Itoa(i)})
				if r.Bool() {
					continue // only in the store
				}
			}
			entries = append(entries, [2]string{k, "new" + strconv.Itoa(i)})
		}
		if r.Intn(12) == 0 {
			entries = append(entries, [2]string{"", "bad"})
		}
		// request order = one possible iteration order; shuffle it
		for i := len(entries) - 1; i > 0; i-- {
			j := r.Intn(i + 1)
			entries[i], entries[j] = entries[j], entries[i]
		}
		if pre == nil {
			pre = [][2]string{}
		}
		if entries == nil {
			entries = [][2]string{}
		}
		return M{"f": "maprange.pfm.initGenesis", "pre": pre, "entries": entries}
	}
}

func init() {
	ev := func(in M) any { out, _ := mapRangeEval(in); return out }
	reg.Register(reg.Group{
		Name:  "maprange",
		Props: []string{"C45"},
		Funcs: map[string]func(in M) any{"maprange.port.keys": ev, "maprange.api.router": ev, "maprange.pfm.initGenesis": ev, "maprange.api.panicmsgs": ev},
		Gen: func(r *Rng, n int, emit func(M)) {
			for i := 0; i < n; i++ {
				emit(genMapRange(r))
			}
		},
		Monitor: func(r *Rng, n int, report func(reg.Violation)) {
			for i := 0; i < n; i++ {
				in := genMapRange(r)
				out, stable := mapRangeEval(in)
				if stable {
					continue
				}
				// which part moved?  a changing panic *text* is not state; routing / keys / store content is
				key := "maprange-unstable/" + strings.TrimPrefix(reg.S(in, "f"), "maprange.")
				if reg.S(in, "f") == "maprange.api.router" {
					pair := out.(M)["unstable"].([]any)
					a, b := pair[0].(M), pair[1].(M)
					if fmt.Sprint(a["routes"]) == fmt.Sprint(b["routes"]) && okSet(a["ops"]) == okSet(b["ops"]) {
						continue
					}
				}
				report(reg.Violation{Property: "C45", Key: key,
					What:  "a function iterating a Go map returned different results on identical input (map iteration order leaks)",
					Input: in, Observed: out, Requests: []M{in}})
			}
		},
	})
}

// okSet: which wiring calls succeeded (the part of the op outcomes that determines router state)
func okSet(v any) string {
	outs, _ := v.([]string)
	var idx []string
	for i, o := range outs {
		if o == "ok" {
			idx = append(idx, strconv.Itoa(i))
		}
	}
	sort.Strings(idx)
	return strings.Join(idx, ",")
}
