package misc

// Seed corpus for the "fuzz" engine: fully valid instances of the message types whose
// ValidateBasic is deep (consistent signed headers, packed client states, handshake messages),
// built with ibc-go's own constructors. The monitor copies a seed and refills one or two randomly
// chosen fields (any depth) with adversarial content, so that the checks behind the early returns
// are reached.

import (
	"reflect"
	"time"

	"github.com/cosmos/gogoproto/proto"

	upgradetypes "github.com/cosmos/cosmos-sdk/x/upgrade/types"

	"github.com/cosmos/cosmos-sdk/codec"
	codectypes "github.com/cosmos/cosmos-sdk/codec/types"
	"github.com/cosmos/cosmos-sdk/crypto/keys/secp256k1"

	"github.com/cometbft/cometbft/crypto/ed25519"
	"github.com/cometbft/cometbft/crypto/tmhash"
	cmtproto "github.com/cometbft/cometbft/proto/tendermint/types"
	cmtprotoversion "github.com/cometbft/cometbft/proto/tendermint/version"
	cmttypes "github.com/cometbft/cometbft/types"
	cmtversion "github.com/cometbft/cometbft/version"

	clienttypes "github.com/cosmos/ibc-go/v11/modules/core/02-client/types"
	connectiontypes "github.com/cosmos/ibc-go/v11/modules/core/03-connection/types"
	channeltypes "github.com/cosmos/ibc-go/v11/modules/core/04-channel/types"
	commitmenttypes "github.com/cosmos/ibc-go/v11/modules/core/23-commitment/types"
	solomachine "github.com/cosmos/ibc-go/v11/modules/light-clients/06-solomachine"
	ibctm "github.com/cosmos/ibc-go/v11/modules/light-clients/07-tendermint"
	attestations "github.com/cosmos/ibc-go/v11/modules/light-clients/attestations"

	. "verif/harness/lib"
)

var seedTime = time.Unix(1700000000, 0).UTC()

// tmHeader builds a header that passes ibctm.Header.ValidateBasic: consistent hashes, a commit
// signed by the validator set.
func tmHeader(chainID string, height int64, trusted clienttypes.Height, nvals int) *ibctm.Header {
	pvs := make([]cmttypes.PrivValidator, nvals)
	vals := make([]*cmttypes.Validator, nvals)
	for i := range pvs {
		pv := cmttypes.NewMockPVWithParams(ed25519.GenPrivKeyFromSecret([]byte{byte(i), 'v', 'e', 'r', 'i', 'f'}), false, false)
		pk, _ := pv.GetPubKey()
		pvs[i], vals[i] = pv, cmttypes.NewValidator(pk, int64(10+i))
	}
	valSet := cmttypes.NewValidatorSet(vals)
	signers := map[string]cmttypes.PrivValidator{}
	for _, pv := range pvs {
		pk, _ := pv.GetPubKey()
		signers[pk.Address().String()] = pv
	}
	unused := tmhash.Sum([]byte("unused"))
	hdr := cmttypes.Header{
		Version: cmtprotoversion.Consensus{Block: cmtversion.BlockProtocol, App: 2}, ChainID: chainID, Height: height, Time: seedTime,
		LastBlockID:    cmttypes.BlockID{Hash: make([]byte, tmhash.Size), PartSetHeader: cmttypes.PartSetHeader{Total: 10000, Hash: make([]byte, tmhash.Size)}},
		LastCommitHash: unused, DataHash: unused, ValidatorsHash: valSet.Hash(), NextValidatorsHash: valSet.Hash(), ConsensusHash: unused,
		AppHash: unused, LastResultsHash: unused, EvidenceHash: unused, ProposerAddress: valSet.Proposer.Address,
	}
	blockID := cmttypes.BlockID{Hash: hdr.Hash(), PartSetHeader: cmttypes.PartSetHeader{Total: 3, Hash: unused}}
	voteSet := cmttypes.NewVoteSet(chainID, height, 1, cmtproto.PrecommitType, valSet)
	arr := make([]cmttypes.PrivValidator, len(valSet.Validators))
	for i, v := range valSet.Validators {
		arr[i] = signers[v.Address.String()]
	}
	ext, err := cmttypes.MakeExtCommit(blockID, height, 1, voteSet, arr, seedTime, false)
	if err != nil {
		panic("harness: cannot build commit: " + err.Error())
	}
	vs, _ := valSet.ToProto()
	vs.TotalVotingPower = valSet.TotalVotingPower()
	tv, _ := valSet.ToProto()
	tv.TotalVotingPower = valSet.TotalVotingPower()
	return &ibctm.Header{SignedHeader: &cmtproto.SignedHeader{Header: hdr.ToProto(), Commit: ext.ToCommit().ToProto()}, ValidatorSet: vs, TrustedHeight: trusted, TrustedValidators: tv}
}

func tmClientState(chainID string) *ibctm.ClientState {
	return ibctm.NewClientState(chainID, ibctm.DefaultTrustLevel, 100*time.Hour, 200*time.Hour, 10*time.Second,
		clienttypes.NewHeight(clienttypes.ParseChainID(chainID), 10), commitmenttypes.GetSDKSpecs(), []string{"upgrade", "upgradedIBCState"})
}

func soloPubKeyAny(secret string) *codectypes.Any {
	a, err := codectypes.NewAnyWithValue(secp256k1.GenPrivKeyFromSecret([]byte(secret)).PubKey())
	if err != nil {
		panic(err)
	}
	return a
}

func mustAny(m proto.Message) *codectypes.Any {
	a, err := codectypes.NewAnyWithValue(m)
	if err != nil {
		panic(err)
	}
	return a
}

// seedCorpus returns constructors of valid messages (each call builds a fresh value).
func seedCorpus() []func() any {
	proofH := clienttypes.NewHeight(1, 20)
	tmCons := func() *ibctm.ConsensusState {
		return ibctm.NewConsensusState(seedTime, commitmenttypes.NewMerkleRoot(tmhash.Sum([]byte("apphash"))), tmhash.Sum([]byte("nextvals")))
	}
	soloCons := func() *solomachine.ConsensusState {
		return &solomachine.ConsensusState{PublicKey: soloPubKeyAny("k1"), Diversifier: "div", Timestamp: 10}
	}
	stateAtt, _ := (&attestations.StateAttestation{Height: 7, Timestamp: 1700000000000000000}).ABIEncode()
	packetAtt, _ := (&attestations.PacketAttestation{Height: 7, Packets: []attestations.PacketCompact{{Path: make([]byte, 32), Commitment: make([]byte, 32)}}}).ABIEncode()
	version := connectiontypes.NewVersion("1", []string{"ORDER_ORDERED", "ORDER_UNORDERED"})
	prefix := commitmenttypes.NewMerklePrefix([]byte("ibc"))
	return []func() any{
		func() any {
			m, _ := clienttypes.NewMsgCreateClient(tmClientState("testchain1-1"), tmCons(), validAddr)
			return m
		},
		func() any {
			m, _ := clienttypes.NewMsgCreateClient(&solomachine.ClientState{Sequence: 1, ConsensusState: soloCons()}, soloCons(), validAddr)
			return m
		},
		func() any {
			m, _ := clienttypes.NewMsgCreateClient(attestations.NewClientState([]string{"0x7F5c764cBc14f9669B88837ca1490cCa17c31607"}, 1, 7), &attestations.ConsensusState{Timestamp: 1700000000000000000}, validAddr)
			return m
		},
		func() any {
			m, _ := clienttypes.NewMsgUpdateClient("07-tendermint-0", tmHeader("testchain1-1", 12, clienttypes.NewHeight(1, 10), 2), validAddr)
			return m
		},
		func() any {
			h1, h2 := tmHeader("testchain1-1", 12, clienttypes.NewHeight(1, 10), 2), tmHeader("testchain1-1", 12, clienttypes.NewHeight(1, 9), 3)
			m, _ := clienttypes.NewMsgUpdateClient("07-tendermint-0", ibctm.NewMisbehaviour("07-tendermint-0", h1, h2), validAddr)
			return m
		},
		func() any {
			m, _ := clienttypes.NewMsgUpdateClient("06-solomachine-0", &solomachine.Header{Timestamp: 11, Signature: []byte("sig"), NewPublicKey: soloPubKeyAny("k2"), NewDiversifier: "d2"}, validAddr)
			return m
		},
		func() any {
			mb := &solomachine.Misbehaviour{Sequence: 3,
				SignatureOne: &solomachine.SignatureAndData{Signature: []byte("s1"), Path: []byte("p1"), Data: []byte("d1"), Timestamp: 5},
				SignatureTwo: &solomachine.SignatureAndData{Signature: []byte("s2"), Path: []byte("p2"), Data: []byte("d2"), Timestamp: 5}}
			m, _ := clienttypes.NewMsgUpdateClient("06-solomachine-0", mb, validAddr)
			return m
		},
		func() any {
			m, _ := clienttypes.NewMsgUpdateClient("10-attestations-0", &attestations.AttestationProof{AttestationData: stateAtt, Signatures: [][]byte{make([]byte, 65)}}, validAddr)
			return m
		},
		func() any {
			return &attestations.AttestationProof{AttestationData: packetAtt, Signatures: [][]byte{make([]byte, 65), make([]byte, 65)}}
		},
		func() any {
			m, _ := clienttypes.NewMsgUpgradeClient("07-tendermint-0", tmClientState("testchain1-2"), tmCons(), []byte("proof1"), []byte("proof2"), validAddr)
			return m
		},
		func() any {
			m, _ := clienttypes.NewMsgIBCSoftwareUpgrade(validAddr, upgradetypes.Plan{Name: "v12", Height: 1000}, tmClientState("testchain1-2"))
			return m
		},
		func() any {
			p, _ := clienttypes.NewUpgradeProposal("title", "description", upgradetypes.Plan{Name: "v12", Height: 1000}, tmClientState("testchain1-2"))
			return p
		},
		func() any { return tmHeader("testchain1-1", 12, clienttypes.NewHeight(1, 10), 4) },
		func() any {
			return ibctm.NewMisbehaviour("07-tendermint-0", tmHeader("a-1", 12, clienttypes.NewHeight(1, 10), 1), tmHeader("a-1", 12, clienttypes.NewHeight(1, 10), 2))
		},
		func() any { return soloCons() },
		func() any {
			return &solomachine.Header{Timestamp: 11, Signature: []byte("sig"), NewPublicKey: soloPubKeyAny("k2"), NewDiversifier: ""}
		},
		func() any {
			return connectiontypes.NewMsgConnectionOpenInit("07-tendermint-0", "07-tendermint-1", prefix, version, 0, validAddr)
		},
		func() any {
			return connectiontypes.NewMsgConnectionOpenTry("07-tendermint-0", "connection-1", "07-tendermint-1", prefix, []*connectiontypes.Version{version}, 5, []byte("proof"), proofH, validAddr)
		},
		func() any {
			return connectiontypes.NewMsgConnectionOpenAck("connection-0", "connection-1", []byte("proof"), proofH, version, validAddr)
		},
		func() any {
			return channeltypes.NewMsgChannelOpenInit("transfer", "ics20-1", channeltypes.UNORDERED, []string{"connection-0"}, "transfer", validAddr)
		},
		func() any {
			return channeltypes.NewMsgChannelOpenTry("transfer", "ics20-1", channeltypes.ORDERED, []string{"connection-0"}, "transfer", "channel-3", "ics20-1", []byte("proof"), proofH, validAddr)
		},
		func() any {
			return channeltypes.NewMsgChannelOpenAck("transfer", "channel-0", "channel-3", "ics20-1", []byte("proof"), proofH, validAddr)
		},
		func() any {
			p := channeltypes.NewPacket([]byte("data"), 1, "transfer", "channel-0", "transfer", "channel-1", proofH, 0)
			return channeltypes.NewMsgRecvPacket(p, []byte("proof"), proofH, validAddr)
		},
		func() any {
			return &attestations.ClientState{AttestorAddresses: []string{"0x7F5c764cBc14f9669B88837ca1490cCa17c31607"}, MinRequiredSigs: 1, LatestHeight: 7}
		},
	}
}

// leaves collects every settable location of v (fields, slice elements, pointers) down to depth 10.
func leaves(v reflect.Value, name string, depth int, inSlice bool, out *[]leaf) {
	if depth > 10 || !v.IsValid() {
		return
	}
	if v.CanSet() {
		*out = append(*out, leaf{v, name, inSlice})
	}
	switch v.Kind() {
	case reflect.Ptr:
		if !v.IsNil() && v.Type() != anyPtrType {
			leaves(v.Elem(), name, depth+1, false, out)
		}
	case reflect.Struct:
		if v.Type() == intType || v.Type() == timeType {
			return
		}
		for i := 0; i < v.NumField(); i++ {
			leaves(v.Field(i), v.Type().Field(i).Name, depth+1, false, out)
		}
	case reflect.Slice:
		if v.Type().Elem().Kind() == reflect.Uint8 {
			return
		}
		for i := 0; i < v.Len(); i++ {
			leaves(v.Index(i), name, depth+1, true, out)
		}
	}
}

type leaf struct {
	v       reflect.Value
	name    string
	inSlice bool // element of a repeated field: never nil on the wire
}

// mutateFields refills k randomly chosen locations of msg adversarially.
func mutateFields(r *Rng, cdc *codec.ProtoCodec, msg any, k int) {
	for ; k > 0; k-- {
		var ls []leaf
		leaves(reflect.ValueOf(msg).Elem(), "", 0, false, &ls)
		if len(ls) == 0 {
			return
		}
		l := ls[r.Intn(len(ls))]
		f := &filler{r: r, adv: 1.0, cdc: cdc}
		switch l.v.Kind() {
		case reflect.Ptr:
			if l.inSlice {
				f.inSlice = 1
			} else if r.Chance(0.7) || l.v.Type() == anyPtrType && r.Bool() {
				l.v.Set(reflect.Zero(l.v.Type())) // nil nested pointer / nil Any
				continue
			}
		case reflect.Slice:
			if r.Chance(0.5) {
				l.v.Set(reflect.Zero(l.v.Type())) // empty slice
				continue
			}
		}
		f.depth = 6 // adversarial refill of the chosen location, shallow below it
		f.fill(l.v, l.name)
	}
}
