// C44 genesis engine, part 5: fixed witness histories, the history generator and the registration
// of group "genesis" (cases for the Lean model `genesis.roundtrip`, monitor violations).
package miscchain

import (
	"fmt"
	"os"
	"strings"

	"verif/harness/lib"
	"verif/harness/misc/reg"
)

// gRun executes one history script and performs the whole check. A panic inside the history itself
// (harness or ibctesting failure before the export) is a harness error, not a violation.
func gRun(name string, script func(h *gHist)) (res *gResult, herr string) {
	defer func() {
		if e := recover(); e != nil {
			herr = fmt.Sprint(e)
		}
	}()
	h := gNewHist()
	script(h)
	res = h.gRoundTrip(name)
	if _, aborted := res.out["panic"]; !aborted {
		h.gContinue(name, res)
	}
	res.in["history"] = name
	for i := range res.viol {
		res.viol[i].Requests = []lib.M{res.in}
	}
	return res, ""
}

// ---- fixed witnesses (run first on every invocation) -------------------------------------------

// gWitnessOpen is the smallest F8 history: one OPEN UNORDERED channel, nothing else.
func gWitnessOpen(h *gHist) {
	pi := h.opClients(false)
	h.opConnection(pi)
	h.opChannel(pi, "mock", "open")
}

// gWitnessTraffic adds v2-over-alias packets in every life-cycle stage on that channel:
//   A->B sent (short timeout, never received)        -> commitment under the alias, timeout after import
//   A->B sent and received by B, not acknowledged    -> commitment under the alias, ack after import
//   B->A received on A (sync ack written)             -> receipt + ack under the alias, replay after import
//   B->A received on A, application answers async     -> receipt + async packet under the alias
//   B->A sent, not yet received                       -> receive after import
func gWitnessTraffic(h *gHist) {
	pi := h.opClients(false)
	h.opConnection(pi)
	ci := h.opChannel(pi, "mock", "open")
	h.opSendV2(pi, ci, true, true, "sync", true)
	p := h.opSendV2(pi, ci, true, true, "sync", false)
	h.opRecv(p)
	p = h.opSendV2(pi, ci, true, false, "sync", false)
	h.opRecv(p)
	p = h.opSendV2(pi, ci, true, false, "async", false)
	h.opRecv(p)
	h.opSendV2(pi, ci, true, false, "sync", false)
	h.opConfig(h.chans[ci].epA.ChannelID)
}

// gWitnessSameID registers v2 counterparties on a client pair whose two identifiers coincide (the
// default: both chains call their first client 07-tendermint-0).
func gWitnessSameID(h *gHist) {
	pi := h.opClients(false)
	h.opRegisterV2(pi)
}

// gAppsHistory exercises every application store on a client pair with distinct identifiers and no
// UNORDERED mock channel; the transfer channel (UNORDERED, hence aliased) is needed for ICS-20.
func gAppsHistory(h *gHist) {
	pi := h.opClients(true)
	h.opConnection(pi)
	h.opRegisterV2(pi)
	ci := h.opChannel(pi, "transfer", "open")
	h.opRateLimit(ci)
	p := h.opTransfer(ci, true, 500, false) // escrow on A, pending rate-limit send, flow
	h.opRecv(p)
	p = h.opTransfer(ci, false, 300, false) // voucher denom on A
	h.opRecv(p)
	h.opAck(p)
	h.opTransfer(ci, true, 40, true) // in flight, times out after the import
	h.opForward(ci, 25)
	h.opICA(pi, true)
	h.opICA(pi, false)
	h.opGMP(pi)
}

var gWitnesses = []struct {
	name   string
	script func(h *gHist)
}{
	{"witness-open-unordered-channel", gWitnessOpen},
	{"witness-alias-traffic", gWitnessTraffic},
	{"witness-v2-same-client-id", gWitnessSameID},
	{"apps-all-stores", gAppsHistory},
}

// ---- generator -----------------------------------------------------------------------------------

// gGenerated builds a random history of up to maxOps ops. noAlias avoids OPEN UNORDERED channels and
// v2 registrations with equal ids, so that lossless round trips are exercised as well.
func gGenerated(r *lib.Rng, maxOps int, noAlias bool) func(h *gHist) {
	return func(h *gHist) {
		pi := h.opClients(true)
		h.opConnection(pi)
		nops := 4 + r.Intn(maxOps-3)
		var mock, ordered, transfer []int
		rateLimited := map[int]bool{}
		creatorGone := map[int]bool{}
		v2pairs := []int{}
		for i := 0; i < nops; i++ {
			switch k := r.Intn(20); {
			case k == 0 && len(h.pairs) < 3:
				np := h.opClients(true)
				if r.Bool() {
					h.opConnection(np)
				}
			case k == 1:
				cand := []int{}
				for j, p := range h.pairs {
					if !p.v2 && !creatorGone[j] { // RegisterCounterparty must be signed by the stored creator
						cand = append(cand, j)
					}
				}
				if len(cand) > 0 {
					j := lib.Pick(r, cand)
					h.opRegisterV2(j)
					v2pairs = append(v2pairs, j)
				}
			case k == 2 || k == 3:
				kinds := []string{"mock-ordered", "mock-ordered", "mock", "transfer"}
				if noAlias {
					kinds = []string{"mock-ordered"}
				}
				kind := lib.Pick(r, kinds)
				upTo := lib.Pick(r, []string{"open", "open", "open", "init", "try"})
				conn := []int{}
				for j, p := range h.pairs {
					if p.conn {
						conn = append(conn, j)
					}
				}
				ci := h.opChannel(lib.Pick(r, conn), kind, upTo)
				if upTo == "open" {
					switch kind {
					case "mock":
						mock = append(mock, ci)
					case "mock-ordered":
						ordered = append(ordered, ci)
					default:
						transfer = append(transfer, ci)
					}
				}
			case k == 4:
				h.opUpdateClient(r.Intn(len(h.pairs)))
			case k == 5 && len(v2pairs) > 0:
				h.opConfig(h.pairs[lib.Pick(r, v2pairs)].epA.ClientID)
			case k == 6 && len(mock) > 0 && r.Chance(0.5):
				h.opConfig(h.chans[lib.Pick(r, mock)].epA.ChannelID)
			case k == 7 && r.Chance(0.3):
				if j := r.Intn(len(h.pairs)); !creatorGone[j] {
					creatorGone[j] = true
					h.opDeleteCreator(j)
				}
			case k >= 8 && k <= 11: // v1 mock packet
				all := append(append([]int{}, mock...), ordered...)
				if len(all) == 0 {
					continue
				}
				ci := lib.Pick(r, all)
				data := lib.Pick(r, []string{"sync", "sync", "fail", "async"})
				isOrdered := h.chans[ci].ordered
				if isOrdered && data == "async" {
					data = "sync" // an unacknowledged packet would block every later ack of an ORDERED channel
				}
				p := h.opSendV1(ci, r.Bool(), data, r.Chance(0.3) && !isOrdered)
				h.progress(r, p, isOrdered)
			case k >= 12 && k <= 14 && len(v2pairs) > 0: // v2 packet on light-client ids
				p := h.opSendV2(lib.Pick(r, v2pairs), 0, false, r.Bool(), lib.Pick(r, []string{"sync", "sync", "fail", "async"}), r.Chance(0.3))
				h.progress(r, p, false)
			case k >= 15 && k <= 17 && len(mock)+len(transfer) > 0: // v2 over alias
				ci := lib.Pick(r, append(append([]int{}, mock...), transfer...))
				p := h.opSendV2(0, ci, true, r.Bool(), lib.Pick(r, []string{"sync", "sync", "fail", "async"}), r.Chance(0.3))
				h.progress(r, p, false)
			case k >= 18 && len(transfer) > 0:
				ci := lib.Pick(r, transfer)
				switch r.Intn(6) {
				case 0:
					if !rateLimited[ci] {
						rateLimited[ci] = true
						h.opRateLimit(ci)
					}
				case 1:
					h.opForward(ci, int64(1+r.Intn(100)))
				default:
					p := h.opTransfer(ci, r.Bool(), int64(1+r.Intn(1000)), r.Chance(0.3))
					h.progress(r, p, false)
				}
			}
			if i == nops-1 && r.Chance(0.35) {
				conn := []int{}
				for j, p := range h.pairs {
					if p.conn {
						conn = append(conn, j)
					}
				}
				h.opICA(lib.Pick(r, conn), r.Bool())
				if len(v2pairs) > 0 && r.Bool() {
					h.opGMP(lib.Pick(r, v2pairs))
				}
			}
		}
	}
}

// progress advances a freshly sent packet a random number of life-cycle steps. On ORDERED channels
// packets are always completed in order so that later sequences stay receivable.
func (h *gHist) progress(r *lib.Rng, p *gPkt, ordered bool) {
	steps := r.Intn(3)
	if ordered {
		steps = 2
		if p.async {
			steps = 1
		}
	}
	if p.short && p.fromA {
		steps = 0
	}
	if steps >= 1 {
		h.opRecv(p)
	}
	if steps >= 2 {
		h.opAck(p)
	}
}

// ---- registration ------------------------------------------------------------------------------

// History names are replayable: "witness-..." or "gen-<stream>-<seed>-<k>-<maxOps>" where stream is
// c (Cases) or m (Monitor); gScriptFor rebuilds the script from the name alone.
func gFNV(s string) uint64 {
	h := uint64(1469598103934665603)
	for i := 0; i < len(s); i++ {
		h ^= uint64(s[i])
		h *= 1099511628211
	}
	return h
}

// gStream reproduces reg.Main's rng derivation for this group: r := NewRng(seed ^ fnv(name));
// r1, r2, r3 := r.Fork() x3 (Gen, Cases, Monitor).
func gStream(seed uint64, stream string) *lib.Rng {
	r := lib.NewRng(seed ^ gFNV("genesis"))
	r1, r2, r3 := r.Fork(), r.Fork(), r.Fork()
	_ = r1
	if stream == "m" {
		return r3
	}
	return r2
}

func gScriptFor(name string) func(h *gHist) {
	for _, wt := range gWitnesses {
		if wt.name == name {
			return wt.script
		}
	}
	var stream string
	var seed uint64
	var k, maxOps int
	if _, err := fmt.Sscanf(strings.ReplaceAll(name, "-", " "), "gen %s %d %d %d", &stream, &seed, &k, &maxOps); err != nil {
		panic("harness: unknown history " + name)
	}
	r := gStream(seed, stream)
	var hr *lib.Rng
	for i := 0; i <= k; i++ {
		hr = r.Fork()
	}
	return gGenerated(hr, maxOps, k%3 == 1)
}

var gStash []reg.Violation

func gEmit(res *gResult, herr, name string, emit func(in lib.M, out any)) {
	if herr != "" {
		// harness failure: visible as a "bad" case (the model answers differently) rather than silently dropped
		emit(lib.M{"f": "genesis.harness-error", "history": name}, lib.M{"bad": herr})
		return
	}
	emit(res.in, res.out)
}

func gHistories(stream string, n int, withWitnesses bool, each func(res *gResult, herr, name string)) {
	if withWitnesses {
		for _, wt := range gWitnesses {
			res, herr := gRun(wt.name, wt.script)
			each(res, herr, wt.name)
		}
	}
	maxOps := 14
	if os.Getenv("VERIF_TIER") == "thorough" {
		maxOps = 36
	}
	for k := 0; k < n; k++ {
		name := fmt.Sprintf("gen-%s-%d-%d-%d", stream, lib.EnvSeed(), k, maxOps)
		res, herr := gRun(name, gScriptFor(name))
		each(res, herr, name)
	}
}

func init() {
	reg.Register(reg.Group{
		Name:  "genesis",
		Props: []string{"C44"},
		// replay: re-execute the named history on the real code and answer the case again
		Funcs: map[string]func(in lib.M) any{
			"genesis.roundtrip": func(in lib.M) any {
				res, herr := gRun(reg.S(in, "history"), gScriptFor(reg.S(in, "history")))
				if herr != "" {
					return lib.M{"bad": herr}
				}
				return res.out
			},
		},
		// Cases runs the witnesses plus n generated histories; each yields one correspondence case and
		// the monitor verdicts of the same run (stashed and handed to Monitor below, so that every
		// history is executed once).
		Cases: func(_ *lib.Rng, n int, emit func(in lib.M, out any)) {
			gHistories("c", n, true, func(res *gResult, herr, name string) {
				gEmit(res, herr, name, emit)
				if res != nil {
					gStash = append(gStash, res.viol...)
				}
			})
		},
		// Monitor reports the stashed verdicts, then runs `n` further generated histories of its own.
		Monitor: func(_ *lib.Rng, n int, report func(reg.Violation)) {
			for _, v := range gStash {
				report(v)
			}
			gStash = nil
			gHistories("m", n, false, func(res *gResult, herr, name string) {
				if res != nil {
					for _, v := range res.viol {
						report(v)
					}
				}
			})
		},
	})
}
