// C44 genesis engine, part 6: application activity on chain A whose state must survive the
// export/import: rate-limiting (limits, flows, pending packets, black/white lists), packet-forward
// in-flight records, interchain accounts (controller and host side), ICS-27 GMP accounts.
// These stores are dumped and diffed byte for byte and their genesis is re-exported; the Lean model
// covers ibc core only.
package miscchain

import (
	"fmt"

	sdkmath "cosmossdk.io/math"

	sdk "github.com/cosmos/cosmos-sdk/types"
	banktypes "github.com/cosmos/cosmos-sdk/x/bank/types"

	"github.com/cosmos/gogoproto/proto"

	gmptypes "github.com/cosmos/ibc-go/v11/modules/apps/27-gmp/types"
	icatypes "github.com/cosmos/ibc-go/v11/modules/apps/27-interchain-accounts/types"
	ratelimittypes "github.com/cosmos/ibc-go/v11/modules/apps/rate-limiting/types"
	transfertypes "github.com/cosmos/ibc-go/v11/modules/apps/transfer/types"
	clienttypes "github.com/cosmos/ibc-go/v11/modules/core/02-client/types"
	channeltypes "github.com/cosmos/ibc-go/v11/modules/core/04-channel/types"
	ibctesting "github.com/cosmos/ibc-go/v11/testing"

	"verif/harness/lib"
)

// opRateLimit adds a rate limit for the bond denom on a transfer channel of A (the handler a passed
// governance proposal executes), blacklists a denom and whitelists an address pair.
func (h *gHist) opRateLimit(ci int) {
	A := h.w.A
	app := gApp(A)
	c := h.chans[ci]
	msg := &ratelimittypes.MsgAddRateLimit{Signer: app.RateLimitKeeper.GetAuthority(), Denom: sdk.DefaultBondDenom,
		ChannelOrClientId: c.epA.ChannelID, MaxPercentSend: sdkmath.NewInt(50), MaxPercentRecv: sdkmath.NewInt(50), DurationHours: 24}
	must(app.RateLimitKeeper.AddRateLimit(A.GetContext(), msg))
	app.RateLimitKeeper.AddDenomToBlacklist(A.GetContext(), "ublocked")
	app.RateLimitKeeper.SetWhitelistedAddressPair(A.GetContext(), ratelimittypes.WhitelistedAddressPair{
		Sender: A.SenderAccounts[1].SenderAccount.GetAddress().String(), Receiver: h.w.B.SenderAccounts[1].SenderAccount.GetAddress().String()})
	h.w.coord.CommitBlock(A)
	h.note(lib.M{"op": "rateLimit", "chanA": c.epA.ChannelID})
}

// opForward sends a transfer B -> A whose memo asks A's packet-forward middleware to forward the
// tokens back to B over the same channel; A receives it and is left with an in-flight record (the
// forwarded packet is not relayed further).
func (h *gHist) opForward(ci int, amount int64) {
	c := h.chans[ci]
	A, B := h.w.A, h.w.B
	memo := fmt.Sprintf(`{"forward":{"receiver":"%s","port":"%s","channel":"%s"}}`,
		B.SenderAccounts[2].SenderAccount.GetAddress().String(), c.epA.ChannelConfig.PortID, c.epA.ChannelID)
	ts := h.timeoutNs(false)
	msg := transfertypes.NewMsgTransfer(c.epB.ChannelConfig.PortID, c.epB.ChannelID, sdk.NewCoin(sdk.DefaultBondDenom, sdkmath.NewInt(amount)),
		B.SenderAccount.GetAddress().String(), A.SenderAccounts[3].SenderAccount.GetAddress().String(), clienttypes.ZeroHeight(), ts, memo)
	res, err := B.SendMsgs(msg)
	must(err)
	pk, err := ibctesting.ParseV1PacketFromEvents(res.Events)
	must(err)
	must(c.epA.UpdateClient())
	_, err = c.epA.RecvPacketWithResult(pk)
	must(err)
	h.note(lib.M{"op": "forward", "chanA": c.epA.ChannelID, "amount": lib.I(amount), "seq": lib.U(pk.Sequence)})
}

func gICAVersion(ctrlConn, hostConn string) string {
	return string(icatypes.ModuleCdc.MustMarshalJSON(&icatypes.Metadata{Version: icatypes.Version, ControllerConnectionId: ctrlConn,
		HostConnectionId: hostConn, Encoding: icatypes.EncodingProtobuf, TxType: icatypes.TxTypeSDKMultiMsg}))
}

// opICA registers an interchain account: controllerOnA = A is the controller and B the host, else
// the other way round (A then stores the host-side active channel and account).
func (h *gHist) opICA(pi int, controllerOnA bool) {
	p := h.pairs[pi]
	ctrl, host := p.epA, p.epB
	if !controllerOnA {
		ctrl, host = p.epB, p.epA
	}
	owner := ctrl.Chain.SenderAccounts[4].SenderAccount.GetAddress().String()
	path := ibctesting.NewPath(ctrl.Chain, host.Chain)
	path.EndpointA.ClientID, path.EndpointA.ConnectionID = ctrl.ClientID, ctrl.ConnectionID
	path.EndpointB.ClientID, path.EndpointB.ConnectionID = host.ClientID, host.ConnectionID
	version := gICAVersion(ctrl.ConnectionID, host.ConnectionID)
	for _, ep := range []*ibctesting.Endpoint{path.EndpointA, path.EndpointB} {
		ep.ChannelConfig.PortID = icatypes.HostPortID
		ep.ChannelConfig.Order = channeltypes.ORDERED
		ep.ChannelConfig.Version = version
	}
	portID, err := icatypes.NewControllerPortID(owner)
	must(err)
	cc := ctrl.Chain
	seq := cc.App.GetIBCKeeper().ChannelKeeper.GetNextChannelSequence(cc.GetContext())
	must(gApp(cc).ICAControllerKeeper.RegisterInterchainAccount(cc.GetContext(), ctrl.ConnectionID, owner, version, channeltypes.ORDERED))
	h.w.coord.CommitBlock(cc)
	path.EndpointA.ChannelID = channeltypes.FormatChannelIdentifier(seq)
	path.EndpointA.ChannelConfig.PortID = portID
	must(path.EndpointB.ChanOpenTry())
	must(path.EndpointA.ChanOpenAck())
	must(path.EndpointB.ChanOpenConfirm())
	h.note(lib.M{"op": "ica", "pair": pi, "controllerOnA": controllerOnA, "chanCtrl": path.EndpointA.ChannelID, "chanHost": path.EndpointB.ChannelID})
}

// opGMP lets B call into A over ICS-27 GMP (v2, light-client ids): A creates the ICS-27 account for
// (client, sender, salt) on receive and executes a bank send from it.
func (h *gHist) opGMP(pi int) {
	p := h.pairs[pi]
	A, B := h.w.A, h.w.B
	appA := gApp(A)
	sender := B.SenderAccount.GetAddress().String()
	salt := []byte{byte(len(h.ops))}
	accID := gmptypes.NewAccountIdentifier(p.epA.ClientID, sender, salt)
	addr, err := appA.GMPKeeper.GetOrComputeICS27Address(A.GetContext(), &accID)
	must(err)
	// fund the (not yet existing) account on A
	_, err = A.SendMsgs(banktypes.NewMsgSend(A.SenderAccount.GetAddress(), sdk.MustAccAddressFromBech32(addr), sdk.NewCoins(sdk.NewCoin(sdk.DefaultBondDenom, sdkmath.NewInt(1000)))))
	must(err)
	inner := banktypes.NewMsgSend(sdk.MustAccAddressFromBech32(addr), A.SenderAccount.GetAddress(), sdk.NewCoins(sdk.NewCoin(sdk.DefaultBondDenom, sdkmath.NewInt(7))))
	payload, err := gmptypes.SerializeCosmosTx(A.App.AppCodec(), []proto.Message{inner})
	must(err)
	ts := uint64(h.w.coord.CurrentTime.Unix()) + 20*3600
	res, err := B.SendMsgs(&gmptypes.MsgSendCall{SourceClient: p.epB.ClientID, Sender: sender, Receiver: "", Salt: salt, Payload: payload, TimeoutTimestamp: ts})
	must(err)
	pkts, err := ibctesting.ParseIBCV2Packets("send_packet", res.Events)
	must(err)
	must(p.epA.UpdateClient())
	_, err = gRecvV2(A, B, pkts[0])
	must(err)
	h.note(lib.M{"op": "gmp", "pair": pi, "account": addr})
}
