// C44 genesis engine, part 3: histories. An op list (generated or the fixed F8 witnesses) is executed
// on chain A against the honest counterparty B with ibctesting's real message flow (signed
// transactions, real 07-tendermint clients, real IAVL proofs). The history tracks every packet and
// how far its life cycle got, so that after the export/import the remaining steps can be continued
// on A and on the imported A' with the same proofs from B.
package miscchain

import (
	"fmt"
	"time"

	"github.com/cosmos/gogoproto/proto"

	sdkmath "cosmossdk.io/math"

	sdk "github.com/cosmos/cosmos-sdk/types"

	abci "github.com/cometbft/cometbft/abci/types"

	transfertypes "github.com/cosmos/ibc-go/v11/modules/apps/transfer/types"
	clienttypes "github.com/cosmos/ibc-go/v11/modules/core/02-client/types"
	clientv2types "github.com/cosmos/ibc-go/v11/modules/core/02-client/v2/types"
	channeltypes "github.com/cosmos/ibc-go/v11/modules/core/04-channel/types"
	channeltypesv2 "github.com/cosmos/ibc-go/v11/modules/core/04-channel/v2/types"
	ibctesting "github.com/cosmos/ibc-go/v11/testing"
	ibcmock "github.com/cosmos/ibc-go/v11/testing/mock"
	mockv2 "github.com/cosmos/ibc-go/v11/testing/mock/v2"

	"verif/harness/lib"
)

// gPair is one pair of 07-tendermint light clients (A's client of B, B's client of A) with the
// optional connection and v2 counterparty registration built on it.
type gPair struct {
	epA, epB *ibctesting.Endpoint
	conn     bool // connection handshake done
	v2       bool // v2 counterparties registered on both sides
}

// gChan is a v1 channel (possibly only partially opened) on a pair's connection.
type gChan struct {
	pair    int
	epA     *ibctesting.Endpoint
	epB     *ibctesting.Endpoint
	kind    string // mock | mock-ordered | transfer
	open    bool
	ordered bool
}

const (
	gSent     = "sent"
	gReceived = "received" // received by the destination, ack (if any) written there, not yet acknowledged at the source
	gDone     = "done"     // acknowledged or timed out at the source
)

// gPkt tracks one packet. proto: v1 (channel), v2 (light-client ids), v2-alias (v2 over the v1 channel id).
type gPkt struct {
	proto  string
	fromA  bool
	pair   int
	ch     int // channel index for v1 / v2-alias
	v1     channeltypes.Packet
	v2     channeltypesv2.Packet
	stage  string
	short  bool // short timeout: will elapse in the continuation's second phase
	async  bool // destination application answered asynchronously (no ack written yet)
	ackV1  []byte
	ackV2  channeltypesv2.Acknowledgement
	hasAck bool
}

type gHist struct {
	w     *gWorld
	pairs []*gPair
	chans []*gChan
	pkts  []*gPkt
	ops   []lib.M // executed op log
	// ids on A that are v1 channel ids carrying a v2 alias (OPEN UNORDERED channels)
	aliasIDs map[string]bool
	cfgIDs   []string // ids on A for which a v2 client config was stored
}

func gNewHist() *gHist {
	return &gHist{w: gNewWorld(), aliasIDs: map[string]bool{}}
}

func (h *gHist) note(op lib.M) { h.ops = append(h.ops, op) }

func must(err error) {
	if err != nil {
		panic(err)
	}
}

// ---- setup ops -------------------------------------------------------------------------------

// opClients creates a new light-client pair. skewB first creates an unused extra client on B so
// that the two client identifiers of the pair differ (A: 07-tendermint-k, B: 07-tendermint-k+1).
func (h *gHist) opClients(skewB bool) int {
	if skewB {
		dummy := ibctesting.NewPath(h.w.A, h.w.B)
		must(dummy.EndpointB.CreateClient())
	}
	p := ibctesting.NewPath(h.w.A, h.w.B)
	p.SetupClients()
	h.pairs = append(h.pairs, &gPair{epA: p.EndpointA, epB: p.EndpointB})
	h.note(lib.M{"op": "clients", "skewB": skewB, "idA": p.EndpointA.ClientID, "idB": p.EndpointB.ClientID})
	return len(h.pairs) - 1
}

func (h *gHist) opConnection(pi int) {
	p := h.pairs[pi]
	path := &ibctesting.Path{EndpointA: p.epA, EndpointB: p.epB}
	path.CreateConnections()
	p.conn = true
	h.note(lib.M{"op": "connection", "pair": pi, "connA": p.epA.ConnectionID})
}

func (h *gHist) opRegisterV2(pi int) {
	p := h.pairs[pi]
	path := &ibctesting.Path{EndpointA: p.epA, EndpointB: p.epB}
	path.SetupCounterparties()
	p.v2 = true
	h.note(lib.M{"op": "registerV2", "pair": pi, "idA": p.epA.ClientID, "idB": p.epB.ClientID})
}

// opChannel opens a channel on the pair's connection; upTo = open | init (A stays INIT) | try (A stays TRYOPEN).
func (h *gHist) opChannel(pi int, kind, upTo string) int {
	p := h.pairs[pi]
	path := ibctesting.NewPath(h.w.A, h.w.B)
	for _, pr := range [][2]*ibctesting.Endpoint{{path.EndpointA, p.epA}, {path.EndpointB, p.epB}} {
		pr[0].ClientID, pr[0].ConnectionID = pr[1].ClientID, pr[1].ConnectionID
	}
	c := &gChan{pair: pi, epA: path.EndpointA, epB: path.EndpointB, kind: kind}
	switch kind {
	case "mock-ordered":
		path.SetChannelOrdered()
		c.ordered = true
	case "transfer":
		for _, ep := range []*ibctesting.Endpoint{path.EndpointA, path.EndpointB} {
			ep.ChannelConfig.PortID = ibctesting.TransferPort
			ep.ChannelConfig.Version = transfertypes.V1
		}
	}
	switch upTo {
	case "init":
		must(path.EndpointA.ChanOpenInit())
	case "try":
		must(path.EndpointB.ChanOpenInit())
		must(path.EndpointA.ChanOpenTry())
	default:
		path.CreateChannels()
		c.open = true
		if !c.ordered {
			h.aliasIDs[c.epA.ChannelID] = true
		}
	}
	h.chans = append(h.chans, c)
	h.note(lib.M{"op": "channel", "pair": pi, "kind": kind, "upTo": upTo, "chanA": c.epA.ChannelID, "chanB": c.epB.ChannelID})
	return len(h.chans) - 1
}

func (h *gHist) opCloseChannel(ci int) {
	c := h.chans[ci]
	must(c.epA.ChanCloseInit())
	c.open = false
	h.note(lib.M{"op": "close", "chanA": c.epA.ChannelID})
}

func (h *gHist) opUpdateClient(pi int) {
	must(h.pairs[pi].epA.UpdateClient())
	h.note(lib.M{"op": "updateClient", "pair": pi})
}

// opConfig stores a v2 client config (relayer allow list) for id on A through the real msg server
// handler with the authority as signer (the authority is the gov module account and cannot sign a
// transaction in ibctesting; the handler call is what a passed governance proposal executes).
func (h *gHist) opConfig(id string, relayers ...string) {
	A := h.w.A
	if len(relayers) == 0 {
		// the relayer of the original chain and the relayer of the importing chain (the continuation
		// signs with each chain's own account), so that an imported allow list admits both
		relayers = []string{A.SenderAccount.GetAddress().String(), h.w.C.SenderAccount.GetAddress().String()}
	}
	msg := clientv2types.NewMsgUpdateClientConfig(id, A.App.GetIBCKeeper().GetAuthority(), clientv2types.NewConfig(relayers...))
	must(msg.ValidateBasic())
	_, err := A.App.GetIBCKeeper().UpdateClientConfig(A.GetContext(), msg)
	must(err)
	h.w.coord.CommitBlock(A)
	h.cfgIDs = append(h.cfgIDs, id)
	h.note(lib.M{"op": "config", "id": id})
}

func (h *gHist) opDeleteCreator(pi int) {
	A := h.w.A
	msg := clienttypes.NewMsgDeleteClientCreator(h.pairs[pi].epA.ClientID, A.SenderAccount.GetAddress().String())
	_, err := A.SendMsgs(msg)
	must(err)
	h.note(lib.M{"op": "deleteCreator", "pair": pi})
}

// ---- packet ops ------------------------------------------------------------------------------

func (h *gHist) timeoutNs(short bool) uint64 {
	d := 20 * time.Hour
	if short {
		d = 2 * time.Hour
	}
	return uint64(h.w.coord.CurrentTime.Add(d).UnixNano())
}

func (h *gHist) ep(p *gPkt) (src, dst *ibctesting.Endpoint) {
	var a, b *ibctesting.Endpoint
	if p.proto == "v2" {
		a, b = h.pairs[p.pair].epA, h.pairs[p.pair].epB
	} else {
		a, b = h.chans[p.ch].epA, h.chans[p.ch].epB
	}
	if p.fromA {
		return a, b
	}
	return b, a
}

// opSendV1 sends a mock packet on a mock channel. data: sync | fail | async (destination app behaviour).
func (h *gHist) opSendV1(ci int, fromA bool, data string, short bool) *gPkt {
	c := h.chans[ci]
	p := &gPkt{proto: "v1", fromA: fromA, pair: c.pair, ch: ci, stage: gSent, short: short, async: data == "async"}
	src, dst := h.ep(p)
	bz := map[string][]byte{"sync": ibcmock.MockPacketData, "fail": ibcmock.MockFailPacketData, "async": ibcmock.MockAsyncPacketData}[data]
	ts := h.timeoutNs(short)
	seq, err := src.SendPacket(clienttypes.ZeroHeight(), ts, bz)
	must(err)
	p.v1 = channeltypes.NewPacket(bz, seq, src.ChannelConfig.PortID, src.ChannelID, dst.ChannelConfig.PortID, dst.ChannelID, clienttypes.ZeroHeight(), ts)
	switch data {
	case "sync":
		p.ackV1, p.hasAck = ibcmock.MockAcknowledgement.Acknowledgement(), true
	case "fail":
		p.ackV1, p.hasAck = ibcmock.MockFailAcknowledgement.Acknowledgement(), true
	}
	h.pkts = append(h.pkts, p)
	h.note(lib.M{"op": "sendV1", "chanA": c.epA.ChannelID, "fromA": fromA, "data": data, "short": short, "seq": lib.U(seq)})
	return p
}

// opTransfer sends an ICS-20 transfer (MsgTransfer) over a transfer channel.
func (h *gHist) opTransfer(ci int, fromA bool, amount int64, short bool) *gPkt {
	c := h.chans[ci]
	p := &gPkt{proto: "v1", fromA: fromA, pair: c.pair, ch: ci, stage: gSent, short: short}
	src, dst := h.ep(p)
	ts := h.timeoutNs(short)
	coin := sdk.NewCoin(sdk.DefaultBondDenom, sdkmath.NewInt(amount))
	msg := transfertypes.NewMsgTransfer(src.ChannelConfig.PortID, src.ChannelID, coin,
		src.Chain.SenderAccount.GetAddress().String(), dst.Chain.SenderAccount.GetAddress().String(), clienttypes.ZeroHeight(), ts, "")
	res, err := src.Chain.SendMsgs(msg)
	must(err)
	pk, err := ibctesting.ParseV1PacketFromEvents(res.Events)
	must(err)
	must(dst.UpdateClient())
	p.v1 = pk
	p.ackV1, p.hasAck = channeltypes.NewResultAcknowledgement([]byte{byte(1)}).Acknowledgement(), true
	h.pkts = append(h.pkts, p)
	h.note(lib.M{"op": "transfer", "chanA": c.epA.ChannelID, "fromA": fromA, "amount": lib.I(amount), "short": short, "seq": lib.U(pk.Sequence)})
	return p
}

// opSendV2 sends a v2 packet with one mock payload; alias = use the v1 channel ids of channel ci as
// the v2 client ids (v2 over alias), otherwise the light-client ids of the pair.
func (h *gHist) opSendV2(pi, ci int, alias, fromA bool, data string, short bool) *gPkt {
	p := &gPkt{proto: "v2", fromA: fromA, pair: pi, ch: ci, stage: gSent, short: short, async: data == "async"}
	var srcID, dstID string
	if alias {
		p.proto = "v2-alias"
		p.pair = h.chans[ci].pair
		src, dst := h.ep(p)
		srcID, dstID = src.ChannelID, dst.ChannelID
	} else {
		src, dst := h.ep(p)
		srcID, dstID = src.ClientID, dst.ClientID
	}
	src, dst := h.ep(p)
	var pl channeltypesv2.Payload
	switch data {
	case "fail":
		pl = mockv2.NewErrorMockPayload(mockv2.ModuleNameA, mockv2.ModuleNameB)
	case "async":
		pl = mockv2.NewAsyncMockPayload(mockv2.ModuleNameA, mockv2.ModuleNameB)
	default:
		pl = mockv2.NewMockPayload(mockv2.ModuleNameA, mockv2.ModuleNameB)
	}
	d := 20 * time.Hour
	if short {
		d = 2 * time.Hour
	}
	ts := uint64(h.w.coord.CurrentTime.Add(d).Unix())
	msg := channeltypesv2.NewMsgSendPacket(srcID, ts, src.Chain.SenderAccount.GetAddress().String(), pl)
	res, err := src.Chain.SendMsgs(msg)
	must(err)
	seq := gSendSeqV2(res)
	p.v2 = channeltypesv2.NewPacket(seq, srcID, dstID, ts, pl)
	// the light client of the pair (for alias traffic: the channel's base client) follows the sender
	must(h.baseEp(dst, p).UpdateClient())
	h.pkts = append(h.pkts, p)
	h.note(lib.M{"op": "sendV2", "src": srcID, "dst": dstID, "alias": alias, "fromA": fromA, "data": data, "short": short, "seq": lib.U(seq)})
	return p
}

func gSendSeqV2(res *abci.ExecTxResult) uint64 {
	var msgData sdk.TxMsgData
	must(proto.Unmarshal(res.Data, &msgData))
	var resp channeltypesv2.MsgSendPacketResponse
	must(proto.Unmarshal(msgData.MsgResponses[0].Value, &resp))
	return resp.Sequence
}

// baseEp returns the endpoint that owns the light client used to verify p on ep's chain.
func (h *gHist) baseEp(ep *ibctesting.Endpoint, p *gPkt) *ibctesting.Endpoint {
	pr := h.pairs[p.pair]
	if ep.Chain == h.w.A {
		return pr.epA
	}
	return pr.epB
}

// opRecv relays the packet to its destination (proof from the source chain) through the real
// MsgRecvPacket; the mock application answers sync / fail / async according to the packet data.
func (h *gHist) opRecv(p *gPkt) {
	if p.stage != gSent {
		return
	}
	_, dst := h.ep(p)
	switch p.proto {
	case "v1":
		must(dst.UpdateClient())
		_, err := dst.RecvPacketWithResult(p.v1)
		must(err)
	default:
		base := h.baseEp(dst, p)
		must(base.UpdateClient())
		res, err := gRecvV2(dst.Chain, base.Counterparty.Chain, p.v2)
		must(err)
		if !p.async {
			ackBz, err := ibctesting.ParseAckV2FromEvents(res.Events)
			must(err)
			must(proto.Unmarshal(ackBz, &p.ackV2))
			p.hasAck = true
		}
		must(base.Counterparty.UpdateClient())
	}
	p.stage = gReceived
	h.note(lib.M{"op": "recv", "proto": p.proto, "fromA": p.fromA, "seq": lib.U(h.seqOf(p))})
}

func gRecvV2(on, from *ibctesting.TestChain, pk channeltypesv2.Packet) (*abci.ExecTxResult, error) {
	proof, height := from.QueryProof(gKeyCommitV2(pk))
	msg := channeltypesv2.NewMsgRecvPacket(pk, proof, height, on.SenderAccount.GetAddress().String())
	return on.SendMsgs(msg)
}

func (h *gHist) seqOf(p *gPkt) uint64 {
	if p.proto == "v1" {
		return p.v1.Sequence
	}
	return p.v2.Sequence
}

// opAck acknowledges a received packet at its source.
func (h *gHist) opAck(p *gPkt) {
	if p.stage != gReceived || !p.hasAck {
		return
	}
	src, _ := h.ep(p)
	switch p.proto {
	case "v1":
		must(src.UpdateClient())
		must(src.AcknowledgePacket(p.v1, p.ackV1))
	default:
		base := h.baseEp(src, p)
		must(base.UpdateClient())
		proof, height := base.Counterparty.Chain.QueryProof(gKeyAckV2(p.v2))
		msg := channeltypesv2.NewMsgAcknowledgement(p.v2, p.ackV2, proof, height, src.Chain.SenderAccount.GetAddress().String())
		_, err := src.Chain.SendMsgs(msg)
		must(err)
	}
	p.stage = gDone
	h.note(lib.M{"op": "ack", "proto": p.proto, "fromA": p.fromA, "seq": lib.U(h.seqOf(p))})
}

func (h *gHist) describe(p *gPkt) lib.M {
	m := lib.M{"proto": p.proto, "fromA": p.fromA, "seq": lib.U(h.seqOf(p)), "stage": p.stage, "short": p.short, "async": p.async}
	if p.proto == "v1" {
		m["src"], m["dst"] = p.v1.SourcePort+"/"+p.v1.SourceChannel, p.v1.DestinationPort+"/"+p.v1.DestinationChannel
	} else {
		m["src"], m["dst"] = p.v2.SourceClient, p.v2.DestinationClient
	}
	return m
}

func (h *gHist) String() string { return fmt.Sprint(h.ops) }
