// C44 genesis engine, part 1: the three-chain world (A = exporting chain, B = honest counterparty,
// C = fresh chain that receives A's exported genesis and becomes A'), store dumps and the
// export / JSON round trip / validate / import pipeline over the real Export/InitGenesis functions.
package miscchain

import (
	"crypto/sha256"
	"encoding/hex"
	"fmt"
	"sort"
	"testing"
	"time"

	errorsmod "cosmossdk.io/errors"

	sdk "github.com/cosmos/cosmos-sdk/types"

	cmttypes "github.com/cometbft/cometbft/types"

	gmptypes "github.com/cosmos/ibc-go/v11/modules/apps/27-gmp/types"
	icacontrollerkeeper "github.com/cosmos/ibc-go/v11/modules/apps/27-interchain-accounts/controller/keeper"
	icacontrollertypes "github.com/cosmos/ibc-go/v11/modules/apps/27-interchain-accounts/controller/types"
	icagenesistypes "github.com/cosmos/ibc-go/v11/modules/apps/27-interchain-accounts/genesis/types"
	icahostkeeper "github.com/cosmos/ibc-go/v11/modules/apps/27-interchain-accounts/host/keeper"
	icahosttypes "github.com/cosmos/ibc-go/v11/modules/apps/27-interchain-accounts/host/types"
	pfmtypes "github.com/cosmos/ibc-go/v11/modules/apps/packet-forward-middleware/types"
	ratelimittypes "github.com/cosmos/ibc-go/v11/modules/apps/rate-limiting/types"
	transfertypes "github.com/cosmos/ibc-go/v11/modules/apps/transfer/types"
	ibc "github.com/cosmos/ibc-go/v11/modules/core"
	ibcexported "github.com/cosmos/ibc-go/v11/modules/core/exported"
	ibctypes "github.com/cosmos/ibc-go/v11/modules/core/types"
	ibctesting "github.com/cosmos/ibc-go/v11/testing"
	"github.com/cosmos/ibc-go/v11/testing/simapp"

	"verif/harness/lib"
)

// genTB satisfies testing.TB for ibctesting's constructors; a failed require panics (caught by lib.Safe).
type genTB struct{ testing.TB }

func (genTB) Helper()                   {}
func (genTB) Name() string              { return "verif-genesis" }
func (genTB) Logf(string, ...any)       {}
func (genTB) Log(...any)                {}
func (genTB) Errorf(f string, a ...any) { panic("ibctesting: " + fmt.Sprintf(f, a...)) }
func (genTB) Error(a ...any)            { panic("ibctesting: " + fmt.Sprint(a...)) }
func (genTB) Fatalf(f string, a ...any) { panic("ibctesting: " + fmt.Sprintf(f, a...)) }
func (genTB) Fatal(a ...any)            { panic("ibctesting: " + fmt.Sprint(a...)) }
func (genTB) FailNow()                  { panic("ibctesting: FailNow") }
func (genTB) Fail()                     { panic("ibctesting: Fail") }
func (genTB) Failed() bool              { return false }
func (genTB) Cleanup(func())            {}
func (genTB) TempDir() string           { return "/tmp" }
func (genTB) Setenv(string, string)     {}
func (genTB) Skip(...any)               {}
func (genTB) SkipNow()                  {}
func (genTB) Skipf(string, ...any)      {}
func (genTB) Skipped() bool             { return false }

// gStores are the module stores that are dumped and diffed (DESIGN §4 C44).
var gStores = []string{
	ibcexported.StoreKey, transfertypes.StoreKey, ratelimittypes.StoreKey, pfmtypes.StoreKey,
	icacontrollertypes.StoreKey, icahosttypes.StoreKey, gmptypes.StoreKey,
}

type gWorld struct {
	coord   *ibctesting.Coordinator
	A, B, C *ibctesting.TestChain
}

func gNewChain(coord *ibctesting.Coordinator, chainID string) *ibctesting.TestChain {
	var vals []*cmttypes.Validator
	signers := map[string]cmttypes.PrivValidator{}
	for i := 0; i < 4; i++ {
		_, pv := cmttypes.RandValidator(false, 100)
		pk, err := pv.GetPubKey()
		if err != nil {
			panic(err)
		}
		vals = append(vals, cmttypes.NewValidator(pk, 1))
		signers[pk.Address().String()] = pv
	}
	return ibctesting.NewTestChainWithValSet(genTB{}, coord, chainID, cmttypes.NewValidatorSet(vals), signers)
}

// gNewWorld builds chains A, B and the untouched import target C under one coordinator (one clock).
func gNewWorld() *gWorld {
	coord := &ibctesting.Coordinator{CurrentTime: time.Date(2020, 1, 2, 3, 0, 0, 0, time.UTC)}
	coord.Chains = map[string]*ibctesting.TestChain{}
	w := &gWorld{coord: coord}
	for i, p := range []**ibctesting.TestChain{&w.A, &w.B, &w.C} {
		id := ibctesting.GetChainID(i + 1)
		*p = gNewChain(coord, id)
		coord.Chains[id] = *p
	}
	// ibctesting runs InitChain with a zero block time, which leaves the rate-limiting hour epoch in a
	// state no production chain can have (epoch 0 starting 0001-01-01; BeginBlocker then refuses to
	// run and InitGenesis treats it as "uninitialised"). Re-initialise it on all three chains exactly
	// as rate-limiting's InitGenesis does when it runs with a real block time.
	for _, ch := range []*ibctesting.TestChain{w.A, w.B, w.C} {
		ctx := ch.GetContext()
		ep := ratelimittypes.HourEpoch{EpochNumber: uint64(ctx.BlockTime().Hour()), Duration: time.Hour,
			EpochStartTime: ctx.BlockTime().Truncate(time.Hour), EpochStartHeight: ctx.BlockHeight()}
		if err := gApp(ch).RateLimitKeeper.SetHourEpoch(ctx, ep); err != nil {
			panic(err)
		}
		coord.CommitBlock(ch)
	}
	return w
}

func gApp(ch *ibctesting.TestChain) *simapp.SimApp { return ch.App.(*simapp.SimApp) }

// gDump reads every key/value of the listed module stores through the chain's current context
// (uncommitted keeper writes of the current block included).
type gStoreDump map[string]map[string][]byte

func gDump(ch *ibctesting.TestChain) gStoreDump {
	ctx := ch.GetContext()
	out := gStoreDump{}
	for _, name := range gStores {
		m := map[string][]byte{}
		st := ctx.KVStore(gApp(ch).GetKey(name))
		it := st.Iterator(nil, nil)
		for ; it.Valid(); it.Next() {
			m[string(it.Key())] = append([]byte(nil), it.Value()...)
		}
		it.Close()
		out[name] = m
	}
	return out
}

func gSortedKeys(m map[string][]byte) []string {
	ks := make([]string, 0, len(m))
	for k := range m {
		ks = append(ks, k)
	}
	sort.Strings(ks)
	return ks
}

// gVal is the canonical rendering of a store value: raw hex up to 8 bytes, otherwise a truncated SHA-256.
func gVal(b []byte) string {
	if len(b) <= 8 {
		return hex.EncodeToString(b)
	}
	h := sha256.Sum256(b)
	return "h:" + hex.EncodeToString(h[:12])
}

// gKeyStr renders a raw store key for reports: printable ASCII as is, anything else as \xNN.
func gKeyStr(k string) string {
	out := make([]byte, 0, len(k))
	for i := 0; i < len(k); i++ {
		c := k[i]
		if c >= 0x20 && c <= 0x7e && c != '\\' {
			out = append(out, c)
		} else {
			out = append(out, []byte(fmt.Sprintf("\\x%02x", c))...)
		}
	}
	return string(out)
}

// gGenesis is the exported genesis of every IBC module that is round-tripped.
type gGenesis struct {
	IBC       *ibctypes.GenesisState
	Transfer  *transfertypes.GenesisState
	RateLimit *ratelimittypes.GenesisState
	PFM       *pfmtypes.GenesisState
	ICA       *icagenesistypes.GenesisState
	GMP       *gmptypes.GenesisState
}

// gExport calls the real ExportGenesis functions on the chain's current state.
func gExport(ch *ibctesting.TestChain) *gGenesis {
	ctx := ch.GetContext()
	app := gApp(ch)
	g := &gGenesis{}
	g.IBC = ibc.ExportGenesis(ctx, *app.GetIBCKeeper())
	g.Transfer = app.TransferKeeper.ExportGenesis(ctx)
	g.RateLimit = app.RateLimitKeeper.ExportGenesis(ctx)
	g.PFM = app.PFMKeeper.ExportGenesis(ctx)
	ctrl := icacontrollerkeeper.ExportGenesis(ctx, *app.ICAControllerKeeper)
	host := icahostkeeper.ExportGenesis(ctx, *app.ICAHostKeeper)
	g.ICA = icagenesistypes.NewGenesisState(ctrl, host)
	gmp, err := app.GMPKeeper.ExportGenesis(ctx)
	if err != nil {
		panic(err)
	}
	g.GMP = gmp
	return g
}

// gJSON marshals the genesis with the app codec exactly like `simd export` does per module.
func (g *gGenesis) gJSON(ch *ibctesting.TestChain) map[string][]byte {
	cdc := ch.App.AppCodec()
	return map[string][]byte{
		"ibc":       cdc.MustMarshalJSON(g.IBC),
		"transfer":  cdc.MustMarshalJSON(g.Transfer),
		"ratelimit": cdc.MustMarshalJSON(g.RateLimit),
		"pfm":       cdc.MustMarshalJSON(g.PFM),
		"ica":       cdc.MustMarshalJSON(g.ICA),
		"gmp":       cdc.MustMarshalJSON(g.GMP),
	}
}

// gDecode is the second half of the JSON round trip (what a restarted node does with genesis.json).
func gDecode(ch *ibctesting.TestChain, js map[string][]byte) *gGenesis {
	cdc := ch.App.AppCodec()
	g := &gGenesis{IBC: &ibctypes.GenesisState{}, Transfer: &transfertypes.GenesisState{}, RateLimit: &ratelimittypes.GenesisState{},
		PFM: &pfmtypes.GenesisState{}, ICA: &icagenesistypes.GenesisState{}, GMP: &gmptypes.GenesisState{}}
	cdc.MustUnmarshalJSON(js["ibc"], g.IBC)
	cdc.MustUnmarshalJSON(js["transfer"], g.Transfer)
	cdc.MustUnmarshalJSON(js["ratelimit"], g.RateLimit)
	cdc.MustUnmarshalJSON(js["pfm"], g.PFM)
	cdc.MustUnmarshalJSON(js["ica"], g.ICA)
	cdc.MustUnmarshalJSON(js["gmp"], g.GMP)
	return g
}

// gValidate runs the ValidateGenesis step of every module (InitChain of a restarted node runs it
// through the module manager before InitGenesis).
func (g *gGenesis) gValidate() map[string]string {
	errs := map[string]string{}
	put := func(name string, err error) {
		if err != nil {
			errs[name] = err.Error()
		}
	}
	put("ibc", g.IBC.Validate())
	put("transfer", g.Transfer.Validate())
	put("ratelimit", g.RateLimit.Validate())
	put("pfm", g.PFM.Validate())
	put("ica", g.ICA.Validate())
	put("gmp", g.GMP.Validate())
	return errs
}

// gImportStep imports one module; a panic is returned as text (InitGenesis panics on invalid input).
func gImportStep(f func()) (msg string) {
	defer func() {
		if e := recover(); e != nil {
			msg = fmt.Sprint(e)
		}
	}()
	f()
	return ""
}

// gImport runs the real InitGenesis functions of every module on ch's next-block state, in the
// order of simapp's module manager (ibc, transfer, ratelimit, ica, gmp, pfm) and commits the block.
func gImport(ch *ibctesting.TestChain, g *gGenesis) map[string]string {
	ctx := ch.GetContext()
	app := gApp(ch)
	panics := map[string]string{}
	step := func(name string, f func()) {
		if m := gImportStep(f); m != "" {
			panics[name] = m
		}
	}
	step("ibc", func() { ibc.InitGenesis(ctx, *app.GetIBCKeeper(), g.IBC) })
	step("transfer", func() { app.TransferKeeper.InitGenesis(ctx, *g.Transfer) })
	step("ratelimit", func() { app.RateLimitKeeper.InitGenesis(ctx, *g.RateLimit) })
	step("ica", func() {
		icacontrollerkeeper.InitGenesis(ctx, *app.ICAControllerKeeper, g.ICA.ControllerGenesisState)
		icahostkeeper.InitGenesis(ctx, *app.ICAHostKeeper, g.ICA.HostGenesisState)
	})
	step("gmp", func() {
		if err := app.GMPKeeper.InitGenesis(ctx, g.GMP); err != nil {
			panic(err)
		}
	})
	step("pfm", func() { app.PFMKeeper.InitGenesis(ctx, *g.PFM) })
	return panics
}

// gErrClass is the stable result class of a transaction / keeper call: ok, noop (set by callers) or
// the registered (codespace, code) of the root error — never message text.
func gErrClass(err error) string {
	if err == nil {
		return "ok"
	}
	cs, code, _ := errorsmod.ABCIInfo(err, false)
	return fmt.Sprintf("err:%s/%d", cs, code)
}

var _ = sdk.AccAddress{}
var _ = lib.U
