// C44 genesis engine, part 2: the canonical *typed state* of the "ibc" store. Every raw key is
// classified into one of the key kinds of 24-host / 24-host/v2 / 04-channel/v2/types/keys.go /
// 02-client (the typed-store abstraction justified by C16); a key of no known kind is kept raw
// in "other" so that it is never silently ignored. The same JSON is the Lean model's State
// (lean/IbcVerif/Model/Genesis.lean).
package miscchain

import (
	"sort"
	"strconv"
	"strings"

	sdk "github.com/cosmos/cosmos-sdk/types"

	host "github.com/cosmos/ibc-go/v11/modules/core/24-host"

	"verif/harness/lib"
)

type gEntry struct {
	kind string // map name in the typed state
	a, b string // up to two identifier components (id | port,chan | id,sub | raw key)
	seq  uint64
	hasQ bool
	v    string
}

func gIsID(s string) bool {
	if s == "" || strings.Contains(s, "/") {
		return false
	}
	return host.ClientIdentifierValidator(s) == nil
}

// gSub renders a client-store sub key: printable ASCII as is, binary keys (07-tendermint iteration
// keys) as 0x<hex>. clientState / consensusStates/<h> keys are always ASCII, so the model's
// classification of sub keys is unaffected by the rendering.
func gSub(s string) string {
	for i := 0; i < len(s); i++ {
		if s[i] < 0x20 || s[i] > 0x7e {
			return "0x" + lib.Hex([]byte(s))
		}
	}
	return s
}

func gPortChan(parts []string) (string, string, bool) {
	// ports/<p>/channels/<c>
	if len(parts) == 4 && parts[0] == host.KeyPortPrefix && parts[2] == host.KeyChannelPrefix {
		return parts[1], parts[3], true
	}
	return "", "", false
}

// gClassify maps one raw ibc-store key to its typed entry.
func gClassify(key string, val []byte) gEntry {
	v := gVal(val)
	other := gEntry{kind: "other", a: gKeyStr(key), v: v}
	n := len(key)
	// --- v2 keys: <id> 0x01|0x02|0x03 <8-byte BE seq>, <id>async_packet<8>, <id>alias
	if n > 9 {
		if c := key[n-9]; (c == 1 || c == 2 || c == 3) && gIsID(key[:n-9]) {
			kind := map[byte]string{1: "commits2", 2: "receipts2", 3: "acks2"}[c]
			return gEntry{kind: kind, a: key[:n-9], seq: sdk.BigEndianToUint64([]byte(key[n-8:])), hasQ: true, v: v}
		}
	}
	if n > 20 && key[n-20:n-8] == "async_packet" && gIsID(key[:n-20]) {
		return gEntry{kind: "async2", a: key[:n-20], seq: sdk.BigEndianToUint64([]byte(key[n-8:])), hasQ: true, v: v}
	}
	if strings.HasSuffix(key, "alias") && gIsID(key[:n-5]) {
		return gEntry{kind: "alias", a: key[:n-5], v: v}
	}
	parts := strings.Split(key, "/")
	switch parts[0] {
	case "clients":
		if len(parts) >= 3 && parts[1] != "" {
			return gEntry{kind: "cstore", a: parts[1], b: gSub(strings.Join(parts[2:], "/")), v: v}
		}
	case host.KeyConnectionPrefix:
		if len(parts) == 2 {
			return gEntry{kind: "conns", a: parts[1], v: v}
		}
	case host.KeyChannelEndPrefix:
		if p, c, ok := gPortChan(parts[1:]); ok {
			return gEntry{kind: "chans", a: p, b: c, v: v}
		}
	case host.KeyNextSeqRecvPrefix:
		if p, c, ok := gPortChan(parts[1:]); ok {
			return gEntry{kind: "nextRecv", a: p, b: c, v: v}
		}
	case host.KeyNextSeqAckPrefix:
		if p, c, ok := gPortChan(parts[1:]); ok {
			return gEntry{kind: "nextAck", a: p, b: c, v: v}
		}
	case host.KeyNextSeqSendPrefix:
		// hostv2.NextSequenceSendKey: "nextSequenceSend/" + "/" + id  (two slashes)
		if len(parts) == 3 && parts[1] == "" && parts[2] != "" {
			return gEntry{kind: "nextSend", a: parts[2], v: v}
		}
	case host.KeyPacketCommitmentPrefix, host.KeyPacketAckPrefix, host.KeyPacketReceiptPrefix:
		if len(parts) == 7 && parts[5] == host.KeySequencePrefix {
			if p, c, ok := gPortChan(parts[1:5]); ok {
				if q, err := strconv.ParseUint(parts[6], 10, 64); err == nil && strconv.FormatUint(q, 10) == parts[6] {
					kind := map[string]string{host.KeyPacketCommitmentPrefix: "commits", host.KeyPacketAckPrefix: "acks", host.KeyPacketReceiptPrefix: "receipts"}[parts[0]]
					return gEntry{kind: kind, a: p, b: c, seq: q, hasQ: true, v: v}
				}
			}
		}
	}
	switch key {
	case "nextClientSequence", "nextConnectionSequence", "nextChannelSequence", "clientParams", "connectionParams":
		return gEntry{kind: key, v: v}
	}
	return other
}

var gMapKinds = []string{"cstore", "conns", "chans", "nextRecv", "nextAck", "nextSend", "commits", "receipts", "acks",
	"commits2", "receipts2", "acks2", "async2", "alias", "other"}
var gScalarKinds = []string{"clientParams", "nextClientSeq", "connParams", "nextConnSeq", "nextChanSeq"}
var gScalarOf = map[string]string{"clientParams": "clientParams", "nextClientSequence": "nextClientSeq",
	"connectionParams": "connParams", "nextConnectionSequence": "nextConnSeq", "nextChannelSequence": "nextChanSeq"}

// gFieldsOf says which JSON fields an entry of the kind carries (besides "v").
func gEntryJSON(e gEntry) lib.M {
	m := lib.M{"v": e.v}
	switch e.kind {
	case "cstore":
		m["id"], m["sub"] = e.a, e.b
	case "conns", "nextSend", "alias":
		m["id"] = e.a
	case "chans", "nextRecv", "nextAck":
		m["port"], m["chan"] = e.a, e.b
	case "commits", "receipts", "acks":
		m["port"], m["chan"], m["seq"] = e.a, e.b, lib.U(e.seq)
	case "commits2", "receipts2", "acks2", "async2":
		m["id"], m["seq"] = e.a, lib.U(e.seq)
	case "other":
		m["k"] = e.a
	}
	return m
}

// gTyped builds the canonical typed state: every map is an array sorted by its key (identifier
// components by byte order = Lean's String order on ASCII, then the sequence numerically);
// scalars absent from the store are "".
func gTyped(ibcStore map[string][]byte) lib.M {
	byKind := map[string][]gEntry{}
	st := lib.M{}
	for _, s := range gScalarKinds {
		st[s] = ""
	}
	for _, k := range gSortedKeys(ibcStore) {
		e := gClassify(k, ibcStore[k])
		if sc, ok := gScalarOf[e.kind]; ok {
			st[sc] = e.v
			continue
		}
		byKind[e.kind] = append(byKind[e.kind], e)
	}
	for _, kind := range gMapKinds {
		es := byKind[kind]
		sort.SliceStable(es, func(i, j int) bool {
			if es[i].a != es[j].a {
				return es[i].a < es[j].a
			}
			if es[i].b != es[j].b {
				return es[i].b < es[j].b
			}
			return es[i].seq < es[j].seq
		})
		arr := make([]lib.M, 0, len(es))
		for _, e := range es {
			arr = append(arr, gEntryJSON(e))
		}
		st[kind] = arr
	}
	return st
}

// gLossClass is the stable violation-key suffix for a raw key of a module store that differs
// between the exporting chain and the importing chain. For the ibc store it says whether the key is
// keyed by a v1 channel identifier that acts as a v2 alias (the F8 shape) or not.
func gLossClass(store, key string, val []byte, aliasIDs map[string]bool) string {
	if store != "ibc" {
		return store
	}
	e := gClassify(key, val)
	name := map[string]string{"commits2": "v2-commitment", "receipts2": "v2-receipt", "acks2": "v2-ack", "async2": "v2-async-packet",
		"alias": "alias", "nextSend": "next-sequence-send", "commits": "v1-commitment", "receipts": "v1-receipt", "acks": "v1-ack",
		"chans": "channel", "conns": "connection", "nextRecv": "next-sequence-recv", "nextAck": "next-sequence-ack", "other": "unknown-key"}[e.kind]
	if e.kind == "cstore" {
		switch {
		case e.b == host.KeyClientState:
			name = "client-state"
		case strings.HasPrefix(e.b, host.KeyConsensusStatePrefix+"/") && strings.Count(e.b, "/") == 1:
			name = "consensus-state"
		case e.b == "counterparty" || e.b == "config" || e.b == "creator" || e.b == "connections":
			name = e.b
		default:
			name = "client-metadata"
		}
	}
	if name == "" {
		name = e.kind
	}
	switch e.kind {
	case "commits2", "receipts2", "acks2", "async2", "alias", "cstore":
		if aliasIDs[e.a] {
			return "alias-state-lost/" + name
		}
	}
	return "ibc/" + name
}
