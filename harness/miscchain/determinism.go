// Determinism engine (property C45) — the runtime half that cannot be proved in Lean.
//
// Parent (group "determinism"): for every generated history (seed, number of ops) the binary
// re-executes itself twice as `miscchain -child <seed> <nops>`, one child with GOMAXPROCS=1 and one
// with GOMAXPROCS=16 (Go randomises map iteration per `range`, so the two processes also differ in
// every map iteration order), and compares the two transcripts byte for byte.
//
// Child: builds a fresh 3-chain ibctesting coordinator and runs the history derived from the seed
// through lib.Rng.  ibctesting draws validator and account keys from crypto/rand, so the child first
// replaces crypto/rand.Reader by a splitmix64 stream seeded with the history seed: both children then
// use identical keys, and the *full* app hash is comparable (nothing is normalised away).
// Transcript (one JSON object per line):
//
//	{"t":"op","i":..,"op":..,"res":..}        the op and its result (error text included)
//	{"t":"block","chain":..,"height":..,"apphash":hex,"stores":{name:hex}}   after EVERY committed block
//	                                           (from rootmulti CommitInfo: app hash + every store's root)
//	{"t":"genesis","chain":..,"module":..,"sha256":..,"len":..}  ExportGenesis JSON per IBC module, and
//	                                           proto bytes of ibc core + transfer genesis
//	{"t":"query","chain":..,"q":..,"n":..,"sha256":..}  ordered query results (GetAll*, router Keys, gRPC)
//	{"t":"store","chain":..,"store":..,"n":..,"sha256":..}  full key/value dump digests of the IBC stores
//
// This is validation (two executions per history), not proof; the evidence says so.
package miscchain

import (
	"bufio"
	"bytes"
	crand "crypto/rand"
	"crypto/sha256"
	"encoding/hex"
	"encoding/json"
	"fmt"
	"os"
	"os/exec"
	"sort"
	"strconv"
	"strings"
	"sync"
	"testing"
	"time"

	sdkmath "cosmossdk.io/math"

	"github.com/cosmos/gogoproto/proto"

	"github.com/cosmos/cosmos-sdk/store/v2/rootmulti"
	storetypes "github.com/cosmos/cosmos-sdk/store/v2/types"
	sdk "github.com/cosmos/cosmos-sdk/types"

	abci "github.com/cometbft/cometbft/abci/types"

	pfmtypes "github.com/cosmos/ibc-go/v11/modules/apps/packet-forward-middleware/types"
	transfertypes "github.com/cosmos/ibc-go/v11/modules/apps/transfer/types"
	ibc "github.com/cosmos/ibc-go/v11/modules/core"
	clientkeeper "github.com/cosmos/ibc-go/v11/modules/core/02-client/keeper"
	clienttypes "github.com/cosmos/ibc-go/v11/modules/core/02-client/types"
	connectiontypes "github.com/cosmos/ibc-go/v11/modules/core/03-connection/types"
	channelkeeper "github.com/cosmos/ibc-go/v11/modules/core/04-channel/keeper"
	channeltypes "github.com/cosmos/ibc-go/v11/modules/core/04-channel/types"
	channeltypesv2 "github.com/cosmos/ibc-go/v11/modules/core/04-channel/v2/types"
	ibcexported "github.com/cosmos/ibc-go/v11/modules/core/exported"
	ibctesting "github.com/cosmos/ibc-go/v11/testing"
	ibcmock "github.com/cosmos/ibc-go/v11/testing/mock"
	mockv2 "github.com/cosmos/ibc-go/v11/testing/mock/v2"

	"verif/harness/lib"
	"verif/harness/misc/reg"
)

func init() {
	ChildMain = childMain
	reg.Register(reg.Group{
		Name:  "determinism",
		Props: []string{"C45"},
		Funcs: map[string]func(in lib.M) any{"determinism.replay": func(in lib.M) any {
			out, _, _ := replay(reg.S(in, "seed"), reg.S(in, "ops"))
			return out
		}},
		Cases: func(r *lib.Rng, n int, emit func(in lib.M, out any)) {
			for i := 0; i < n; i++ {
				seed := lib.U(r.U64() >> 1)
				ops := 10 + r.Intn(8)
				if os.Getenv("VERIF_TIER") == "thorough" {
					ops = 20 + r.Intn(40)
				}
				out, run1, viol := replay(seed, strconv.Itoa(ops))
				emit(lib.M{"f": "determinism.replay", "seed": seed, "ops": strconv.Itoa(ops), "run1": run1}, out)
				if viol != nil {
					pending = append(pending, *viol)
				}
			}
		},
		Monitor: func(r *lib.Rng, n int, report func(reg.Violation)) {
			// differences found while generating the cases above are property-level failures
			for _, v := range pending {
				report(v)
			}
			pending = nil
			// monitor-only histories (no case is written); when an obligation broke, bin/check
			// multiplies n to widen the search
			for i := 0; i < n-1 && i < 12; i++ {
				if _, _, viol := replay(lib.U(r.U64()>>1), "24"); viol != nil {
					report(*viol)
				}
			}
		},
	})
}

var pending []reg.Violation

// ---------------------------------------------------------------------------------------------
// parent

type childRun struct {
	out  []byte
	err  error
	logs string
}

func runChild(seed, ops string, procs int) childRun {
	exe, err := os.Executable()
	if err != nil {
		return childRun{err: err}
	}
	cmd := exec.Command(exe, "-child", seed, ops)
	env := []string{}
	for _, e := range os.Environ() {
		if !strings.HasPrefix(e, "GOMAXPROCS=") {
			env = append(env, e)
		}
	}
	cmd.Env = append(env, "GOMAXPROCS="+strconv.Itoa(procs))
	var so, se bytes.Buffer
	cmd.Stdout, cmd.Stderr = &so, &se
	err = cmd.Run()
	return childRun{out: so.Bytes(), err: err, logs: tailStr(se.String(), 1500)}
}

func tailStr(s string, n int) string {
	if len(s) > n {
		return s[len(s)-n:]
	}
	return s
}

func summarise(tr []byte) (blocks int, digest string) {
	for _, l := range bytes.Split(tr, []byte("\n")) {
		if bytes.HasPrefix(l, []byte(`{"t":"block"`)) {
			blocks++
		}
	}
	h := sha256.Sum256(tr)
	return blocks, hex.EncodeToString(h[:])
}

// replay runs the history twice (GOMAXPROCS 1 and 16) and compares the transcripts.
// It returns the implementation answer of the case (second run) and the summary of the first run.
func replay(seed, ops string) (lib.M, lib.M, *reg.Violation) {
	var a, b childRun
	var wg sync.WaitGroup
	wg.Add(2)
	go func() { defer wg.Done(); a = runChild(seed, ops, 1) }()
	go func() { defer wg.Done(); b = runChild(seed, ops, 16) }()
	wg.Wait()
	if a.err != nil || b.err != nil {
		// a child that cannot run is a harness failure, not a verdict
		panic(fmt.Sprintf("determinism child failed: seed=%s ops=%s: %v / %v\n%s\n%s", seed, ops, a.err, b.err, a.logs, b.logs))
	}
	ba, da := summarise(a.out)
	bb, db := summarise(b.out)
	run1 := lib.M{"blocks": strconv.Itoa(ba), "digest": da}
	if bytes.Equal(a.out, b.out) {
		return lib.M{"ok": "identical", "blocks": strconv.Itoa(bb), "digest": db}, run1, nil
	}
	la, lb := strings.Split(string(a.out), "\n"), strings.Split(string(b.out), "\n")
	i := 0
	for i < len(la) && i < len(lb) && la[i] == lb[i] {
		i++
	}
	get := func(ls []string) string {
		if i < len(ls) {
			return ls[i]
		}
		return "<end of transcript>"
	}
	what := "transcript"
	var first map[string]any
	if json.Unmarshal([]byte(get(la)), &first) == nil {
		if t, ok := first["t"].(string); ok {
			what = t
			for _, k := range []string{"module", "q", "store"} {
				if s, ok := first[k].(string); ok {
					what += "/" + s
				}
			}
		}
	}
	v := reg.Violation{
		Property: "C45",
		Key:      "nondeterminism/" + what,
		What:     "the same history replayed in two fresh processes (GOMAXPROCS=1 / 16) produced different " + what + " lines",
		Input:    lib.M{"f": "determinism.replay", "seed": seed, "ops": ops},
		Observed: lib.M{"line": i, "run1": get(la), "run2": get(lb)},
		Requests: []lib.M{{"f": "determinism.replay", "seed": seed, "ops": ops, "run1": run1}},
	}
	return lib.M{"ok": "different", "blocks": strconv.Itoa(bb), "digest": db}, run1, &v
}

// ---------------------------------------------------------------------------------------------
// child

type detReader struct {
	mu sync.Mutex
	r  *lib.Rng
}

func (d *detReader) Read(p []byte) (int, error) {
	d.mu.Lock()
	defer d.mu.Unlock()
	for i := range p {
		p[i] = byte(d.r.U64())
	}
	return len(p), nil
}

type v1Pending struct {
	path   *ibctesting.Path // EndpointA = sender side
	packet channeltypes.Packet
}

type v2Pending struct {
	ep     *ibctesting.Endpoint // sender side
	packet channeltypesv2.Packet
}

type child struct {
	w      *bufio.Writer
	coord  *ibctesting.Coordinator
	chains []*ibctesting.TestChain
	last   []int64
	r      *lib.Rng

	pathAB, pathBC, pathMock, pathV2 *ibctesting.Path
	pend1                            []v1Pending
	pend2                            []v2Pending
}

func (c *child) line(m lib.M) {
	// keep "t" first so that the parent can classify lines cheaply
	t, _ := m["t"].(string)
	delete(m, "t")
	b, err := json.Marshal(m) // encoding/json sorts map keys
	if err != nil {
		panic(err)
	}
	c.w.WriteString(`{"t":"` + t + `",`)
	c.w.Write(b[1:])
	c.w.WriteByte('\n')
}

func (c *child) blocks() {
	for i, ch := range c.chains {
		cms, ok := ch.App.GetBaseApp().CommitMultiStore().(*rootmulti.Store)
		lastH := ch.App.LastBlockHeight()
		for h := c.last[i] + 1; h <= lastH; h++ {
			m := lib.M{"t": "block", "chain": ch.ChainID, "height": h}
			if ok {
				if ci, err := cms.GetCommitInfo(h); err == nil {
					stores := lib.M{}
					for _, si := range ci.StoreInfos {
						stores[si.Name] = hex.EncodeToString(si.CommitId.Hash)
					}
					m["apphash"] = hex.EncodeToString(ci.Hash())
					m["stores"] = stores
				} else {
					m["apphash"] = "unavailable:" + err.Error()
				}
			}
			if h == lastH {
				// the authoritative value for the newest block
				m["last"] = hex.EncodeToString(ch.App.LastCommitID().Hash)
			}
			c.line(m)
		}
		c.last[i] = lastH
	}
}

func errStr(err error) string {
	if err == nil {
		return "ok"
	}
	return "err: " + err.Error()
}

func (c *child) sender(ch *ibctesting.TestChain) string {
	return ch.SenderAccount.GetAddress().String()
}

// transfer sends a MsgTransfer on path.EndpointA's chain and returns the v1 packet.
func (c *child) transfer(path *ibctesting.Path, coin sdk.Coin, receiver string, timeoutHeight clienttypes.Height, memo string) (channeltypes.Packet, error) {
	src := path.EndpointA
	ts := uint64(0)
	if timeoutHeight.IsZero() {
		ts = src.Chain.GetTimeoutTimestamp()
	}
	msg := transfertypes.NewMsgTransfer(src.ChannelConfig.PortID, src.ChannelID, coin, c.sender(src.Chain), receiver, timeoutHeight, ts, memo)
	res, err := src.Chain.SendMsgs(msg)
	if err != nil {
		return channeltypes.Packet{}, err
	}
	return ibctesting.ParseV1PacketFromEvents(res.Events)
}

// recvOnly relays the packet to the destination without acknowledging it on the source.
func recvOnly(path *ibctesting.Path, packet channeltypes.Packet) (*abci.ExecTxResult, error) {
	if err := path.EndpointB.UpdateClient(); err != nil {
		return nil, err
	}
	return path.EndpointB.RecvPacketWithResult(packet)
}

func (c *child) voucher(ch *ibctesting.TestChain) (sdk.Coin, bool) {
	bals := ch.GetSimApp().BankKeeper.GetAllBalances(ch.GetContext(), ch.SenderAccount.GetAddress())
	for _, b := range bals {
		if strings.HasPrefix(b.Denom, "ibc/") && b.Amount.IsPositive() {
			return b, true
		}
	}
	return sdk.Coin{}, false
}

func (c *child) amount() sdkmath.Int { return sdkmath.NewInt(int64(1 + c.r.Intn(1000))) }

func (c *child) op(i int) (name string, res string) {
	r := c.r
	defer func() {
		if e := recover(); e != nil {
			res = fmt.Sprint("panic: ", e)
		}
	}()
	dirs := []*ibctesting.Path{c.pathAB, c.pathAB.Reversed(), c.pathBC, c.pathBC.Reversed()}
	switch k := r.Intn(14); k {
	case 0, 1, 2: // ICS-20 transfer of the native token, relayed / received only / left in flight
		p := dirs[r.Intn(len(dirs))]
		mode := r.Intn(4)
		name = fmt.Sprintf("transfer %s->%s mode=%d", p.EndpointA.Chain.ChainID, p.EndpointB.Chain.ChainID, mode)
		pkt, err := c.transfer(p, sdk.NewCoin(sdk.DefaultBondDenom, c.amount()), c.sender(p.EndpointB.Chain), clienttypes.Height{}, "")
		if err != nil {
			return name, errStr(err)
		}
		switch mode {
		case 0, 1:
			return name, errStr(p.RelayPacket(pkt))
		case 2:
			_, err = recvOnly(p, pkt)
			return name, errStr(err)
		default:
			c.pend1 = append(c.pend1, v1Pending{p, pkt})
			return name, "in-flight"
		}
	case 3: // send a voucher back (or onwards)
		p := dirs[r.Intn(len(dirs))]
		name = fmt.Sprintf("voucher %s->%s", p.EndpointA.Chain.ChainID, p.EndpointB.Chain.ChainID)
		coin, ok := c.voucher(p.EndpointA.Chain)
		if !ok {
			return name, "no-voucher"
		}
		amt := coin.Amount
		if r.Bool() && amt.GT(sdkmath.OneInt()) {
			amt = amt.QuoRaw(2)
		}
		pkt, err := c.transfer(p, sdk.NewCoin(coin.Denom, amt), c.sender(p.EndpointB.Chain), clienttypes.Height{}, "")
		if err != nil {
			return name, errStr(err)
		}
		return name, errStr(p.RelayPacket(pkt))
	case 4: // transfer that times out and is refunded
		p := dirs[r.Intn(2)]
		name = fmt.Sprintf("timeout %s->%s", p.EndpointA.Chain.ChainID, p.EndpointB.Chain.ChainID)
		dst := p.EndpointB.Chain
		th := clienttypes.NewHeight(clienttypes.ParseChainID(dst.ChainID), uint64(dst.App.LastBlockHeight())+2)
		pkt, err := c.transfer(p, sdk.NewCoin(sdk.DefaultBondDenom, c.amount()), c.sender(dst), th, "")
		if err != nil {
			return name, errStr(err)
		}
		c.coord.CommitNBlocks(dst, 3)
		if err := p.EndpointA.UpdateClient(); err != nil {
			return name, errStr(err)
		}
		return name, errStr(p.EndpointA.TimeoutPacket(pkt))
	case 5: // mock application packet on the ORDERED channel
		p := c.pathMock
		if r.Bool() {
			p = p.Reversed()
		}
		name = "mock-ordered " + p.EndpointA.Chain.ChainID
		data := ibcmock.MockPacketData
		if r.Intn(4) == 0 {
			data = ibcmock.MockFailPacketData
		}
		th := p.EndpointB.Chain.GetTimeoutHeight()
		seq, err := p.EndpointA.SendPacket(th, 0, data)
		if err != nil {
			return name, errStr(err)
		}
		pkt := channeltypes.NewPacket(data, seq, p.EndpointA.ChannelConfig.PortID, p.EndpointA.ChannelID, p.EndpointB.ChannelConfig.PortID, p.EndpointB.ChannelID, th, 0)
		return name, errStr(p.RelayPacket(pkt))
	case 6, 7: // IBC v2 mock packet
		ep := c.pathV2.EndpointA
		if r.Bool() {
			ep = c.pathV2.EndpointB
		}
		mode := r.Intn(3)
		name = fmt.Sprintf("v2-mock %s mode=%d", ep.Chain.ChainID, mode)
		var pl channeltypesv2.Payload
		switch r.Intn(4) {
		case 0:
			pl = mockv2.NewErrorMockPayload(mockv2.ModuleNameA, mockv2.ModuleNameB)
		default:
			pl = mockv2.NewMockPayload(mockv2.ModuleNameA, mockv2.ModuleNameB)
		}
		ts := uint64(ep.Counterparty.Chain.GetContext().BlockTime().Add(time.Hour).Unix())
		pkt, err := ep.MsgSendPacket(ts, pl)
		if err != nil {
			return name, errStr(err)
		}
		switch mode {
		case 0:
			return name, errStr(ep.RelayPacket(pkt))
		case 1:
			_, err := ep.Counterparty.MsgRecvPacketWithAck(pkt)
			return name, errStr(err)
		default:
			c.pend2 = append(c.pend2, v2Pending{ep, pkt})
			return name, "in-flight"
		}
	case 8: // IBC v2 ICS-20 transfer
		ep := c.pathV2.EndpointA
		if r.Bool() {
			ep = c.pathV2.EndpointB
		}
		name = "v2-transfer " + ep.Chain.ChainID
		ts := uint64(ep.Counterparty.Chain.GetContext().BlockTime().Add(time.Hour).Unix())
		msg := transfertypes.NewMsgTransferWithEncoding(transfertypes.PortID, ep.ClientID, sdk.NewCoin(sdk.DefaultBondDenom, c.amount()),
			c.sender(ep.Chain), c.sender(ep.Counterparty.Chain), clienttypes.Height{}, ts, "", transfertypes.EncodingProtobuf, false)
		resp, err := ep.Chain.SendMsgs(msg)
		if err != nil {
			return name, errStr(err)
		}
		pkts, err := ibctesting.ParseIBCV2Packets(channeltypes.EventTypeSendPacket, resp.Events)
		if err != nil || len(pkts) != 1 {
			return name, fmt.Sprint("parse: ", err, len(pkts))
		}
		if err := ep.Counterparty.UpdateClient(); err != nil {
			return name, errStr(err)
		}
		if r.Intn(3) == 0 {
			c.pend2 = append(c.pend2, v2Pending{ep, pkts[0]})
			return name, "in-flight"
		}
		return name, errStr(ep.RelayPacket(pkts[0]))
	case 9: // client update
		eps := []*ibctesting.Endpoint{c.pathAB.EndpointA, c.pathAB.EndpointB, c.pathBC.EndpointA, c.pathBC.EndpointB, c.pathV2.EndpointA, c.pathV2.EndpointB}
		ep := eps[r.Intn(len(eps))]
		name = "update-client " + ep.Chain.ChainID + "/" + ep.ClientID
		return name, errStr(ep.UpdateClient())
	case 10: // empty blocks
		ch := c.chains[r.Intn(len(c.chains))]
		n := 1 + r.Intn(3)
		name = fmt.Sprintf("empty-blocks %s x%d", ch.ChainID, n)
		c.coord.CommitNBlocks(ch, uint64(n))
		return name, "ok"
	case 11, 12: // packet-forward-middleware: A -> B -> C, second hop relayed or left in flight on B
		return c.pfmForward(r.Intn(3))
	default: // relay something that was left in flight
		if len(c.pend1) > 0 && (len(c.pend2) == 0 || r.Bool()) {
			j := r.Intn(len(c.pend1))
			p := c.pend1[j]
			c.pend1 = append(c.pend1[:j], c.pend1[j+1:]...)
			name = "relay-pending-v1 " + p.path.EndpointA.Chain.ChainID
			return name, errStr(p.path.RelayPacket(p.packet))
		}
		if len(c.pend2) > 0 {
			j := r.Intn(len(c.pend2))
			p := c.pend2[j]
			c.pend2 = append(c.pend2[:j], c.pend2[j+1:]...)
			name = "relay-pending-v2 " + p.ep.Chain.ChainID
			if err := p.ep.Counterparty.UpdateClient(); err != nil {
				return name, errStr(err)
			}
			return name, errStr(p.ep.RelayPacket(p.packet))
		}
		return "relay-pending", "nothing-pending"
	}
}

// pfmForward sends a transfer A -> B with forward metadata to C.  mode 0: the second hop stays in
// flight on B; 1: second hop relayed and acknowledged on B (first-hop ack written, not relayed);
// 2: everything relayed.
func (c *child) pfmForward(mode int) (name string, res string) {
	defer func() {
		if e := recover(); e != nil {
			res = fmt.Sprint("panic: ", e)
		}
	}()
	name = fmt.Sprintf("pfm-forward mode=%d", mode)
	a, cc := c.chains[0], c.chains[2]
	meta := &pfmtypes.PacketMetadata{Forward: pfmtypes.ForwardMetadata{Receiver: c.sender(cc), Port: c.pathBC.EndpointA.ChannelConfig.PortID, Channel: c.pathBC.EndpointA.ChannelID}}
	memo, err := meta.ToMemo()
	if err != nil {
		return name, errStr(err)
	}
	pkt, err := c.transfer(c.pathAB, sdk.NewCoin(sdk.DefaultBondDenom, c.amount()), c.sender(a), clienttypes.Height{}, memo)
	if err != nil {
		return name, errStr(err)
	}
	res1, err := recvOnly(c.pathAB, pkt)
	if err != nil {
		return name, errStr(err)
	}
	hop2, err := ibctesting.ParseV1PacketFromEvents(res1.Events)
	if err != nil {
		return name, "first hop: " + errStr(err)
	}
	if mode == 0 {
		c.pend1 = append(c.pend1, v1Pending{c.pathBC, hop2})
		return name, "hop2 in-flight"
	}
	// relay the second hop; B then writes the (async) acknowledgement of the first hop
	if err := c.pathBC.EndpointB.UpdateClient(); err != nil {
		return name, errStr(err)
	}
	res2, err := c.pathBC.EndpointB.RecvPacketWithResult(hop2)
	if err != nil {
		return name, errStr(err)
	}
	ack2, err := ibctesting.ParseAckFromEvents(res2.Events)
	if err != nil {
		return name, errStr(err)
	}
	res3, err := c.pathBC.EndpointA.AcknowledgePacketWithResult(hop2, ack2)
	if err != nil {
		return name, errStr(err)
	}
	if mode == 1 {
		return name, "hop1 ack pending"
	}
	ack1, err := ibctesting.ParseAckFromEvents(res3.Events)
	if err != nil {
		return name, "no first-hop ack: " + errStr(err)
	}
	if err := c.pathAB.EndpointA.UpdateClient(); err != nil {
		return name, errStr(err)
	}
	return name, errStr(c.pathAB.EndpointA.AcknowledgePacket(pkt, ack1))
}

func sha(b []byte) string {
	h := sha256.Sum256(b)
	return hex.EncodeToString(h[:])
}

func digestMsgs[T any](xs []T, enc func(T) []byte) (int, string) {
	h := sha256.New()
	for _, x := range xs {
		b := enc(x)
		fmt.Fprintf(h, "%d:", len(b))
		h.Write(b)
	}
	return len(xs), hex.EncodeToString(h.Sum(nil))
}

func pm[T proto.Message](x T) []byte {
	b, err := proto.Marshal(x)
	if err != nil {
		panic(err)
	}
	return b
}

func (c *child) final() {
	modules := []string{"ibc", "transfer", "packetfowardmiddleware", "ratelimit", "interchainaccounts", "gmp", "mock"}
	// site modules/apps/packet-forward-middleware/keeper/genesis.go InitGenesis: import B's in-flight
	// packets into A's (empty) PFM store, then commit a block on A so that the app hash reflects it
	func() {
		defer func() {
			if e := recover(); e != nil {
				c.line(lib.M{"t": "op", "i": -1, "op": "pfm-import", "res": fmt.Sprint("panic: ", e)})
			}
		}()
		b, a := c.chains[1], c.chains[0]
		gs := b.GetSimApp().PFMKeeper.ExportGenesis(b.GetContext())
		a.GetSimApp().PFMKeeper.InitGenesis(a.GetContext(), *gs)
		c.coord.CommitBlock(a)
		c.line(lib.M{"t": "op", "i": -1, "op": "pfm-import", "res": fmt.Sprintf("imported %d in-flight packets", len(gs.InFlightPackets))})
		c.blocks()
	}()
	for _, ch := range c.chains {
		app := ch.GetSimApp()
		ctx := ch.GetContext()
		// exported genesis, JSON per module (what `export` writes)
		present := []string{}
		for _, m := range modules {
			if _, ok := app.ModuleManager.Modules[m]; ok {
				present = append(present, m)
			}
		}
		gen, err := app.ModuleManager.ExportGenesisForModules(ctx, app.AppCodec(), present)
		if err != nil {
			c.line(lib.M{"t": "genesis", "chain": ch.ChainID, "module": "*", "err": err.Error()})
		}
		for _, m := range lib.SortedKeys(gen) {
			c.line(lib.M{"t": "genesis", "chain": ch.ChainID, "module": m, "len": len(gen[m]), "sha256": sha(gen[m])})
		}
		// proto bytes of the two central genesis states
		ig := ibc.ExportGenesis(ctx, *app.IBCKeeper)
		c.line(lib.M{"t": "genesis", "chain": ch.ChainID, "module": "ibc.proto", "len": len(pm(ig)), "sha256": sha(pm(ig))})
		tg := app.TransferKeeper.ExportGenesis(ctx)
		c.line(lib.M{"t": "genesis", "chain": ch.ChainID, "module": "transfer.proto", "len": len(pm(tg)), "sha256": sha(pm(tg))})
		pg := app.PFMKeeper.ExportGenesis(ctx)
		pj := app.AppCodec().MustMarshalJSON(pg)
		c.line(lib.M{"t": "genesis", "chain": ch.ChainID, "module": "pfm.json", "n": len(pg.InFlightPackets), "len": len(pj), "sha256": sha(pj)})

		// ordered query results
		q := func(name string, n int, d string) {
			c.line(lib.M{"t": "query", "chain": ch.ChainID, "q": name, "n": n, "sha256": d})
		}
		k := app.IBCKeeper
		{
			n, d := digestMsgs(k.ChannelKeeper.GetAllChannels(ctx), func(x channeltypes.IdentifiedChannel) []byte { return pm(&x) })
			q("GetAllChannels", n, d)
		}
		{
			n, d := digestMsgs(k.ConnectionKeeper.GetAllConnections(ctx), func(x connectiontypes.IdentifiedConnection) []byte { return pm(&x) })
			q("GetAllConnections", n, d)
		}
		{
			n, d := digestMsgs(k.ConnectionKeeper.GetAllClientConnectionPaths(ctx), func(x connectiontypes.ConnectionPaths) []byte { return pm(&x) })
			q("GetAllClientConnectionPaths", n, d)
		}
		genClients := k.ClientKeeper.GetAllGenesisClients(ctx)
		{
			n, d := digestMsgs([]clienttypes.IdentifiedClientState(genClients), func(x clienttypes.IdentifiedClientState) []byte { return pm(&x) })
			q("GetAllGenesisClients", n, d)
		}
		{
			n, d := digestMsgs([]clienttypes.ClientConsensusStates(k.ClientKeeper.GetAllConsensusStates(ctx)), func(x clienttypes.ClientConsensusStates) []byte { return pm(&x) })
			q("GetAllConsensusStates", n, d)
		}
		if md, err := k.ClientKeeper.GetAllClientMetadata(ctx, genClients); err == nil {
			n, d := digestMsgs(md, func(x clienttypes.IdentifiedGenesisMetadata) []byte { return pm(&x) })
			q("GetAllClientMetadata", n, d)
		} else {
			q("GetAllClientMetadata", -1, err.Error())
		}
		ps := func(x channeltypes.PacketState) []byte { return pm(&x) }
		{
			n, d := digestMsgs(k.ChannelKeeper.GetAllPacketCommitments(ctx), ps)
			q("GetAllPacketCommitments", n, d)
			n, d = digestMsgs(k.ChannelKeeper.GetAllPacketAcks(ctx), ps)
			q("GetAllPacketAcks", n, d)
			n, d = digestMsgs(k.ChannelKeeper.GetAllPacketReceipts(ctx), ps)
			q("GetAllPacketReceipts", n, d)
		}
		sq := func(x channeltypes.PacketSequence) []byte { return pm(&x) }
		{
			n, d := digestMsgs(k.ChannelKeeper.GetAllPacketSendSeqs(ctx), sq)
			q("GetAllPacketSendSeqs", n, d)
			n, d = digestMsgs(k.ChannelKeeper.GetAllPacketRecvSeqs(ctx), sq)
			q("GetAllPacketRecvSeqs", n, d)
			n, d = digestMsgs(k.ChannelKeeper.GetAllPacketAckSeqs(ctx), sq)
			q("GetAllPacketAckSeqs", n, d)
		}
		for _, cl := range genClients {
			ps2 := func(x channeltypesv2.PacketState) []byte { return pm(&x) }
			n, d := digestMsgs(k.ChannelKeeperV2.GetAllPacketCommitmentsForClient(ctx, cl.ClientId), ps2)
			q("v2.commitments/"+cl.ClientId, n, d)
			n, d = digestMsgs(k.ChannelKeeperV2.GetAllPacketAcknowledgementsForClient(ctx, cl.ClientId), ps2)
			q("v2.acks/"+cl.ClientId, n, d)
			n, d = digestMsgs(k.ChannelKeeperV2.GetAllPacketReceiptsForClient(ctx, cl.ClientId), ps2)
			q("v2.receipts/"+cl.ClientId, n, d)
		}
		{
			n, d := digestMsgs([]transfertypes.Denom(app.TransferKeeper.GetAllDenoms(ctx)), func(x transfertypes.Denom) []byte { return pm(&x) })
			q("transfer.GetAllDenoms", n, d)
			esc := app.TransferKeeper.GetAllTotalEscrowed(ctx)
			q("transfer.GetAllTotalEscrowed", len(esc), sha([]byte(esc.String())))
		}
		{
			keys := k.PortKeeper.Router.Keys()
			q("port.Router.Keys", len(keys), sha([]byte(strings.Join(keys, ","))))
		}
		{
			// v2 router: which of these ports have a route (direct or prefix) — order-free by construction
			var routed []string
			for _, p := range []string{"transfer", "mockv2A", "mockv2B", "mock", "icahost", "gmp", "gmpport", "nothing"} {
				if k.ChannelKeeperV2.Router.HasRoute(p) {
					routed = append(routed, p)
				}
			}
			q("api.Router.HasRoute", len(routed), sha([]byte(strings.Join(routed, ","))))
		}
		// gRPC queries (paginated; order = store order)
		if res, err := channelkeeper.NewQueryServer(k.ChannelKeeper).Channels(ctx, &channeltypes.QueryChannelsRequest{}); err == nil {
			q("grpc.Channels", len(res.Channels), sha(pm(res)))
		} else {
			q("grpc.Channels", -1, err.Error())
		}
		if res, err := clientkeeper.NewQueryServer(k.ClientKeeper).ClientStates(ctx, &clienttypes.QueryClientStatesRequest{}); err == nil {
			q("grpc.ClientStates", len(res.ClientStates), sha(pm(res)))
		} else {
			q("grpc.ClientStates", -1, err.Error())
		}
		if res, err := app.TransferKeeper.Denoms(ctx, &transfertypes.QueryDenomsRequest{}); err == nil {
			q("grpc.transfer.Denoms", len(res.Denoms), sha(pm(res)))
		} else {
			q("grpc.transfer.Denoms", -1, err.Error())
		}
		// raw dumps of the IBC-related stores
		for _, name := range []string{ibcexported.StoreKey, transfertypes.StoreKey, pfmtypes.StoreKey, "ratelimit"} {
			key := app.GetKey(name)
			if key == nil {
				continue
			}
			n, d := dumpStore(ctx, key)
			c.line(lib.M{"t": "store", "chain": ch.ChainID, "store": name, "n": n, "sha256": d})
		}
	}
}

func dumpStore(ctx sdk.Context, key storetypes.StoreKey) (int, string) {
	it := ctx.KVStore(key).Iterator(nil, nil)
	defer it.Close()
	h := sha256.New()
	n := 0
	for ; it.Valid(); it.Next() {
		fmt.Fprintf(h, "%d:%d:", len(it.Key()), len(it.Value()))
		h.Write(it.Key())
		h.Write(it.Value())
		n++
	}
	return n, hex.EncodeToString(h.Sum(nil))
}

func (c *child) run(seed uint64, nops int) {
	c.r = lib.NewRng(seed)
	crand.Reader = &detReader{r: lib.NewRng(seed ^ 0xC45C45C45)}
	c.coord = ibctesting.NewCoordinator(&testing.T{}, 3)
	for i := 1; i <= 3; i++ {
		c.chains = append(c.chains, c.coord.GetChain(ibctesting.GetChainID(i)))
	}
	c.last = make([]int64, len(c.chains))
	c.blocks()
	a, b, cc := c.chains[0], c.chains[1], c.chains[2]

	step := func(name string, f func()) {
		res := "ok"
		func() {
			defer func() {
				if e := recover(); e != nil {
					res = fmt.Sprint("panic: ", e)
				}
			}()
			f()
		}()
		c.line(lib.M{"t": "op", "i": 0, "op": name, "res": res})
		c.blocks()
	}
	step("setup transfer A-B (unordered)", func() { c.pathAB = ibctesting.NewTransferPath(a, b); c.pathAB.Setup() })
	step("setup transfer B-C (unordered)", func() { c.pathBC = ibctesting.NewTransferPath(b, cc); c.pathBC.Setup() })
	step("setup mock A-B (ordered, same connection)", func() {
		p := ibctesting.NewPath(a, b)
		p.EndpointA.ClientID, p.EndpointB.ClientID = c.pathAB.EndpointA.ClientID, c.pathAB.EndpointB.ClientID
		p.EndpointA.ConnectionID, p.EndpointB.ConnectionID = c.pathAB.EndpointA.ConnectionID, c.pathAB.EndpointB.ConnectionID
		p.EndpointA.ChannelConfig.PortID, p.EndpointB.ChannelConfig.PortID = ibctesting.MockPort, ibctesting.MockPort
		p.SetChannelOrdered()
		p.CreateChannels()
		c.pathMock = p
	})
	step("setup v2 A-B", func() { c.pathV2 = ibctesting.NewPath(a, b); c.pathV2.SetupV2() })

	for i := 1; i <= nops; i++ {
		name, res := c.op(i)
		c.line(lib.M{"t": "op", "i": i, "op": name, "res": res})
		c.blocks()
	}
	// epilogue: three forwards whose second hop stays in flight, so that B's PFM genesis (a Go map)
	// always holds several entries when it is exported / imported below
	for j := 0; j < 3; j++ {
		name, res := c.pfmForward(0)
		c.line(lib.M{"t": "op", "i": nops + 1 + j, "op": name, "res": res})
		c.blocks()
	}
	c.final()
}

func childMain(args []string) int {
	if len(args) < 2 {
		fmt.Fprintln(os.Stderr, "usage: miscchain -child <seed> <nops>")
		return 2
	}
	seed, err1 := strconv.ParseUint(args[0], 10, 64)
	nops, err2 := strconv.Atoi(args[1])
	if err1 != nil || err2 != nil {
		fmt.Fprintln(os.Stderr, "bad arguments")
		return 2
	}
	c := &child{w: bufio.NewWriterSize(os.Stdout, 1<<20)}
	// ibctesting reports failures through testing.T.FailNow (runtime.Goexit): run on its own goroutine
	done := make(chan string, 1)
	go func() {
		finished := false
		defer func() {
			if e := recover(); e != nil {
				done <- fmt.Sprint("panic: ", e)
			} else if !finished {
				done <- "aborted (testing.T.FailNow inside ibctesting)"
			} else {
				done <- ""
			}
		}()
		c.run(seed, nops)
		finished = true
	}()
	msg := <-done
	c.w.Flush()
	if msg != "" {
		fmt.Fprintln(os.Stderr, "child:", msg)
		return 3
	}
	return 0
}

var _ = sort.Strings
