// C44 genesis engine, part 4: export -> JSON -> validate -> import into the fresh chain, store diff,
// re-export, and the continuation of the history on A and on the imported A' with identical proofs
// from B. Everything here drives the REAL Export/InitGenesis functions and msg servers.
//
// Scope: B cannot verify A' (A' is another chain id / validator set; after a real restart B's client
// of A would be kept alive by the unchanged validator set, which is outside IBC genesis), so only
// what is handled ON A / A' with proofs FROM B is continued: receive what B sent, acknowledge and time
// out what A sent, write pending asynchronous acks, send new packets.
package miscchain

import (
	"bytes"
	"fmt"
	"os"
	"sort"
	"strings"
	"time"

	abci "github.com/cometbft/cometbft/abci/types"

	sdk "github.com/cosmos/cosmos-sdk/types"

	ratelimittypes "github.com/cosmos/ibc-go/v11/modules/apps/rate-limiting/types"
	transfertypes "github.com/cosmos/ibc-go/v11/modules/apps/transfer/types"
	clienttypes "github.com/cosmos/ibc-go/v11/modules/core/02-client/types"
	clientv2types "github.com/cosmos/ibc-go/v11/modules/core/02-client/v2/types"
	channeltypes "github.com/cosmos/ibc-go/v11/modules/core/04-channel/types"
	channeltypesv2 "github.com/cosmos/ibc-go/v11/modules/core/04-channel/v2/types"
	host "github.com/cosmos/ibc-go/v11/modules/core/24-host"
	hostv2 "github.com/cosmos/ibc-go/v11/modules/core/24-host/v2"
	ibcexported "github.com/cosmos/ibc-go/v11/modules/core/exported"
	ibctesting "github.com/cosmos/ibc-go/v11/testing"
	ibcmock "github.com/cosmos/ibc-go/v11/testing/mock"
	mockv2 "github.com/cosmos/ibc-go/v11/testing/mock/v2"

	"verif/harness/lib"
	"verif/harness/misc/reg"
)

func gKeyCommitV2(p channeltypesv2.Packet) []byte {
	return hostv2.PacketCommitmentKey(p.SourceClient, p.Sequence)
}
func gKeyAckV2(p channeltypesv2.Packet) []byte {
	return hostv2.PacketAcknowledgementKey(p.DestinationClient, p.Sequence)
}
func gKeyReceiptV2(p channeltypesv2.Packet) []byte {
	return hostv2.PacketReceiptKey(p.DestinationClient, p.Sequence)
}

var gDebug = os.Getenv("VERIF_GENESIS_DEBUG") != ""

func gLog(f string, a ...any) {
	if gDebug {
		fmt.Fprintf(os.Stderr, f+"\n", a...)
	}
}

// gResult is everything one history produced.
type gResult struct {
	in   lib.M
	out  lib.M
	viol []reg.Violation
}

type gDiff struct {
	store, key string
	kind       string // missing | changed | extra
	a, c       string
}

// gDiffStores compares the exporting chain's stores with the importing chain's stores.
func gDiffStores(a, c gStoreDump) []gDiff {
	var out []gDiff
	for _, st := range gStores {
		for _, k := range gSortedKeys(a[st]) {
			cv, ok := c[st][k]
			switch {
			case !ok:
				out = append(out, gDiff{st, k, "missing", gVal(a[st][k]), ""})
			case !bytes.Equal(cv, a[st][k]):
				out = append(out, gDiff{st, k, "changed", gVal(a[st][k]), gVal(cv)})
			}
		}
		for _, k := range gSortedKeys(c[st]) {
			if _, ok := a[st][k]; !ok {
				out = append(out, gDiff{st, k, "extra", "", gVal(c[st][k])})
			}
		}
	}
	return out
}

// gRoundTrip exports A, imports into C and checks store equality, import panics, genesis validation
// and re-export equality. It returns the case (typed state before / after) and the violations.
func (h *gHist) gRoundTrip(name string) *gResult {
	A, C := h.w.A, h.w.C
	res := &gResult{}
	report := func(key, what string, observed any) {
		res.viol = append(res.viol, reg.Violation{Property: "C44", Key: key, What: what,
			Input: lib.M{"history": name, "ops": h.ops}, Observed: observed})
	}

	dumpA := gDump(A)
	fresh := gDump(C)
	// Equivalent starting points: the fresh chain's default IBC state must already be contained in A's
	// state key-wise (InitGenesis then overwrites every default entry that the export covers), so that
	// "A's store = A''s store" is the exact statement and no key has to be whitelisted.
	for _, st := range gStores {
		for _, k := range gSortedKeys(fresh[st]) {
			if _, ok := dumpA[st][k]; !ok {
				panic("harness: fresh chain holds key absent from A: " + st + " " + gKeyStr(k))
			}
		}
	}

	gen := gExport(A)
	js := gen.gJSON(A)
	gen2 := gDecode(C, js)
	valErrs := gen2.gValidate()
	panics := gImport(C, gen2)
	dumpC := gDump(C)
	h.copyEscrow()
	h.w.coord.CommitBlock(C)

	typedA := gTyped(dumpA[ibcexported.StoreKey])
	typedC := gTyped(dumpC[ibcexported.StoreKey])
	env := lib.M{"localhostConn": gVal(fresh[ibcexported.StoreKey][string(host.ConnectionKey(ibcexported.LocalhostConnectionID))]),
		"cpId": gCounterpartyIDs(A, dumpA[ibcexported.StoreKey])}

	// re-export from the imported chain
	reEqual := true // of the ibc core genesis (the model's scope); every module's difference is a violation
	if len(panics) == 0 {
		js2 := gExport(C).gJSON(C)
		for mod, b := range js {
			if !bytes.Equal(b, js2[mod]) {
				if mod == "ibc" {
					reEqual = false
				}
				report("reexport-differs/"+mod, "re-export of module "+mod+" from the imported chain differs from the first export",
					lib.M{"first": gClip(string(b)), "second": gClip(string(js2[mod]))})
			}
		}
	}

	const selfCP = "counterparty client id and client id cannot be the same"
	for mod, e := range valErrs {
		if mod == "ibc" && strings.Contains(e, selfCP) {
			report("export-invalid/clientv2-self-counterparty", "the exported ibc genesis fails its own ValidateGenesis: "+e, lib.M{"error": e})
			continue
		}
		report("export-invalid/"+mod+"/"+gSlug(e), "the exported genesis of "+mod+" fails its own ValidateGenesis: "+e, lib.M{"error": e})
	}
	for mod, e := range panics {
		if mod == "ibc" && strings.Contains(e, selfCP) {
			report("import-panics/clientv2-self-counterparty", "ibc.InitGenesis panics on the chain's own exported genesis: "+e, lib.M{"panic": e})
			continue
		}
		report("import-panics/"+mod+"/"+gSlug(e), "InitGenesis of "+mod+" panics on the exported genesis: "+e, lib.M{"panic": e})
	}

	// store diff: every difference is a violation unless an InitGenesis panic already explains it
	diffs := gDiffStores(dumpA, dumpC)
	lost := []lib.M{}
	for _, d := range diffs {
		cls := gLossClass(d.store, d.key, dumpA[d.store][d.key], h.aliasIDs)
		if d.kind == "extra" {
			cls = gLossClass(d.store, d.key, dumpC[d.store][d.key], h.aliasIDs)
		}
		lost = append(lost, lib.M{"store": d.store, "key": gKeyStr(d.key), "kind": d.kind, "class": cls})
		if len(panics) > 0 {
			continue
		}
		key := cls
		if !strings.HasPrefix(cls, "alias-state-lost/") {
			key = "state-" + d.kind + "/" + cls
		}
		report(key, fmt.Sprintf("store %s key %s %s after export/import (class %s)", d.store, gKeyStr(d.key), d.kind, cls),
			lib.M{"store": d.store, "key": gKeyStr(d.key), "kind": d.kind, "before": d.a, "after": d.c})
	}
	for _, st := range gStores {
		gLog("   store %-24s keys on A: %d (fresh chain: %d)", st, len(dumpA[st]), len(fresh[st]))
	}
	gLog("[%s] ops=%d keysA=%d diffs=%d panics=%v valErrs=%v reEqual=%v", name, len(h.ops), len(dumpA["ibc"]), len(diffs), panics, valErrs, reEqual)
	for _, l := range lost {
		gLog("   diff %v", l)
	}

	r := "lossless"
	for _, d := range diffs {
		if d.store == ibcexported.StoreKey {
			r = "lossy" // the model covers the ibc store; the application stores are diffed by the monitor only
		}
	}
	res.in = lib.M{"f": "genesis.roundtrip", "env": env, "state": typedA}
	res.out = lib.M{"r": r, "state": typedC, "reexport_equal": reEqual}
	if len(panics) > 0 {
		// the import aborted: the imported state is not importG(exportG s); the case carries the panic
		// so that the model (which predicts a completed import) disagrees visibly.
		res.out = lib.M{"panic": gPanicClass(panics)}
	}
	return res
}

// gPanicClass maps the InitGenesis panics to a stable class (never message text in the correspondence).
func gPanicClass(panics map[string]string) string {
	if len(panics) == 1 && strings.Contains(panics["ibc"], "counterparty client id and client id cannot be the same") {
		return "clientv2-self-counterparty"
	}
	return "other:" + gSlug(strings.Join(gSortedVals(panics), ";"))
}

// gCounterpartyIDs decodes every stored v2 counterparty (clients/<id>/counterparty) and lists the
// counterparty's client id per stored value: the one field of the value that genesis validation reads.
func gCounterpartyIDs(ch *ibctesting.TestChain, ibcStore map[string][]byte) []lib.M {
	out := []lib.M{}
	seen := map[string]bool{}
	for _, k := range gSortedKeys(ibcStore) {
		if !strings.HasPrefix(k, "clients/") || !strings.HasSuffix(k, "/"+clientv2types.KeyCounterparty) {
			continue
		}
		var cp clientv2types.CounterpartyInfo
		if err := ch.App.AppCodec().Unmarshal(ibcStore[k], &cp); err != nil {
			panic(err)
		}
		v := gVal(ibcStore[k])
		if !seen[v+"|"+cp.ClientId] {
			seen[v+"|"+cp.ClientId] = true
			out = append(out, lib.M{"v": v, "cp": cp.ClientId})
		}
	}
	sort.Slice(out, func(i, j int) bool {
		if out[i]["v"].(string) != out[j]["v"].(string) {
			return out[i]["v"].(string) < out[j]["v"].(string)
		}
		return out[i]["cp"].(string) < out[j]["cp"].(string)
	})
	return out
}

// copyEscrow re-creates on the importing chain the bank balances of A's ICS-20 escrow accounts.
// Balances are x/bank genesis, not IBC genesis: a chain restarted from a complete export has them,
// while this harness imports the IBC modules only. Nothing but the escrow accounts is touched, and
// the bank store is not among the compared stores.
func (h *gHist) copyEscrow() {
	A, C := h.w.A, h.w.C
	for _, c := range h.chans {
		if c.kind != "transfer" {
			continue
		}
		addr := transfertypes.GetEscrowAddress(c.epA.ChannelConfig.PortID, c.epA.ChannelID)
		coins := gApp(A).BankKeeper.GetAllBalances(A.GetContext(), addr)
		if coins.IsZero() {
			continue
		}
		must(gApp(C).BankKeeper.MintCoins(C.GetContext(), transfertypes.ModuleName, coins))
		must(gApp(C).BankKeeper.SendCoinsFromModuleToAccount(C.GetContext(), transfertypes.ModuleName, addr, coins))
	}
}

func gSortedVals(m map[string]string) []string {
	var ks []string
	for k, v := range m {
		ks = append(ks, k+": "+v)
	}
	sort.Strings(ks)
	return ks
}

func gClip(s string) string {
	if len(s) > 600 {
		return s[:600] + "..."
	}
	return s
}

// gSlug makes a short stable identifier from an error text (lower-case words, no identifiers/numbers).
func gSlug(s string) string {
	var out []byte
	words := 0
	for i := 0; i < len(s) && words < 8; i++ {
		c := s[i]
		switch {
		case c >= 'A' && c <= 'Z':
			out = append(out, c+32)
		case c >= 'a' && c <= 'z':
			out = append(out, c)
		default:
			if len(out) > 0 && out[len(out)-1] != '-' {
				out = append(out, '-')
				words++
			}
		}
	}
	return strings.Trim(string(out), "-")
}

// ---- continuation ----------------------------------------------------------------------------------

// gOutcome is the observable result of one continued step on one chain: the transaction result class
// and the writes to the module stores outside the light-client stores (client stores legitimately
// differ after an update: processed height/time are those of the executing chain).
type gOutcome struct {
	class string
	delta map[string]string
}

func gSnapshot(ch *ibctesting.TestChain) map[string]string {
	out := map[string]string{}
	for st, m := range gDump(ch) {
		for k, v := range m {
			if st == ibcexported.StoreKey && strings.HasPrefix(k, "clients/") {
				continue
			}
			if st == ratelimittypes.StoreKey && k == string(ratelimittypes.HourEpochKey) {
				// advanced by rate-limiting's BeginBlocker in the first block after an hour boundary and
				// stamped with the executing chain's own block height: not a write of the continued step.
				// (The export/import store diff above still compares this key exactly.)
				continue
			}
			out[st+"|"+gKeyStr(k)] = gVal(v)
		}
	}
	return out
}

func gDelta(before, after map[string]string) map[string]string {
	d := map[string]string{}
	for k, v := range after {
		if before[k] != v {
			d[k] = v
		}
	}
	for k := range before {
		if _, ok := after[k]; !ok {
			d[k] = "<deleted>"
		}
	}
	return d
}

// gClassed is an error that already carries its result class (keeper calls made as an application).
type gClassed string

func (g gClassed) Error() string { return string(g) }

func gTxClass(res *abci.ExecTxResult, err error) string {
	if err == nil {
		return "ok"
	}
	if c, ok := err.(gClassed); ok {
		return string(c)
	}
	if res != nil {
		return fmt.Sprintf("err:%s/%d", res.Codespace, res.Code)
	}
	return "err:" + gSlug(err.Error())
}

// gStep runs f on chain ch and observes its outcome.
func gStep(ch *ibctesting.TestChain, f func() (*abci.ExecTxResult, error)) (o gOutcome) {
	before := gSnapshot(ch)
	defer func() {
		if e := recover(); e != nil {
			o = gOutcome{class: "panic:" + gSlug(fmt.Sprint(e)), delta: gDelta(before, gSnapshot(ch))}
		}
	}()
	res, err := f()
	return gOutcome{class: gTxClass(res, err), delta: gDelta(before, gSnapshot(ch))}
}

func gSameOutcome(a, c gOutcome) bool {
	if a.class != c.class || len(a.delta) != len(c.delta) {
		return false
	}
	for k, v := range a.delta {
		if c.delta[k] != v {
			return false
		}
	}
	return true
}

// syncClient updates the light client clientID (tracking B) on chain X to B's latest committed header.
func (h *gHist) syncClient(X *ibctesting.TestChain, clientID string) error {
	B := h.w.B
	trusted, ok := X.GetClientLatestHeight(clientID).(clienttypes.Height)
	if !ok {
		return fmt.Errorf("no height")
	}
	if trusted.EQ(B.LatestCommittedHeader.GetHeight()) {
		return nil
	}
	header, err := B.IBCClientHeader(B.LatestCommittedHeader, trusted)
	if err != nil {
		return err
	}
	msg, err := clienttypes.NewMsgUpdateClient(clientID, header, X.SenderAccount.GetAddress().String())
	if err != nil {
		return err
	}
	_, err = X.SendMsgs(msg)
	return err
}

// gAction is one continued step: build runs it on chain X (A or the imported A').
type gAction struct {
	proto, kind string
	pkt         *gPkt
	desc        lib.M
	run         func(X *ibctesting.TestChain) (*abci.ExecTxResult, error)
}

// gContinue continues the history on A and on A' (= chain C after the import) and reports every
// step whose outcome differs.
func (h *gHist) gContinue(name string, res *gResult) {
	w := h.w
	A, B, C := w.A, w.B, w.C
	report := func(a gAction, oa, oc gOutcome) {
		key := "behaviour/" + a.proto + "/" + a.kind
		if a.proto == "v2-alias" {
			key = "alias-behaviour/" + a.kind
		}
		res.viol = append(res.viol, reg.Violation{Property: "C44", Key: key,
			What:     fmt.Sprintf("continued step %s (%s) gives %s on the original chain but %s on the chain imported from its exported genesis", a.kind, a.proto, oa.class, oc.class),
			Input:    lib.M{"history": name, "ops": h.ops, "step": a.desc},
			Observed: lib.M{"original": lib.M{"class": oa.class, "writes": oa.delta}, "imported": lib.M{"class": oc.class, "writes": oc.delta}}})
	}
	clientUpdateFailed := map[string]bool{}
	syncAll := func() {
		w.coord.CommitBlock(B)
		for _, p := range h.pairs {
			id := p.epA.ClientID
			errA := h.syncClient(A, id)
			errC := h.syncClient(C, id)
			if (errA == nil) != (errC == nil) && !clientUpdateFailed[id] {
				clientUpdateFailed[id] = true
				res.viol = append(res.viol, reg.Violation{Property: "C44", Key: "behaviour/client/update",
					What:  fmt.Sprintf("MsgUpdateClient(%s) with the same header: original %v, imported %v", id, errA, errC),
					Input: lib.M{"history": name, "ops": h.ops}, Observed: lib.M{"original": fmt.Sprint(errA), "imported": fmt.Sprint(errC)}})
			}
		}
	}
	runAll := func(acts []gAction) {
		for _, a := range acts {
			oa := gStep(A, func() (*abci.ExecTxResult, error) { return a.run(A) })
			oc := gStep(C, func() (*abci.ExecTxResult, error) { return a.run(C) })
			gLog("   step %-9s %-8s %v: A=%s C=%s same=%v", a.kind, a.proto, a.desc, oa.class, oc.class, gSameOutcome(oa, oc))
			if !gSameOutcome(oa, oc) {
				report(a, oa, oc)
			}
		}
	}
	signer := func(X *ibctesting.TestChain) string { return X.SenderAccount.GetAddress().String() }

	// phase 0: B receives some of the packets A sent before the export (B-side step, B is unchanged)
	for i, p := range h.pkts {
		if p.fromA && p.stage == gSent && !p.short && i%2 == 0 {
			h.opRecv(p)
		}
	}

	// phase 1: receive / re-receive / acknowledge / async acks / new sends
	syncAll()
	var acts []gAction
	for _, p := range h.pkts {
		p := p
		switch {
		case !p.fromA && (p.stage == gSent || p.stage == gReceived):
			kind := "recv"
			if p.stage == gReceived {
				kind = "rerecv" // replay of an already received packet: must be a no-op on both
			}
			acts = append(acts, gAction{proto: p.proto, kind: kind, pkt: p, desc: h.describe(p), run: func(X *ibctesting.TestChain) (*abci.ExecTxResult, error) {
				if p.proto == "v1" {
					proof, ph := B.QueryProof(host.PacketCommitmentKey(p.v1.SourcePort, p.v1.SourceChannel, p.v1.Sequence))
					return X.SendMsgs(channeltypes.NewMsgRecvPacket(p.v1, proof, ph, signer(X)))
				}
				proof, ph := B.QueryProof(gKeyCommitV2(p.v2))
				return X.SendMsgs(channeltypesv2.NewMsgRecvPacket(p.v2, proof, ph, signer(X)))
			}})
		case p.fromA && p.stage == gReceived && p.hasAck:
			acts = append(acts, gAction{proto: p.proto, kind: "ack", pkt: p, desc: h.describe(p), run: func(X *ibctesting.TestChain) (*abci.ExecTxResult, error) {
				if p.proto == "v1" {
					proof, ph := B.QueryProof(host.PacketAcknowledgementKey(p.v1.DestinationPort, p.v1.DestinationChannel, p.v1.Sequence))
					return X.SendMsgs(channeltypes.NewMsgAcknowledgement(p.v1, p.ackV1, proof, ph, signer(X)))
				}
				proof, ph := B.QueryProof(gKeyAckV2(p.v2))
				return X.SendMsgs(channeltypesv2.NewMsgAcknowledgement(p.v2, p.ackV2, proof, ph, signer(X)))
			}})
		}
	}
	// pending asynchronous acknowledgements on A: the application writes them now
	for _, p := range h.pkts {
		p := p
		if p.fromA || p.stage != gReceived || !p.async {
			continue
		}
		acts = append(acts, gAction{proto: p.proto, kind: "async-ack", pkt: p, desc: h.describe(p), run: func(X *ibctesting.TestChain) (*abci.ExecTxResult, error) {
			var err error
			if p.proto == "v1" {
				err = X.App.GetIBCKeeper().ChannelKeeper.WriteAcknowledgement(X.GetContext(), p.v1, ibcmock.MockAcknowledgement)
			} else {
				ack := channeltypesv2.NewAcknowledgement(mockv2.MockRecvPacketResult.Acknowledgement)
				err = X.App.GetIBCKeeper().ChannelKeeperV2.WriteAcknowledgement(X.GetContext(), p.v2.DestinationClient, p.v2.Sequence, ack)
			}
			w.coord.CommitBlock(X)
			if err != nil {
				return nil, gClassed(gErrClass(err))
			}
			return nil, nil
		}})
	}
	// new sends on every open channel / v2 client / alias: the allocated sequence and commitment must agree
	for ci, c := range h.chans {
		c := c
		if !c.open {
			continue
		}
		if c.kind != "transfer" {
			acts = append(acts, gAction{proto: "v1", kind: "send", desc: lib.M{"chan": c.epA.ChannelID}, run: func(X *ibctesting.TestChain) (*abci.ExecTxResult, error) {
				ts := uint64(time.Date(2020, 1, 4, 0, 0, 0, 0, time.UTC).UnixNano())
				_, err := X.App.GetIBCKeeper().ChannelKeeper.SendPacket(X.GetContext(), c.epA.ChannelConfig.PortID, c.epA.ChannelID, clienttypes.ZeroHeight(), ts, ibcmock.MockPacketData)
				w.coord.CommitBlock(X)
				if err != nil {
					return nil, gClassed(gErrClass(err))
				}
				return nil, nil
			}})
		}
		if !c.ordered {
			_ = ci
			acts = append(acts, gAction{proto: "v2-alias", kind: "send", desc: lib.M{"src": c.epA.ChannelID}, run: func(X *ibctesting.TestChain) (*abci.ExecTxResult, error) {
				ts := uint64(time.Date(2020, 1, 2, 20, 0, 0, 0, time.UTC).Unix())
				return X.SendMsgs(channeltypesv2.NewMsgSendPacket(c.epA.ChannelID, ts, signer(X), mockv2.NewMockPayload(mockv2.ModuleNameA, mockv2.ModuleNameB)))
			}})
		}
	}
	for _, p := range h.pairs {
		p := p
		if !p.v2 {
			continue
		}
		acts = append(acts, gAction{proto: "v2", kind: "send", desc: lib.M{"src": p.epA.ClientID}, run: func(X *ibctesting.TestChain) (*abci.ExecTxResult, error) {
			ts := uint64(time.Date(2020, 1, 2, 20, 0, 0, 0, time.UTC).Unix())
			return X.SendMsgs(channeltypesv2.NewMsgSendPacket(p.epA.ClientID, ts, signer(X), mockv2.NewMockPayload(mockv2.ModuleNameA, mockv2.ModuleNameB)))
		}})
	}
	runAll(acts)

	// phase 2: let the short timeouts elapse on B, then time out on A / A' what B never received
	w.coord.IncrementTimeBy(3 * time.Hour)
	syncAll()
	acts = nil
	for _, p := range h.pkts {
		p := p
		if !(p.fromA && p.stage == gSent && p.short) {
			continue
		}
		acts = append(acts, gAction{proto: p.proto, kind: "timeout", pkt: p, desc: h.describe(p), run: func(X *ibctesting.TestChain) (*abci.ExecTxResult, error) {
			if p.proto == "v1" {
				c := h.chans[p.ch]
				key := host.PacketReceiptKey(p.v1.DestinationPort, p.v1.DestinationChannel, p.v1.Sequence)
				if c.ordered {
					key = host.NextSequenceRecvKey(p.v1.DestinationPort, p.v1.DestinationChannel)
				}
				proof, ph := B.QueryProof(key)
				next, _ := B.App.GetIBCKeeper().ChannelKeeper.GetNextSequenceRecv(B.GetContext(), p.v1.DestinationPort, p.v1.DestinationChannel)
				return X.SendMsgs(channeltypes.NewMsgTimeout(p.v1, next, proof, ph, signer(X)))
			}
			proof, ph := B.QueryProof(gKeyReceiptV2(p.v2))
			return X.SendMsgs(channeltypesv2.NewMsgTimeout(p.v2, proof, ph, signer(X)))
		}})
	}
	runAll(acts)
}

var _ = sdk.AccAddress{}
