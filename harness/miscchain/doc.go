// Package miscchain: ibctesting-based engines of the misc cluster (genesis round trip, determinism).
package miscchain

// ChildMain is the entry point of the re-executed child process of the determinism engine
// (replaced by determinism.go once that engine lands).
var ChildMain = func(args []string) int { return 2 }
