// Package lib: shared plumbing for the correspondence harness.
// One splitmix64 stream per run (seeded by VERIF_SEED) drives every random choice so that a
// disagreement replays exactly; every call into ibc-go is wrapped in recover() and a panic is an
// output like any other.
package lib

import (
	"bufio"
	"encoding/hex"
	"encoding/json"
	"fmt"
	"os"
	"sort"
	"strconv"
)

type Rng struct{ s uint64 }

func NewRng(seed uint64) *Rng { return &Rng{s: seed*0x9E3779B97F4A7C15 + 0x1234567} }

func (r *Rng) U64() uint64 {
	r.s += 0x9E3779B97F4A7C15
	z := r.s
	z = (z ^ (z >> 30)) * 0xBF58476D1CE4E5B9
	z = (z ^ (z >> 27)) * 0x94D049BB133111EB
	return z ^ (z >> 31)
}

// Intn returns a value in [0,n).
func (r *Rng) Intn(n int) int {
	if n <= 0 {
		return 0
	}
	return int(r.U64() % uint64(n))
}
func (r *Rng) Bool() bool          { return r.U64()&1 == 1 }
func (r *Rng) Chance(p float64) bool { return float64(r.U64()>>11)/float64(1<<53) < p }
func (r *Rng) Fork() *Rng          { return &Rng{s: r.U64()} }

// Boundary64 are the 64-bit boundary values every numeric generator mixes in.
var Boundary64 = []uint64{0, 1, 2, 9, 10, 11, 99, 100, 255, 256, 1<<31 - 1, 1 << 31, 1<<32 - 1, 1 << 32,
	1<<53 - 1, 1 << 53, 1<<53 + 1, 10000000000000000 - 1, 10000000000000000, 10000000000000000 + 1,
	1<<63 - 1, 1 << 63, 1<<63 + 1, 1<<64 - 2, 1<<64 - 1, 9999999999999999999, 10000000000000000000}

// Num64 draws a uint64 biased towards boundaries and small values.
func (r *Rng) Num64() uint64 {
	switch r.Intn(10) {
	case 0, 1, 2:
		return Boundary64[r.Intn(len(Boundary64))]
	case 3, 4, 5:
		return uint64(r.Intn(20))
	case 6:
		return Boundary64[r.Intn(len(Boundary64))] + uint64(r.Intn(3)) - 1
	case 7:
		return uint64(r.Intn(1 << 20))
	default:
		return r.U64() >> uint(r.Intn(64))
	}
}

func Pick[T any](r *Rng, xs []T) T { return xs[r.Intn(len(xs))] }

// Str builds a string of length n over alphabet.
func (r *Rng) Str(alphabet string, n int) string {
	b := make([]byte, n)
	for i := range b {
		b[i] = alphabet[r.Intn(len(alphabet))]
	}
	return string(b)
}

func (r *Rng) Bytes(n int) []byte {
	b := make([]byte, n)
	for i := range b {
		b[i] = byte(r.U64())
	}
	return b
}

func U(n uint64) string   { return strconv.FormatUint(n, 10) }
func I(n int64) string    { return strconv.FormatInt(n, 10) }
func Hex(b []byte) string { return hex.EncodeToString(b) }

type M = map[string]any

// Case is one correspondence case: the request sent to the model and the implementation's answer.
type Case struct {
	In  M `json:"in"`
	Out any `json:"out"`
}

// Violation is a property-level failure found by a monitor on the implementation.
type Violation struct {
	Property string `json:"property"`
	Key      string `json:"key,omitempty"` // stable failure-class key, matched against known_findings.json
	What     string `json:"what"`
	Input    any    `json:"input"`
	Observed any    `json:"observed"`
}

// Safe runs f and converts a panic into {"panic": msg}.
func Safe(f func() any) (out any) {
	defer func() {
		if e := recover(); e != nil {
			out = M{"panic": fmt.Sprint(e)}
		}
	}()
	return f()
}

func Ok(v any) M         { return M{"ok": v} }
func Err(cls string) M   { return M{"err": cls} }

// Sink writes cases / violations as JSON lines.
type Sink struct {
	w *bufio.Writer
	f *os.File
	N int
}

func NewSink(path string) (*Sink, error) {
	f, err := os.Create(path)
	if err != nil {
		return nil, err
	}
	return &Sink{w: bufio.NewWriterSize(f, 1<<20), f: f}, nil
}

func (s *Sink) Put(v any) {
	b, err := json.Marshal(v)
	if err != nil {
		panic(err)
	}
	s.w.Write(b)
	s.w.WriteByte('\n')
	s.N++
}

func (s *Sink) Close() { s.w.Flush(); s.f.Close() }

func SortedKeys[V any](m map[string]V) []string {
	ks := make([]string, 0, len(m))
	for k := range m {
		ks = append(ks, k)
	}
	sort.Strings(ks)
	return ks
}

// EnvSeed reads VERIF_SEED (default 1).
func EnvSeed() uint64 {
	if s := os.Getenv("VERIF_SEED"); s != "" {
		if n, err := strconv.ParseUint(s, 10, 64); err == nil {
			return n
		}
	}
	return 1
}
