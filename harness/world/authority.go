package world

import (
	"errors"
	"testing"

	sdkmath "cosmossdk.io/math"

	sdk "github.com/cosmos/cosmos-sdk/types"
	sdkerrors "github.com/cosmos/cosmos-sdk/types/errors"
	authtypes "github.com/cosmos/cosmos-sdk/x/auth/types"
	govtypes "github.com/cosmos/cosmos-sdk/x/gov/types"

	ratelimitkeeper "github.com/cosmos/ibc-go/v11/modules/apps/rate-limiting/keeper"
	ratelimittypes "github.com/cosmos/ibc-go/v11/modules/apps/rate-limiting/types"
	ibctesting "github.com/cosmos/ibc-go/v11/testing"

	. "verif/harness/lib"
	"verif/harness/purefn"
)

// authority: rate-limit administration (Add / Update / Remove / Reset) through the real msg server with
// every signer class.  The request carries who signed and who the authority is; the answer says whether
// the authority gate let the message through (any later keeper error counts as "passed the gate").
func authorityScenario(r *Rng, emit func(M), report func(Violation)) {
	t := &testing.T{}
	coord := ibctesting.NewCoordinator(t, 2)
	a, b := coord.GetChain(ibctesting.GetChainID(1)), coord.GetChain(ibctesting.GetChainID(2))
	p := ibctesting.NewTransferPath(a, b)
	p.Setup()
	srv := ratelimitkeeper.NewMsgServerImpl(a.GetSimApp().RateLimitKeeper)
	authority := authtypes.NewModuleAddress(govtypes.ModuleName).String()
	signers := map[string]string{
		"authority": authority,
		"stranger":  a.SenderAccounts[1].SenderAccount.GetAddress().String(),
		"relayer":   a.SenderAccount.GetAddress().String(),
		"module":    authtypes.NewModuleAddress(ratelimittypes.ModuleName).String(),
	}
	kinds := []string{"add", "update", "remove", "reset"}
	denom := sdk.DefaultBondDenom
	for i := 0; i < 24; i++ {
		kind := Pick(r, kinds)
		who := Pick(r, []string{"authority", "stranger", "relayer", "module"})
		signer := signers[who]
		ctx, _ := a.GetContext().CacheContext()
		if r.Chance(0.5) && kind != "add" {
			// make the later keeper step succeed more often: install the limit first (as authority)
			_, _ = srv.AddRateLimit(ctx, &ratelimittypes.MsgAddRateLimit{Signer: authority, Denom: denom, ChannelOrClientId: p.EndpointA.ChannelID,
				MaxPercentSend: sdkmath.NewInt(10), MaxPercentRecv: sdkmath.NewInt(10), DurationHours: 24})
		}
		var err error
		switch kind {
		case "add":
			_, err = srv.AddRateLimit(ctx, &ratelimittypes.MsgAddRateLimit{Signer: signer, Denom: denom, ChannelOrClientId: p.EndpointA.ChannelID,
				MaxPercentSend: sdkmath.NewInt(int64(1 + r.Intn(50))), MaxPercentRecv: sdkmath.NewInt(int64(1 + r.Intn(50))), DurationHours: uint64(1 + r.Intn(48))})
		case "update":
			_, err = srv.UpdateRateLimit(ctx, &ratelimittypes.MsgUpdateRateLimit{Signer: signer, Denom: denom, ChannelOrClientId: p.EndpointA.ChannelID,
				MaxPercentSend: sdkmath.NewInt(int64(1 + r.Intn(50))), MaxPercentRecv: sdkmath.NewInt(int64(1 + r.Intn(50))), DurationHours: uint64(1 + r.Intn(48))})
		case "remove":
			_, err = srv.RemoveRateLimit(ctx, &ratelimittypes.MsgRemoveRateLimit{Signer: signer, Denom: denom, ChannelOrClientId: p.EndpointA.ChannelID})
		case "reset":
			_, err = srv.ResetRateLimit(ctx, &ratelimittypes.MsgResetRateLimit{Signer: signer, Denom: denom, ChannelOrClientId: p.EndpointA.ChannelID})
		}
		gated := err != nil && errors.Is(err, sdkerrors.ErrUnauthorized)
		emit(lib_case(M{"f": "auth.admin", "module": "ratelimit", "kind": kind, "signer": signer, "authority": authority}, M{"passed": !gated}))
		if err == nil && signer != authority && report != nil {
			report(Violation{Property: "C46", What: "rate-limit administration succeeded without the authority's signature", Input: M{"kind": kind, "signer": who}})
		}
	}
}

func init() {
	Groups = append(Groups, purefn.Group{
		Name:  "authority",
		Props: []string{"C46"},
		Gen: func(r *Rng, n int, emit func(M)) {
			for i := 0; i < n; i++ {
				authorityScenario(r, emit, nil)
			}
		},
		Monitor: func(r *Rng, n int, report func(Violation)) {
			for i := 0; i < n; i++ {
				authorityScenario(r, func(M) {}, report)
			}
		},
	})
}
