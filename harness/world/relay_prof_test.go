package world

import (
	"testing"

	. "verif/harness/lib"
)

func TestRelayProf(t *testing.T) {
	s := &sinks{}
	relayHistory(NewRng(5), s)
	t.Log("attempts", s.n)
}
