package world

import (
	"bytes"
	"fmt"
	"os"
	"reflect"
	"strings"
	"time"

	clienttypes "github.com/cosmos/ibc-go/v11/modules/core/02-client/types"
	channeltypes "github.com/cosmos/ibc-go/v11/modules/core/04-channel/types"
	channeltypesv2 "github.com/cosmos/ibc-go/v11/modules/core/04-channel/v2/types"
	host "github.com/cosmos/ibc-go/v11/modules/core/24-host"
	hostv2 "github.com/cosmos/ibc-go/v11/modules/core/24-host/v2"
	ibctesting "github.com/cosmos/ibc-go/v11/testing"
	mockv2 "github.com/cosmos/ibc-go/v11/testing/mock/v2"

	. "verif/harness/lib"
	"verif/harness/purefn"
)

// how much of the mutation space one history covers (1 = every single-field mutant of every packet)
type density struct {
	singles float64 // share of single-field mutants tried for the second and later packets of a path
	doubles int     // random two-field mutants per packet and phase
	states  int     // state variations per packet and phase
	replays int     // mutants re-tried after the packet was handled
}

func densityFor() density {
	if os.Getenv("VERIF_TIER") == "thorough" {
		return density{singles: 1, doubles: 25, states: 12, replays: 8}
	}
	return density{singles: 0.45, doubles: 6, states: 5, replays: 3}
}

// mutants that may legitimately succeed go last, so that the others meet the packet unhandled
func lateMutant(name string) bool {
	return name == "signer-other" || strings.HasSuffix(name, "-rebuilt") || strings.HasPrefix(name, "height-nocons")
}

func shuffled[T any](r *Rng, xs []T) []T {
	out := append([]T{}, xs...)
	for i := len(out) - 1; i > 0; i-- {
		j := r.Intn(i + 1)
		out[i], out[j] = out[j], out[i]
	}
	return out
}

func last(xs []uint64) uint64 { return xs[len(xs)-1] }

func sameV1(a, b v1msg) bool {
	return reflect.DeepEqual(pktV1JSON(a.pkt), pktV1JSON(b.pkt)) && bytes.Equal(a.ack, b.ack) && bytes.Equal(a.proof, b.proof) && a.height == b.height && a.signer == b.signer
}

func sameV2(a, b v2msg) bool {
	if len(a.acks) != len(b.acks) {
		return false
	}
	for i := range a.acks {
		if !bytes.Equal(a.acks[i], b.acks[i]) {
			return false
		}
	}
	return reflect.DeepEqual(pktV2JSON(a.pkt), pktV2JSON(b.pkt)) && bytes.Equal(a.proof, b.proof) && a.height == b.height && a.signer == b.signer
}

// ---------------------------------------------------------------------------------------------
// v1

type sentV1 struct {
	pkt      channeltypes.Packet
	received bool
	acked    bool
}

func (e *renv) sendV1(r *Rng, p *ibctesting.Path, data []byte, near bool) *sentV1 {
	revB := clienttypes.ParseChainID(e.b.ChainID)
	bh := uint64(e.b.ProposedHeader.Height)
	now := uint64(e.coord.CurrentTime.UnixNano())
	var th clienttypes.Height
	var tts uint64
	switch {
	case near && r.Bool():
		th = clienttypes.NewHeight(revB, bh+25+uint64(r.Intn(140)))
	case near:
		tts = now + uint64(20+r.Intn(90))*uint64(time.Second) + uint64(r.Intn(2))
	default:
		switch r.Intn(3) {
		case 0:
			th = clienttypes.NewHeight(revB, bh+100000)
		case 1:
			tts = now + uint64(10*time.Hour)
		default:
			th = clienttypes.NewHeight(revB, bh+100000)
			tts = now + uint64(10*time.Hour)
		}
	}
	seq, err := p.EndpointA.SendPacket(th, tts, data)
	if err != nil {
		panic(fmt.Sprint("harness: send packet: ", err))
	}
	e.noteCons(p.EndpointB)
	return &sentV1{pkt: channeltypes.NewPacket(data, seq, p.EndpointA.ChannelConfig.PortID, p.EndpointA.ChannelID,
		p.EndpointB.ChannelConfig.PortID, p.EndpointB.ChannelID, th, tts)}
}

// phaseV1 runs one packet through one phase (receive on B, or acknowledgement on A): every single-field
// mutant, random two-field mutants, state variations, the valid message, replays
func (e *renv) phaseV1(r *Rng, s *sinks, d density, p, otherPath *ibctesting.Path, k *sentV1, other *sentV1, future *sentV1, isAck bool, full bool) {
	var x *mctxV1
	var ep *ibctesting.Endpoint
	var base v1msg
	attempt := e.attemptRecvV1
	if !isAck {
		ep = p.EndpointB
		cons := e.cons[consKey(ep)]
		revA := clienttypes.ParseChainID(e.a.ChainID)
		key := host.PacketCommitmentKey(k.pkt.SourcePort, k.pkt.SourceChannel, k.pkt.Sequence)
		x = &mctxV1{prover: e.a, baseKey: key, otherSrcCh: otherPath.EndpointA.ChannelID, otherDstCh: otherPath.EndpointB.ChannelID,
			consHs: cons, gapHs: gaps(cons), latest: last(cons), rev: revA}
		base = v1msg{pkt: k.pkt, height: clienttypes.NewHeight(revA, last(cons))}
		x.reproof(&base, key, last(cons), true)
	} else {
		attempt = e.attemptAckV1
		ep = p.EndpointA
		e.update(ep)
		cons := e.cons[consKey(ep)]
		revB := clienttypes.ParseChainID(e.b.ChainID)
		key := host.PacketAcknowledgementKey(k.pkt.DestinationPort, k.pkt.DestinationChannel, k.pkt.Sequence)
		x = &mctxV1{prover: e.b, baseKey: key, otherSrcCh: otherPath.EndpointA.ChannelID, otherDstCh: otherPath.EndpointB.ChannelID,
			consHs: cons, gapHs: gaps(cons), latest: last(cons), rev: revB, isAck: true}
		w := e.wrote[wroteKeyV1(k.pkt.DestinationPort, k.pkt.DestinationChannel, k.pkt.Sequence)]
		if len(w) != 1 {
			return
		}
		base = (v1msg{pkt: k.pkt, ack: w[0], height: clienttypes.NewHeight(revB, last(cons))}).clone()
		x.reproof(&base, key, last(cons), true)
		if other != nil {
			if ow := e.wrote[wroteKeyV1(other.pkt.DestinationPort, other.pkt.DestinationChannel, other.pkt.Sequence)]; len(ow) == 1 {
				x.otherAck = ow[0]
			}
		}
	}
	if other != nil {
		x.otherSeq = other.pkt.Sequence
	}
	done := func(res string) {
		if res == "ok" {
			if isAck {
				k.acked = true
			} else {
				k.received = true
			}
		}
	}
	// a later packet of the same channel, with its own valid proof (ORDERED: out of order)
	if future != nil {
		fm := base.clone()
		fm.pkt = future.pkt
		fkey := host.PacketCommitmentKey(future.pkt.SourcePort, future.pkt.SourceChannel, future.pkt.Sequence)
		if isAck {
			fkey = host.PacketAcknowledgementKey(future.pkt.DestinationPort, future.pkt.DestinationChannel, future.pkt.Sequence)
			if fw := e.wrote[wroteKeyV1(future.pkt.DestinationPort, future.pkt.DestinationChannel, future.pkt.Sequence)]; len(fw) == 1 {
				fm.ack = fw[0]
			}
		}
		x.reproof(&fm, fkey, base.height.RevisionHeight, false)
		if r := attempt(s, fm, "later-packet-first"); r == "ok" {
			if isAck {
				future.acked = true
			} else {
				future.received = true
			}
		}
	}
	singles := e.singleMutsV1(r, x)
	var early, late, strict []mutV1
	for _, mu := range shuffled(r, singles) {
		if m, _ := applyV1(base, mu); lateMutant(mu.name) || sameV1(m, base) {
			late = append(late, mu) // may legitimately succeed (or changes nothing for this packet)
			continue
		}
		strict = append(strict, mu)
		if full || r.Chance(d.singles) {
			early = append(early, mu)
		}
	}
	for _, mu := range early {
		m, label := applyV1(base, mu)
		done(attempt(s, m, label))
	}
	for i := 0; i < d.doubles; i++ {
		m, label := applyV1(base, Pick(r, singles), Pick(r, strict))
		done(attempt(s, m, label))
	}
	seq := k.pkt.Sequence
	svs := shuffled(r, e.statesV1(ep, seq, !isAck))
	if len(svs) > d.states {
		svs = svs[:d.states]
	}
	for _, sv := range svs {
		sv.apply()
		done(attempt(s, base, "state:"+sv.name))
		m, label := applyV1(base, Pick(r, strict))
		done(attempt(s, m, "state:"+sv.name+"+"+label))
		sv.restore()
	}
	if r.Chance(0.3) {
		e.coord.IncrementTimeBy(time.Duration(r.Intn(40)) * time.Second)
	}
	for _, mu := range late {
		if !full && !r.Chance(d.singles+0.2) {
			continue
		}
		if r.Chance(0.5) {
			continue // leave some packets to the plain valid message
		}
		m, label := applyV1(base, mu)
		done(attempt(s, m, label))
	}
	done(attempt(s, base, "valid"))
	done(attempt(s, base, "valid-replay"))
	for i := 0; i < d.replays; i++ {
		m, label := applyV1(base, Pick(r, singles))
		done(attempt(s, m, "replay:"+label))
	}
}

func (e *renv) scenarioV1(r *Rng, s *sinks, d density, p, otherPath *ibctesting.Path, ordered bool) {
	datas := [][]byte{[]byte("data-" + r.Str("abcdefgh", 6)), []byte("fail-" + r.Str("abcdefgh", 4)), r.Bytes(1 + r.Intn(40))}
	if e.rawToggle = !e.rawToggle; e.rawToggle || r.Chance(0.3) {
		// the receiving application answers with a non-standard (raw bytes) acknowledgement
		// (every other scenario at least, starting with the first)
		datas[2*r.Intn(2)] = []byte("raw-" + r.Str("abcdefgh", 5))
	}
	var ks []*sentV1
	for i, data := range datas {
		near := (!ordered && i == 0) || (ordered && i == len(datas)-1)
		ks = append(ks, e.sendV1(r, p, data, near && r.Chance(0.7)))
	}
	// a height of A without a consensus state on B, below the client's latest height
	e.coord.CommitBlock(e.a)
	e.coord.CommitBlock(e.a)
	e.update(p.EndpointB)
	for i, k := range ks {
		other := ks[(i+1)%len(ks)]
		var future *sentV1
		if i+1 < len(ks) && (ordered || r.Chance(0.3)) && !ks[i+1].received {
			future = ks[i+1]
		}
		if !k.received {
			e.phaseV1(r, s, d, p, otherPath, k, other, future, false, i == 0)
		}
	}
	// the same gap for A's client of B
	e.coord.CommitBlock(e.b)
	e.coord.CommitBlock(e.b)
	for i, k := range ks {
		if !k.received || k.acked {
			continue
		}
		other := ks[(i+1)%len(ks)]
		var future *sentV1
		if i+1 < len(ks) && ks[i+1].received && !ks[i+1].acked && (ordered || r.Chance(0.3)) {
			future = ks[i+1]
		}
		e.phaseV1(r, s, d, p, otherPath, k, other, future, true, i == 0)
	}
}

// ---------------------------------------------------------------------------------------------
// v2

type sentV2 struct {
	pkt      channeltypesv2.Packet
	received bool
	acked    bool
}

func (e *renv) sendV2(r *Rng, near bool, payloads ...channeltypesv2.Payload) *sentV2 {
	now := uint64(e.coord.CurrentTime.Unix())
	T := now + 3600 + uint64(r.Intn(3600))
	if near {
		T = now + 20 + uint64(r.Intn(120))
	}
	pkt, err := e.pathV2.EndpointA.MsgSendPacket(T, payloads...)
	if err != nil {
		panic(fmt.Sprint("harness: v2 send packet: ", err))
	}
	e.noteCons(e.pathV2.EndpointB)
	return &sentV2{pkt: pkt}
}

func (e *renv) phaseV2(r *Rng, s *sinks, d density, k *sentV2, other *sentV2, isAck bool, full bool) {
	p := e.pathV2
	var x *mctxV2
	var ep *ibctesting.Endpoint
	var base v2msg
	attempt := e.attemptRecvV2
	if !isAck {
		ep = p.EndpointB
		cons := e.cons[consKey(ep)]
		revA := clienttypes.ParseChainID(e.a.ChainID)
		key := hostv2.PacketCommitmentKey(k.pkt.SourceClient, k.pkt.Sequence)
		x = &mctxV2{prover: e.a, baseKey: key, otherClient: e.path.EndpointB.ClientID, consHs: cons, gapHs: gaps(cons), rev: revA}
		base = v2msg{pkt: k.pkt}
		x.reproof(&base, key, last(cons), true)
	} else {
		attempt = e.attemptAckV2
		ep = p.EndpointA
		e.update(ep)
		cons := e.cons[consKey(ep)]
		revB := clienttypes.ParseChainID(e.b.ChainID)
		key := hostv2.PacketAcknowledgementKey(k.pkt.DestinationClient, k.pkt.Sequence)
		x = &mctxV2{prover: e.b, baseKey: key, otherClient: e.path.EndpointA.ClientID, consHs: cons, gapHs: gaps(cons), rev: revB}
		w := e.wrote[wroteKeyV2(k.pkt.DestinationClient, k.pkt.Sequence)]
		if len(w) == 0 {
			return
		}
		base = (v2msg{pkt: k.pkt, acks: w, isAck: true}).clone() // never share the recorded ground truth
		x.reproof(&base, key, last(cons), true)
		if other != nil {
			x.otherAcks = e.wrote[wroteKeyV2(other.pkt.DestinationClient, other.pkt.Sequence)]
		}
	}
	if other != nil {
		x.otherSeq = other.pkt.Sequence
	}
	done := func(res string) {
		if res == "ok" {
			if isAck {
				k.acked = true
			} else {
				k.received = true
			}
		}
	}
	singles := e.singleMutsV2(r, x, isAck)
	var early, late, strict []mutV2
	for _, mu := range shuffled(r, singles) {
		if m, _ := applyV2(base, mu); lateMutant(mu.name) || sameV2(m, base) {
			late = append(late, mu)
			continue
		}
		strict = append(strict, mu)
		if full || r.Chance(d.singles) {
			early = append(early, mu)
		}
	}
	for _, mu := range early {
		m, label := applyV2(base, mu)
		done(attempt(s, m, label))
	}
	for i := 0; i < d.doubles; i++ {
		m, label := applyV2(base, Pick(r, singles), Pick(r, strict))
		done(attempt(s, m, label))
	}
	svs := shuffled(r, e.statesV2(ep))
	if len(svs) > d.states {
		svs = svs[:d.states]
	}
	for _, sv := range svs {
		sv.apply()
		done(attempt(s, base, "state:"+sv.name))
		m, label := applyV2(base, Pick(r, strict))
		done(attempt(s, m, "state:"+sv.name+"+"+label))
		sv.restore()
	}
	if r.Chance(0.3) {
		e.coord.IncrementTimeBy(time.Duration(r.Intn(60)) * time.Second)
	}
	for _, mu := range late {
		if (!full && !r.Chance(d.singles+0.2)) || r.Chance(0.5) {
			continue
		}
		m, label := applyV2(base, mu)
		done(attempt(s, m, label))
	}
	done(attempt(s, base, "valid"))
	done(attempt(s, base, "valid-replay"))
	for i := 0; i < d.replays+2; i++ {
		m, label := applyV2(base, Pick(r, singles))
		done(attempt(s, m, "replay:"+label))
	}
}

func (e *renv) scenarioV2(r *Rng, s *sinks, d density) {
	pay := func(src, dst string, val []byte) channeltypesv2.Payload {
		pd := mockv2.NewMockPayload(src, dst)
		pd.Value = val
		return pd
	}
	ks := []*sentV2{
		e.sendV2(r, r.Chance(0.5), pay(mockv2.ModuleNameA, mockv2.ModuleNameB, []byte("one-"+r.Str("abcdef", 5))), pay(mockv2.ModuleNameB, mockv2.ModuleNameA, []byte("two-"+r.Str("abcdef", 3)))),
		e.sendV2(r, false, pay(mockv2.ModuleNameA, mockv2.ModuleNameB, r.Bytes(1+r.Intn(30)))),
		e.sendV2(r, false, pay(mockv2.ModuleNameB, mockv2.ModuleNameB, []byte("ok-"+r.Str("xyz", 4))), pay(mockv2.ModuleNameA, mockv2.ModuleNameA, []byte("fail-"+r.Str("xyz", 4)))),
	}
	e.coord.CommitBlock(e.a)
	e.coord.CommitBlock(e.a)
	e.update(e.pathV2.EndpointB)
	for i, k := range ks {
		if !k.received {
			e.phaseV2(r, s, d, k, ks[(i+1)%len(ks)], false, i == 0)
		}
	}
	e.coord.CommitBlock(e.b)
	e.coord.CommitBlock(e.b)
	for i, k := range ks {
		if k.received && !k.acked {
			e.phaseV2(r, s, d, k, ks[(i+1)%len(ks)], true, i == 0)
		}
	}
}

// ---------------------------------------------------------------------------------------------
// timeout boundaries: a packet whose timeout is a few blocks / seconds ahead of the destination.  The
// timeout guard runs before proof verification, so a message with a corrupted proof tells on which
// side of the boundary the chain is (err:timeout vs err:proof) without consuming the packet; the valid
// message is delivered at a random point (ok strictly before the timeout, err:timeout from it on).

func (e *renv) scenarioBoundaryV1(r *Rng, s *sinks, byHeight bool) {
	p := e.path
	revA, revB := clienttypes.ParseChainID(e.a.ChainID), clienttypes.ParseChainID(e.b.ChainID)
	var th clienttypes.Height
	var tts uint64
	if byHeight {
		// SendPacket + UpdateClient move B two blocks ahead before the first attempt
		th = clienttypes.NewHeight(revB, uint64(e.b.ProposedHeader.Height)+5+uint64(r.Intn(5)))
	} else {
		tts = uint64(e.coord.CurrentTime.UnixNano()) + uint64(25+r.Intn(15))*uint64(time.Second) + uint64(r.Intn(3))
	}
	data := []byte("boundary-" + r.Str("abc", 3))
	seq, err := p.EndpointA.SendPacket(th, tts, data)
	if err != nil {
		return // the timeout was already behind the destination as seen by the sender's client: nothing to test
	}
	e.noteCons(p.EndpointB)
	k := channeltypes.NewPacket(data, seq, p.EndpointA.ChannelConfig.PortID, p.EndpointA.ChannelID, p.EndpointB.ChannelConfig.PortID, p.EndpointB.ChannelID, th, tts)
	base := v1msg{pkt: k}
	key := host.PacketCommitmentKey(k.SourcePort, k.SourceChannel, k.Sequence)
	(&mctxV1{prover: e.a, rev: revA}).reproof(&base, key, last(e.cons[consKey(p.EndpointB)]), true)
	bad := base.clone()
	bad.proof = flip(r, bad.proof)
	bad.truth.intact = false
	// times at which the destination is probed: before, 1ns before, exactly at, after the timeout
	// (height timeouts: every block is probed, the chain crosses the timeout height by itself)
	var targets []uint64
	if byHeight {
		targets = make([]uint64, 12)
	} else {
		now := uint64(e.coord.CurrentTime.UnixNano())
		if now+2 < tts {
			targets = append(targets, now+(tts-now)/2)
		}
		targets = append(targets, tts-1, tts, tts+1, tts+uint64(time.Second))
	}
	deliverAt := r.Intn(len(targets) + 1)
	for i, t := range targets {
		if now := uint64(e.coord.CurrentTime.UnixNano()); t > now {
			e.coord.IncrementTimeBy(time.Duration(t - now))
		}
		if i == deliverAt {
			e.attemptRecvV1(s, base, "boundary-valid")
		}
		e.attemptRecvV1(s, bad, "boundary-proof-flip")
	}
	e.attemptRecvV1(s, base, "boundary-valid-late")
}

func (e *renv) scenarioBoundaryV2(r *Rng, s *sinks) {
	revA := clienttypes.ParseChainID(e.a.ChainID)
	T := uint64(e.coord.CurrentTime.Unix()) + 25 + uint64(r.Intn(15))
	pkt, err := e.pathV2.EndpointA.MsgSendPacket(T, mockv2.NewMockPayload(mockv2.ModuleNameA, mockv2.ModuleNameB))
	if err != nil {
		return
	}
	e.noteCons(e.pathV2.EndpointB)
	base := v2msg{pkt: pkt}
	(&mctxV2{prover: e.a, rev: revA}).reproof(&base, hostv2.PacketCommitmentKey(pkt.SourceClient, pkt.Sequence), last(e.cons[consKey(e.pathV2.EndpointB)]), true)
	bad := base.clone()
	bad.proof = flip(r, bad.proof)
	bad.truth.intact = false
	// the last nanosecond of second T-1, the first of second T, and around
	tns := T * 1_000_000_000
	var targets []uint64
	if now := uint64(e.coord.CurrentTime.UnixNano()); now+2 < tns {
		targets = append(targets, now+(tns-now)/2)
	}
	targets = append(targets, tns-1, tns, tns+999_999_999, tns+1_000_000_000)
	deliverAt := r.Intn(len(targets) + 1)
	for i, t := range targets {
		if now := uint64(e.coord.CurrentTime.UnixNano()); t > now {
			e.coord.IncrementTimeBy(time.Duration(t - now))
		}
		if i == deliverAt {
			e.attemptRecvV2(s, base, "boundary-valid")
		}
		e.attemptRecvV2(s, bad, "boundary-proof-flip")
	}
	e.attemptRecvV2(s, base, "boundary-valid-late")
}

// ---------------------------------------------------------------------------------------------
// expiry: after a jump past the trusting period the clients are Expired; valid messages must fail

func (e *renv) scenarioExpiry(r *Rng, s *sinks) {
	p := e.path
	// X: received before the jump, acknowledgement attempted after it; Y: receive attempted after the jump.
	// Height-only timeouts, so that the timeout guard cannot mask the client check.
	revB := clienttypes.ParseChainID(e.b.ChainID)
	mk := func(data string) *sentV1 {
		th := clienttypes.NewHeight(revB, uint64(e.b.ProposedHeader.Height)+1000000)
		seq, err := p.EndpointA.SendPacket(th, 0, []byte(data))
		if err != nil {
			panic(err)
		}
		e.noteCons(p.EndpointB)
		return &sentV1{pkt: channeltypes.NewPacket([]byte(data), seq, p.EndpointA.ChannelConfig.PortID, p.EndpointA.ChannelID,
			p.EndpointB.ChannelConfig.PortID, p.EndpointB.ChannelID, th, 0)}
	}
	x, y := mk("expiry-x2"), mk("expiry-y")
	revA := clienttypes.ParseChainID(e.a.ChainID)
	recvMsg := func(k *sentV1) v1msg {
		cons := e.cons[consKey(p.EndpointB)]
		key := host.PacketCommitmentKey(k.pkt.SourcePort, k.pkt.SourceChannel, k.pkt.Sequence)
		cx := &mctxV1{prover: e.a, rev: revA}
		m := v1msg{pkt: k.pkt}
		cx.reproof(&m, key, last(cons), true)
		return m
	}
	if e.attemptRecvV1(s, recvMsg(x), "valid") != "ok" {
		return
	}
	e.update(p.EndpointA)
	consA := e.cons[consKey(p.EndpointA)]
	ackKey := host.PacketAcknowledgementKey(x.pkt.DestinationPort, x.pkt.DestinationChannel, x.pkt.Sequence)
	w := e.wrote[wroteKeyV1(x.pkt.DestinationPort, x.pkt.DestinationChannel, x.pkt.Sequence)]
	if len(w) != 1 {
		return
	}
	am := v1msg{pkt: x.pkt, ack: w[0]}
	(&mctxV1{prover: e.b, rev: revB}).reproof(&am, ackKey, last(consA), true)
	ym := recvMsg(y)
	// v2 message prepared before the jump as well (its timeout, at most a day ahead, will have passed)
	k2 := e.sendV2(r, false, mockv2.NewMockPayload(mockv2.ModuleNameA, mockv2.ModuleNameB))
	m2 := v2msg{pkt: k2.pkt}
	(&mctxV2{prover: e.a, rev: revA}).reproof(&m2, hostv2.PacketCommitmentKey(k2.pkt.SourceClient, k2.pkt.Sequence), last(e.cons[consKey(e.pathV2.EndpointB)]), true)

	e.coord.IncrementTimeBy(ibctesting.TrustingPeriod + time.Duration(1+r.Intn(100))*time.Minute)
	e.coord.CommitBlock(e.a, e.b)
	e.attemptRecvV1(s, ym, "expired-client")
	e.attemptAckV1(s, am, "expired-client")
	e.attemptRecvV2(s, m2, "expired-client")
}

// ---------------------------------------------------------------------------------------------

func relayHistory(r *Rng, s *sinks) {
	d := densityFor()
	e := newRelayEnv()
	e.scenarioV1(r, s, d, e.path, e.pathOrd, false)
	e.scenarioV1(r, s, d, e.pathOrd, e.path, true)
	e.scenarioV2(r, s, d)
	e.scenarioBoundaryV1(r, s, true)
	e.scenarioBoundaryV1(r, s, false)
	e.scenarioBoundaryV2(r, s)
	e.scenarioBoundaryV2(r, s)
	e.scenarioExpiry(r, s)
}

// violations found while generating correspondence cases are kept and handed to the monitor sink, so
// that every generated attempt is also a monitored one
var relayStash []Violation

func init() {
	Groups = append(Groups, purefn.Group{
		Name:  "relay",
		Props: []string{"C05", "C06"},
		Gen: func(r *Rng, n int, emit func(M)) {
			for i := 0; i < n; i++ {
				relayHistory(r, &sinks{emit: emit, report: func(v Violation) { relayStash = append(relayStash, v) }})
			}
		},
		Monitor: func(r *Rng, n int, report func(Violation)) {
			for _, v := range relayStash {
				report(v)
			}
			relayStash = nil
			// every generated attempt was monitored already; -monitor N adds N-1 monitor-only histories
			for i := 1; i < n; i++ {
				relayHistory(r, &sinks{report: report})
			}
		},
	})
}
