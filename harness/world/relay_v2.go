package world

import (
	"bytes"
	"fmt"

	sdk "github.com/cosmos/cosmos-sdk/types"

	clienttypes "github.com/cosmos/ibc-go/v11/modules/core/02-client/types"
	clientv2types "github.com/cosmos/ibc-go/v11/modules/core/02-client/v2/types"
	channeltypesv2 "github.com/cosmos/ibc-go/v11/modules/core/04-channel/v2/types"
	hostv2 "github.com/cosmos/ibc-go/v11/modules/core/24-host/v2"
	ibctesting "github.com/cosmos/ibc-go/v11/testing"

	. "verif/harness/lib"
)

// one v2 packet message (receive, or acknowledgement when isAck) with the ground truth about its proof
type v2msg struct {
	pkt    channeltypesv2.Packet
	acks   [][]byte
	isAck  bool
	proof  []byte
	height clienttypes.Height
	truth  proofTruth
	signer int
}

func (m v2msg) clone() v2msg {
	ps := make([]channeltypesv2.Payload, len(m.pkt.Payloads))
	for i, pd := range m.pkt.Payloads {
		pd.Value = append([]byte{}, pd.Value...)
		ps[i] = pd
	}
	m.pkt.Payloads = ps
	as := make([][]byte, len(m.acks))
	for i, a := range m.acks {
		as[i] = append([]byte{}, a...)
	}
	m.acks = as
	m.proof = append([]byte{}, m.proof...)
	m.truth.key = append([]byte{}, m.truth.key...)
	return m
}

func pktV2JSON(p channeltypesv2.Packet) M {
	ps := make([]M, len(p.Payloads))
	for i, pd := range p.Payloads {
		ps[i] = M{"sp": Hex([]byte(pd.SourcePort)), "dp": Hex([]byte(pd.DestinationPort)), "ver": Hex([]byte(pd.Version)),
			"enc": Hex([]byte(pd.Encoding)), "val": Hex(pd.Value)}
	}
	return M{"seq": U(p.Sequence), "sc": Hex([]byte(p.SourceClient)), "dc": Hex([]byte(p.DestinationClient)), "ts": U(p.TimeoutTimestamp), "payloads": ps}
}

// v2Common reads what both v2 handlers read about the client named `local` on chain c
func v2Common(c *ibctesting.TestChain, local string, m v2msg, in M) (clientFactsM M, cpID string, cpFound bool) {
	ctx := c.GetContext()
	k := c.App.GetIBCKeeper()
	allowed := true
	if m.signer != signerMalformed {
		addr := sdk.MustAccAddressFromBech32(signerString(c, m.signer))
		allowed = k.ClientV2Keeper.GetConfig(ctx, local).IsAllowedRelayer(addr)
	}
	in["relayerAllowed"] = allowed
	cp, found := k.ClientV2Keeper.GetClientCounterparty(ctx, local)
	if found {
		pre := make([]string, len(cp.MerklePrefix))
		for i, b := range cp.MerklePrefix {
			pre[i] = Hex(b)
		}
		in["cp"] = M{"id": Hex([]byte(cp.ClientId)), "prefix": pre}
	} else {
		in["cp"] = nil
	}
	clientID := local
	if u, ok := k.ChannelKeeperV2.GetClientForAlias(ctx, local); ok {
		clientID = u
	}
	cf := clientFacts(c, clientID, m.height, m.proof)
	in["client"] = cf
	return cf, cp.ClientId, found
}

func (e *renv) attemptRecvV2(s *sinks, m v2msg, label string) string {
	c, cp := e.b, e.a
	e.coord.UpdateTimeForChain(c)
	ctx := c.GetContext()
	k := c.App.GetIBCKeeper()
	p := m.pkt
	in := M{"f": "relay.recvV2", "mut": label, "pkt": pktV2JSON(p), "proofEmpty": len(m.proof) == 0, "env": envFacts(c, m.signer)}
	cf, cpID, cpFound := v2Common(c, p.DestinationClient, m, in)
	in["receipt"] = k.ChannelKeeperV2.HasPacketReceipt(ctx, p.DestinationClient, p.Sequence)
	in["proof"] = proofFacts(cp, m.height, m.truth)
	now := uint64(c.ProposedHeader.Time.Unix())

	before := snapshot(c)
	e.pending, e.ackCalls = map[string][][]byte{}, nil
	msg := channeltypesv2.NewMsgRecvPacket(p, m.proof, m.height, signerString(c, m.signer))
	res := e.deliver(c, m.signer, msg, func(cc sdk.Context) error { _, err := k.ChannelKeeperV2.RecvPacket(cc, msg); return err })
	diff := diffKeys(before, snapshot(c))
	r, out := e.verdictOf(s, "C05", in, res, diff, true, false)
	s.put(in, out)

	if r == "ok" {
		for kk, v := range e.pending {
			e.wrote[kk] = v
		}
		stored, has := storeAt(cp, int64(m.height.RevisionHeight)-1, ownKeyV2(1, p.SourceClient, p.Sequence))
		if !has || !bytes.Equal(stored, ownCommitV2(p)) {
			s.viol("C05", "recv-uncommitted", "v2 packet received although the counterparty store does not hold its commitment at its sequence at the proof height", in, M{"stored": Hex(stored), "expected": Hex(ownCommitV2(p)), "mut": label})
		}
		if !cpFound || cpID != p.SourceClient {
			s.viol("C05", "recv-counterparty", "v2 packet received although the destination client's registered counterparty is not the packet's source client", in, M{"counterparty": cpID, "mut": label})
		}
		if cf["active"] != true || cf["cons"] != true {
			s.viol("C05", "recv-client", "v2 packet received through a client that is not Active or has no consensus state at the proof height", in, M{"mut": label})
		}
		if now >= p.TimeoutTimestamp {
			s.viol("C05", "recv-expired", "v2 packet received at or after its timeout", in, M{"now": U(now), "mut": label})
		}
	}
	return r
}

func (e *renv) attemptAckV2(s *sinks, m v2msg, label string) string {
	c, cp := e.a, e.b
	e.coord.UpdateTimeForChain(c)
	ctx := c.GetContext()
	k := c.App.GetIBCKeeper()
	p := m.pkt
	acksHex := make([]string, len(m.acks))
	for i, a := range m.acks {
		acksHex[i] = Hex(a)
	}
	in := M{"f": "relay.ackV2", "mut": label, "pkt": pktV2JSON(p), "acks": acksHex, "proofEmpty": len(m.proof) == 0, "env": envFacts(c, m.signer)}
	cf, cpID, cpFound := v2Common(c, p.SourceClient, m, in)
	commitment := k.ChannelKeeperV2.GetPacketCommitment(ctx, p.SourceClient, p.Sequence)
	in["commitment"] = Hex(commitment)
	in["proof"] = proofFacts(cp, m.height, m.truth)

	before := snapshot(c)
	e.pending, e.ackCalls = map[string][][]byte{}, nil
	msg := channeltypesv2.NewMsgAcknowledgement(p, channeltypesv2.Acknowledgement{AppAcknowledgements: m.acks}, m.proof, m.height, signerString(c, m.signer))
	res := e.deliver(c, m.signer, msg, func(cc sdk.Context) error { _, err := k.ChannelKeeperV2.Acknowledgement(cc, msg); return err })
	diff := diffKeys(before, snapshot(c))
	r, out := e.verdictOf(s, "C06", in, res, diff, true, true)
	s.put(in, out)

	if r == "ok" {
		stored, has := storeAt(cp, int64(m.height.RevisionHeight)-1, ownKeyV2(3, p.DestinationClient, p.Sequence))
		if !has || !bytes.Equal(stored, ownCommitAckV2(m.acks)) {
			s.viol("C06", "ack-unproven", "v2 acknowledgement processed although the counterparty store does not hold the commitment of this app-ack list for that packet's destination and sequence at the proof height", in, M{"stored": Hex(stored), "expected": Hex(ownCommitAckV2(m.acks)), "mut": label})
		}
		if !bytes.Equal(commitment, ownCommitV2(p)) {
			s.viol("C06", "ack-wrong-packet", "v2 acknowledgement processed for a packet whose fields do not hash to the stored commitment", in, M{"stored": Hex(commitment), "expected": Hex(ownCommitV2(p)), "mut": label})
		}
		if !cpFound || cpID != p.DestinationClient {
			s.viol("C06", "ack-counterparty", "v2 acknowledgement processed although the source client's registered counterparty is not the packet's destination client", in, M{"counterparty": cpID, "mut": label})
		}
		if cf["active"] != true || cf["cons"] != true {
			s.viol("C06", "ack-client", "v2 acknowledgement processed through a client that is not Active or has no consensus state at the proof height", in, M{"mut": label})
		}
		if len(e.ackCalls) != len(p.Payloads) {
			s.viol("C06", "ack-callback-count", "OnAcknowledgementPacket not invoked once per payload for a processed v2 acknowledgement", in, M{"calls": len(e.ackCalls)})
		}
	}
	if res.err == nil && res.panicked == nil {
		// every callback must receive what the destination wrote: the i-th app acknowledgement for the
		// i-th payload, or the sentinel error acknowledgement when the destination wrote only that
		for i, call := range e.ackCalls {
			want := e.wrote[wroteKeyV2(call.ch, call.seq)]
			var exp []byte
			switch {
			case len(want) == 1 && bytes.Equal(want[0], channeltypesv2.ErrorAcknowledgement[:]):
				exp = want[0]
			case i < len(want):
				exp = want[i]
			}
			if exp == nil || !bytes.Equal(exp, call.ack) {
				s.viol("C06", "ack-callback-arg", "v2 OnAcknowledgementPacket invoked with an acknowledgement different from the one the destination wrote for that payload", in, M{"got": Hex(call.ack), "destinationWrote": Hex(exp), "payload": i, "mut": label})
			}
		}
	}
	return r
}

// ---------------------------------------------------------------------------------------------
// mutations

type mutV2 struct {
	name string
	f    func(m *v2msg)
}

type mctxV2 struct {
	prover      *ibctesting.TestChain
	baseKey     []byte
	otherSeq    uint64
	otherAcks   [][]byte
	otherClient string // an existing client id on the executing chain that is not part of this pair
	consHs      []uint64
	gapHs       []uint64
	rev         uint64
}

func (x *mctxV2) reproof(m *v2msg, key []byte, h uint64, setHeight bool) {
	if proof, ok := proofFor(x.prover, key, h); ok {
		m.proof = proof
		m.truth = proofTruth{key: append([]byte{}, key...), builtAt: clienttypes.NewHeight(x.rev, h), intact: true}
	}
	if setHeight {
		m.height = clienttypes.NewHeight(x.rev, h)
	}
}

func (e *renv) singleMutsV2(r *Rng, x *mctxV2, isAck bool) []mutV2 {
	pl := func(i int, f func(pd *channeltypesv2.Payload)) func(m *v2msg) {
		return func(m *v2msg) { f(&m.pkt.Payloads[i%len(m.pkt.Payloads)]) }
	}
	ms := []mutV2{
		{"seq+1", func(m *v2msg) { m.pkt.Sequence++ }},
		{"seq-1", func(m *v2msg) { m.pkt.Sequence-- }},
		{"seq-zero", func(m *v2msg) { m.pkt.Sequence = 0 }},
		{"seq-max", func(m *v2msg) { m.pkt.Sequence = ^uint64(0) }},
		{"timeout+1", func(m *v2msg) { m.pkt.TimeoutTimestamp++ }},
		{"timeout-1", func(m *v2msg) { m.pkt.TimeoutTimestamp-- }},
		{"timeout-zero", func(m *v2msg) { m.pkt.TimeoutTimestamp = 0 }},
		{"timeout-ns", func(m *v2msg) { m.pkt.TimeoutTimestamp *= 1_000_000_000 }},
		{"sclient-other", func(m *v2msg) { m.pkt.SourceClient = x.otherClient }},
		{"sclient-none", func(m *v2msg) { m.pkt.SourceClient = "07-tendermint-77" }},
		{"sclient-suffix", func(m *v2msg) { m.pkt.SourceClient += "0" }},
		{"sclient-short", func(m *v2msg) { m.pkt.SourceClient = "07-t-1" }},
		{"dclient-other", func(m *v2msg) { m.pkt.DestinationClient = x.otherClient }},
		{"dclient-none", func(m *v2msg) { m.pkt.DestinationClient = "07-tendermint-77" }},
		{"dclient-suffix", func(m *v2msg) { m.pkt.DestinationClient += "0" }},
		{"dclient-slash", func(m *v2msg) { m.pkt.DestinationClient = "07-tender/mint-0" }},
		{"swap-clients", func(m *v2msg) { m.pkt.SourceClient, m.pkt.DestinationClient = m.pkt.DestinationClient, m.pkt.SourceClient }},
		{"payload-value-flip", pl(0, func(pd *channeltypesv2.Payload) { pd.Value = flip(r, pd.Value) })},
		{"payload-value-append", pl(1, func(pd *channeltypesv2.Payload) { pd.Value = append(pd.Value, 'x') })},
		{"payload-value-empty", pl(0, func(pd *channeltypesv2.Payload) { pd.Value = nil })},
		{"payload-sport", pl(0, func(pd *channeltypesv2.Payload) { pd.SourcePort = "transfer" })},
		{"payload-sport-bad", pl(1, func(pd *channeltypesv2.Payload) { pd.SourcePort = "a" })},
		{"payload-dport", pl(0, func(pd *channeltypesv2.Payload) { pd.DestinationPort = "transfer" })},
		{"payload-dport-swap", pl(1, func(pd *channeltypesv2.Payload) { pd.SourcePort, pd.DestinationPort = pd.DestinationPort, pd.SourcePort })},
		{"payload-version", pl(0, func(pd *channeltypesv2.Payload) { pd.Version += "1" })},
		{"payload-version-blank", pl(1, func(pd *channeltypesv2.Payload) { pd.Version = " " })},
		{"payload-encoding", pl(0, func(pd *channeltypesv2.Payload) { pd.Encoding = "application/json" })},
		{"payload-encoding-blank", pl(1, func(pd *channeltypesv2.Payload) { pd.Encoding = "" })},
		{"payloads-reverse", func(m *v2msg) {
			for i, j := 0, len(m.pkt.Payloads)-1; i < j; i, j = i+1, j-1 {
				m.pkt.Payloads[i], m.pkt.Payloads[j] = m.pkt.Payloads[j], m.pkt.Payloads[i]
			}
		}},
		{"payloads-truncate", func(m *v2msg) { m.pkt.Payloads = m.pkt.Payloads[:len(m.pkt.Payloads)-1] }},
		{"payloads-extend", func(m *v2msg) { m.pkt.Payloads = append(m.pkt.Payloads, m.pkt.Payloads[0]) }},
		{"payloads-empty", func(m *v2msg) { m.pkt.Payloads = nil }},
		{"proof-flip", func(m *v2msg) { m.proof = flip(r, m.proof); m.truth.intact = false }},
		{"proof-trunc", func(m *v2msg) { m.proof = m.proof[:len(m.proof)-1-r.Intn(len(m.proof)/2)]; m.truth.intact = false }},
		{"proof-append", func(m *v2msg) { m.proof = append(m.proof, byte(r.Intn(256))); m.truth.intact = false }},
		{"proof-empty", func(m *v2msg) { m.proof = nil; m.truth.intact = false }},
		{"proof-random", func(m *v2msg) { m.proof = r.Bytes(40 + r.Intn(200)); m.truth.intact = false }},
		{"proof-key-receipt", func(m *v2msg) {
			x.reproof(m, hostv2.PacketReceiptKey(m.pkt.DestinationClient, m.pkt.Sequence), m.height.RevisionHeight, false)
		}},
		{"proof-key-nextsend", func(m *v2msg) {
			x.reproof(m, hostv2.NextSequenceSendKey(m.pkt.SourceClient), m.height.RevisionHeight, false)
		}},
		{"height-zero", func(m *v2msg) { m.height = clienttypes.ZeroHeight() }},
		{"height-rev+1", func(m *v2msg) { m.height.RevisionNumber++ }},
		{"height+1-stale", func(m *v2msg) { m.height.RevisionHeight++ }},
		{"height-above-latest", func(m *v2msg) { x.reproof(m, x.baseKey, uint64(x.prover.App.LastBlockHeight())+1, true) }},
		{"signer-other", func(m *v2msg) { m.signer = signerOther }},
		{"signer-mismatch", func(m *v2msg) { m.signer = signerMismatch }},
		{"signer-malformed", func(m *v2msg) { m.signer = signerMalformed }},
	}
	if x.otherSeq != 0 {
		os := x.otherSeq
		ms = append(ms, mutV2{"seq-other", func(m *v2msg) { m.pkt.Sequence = os }})
		if isAck {
			ms = append(ms, mutV2{"proof-key-otherseq", func(m *v2msg) {
				x.reproof(m, hostv2.PacketAcknowledgementKey(m.pkt.DestinationClient, os), m.height.RevisionHeight, false)
			}})
		} else {
			ms = append(ms, mutV2{"proof-key-otherseq", func(m *v2msg) {
				x.reproof(m, hostv2.PacketCommitmentKey(m.pkt.SourceClient, os), m.height.RevisionHeight, false)
			}})
		}
	}
	if isAck {
		ms = append(ms,
			mutV2{"proof-key-commitment", func(m *v2msg) {
				x.reproof(m, hostv2.PacketCommitmentKey(m.pkt.SourceClient, m.pkt.Sequence), m.height.RevisionHeight, false)
			}},
			mutV2{"acks-flip", func(m *v2msg) { m.acks[0] = flip(r, m.acks[0]) }},
			mutV2{"acks-last-append", func(m *v2msg) { m.acks[len(m.acks)-1] = append(m.acks[len(m.acks)-1], 'x') }},
			mutV2{"acks-reverse", func(m *v2msg) {
				for i, j := 0, len(m.acks)-1; i < j; i, j = i+1, j-1 {
					m.acks[i], m.acks[j] = m.acks[j], m.acks[i]
				}
			}},
			mutV2{"acks-truncate", func(m *v2msg) { m.acks = m.acks[:len(m.acks)-1] }},
			mutV2{"acks-extend", func(m *v2msg) { m.acks = append(m.acks, append([]byte{}, m.acks[0]...)) }},
			mutV2{"acks-extend-new", func(m *v2msg) { m.acks = append(m.acks, []byte("extra")) }},
			mutV2{"acks-empty", func(m *v2msg) { m.acks = nil }},
			mutV2{"acks-empty-element", func(m *v2msg) { m.acks[0] = nil }},
			mutV2{"acks-error", func(m *v2msg) { m.acks = [][]byte{append([]byte{}, channeltypesv2.ErrorAcknowledgement[:]...)} }},
			mutV2{"acks-error-in-list", func(m *v2msg) { m.acks = append(m.acks, append([]byte{}, channeltypesv2.ErrorAcknowledgement[:]...)) }},
			mutV2{"acks-merge", func(m *v2msg) {
				// the boundary between two app acknowledgements moved: same concatenation, different list
				if len(m.acks) >= 2 {
					m.acks = append([][]byte{append(append([]byte{}, m.acks[0]...), m.acks[1]...)}, m.acks[2:]...)
				} else {
					h := len(m.acks[0]) / 2
					m.acks = [][]byte{m.acks[0][:h], m.acks[0][h:]}
				}
			}},
		)
		if x.otherAcks != nil {
			oa := x.otherAcks
			ms = append(ms, mutV2{"acks-other", func(m *v2msg) {
				// deep copy: later mutations of the message must not reach the recorded ground truth
				m.acks = make([][]byte, len(oa))
				for i, a := range oa {
					m.acks[i] = append([]byte{}, a...)
				}
			}})
		}
	} else {
		ms = append(ms, mutV2{"proof-key-ack", func(m *v2msg) {
			x.reproof(m, hostv2.PacketAcknowledgementKey(m.pkt.DestinationClient, m.pkt.Sequence), m.height.RevisionHeight, false)
		}})
	}
	for i, h := range x.consHs {
		hh := h
		if i > 0 && i < len(x.consHs)-3 && !r.Chance(0.25) {
			continue
		}
		ms = append(ms, mutV2{fmt.Sprintf("height-cons-%d-rebuilt", i), func(m *v2msg) { x.reproof(m, x.baseKey, hh, true) }})
		ms = append(ms, mutV2{fmt.Sprintf("height-cons-%d-stale", i), func(m *v2msg) { m.height = clienttypes.NewHeight(x.rev, hh) }})
	}
	for i, h := range x.gapHs {
		hh := h
		if i >= 2 {
			break
		}
		ms = append(ms, mutV2{fmt.Sprintf("height-nocons-%d", i), func(m *v2msg) { x.reproof(m, x.baseKey, hh, true) }})
	}
	return ms
}

func applyV2(base v2msg, ms ...mutV2) (m v2msg, label string) {
	m = base.clone()
	for i, mu := range ms {
		func() {
			defer func() { recover() }()
			mu.f(&m)
		}()
		if i > 0 {
			label += "+"
		}
		label += mu.name
	}
	return m, label
}

// statesV2 returns state variations of the v2 client pair as seen from the endpoint's chain
func (e *renv) statesV2(ep *ibctesting.Endpoint) []stateVar {
	c := ep.Chain
	k := c.App.GetIBCKeeper()
	origCp, _ := k.ClientV2Keeper.GetClientCounterparty(c.GetContext(), ep.ClientID)
	origClient := ep.GetClientState()
	setCp := func(f func(cp *clientv2types.CounterpartyInfo)) func() {
		return func() {
			cp := origCp
			cp.MerklePrefix = append([][]byte{}, origCp.MerklePrefix...)
			f(&cp)
			k.ClientV2Keeper.SetClientCounterparty(c.GetContext(), ep.ClientID, cp)
		}
	}
	restCp := func() { k.ClientV2Keeper.SetClientCounterparty(c.GetContext(), ep.ClientID, origCp) }
	other := c.SenderAccounts[2].SenderAccount.GetAddress().String()
	return []stateVar{
		{"cp-other-client", setCp(func(cp *clientv2types.CounterpartyInfo) { cp.ClientId = "07-tendermint-55" }), restCp},
		{"cp-prefix", setCp(func(cp *clientv2types.CounterpartyInfo) { cp.MerklePrefix = [][]byte{[]byte("ibc"), []byte("x")} }), restCp},
		{"client-frozen", func() { ep.FreezeClient() }, func() { ep.SetClientState(origClient) }},
		{"relayer-allowlist-other", func() { k.ClientV2Keeper.SetConfig(c.GetContext(), ep.ClientID, clientv2types.NewConfig(other)) },
			func() { k.ClientV2Keeper.SetConfig(c.GetContext(), ep.ClientID, clientv2types.DefaultConfig()) }},
		{"relayer-allowlist-self", func() {
			k.ClientV2Keeper.SetConfig(c.GetContext(), ep.ClientID, clientv2types.NewConfig(other, c.SenderAccount.GetAddress().String()))
		}, func() { k.ClientV2Keeper.SetConfig(c.GetContext(), ep.ClientID, clientv2types.DefaultConfig()) }},
	}
}
