package world

import (
	"fmt"
	"testing"

	ibctesting "github.com/cosmos/ibc-go/v11/testing"

	. "verif/harness/lib"
	"verif/harness/purefn"
)

// keyspace: the stateful half of C16 on a real keeper/store — prefix iteration of one identifier
// must only return that identifier's entries.  Identifiers are arbitrary *valid* identifiers
// (24-host alphabet), not only the ones ibc-go generates.
func keyspaceScenario(r *Rng, report func(Violation)) {
	t := &testing.T{}
	coord := ibctesting.NewCoordinator(t, 1)
	a := coord.GetChain(ibctesting.GetChainID(1))
	k := a.App.GetIBCKeeper().ChannelKeeperV2
	base := a.GetContext()
	pairs := [][2]string{
		{"abcd", "abcdasync_packet"},            // the async suffix word lies inside the identifier alphabet
		{"channel-1", "channel-10"},             // kind byte separates
		{"07-tendermint-1", "07-tendermint-12"}, // kind byte separates
		{"abcd", "abcdalias"},
	}
	for _, p := range pairs {
		x, y := p[0], p[1]
		ctx, _ := base.CacheContext()
		k.SetPacketCommitment(ctx, y, 1, []byte{1})
		k.SetPacketReceipt(ctx, y, 2)
		k.SetPacketAcknowledgement(ctx, y, 3, []byte{3})
		check := func(what string, f func() int) {
			out := Safe(func() any { return f() })
			if m, ok := out.(M); ok && m["panic"] != nil {
				report(Violation{Property: "C16", Key: "async-prefix-not-confined", What: fmt.Sprintf("prefix iteration (%s) for identifier %q reaches keys of identifier %q and panics: %v", what, x, y, m["panic"]),
					Input: M{"iterate": x, "other": y, "what": what}})
				return
			}
			if n, _ := out.(int); n != 0 {
				report(Violation{Property: "C16", Key: "prefix-not-confined/" + what, What: fmt.Sprintf("prefix iteration (%s) for identifier %q returned %d entries of identifier %q", what, x, n, y),
					Input: M{"iterate": x, "other": y, "what": what}})
			}
		}
		check("commitments", func() int { return len(k.GetAllPacketCommitmentsForClient(ctx, x)) })
		check("receipts", func() int { return len(k.GetAllPacketReceiptsForClient(ctx, x)) })
		check("acks", func() int { return len(k.GetAllPacketAcknowledgementsForClient(ctx, x)) })
		check("async", func() int { return len(k.GetAllAsyncPacketsForClient(ctx, x)) })
	}
}

func init() {
	Groups = append(Groups, purefn.Group{
		Name:  "keyspace",
		Props: []string{"C16"},
		Monitor: func(r *Rng, n int, report func(Violation)) {
			keyspaceScenario(r, report)
		},
	})
}
