// relay_*.go: the "relay" group of the world engine (C05, C06).
//
// Two real ibctesting chains A and B with a v1 UNORDERED channel, a v1 ORDERED channel and a v2 client
// pair.  Packets are sent A -> B; MsgRecvPacket / MsgAcknowledgement (v1 and v2) are built by hand from
// real IAVL proofs and submitted as transactions, the valid ones and every single-field mutation of
// them (plus random two-field mutations), at several channel / connection / client states.
//
// For each attempt the harness computes the facts the Lean model (Model/Relay.lean) needs from ground
// truth it controls -- in particular `provenValue`: what the counterparty's IBC store holds, at the
// version the proof was built from, under the key the proof was built for, read directly from the
// height-pinned multistore (not through the proof) -- and records the implementation's verdict:
// transaction ok with state change = ok, ok without state change = noop, failed = err:<class>.
// Commitments and store keys used by the monitors are recomputed here with crypto/sha256 and
// fmt.Sprintf, independently of ibc-go's CommitPacket / host key builders.
package world

import (
	"bytes"
	"crypto/sha256"
	"encoding/binary"
	"errors"
	"fmt"
	"sort"

	"github.com/cosmos/gogoproto/proto"

	errorsmod "cosmossdk.io/errors"
	storetypes "github.com/cosmos/cosmos-sdk/store/v2/types"

	sdk "github.com/cosmos/cosmos-sdk/types"
	sdkerrors "github.com/cosmos/cosmos-sdk/types/errors"

	abci "github.com/cometbft/cometbft/abci/types"

	clienttypes "github.com/cosmos/ibc-go/v11/modules/core/02-client/types"
	clientv2types "github.com/cosmos/ibc-go/v11/modules/core/02-client/v2/types"
	connectiontypes "github.com/cosmos/ibc-go/v11/modules/core/03-connection/types"
	channeltypes "github.com/cosmos/ibc-go/v11/modules/core/04-channel/types"
	channeltypesv2 "github.com/cosmos/ibc-go/v11/modules/core/04-channel/v2/types"
	porttypes "github.com/cosmos/ibc-go/v11/modules/core/05-port/types"
	commitmenttypes "github.com/cosmos/ibc-go/v11/modules/core/23-commitment/types"
	host "github.com/cosmos/ibc-go/v11/modules/core/24-host"
	ibcerrors "github.com/cosmos/ibc-go/v11/modules/core/errors"
	"github.com/cosmos/ibc-go/v11/modules/core/exported"
	ibctm "github.com/cosmos/ibc-go/v11/modules/light-clients/07-tendermint"
	ibctesting "github.com/cosmos/ibc-go/v11/testing"
	ibcmock "github.com/cosmos/ibc-go/v11/testing/mock"

	. "verif/harness/lib"
)

// ---------------------------------------------------------------------------------------------
// independent commitment / key computations (ground truth for the monitors)

func sha(b []byte) []byte { h := sha256.Sum256(b); return h[:] }

func be64(n uint64) []byte { b := make([]byte, 8); binary.BigEndian.PutUint64(b, n); return b }

func ownCommitV1(p channeltypes.Packet) []byte {
	var buf []byte
	buf = append(buf, be64(p.TimeoutTimestamp)...)
	buf = append(buf, be64(p.TimeoutHeight.RevisionNumber)...)
	buf = append(buf, be64(p.TimeoutHeight.RevisionHeight)...)
	buf = append(buf, sha(p.Data)...)
	return sha(buf)
}

func ownCommitV2(p channeltypesv2.Packet) []byte {
	var app []byte
	for _, pd := range p.Payloads {
		var b []byte
		b = append(b, sha([]byte(pd.SourcePort))...)
		b = append(b, sha([]byte(pd.DestinationPort))...)
		b = append(b, sha([]byte(pd.Version))...)
		b = append(b, sha([]byte(pd.Encoding))...)
		b = append(b, sha(pd.Value)...)
		app = append(app, sha(b)...)
	}
	buf := []byte{2}
	buf = append(buf, sha([]byte(p.DestinationClient))...)
	buf = append(buf, sha(be64(p.TimeoutTimestamp))...)
	buf = append(buf, sha(app)...)
	return sha(buf)
}

func ownCommitAckV2(acks [][]byte) []byte {
	buf := []byte{2}
	for _, a := range acks {
		buf = append(buf, sha(a)...)
	}
	return sha(buf)
}

func ownKeyV1(kind, port, ch string, seq uint64) []byte {
	return []byte(fmt.Sprintf("%s/ports/%s/channels/%s/sequences/%d", kind, port, ch, seq))
}

func ownKeyV2(kind byte, client string, seq uint64) []byte {
	return append(append([]byte(client), kind), be64(seq)...)
}

// ---------------------------------------------------------------------------------------------
// environment

type ackCall struct {
	v2            bool
	port, ch      string // v1: source port / channel; v2: source client / destination client
	seq           uint64
	ack           []byte
	payloadSource string
}

type renv struct {
	rawToggle bool // alternates scenarios with a raw-acknowledgement packet
	*env
	pathOrd *ibctesting.Path
	// B heights for which the clients on A hold a consensus state, and vice versa, per path
	cons map[string][]uint64 // key: clientID@chain
	// what the destination application returned for each received packet (committed transactions only)
	wrote   map[string][][]byte
	pending map[string][][]byte
	// OnAcknowledgementPacket invocations of the transaction in flight
	ackCalls []ackCall
}

func newRelayEnv() *renv {
	e := &renv{env: newEnv(), cons: map[string][]uint64{}, wrote: map[string][][]byte{}, pending: map[string][][]byte{}}
	p := ibctesting.NewPath(e.a, e.b)
	p.SetChannelOrdered()
	p.Setup()
	e.pathOrd = p
	e.install(e.a)
	e.install(e.b)
	for _, ep := range e.endpoints() {
		e.noteCons(ep)
	}
	return e
}

func (e *renv) endpoints() []*ibctesting.Endpoint {
	return []*ibctesting.Endpoint{e.path.EndpointA, e.path.EndpointB, e.pathOrd.EndpointA, e.pathOrd.EndpointB, e.pathV2.EndpointA, e.pathV2.EndpointB}
}

func consKey(ep *ibctesting.Endpoint) string { return ep.ClientID + "@" + ep.Chain.ChainID }

// noteCons records the latest consensus height of the endpoint's client
func (e *renv) noteCons(ep *ibctesting.Endpoint) {
	h := ep.GetClientLatestHeight().GetRevisionHeight()
	k := consKey(ep)
	l := e.cons[k]
	if len(l) == 0 || l[len(l)-1] != h {
		e.cons[k] = append(l, h)
	}
}

func (e *renv) update(ep *ibctesting.Endpoint) {
	if err := ep.UpdateClient(); err != nil {
		panic(fmt.Sprint("harness: update client: ", err))
	}
	e.noteCons(ep)
}

func memKey(c *ibctesting.TestChain) storetypes.StoreKey { return c.GetSimApp().GetMemKey(ibcmock.MemStoreKey) }
func ibcKey(c *ibctesting.TestChain) storetypes.StoreKey { return c.GetSimApp().GetKey(exported.StoreKey) }

// rawAck is a successful acknowledgement whose bytes are not a channeltypes.Acknowledgement
type rawAck []byte

func (a rawAck) Success() bool           { return true }
func (a rawAck) Acknowledgement() []byte { return a }

func wroteKeyV1(port, ch string, seq uint64) string { return fmt.Sprintf("v1/%s/%s/%d", port, ch, seq) }
func wroteKeyV2(client string, seq uint64) string   { return fmt.Sprintf("v2/%s/%d", client, seq) }

// install replaces the mock application callbacks of a chain: every callback writes a marker into the
// mock module's (cache-wrapped) store, so that a reverted transaction must leave no trace; receive
// callbacks return acknowledgements that depend on the packet, so that acknowledgements of different
// packets differ; acknowledgement callbacks log their arguments.
func (e *renv) install(c *ibctesting.TestChain) {
	app := c.GetSimApp()
	mk := memKey(c)
	app.IBCMockModule.IBCApp.OnRecvPacket = func(ctx sdk.Context, _ string, p channeltypes.Packet, _ sdk.AccAddress) exported.Acknowledgement {
		ctx.KVStore(mk).Set([]byte(fmt.Sprintf("recv/%s/%s/%d", p.DestinationPort, p.DestinationChannel, p.Sequence)), p.Data)
		var ack exported.Acknowledgement
		if bytes.HasPrefix(p.Data, []byte("fail")) {
			ack = channeltypes.NewErrorAcknowledgement(errors.New("refused"))
		} else if bytes.HasPrefix(p.Data, []byte("raw")) {
			// an application-defined acknowledgement that is not the standard JSON envelope (IBC allows any bytes)
			ack = rawAck(append([]byte{0x01, 0xfe}, p.Data...))
		} else {
			ack = channeltypes.NewResultAcknowledgement(append([]byte("ack:"), p.Data...))
		}
		e.pending[wroteKeyV1(p.DestinationPort, p.DestinationChannel, p.Sequence)] = [][]byte{ack.Acknowledgement()}
		return ack
	}
	app.IBCMockModule.IBCApp.OnAcknowledgementPacket = func(ctx sdk.Context, _ string, p channeltypes.Packet, ack []byte, _ sdk.AccAddress) error {
		ctx.KVStore(mk).Set([]byte(fmt.Sprintf("ack/%s/%s/%d", p.SourcePort, p.SourceChannel, p.Sequence)), ack)
		e.ackCalls = append(e.ackCalls, ackCall{port: p.DestinationPort, ch: p.DestinationChannel, seq: p.Sequence, ack: append([]byte{}, ack...)})
		return nil
	}
	recvV2 := func(ctx sdk.Context, src, dst string, seq uint64, pd channeltypesv2.Payload, _ sdk.AccAddress) channeltypesv2.RecvPacketResult {
		ctx.KVStore(mk).Set([]byte(fmt.Sprintf("recv2/%s/%d/%s", dst, seq, pd.DestinationPort)), pd.Value)
		k := wroteKeyV2(dst, seq)
		if bytes.HasPrefix(pd.Value, []byte("fail")) {
			e.pending[k] = [][]byte{append([]byte{}, channeltypesv2.ErrorAcknowledgement[:]...)}
			return channeltypesv2.RecvPacketResult{Status: channeltypesv2.PacketStatus_Failure}
		}
		a := append([]byte("ack2:"+pd.DestinationPort+":"), pd.Value...)
		e.pending[k] = append(e.pending[k], a)
		return channeltypesv2.RecvPacketResult{Status: channeltypesv2.PacketStatus_Success, Acknowledgement: a}
	}
	ackV2 := func(ctx sdk.Context, src, dst string, seq uint64, pd channeltypesv2.Payload, ack []byte, _ sdk.AccAddress) error {
		ctx.KVStore(mk).Set([]byte(fmt.Sprintf("ack2/%s/%d/%s", src, seq, pd.SourcePort)), ack)
		e.ackCalls = append(e.ackCalls, ackCall{v2: true, port: src, ch: dst, seq: seq, ack: append([]byte{}, ack...), payloadSource: pd.SourcePort})
		return nil
	}
	app.MockModuleV2A.IBCApp.OnRecvPacket = recvV2
	app.MockModuleV2B.IBCApp.OnRecvPacket = recvV2
	app.MockModuleV2A.IBCApp.OnAcknowledgementPacket = ackV2
	app.MockModuleV2B.IBCApp.OnAcknowledgementPacket = ackV2
}

// ---------------------------------------------------------------------------------------------
// store access

// storeAt reads the IBC store of chain c at committed version `version` (state after block `version`)
func storeAt(c *ibctesting.TestChain, version int64, key []byte) (val []byte, ok bool) {
	defer func() {
		if recover() != nil {
			val, ok = nil, false
		}
	}()
	if version < 1 || version > c.App.LastBlockHeight() {
		return nil, false
	}
	cms, err := c.App.GetBaseApp().CommitMultiStore().CacheMultiStoreWithVersion(version)
	if err != nil {
		return nil, false
	}
	v := cms.GetKVStore(ibcKey(c)).Get(key)
	return v, v != nil
}

// snapshot of the IBC store and of the mock application store of a chain (uncommitted view)
func snapshot(c *ibctesting.TestChain) map[string]string {
	out := map[string]string{}
	ctx := c.GetContext()
	for _, sk := range []struct {
		tag string
		key storetypes.StoreKey
	}{{"ibc:", ibcKey(c)}, {"app:", memKey(c)}} {
		it := ctx.KVStore(sk.key).Iterator(nil, nil)
		for ; it.Valid(); it.Next() {
			out[sk.tag+string(it.Key())] = string(it.Value())
		}
		it.Close()
	}
	return out
}

func diffKeys(a, b map[string]string) []string {
	var d []string
	for k, v := range a {
		if w, ok := b[k]; !ok || w != v {
			d = append(d, k)
		}
	}
	for k := range b {
		if _, ok := a[k]; !ok {
			d = append(d, k)
		}
	}
	sort.Strings(d)
	return d
}

// ---------------------------------------------------------------------------------------------
// error classes: (codespace, ABCI code) of the failed transaction -> the model's Err names

type errID struct {
	space string
	code  uint32
}

func eid(e *errorsmod.Error) errID { return errID{e.Codespace(), e.ABCICode()} }

var errClass = map[errID]string{
	eid(ibcerrors.ErrInvalidAddress):                  "badSigner",
	eid(host.ErrInvalidID):                            "invalidId",
	eid(channeltypes.ErrInvalidPacket):                "invalidPacket",
	eid(channeltypesv2.ErrInvalidPacket):              "invalidPacket",
	eid(channeltypesv2.ErrInvalidPayload):             "invalidPayload",
	eid(channeltypes.ErrInvalidAcknowledgement):       "invalidAck",
	eid(channeltypesv2.ErrInvalidAcknowledgement):     "invalidAck",
	eid(sdkerrors.ErrInvalidPubKey):                   "signature",
	eid(sdkerrors.ErrUnauthorized):                    "signature",
	eid(porttypes.ErrInvalidRoute):                    "route",
	eid(ibcerrors.ErrUnauthorized):                    "unauthorized",
	eid(channeltypes.ErrChannelNotFound):              "chanNotFound",
	eid(channeltypes.ErrInvalidChannelState):          "chanState",
	eid(connectiontypes.ErrConnectionNotFound):        "connNotFound",
	eid(connectiontypes.ErrInvalidConnectionState):    "connState",
	eid(channeltypes.ErrTimeoutElapsed):               "timeout",
	eid(channeltypesv2.ErrTimeoutElapsed):             "timeout",
	eid(clienttypes.ErrClientNotActive):               "clientNotActive",
	eid(ibcerrors.ErrInvalidHeight):                   "invalidHeight",
	eid(ibctm.ErrDelayPeriodNotPassed):                "delay",
	eid(ibctm.ErrProcessedTimeNotFound):               "delay",
	eid(ibctm.ErrProcessedHeightNotFound):             "delay",
	eid(clienttypes.ErrConsensusStateNotFound):        "consNotFound",
	eid(channeltypes.ErrPacketReceived):               "packetReceived",
	eid(channeltypes.ErrPacketSequenceOutOfOrder):     "outOfOrder",
	eid(channeltypes.ErrSequenceReceiveNotFound):      "seqNotFound",
	eid(channeltypes.ErrSequenceAckNotFound):          "seqNotFound",
	eid(channeltypes.ErrInvalidChannelOrdering):       "ordering",
	eid(clientv2types.ErrCounterpartyNotFound):        "cpNotFound",
	eid(clientv2types.ErrInvalidCounterparty):         "cpMismatch",
}

type abciResult = abci.ExecTxResult

// classifyErr classifies an error returned by a direct (non-transaction) evaluation
func classifyErr(err error) string {
	space, code, _ := errorsmod.ABCIInfo(err, false)
	return classify(&abci.ExecTxResult{Codespace: space, Code: code})
}

func classify(res *abci.ExecTxResult) string {
	if res == nil {
		return "noresult"
	}
	if res.Codespace == commitmenttypes.SubModuleName {
		return "proof"
	}
	if c, ok := errClass[errID{res.Codespace, res.Code}]; ok {
		return c
	}
	return fmt.Sprintf("other:%s/%d", res.Codespace, res.Code)
}

// responseResult extracts the ResponseResultType (SUCCESS = 2 / NOOP = 1) from a successful packet
// message transaction; 0 when it cannot be decoded
func responseResult(res *abci.ExecTxResult, v2 bool, ack bool) int32 {
	var msgData sdk.TxMsgData
	if proto.Unmarshal(res.Data, &msgData) != nil || len(msgData.MsgResponses) != 1 {
		return 0
	}
	val := msgData.MsgResponses[0].Value
	switch {
	case !v2 && !ack:
		var r channeltypes.MsgRecvPacketResponse
		if proto.Unmarshal(val, &r) == nil {
			return int32(r.Result)
		}
	case !v2 && ack:
		var r channeltypes.MsgAcknowledgementResponse
		if proto.Unmarshal(val, &r) == nil {
			return int32(r.Result)
		}
	case v2 && !ack:
		var r channeltypesv2.MsgRecvPacketResponse
		if proto.Unmarshal(val, &r) == nil {
			return int32(r.Result)
		}
	default:
		var r channeltypesv2.MsgAcknowledgementResponse
		if proto.Unmarshal(val, &r) == nil {
			return int32(r.Result)
		}
	}
	return 0
}

// ---------------------------------------------------------------------------------------------
// signers

const (
	signerDefault   = 0 // the chain's default relayer account signs and is msg.Signer
	signerOther     = 1 // another funded account signs and is msg.Signer
	signerMismatch  = 2 // msg.Signer is another account, the transaction is signed by the default one
	signerMalformed = 3 // msg.Signer is not a bech32 address
)

func signerString(c *ibctesting.TestChain, kind int) string {
	switch kind {
	case signerOther, signerMismatch:
		return c.SenderAccounts[1].SenderAccount.GetAddress().String()
	case signerMalformed:
		return "cosmos1notanaddress"
	}
	return c.SenderAccount.GetAddress().String()
}

// submit delivers one message as a transaction on chain c and returns the result
func submit(c *ibctesting.TestChain, kind int, msg sdk.Msg) (res *abci.ExecTxResult, err error, panicked any) {
	defer func() {
		if r := recover(); r != nil {
			panicked = r
		}
	}()
	sender := ibctesting.SenderAccount{SenderPrivKey: c.SenderPrivKey, SenderAccount: c.SenderAccount}
	if kind == signerOther {
		sender = c.SenderAccounts[1]
	}
	// the test framework bumps its local copy of the account sequence after every transaction, but the
	// chain does so only for transactions that pass stateless validation and the ante handler: resync
	defer func() {
		if acc := c.GetSimApp().AccountKeeper.GetAccount(c.GetContext(), sender.SenderAccount.GetAddress()); acc != nil {
			_ = sender.SenderAccount.SetSequence(acc.GetSequence())
		}
	}()
	res, err = c.SendMsgsWithSender(sender, msg)
	return
}

// ---------------------------------------------------------------------------------------------
// facts shared by all four message kinds

type proofTruth struct {
	key     []byte             // counterparty store key the proof bytes were queried for
	builtAt clienttypes.Height // proof height the bytes were queried for
	intact  bool
}

func hjson(h clienttypes.Height, r, k string, m M) {
	m[r] = U(h.RevisionNumber)
	m[k] = U(h.RevisionHeight)
}

// envFacts: call after Coordinator.UpdateTimeForChain(c) -- the transaction will run in the proposed block
func envFacts(c *ibctesting.TestChain, signer int) M {
	return M{"signerOK": signer != signerMalformed, "sigOK": signer != signerMismatch,
		"selfRev": U(clienttypes.ParseChainID(c.ChainID)), "selfH": U(uint64(c.ProposedHeader.Height)),
		"now": U(uint64(c.ProposedHeader.Time.UnixNano()))}
}

// clientFacts reads what the client keeper / tendermint client will read for (clientID, proof height)
func clientFacts(c *ibctesting.TestChain, clientID string, h clienttypes.Height, proof []byte) M {
	ctx := c.GetContext()
	ck := c.App.GetIBCKeeper().ClientKeeper
	m := M{"active": ck.GetClientStatus(ctx, clientID) == exported.Active}
	hjson(ck.GetClientLatestHeight(ctx, clientID), "lrev", "lh", m)
	cs := ck.ClientStore(ctx, clientID)
	if pt, ok := ibctm.GetProcessedTime(cs, h); ok {
		m["ptime"] = U(pt)
	} else {
		m["ptime"] = nil
	}
	if ph, ok := ibctm.GetProcessedHeight(cs, h); ok {
		m["pheight"] = M{"rev": U(ph.GetRevisionNumber()), "h": U(ph.GetRevisionHeight())}
	} else {
		m["pheight"] = nil
	}
	var mp commitmenttypes.MerkleProof
	m["decodes"] = c.Codec.Unmarshal(proof, &mp) == nil
	_, found := ck.GetClientConsensusState(ctx, clientID, h)
	m["cons"] = found
	return m
}

// proofFacts: ground truth about the submitted proof, read from the counterparty's height-pinned store
func proofFacts(cp *ibctesting.TestChain, msgHeight clienttypes.Height, t proofTruth) M {
	m := M{"intact": t.intact, "key": Hex(t.key), "store": Hex([]byte(exported.StoreKey))}
	hjson(msgHeight, "rev", "h", m)
	hjson(t.builtAt, "brev", "bh", m)
	if v, ok := storeAt(cp, int64(t.builtAt.RevisionHeight)-1, t.key); ok {
		m["val"] = Hex(v)
	} else {
		m["val"] = nil
	}
	return m
}

func outOf(r string, cls string) M {
	if r == "err" {
		return M{"r": "err", "e": cls}
	}
	return M{"r": r}
}

// proofFor queries chain c for a proof of `key` valid at proof height h (state after block h-1).
// ok=false when that version does not exist.
func proofFor(c *ibctesting.TestChain, key []byte, h uint64) (proof []byte, ok bool) {
	if h < 2 || int64(h)-1 > c.App.LastBlockHeight() {
		return nil, false
	}
	defer func() {
		if recover() != nil {
			proof, ok = nil, false
		}
	}()
	res, err := c.App.Query(c.GetContext().Context(), &abci.RequestQuery{Path: "store/ibc/key", Height: int64(h) - 1, Data: key, Prove: true})
	if err != nil || res.ProofOps == nil {
		return nil, false
	}
	mp, err := commitmenttypes.ConvertProofs(res.ProofOps)
	if err != nil {
		return nil, false
	}
	bz, err := c.Codec.Marshal(&mp)
	if err != nil {
		return nil, false
	}
	return bz, true
}
