package world

import (
	"testing"
	"time"

	clienttypes "github.com/cosmos/ibc-go/v11/modules/core/02-client/types"
	connectiontypes "github.com/cosmos/ibc-go/v11/modules/core/03-connection/types"
	channeltypes "github.com/cosmos/ibc-go/v11/modules/core/04-channel/types"
	host "github.com/cosmos/ibc-go/v11/modules/core/24-host"
	ibctm "github.com/cosmos/ibc-go/v11/modules/light-clients/07-tendermint"
	ibctesting "github.com/cosmos/ibc-go/v11/testing"

	. "verif/harness/lib"
	"verif/harness/purefn"
)

// delayScenario: a v1 channel over a connection with a non-zero delay period.  Timeouts are submitted
// with non-receipt proofs at a chosen stored consensus height — the latest one or an older one —
// at chosen moments relative to when THAT consensus state was processed.  C19: the two delays count
// from the processing of the consensus state the proof is verified against (not from any other).
func delayScenario(r *Rng, emit func(M), report func(Violation)) {
	t := &testing.T{}
	coord := ibctesting.NewCoordinator(t, 2)
	a, b := coord.GetChain(ibctesting.GetChainID(1)), coord.GetChain(ibctesting.GetChainID(2))
	p := ibctesting.NewPath(a, b)
	delay := uint64(10+r.Intn(40)) * uint64(time.Second)
	p.EndpointA.ConnectionConfig.DelayPeriod = delay
	p.EndpointB.ConnectionConfig.DelayPeriod = delay
	p.Setup()
	// choose the block-delay granularity: blockDelay = ceil(delay / maxExpectedTimePerBlock)
	maxExp := delay / uint64(1+r.Intn(4))
	if r.Chance(0.2) {
		maxExp = uint64(30 * time.Second)
	}
	a.App.GetIBCKeeper().ConnectionKeeper.SetParams(a.GetContext(), connectiontypes.NewParams(maxExp))
	coord.CommitBlock(a)
	blockDelay := delay / maxExp
	if delay%maxExp != 0 {
		blockDelay++
	}
	rev := clienttypes.ParseChainID(b.ChainID)
	processed := func(H uint64) (pt uint64, okT bool, ph clienttypes.Height, okH bool) {
		store := a.App.GetIBCKeeper().ClientKeeper.ClientStore(a.GetContext(), p.EndpointA.ClientID)
		pt, okT = ibctm.GetProcessedTime(store, clienttypes.NewHeight(rev, H))
		h, ok := ibctm.GetProcessedHeight(store, clienttypes.NewHeight(rev, H))
		if ok {
			ph = h.(clienttypes.Height)
		}
		return pt, okT, ph, ok
	}
	// B's committed headers by height, so that a skipped past height can be submitted later ("fill-in" update)
	recorded := map[uint64]*ibctm.Header{}
	rec := func() {
		h := b.LatestCommittedHeader
		recorded[uint64(h.GetHeight().GetRevisionHeight())] = h
	}
	commitB := func() { coord.CommitBlock(b); rec() }
	updateA := func() {
		if err := p.EndpointA.UpdateClient(); err != nil {
			panic(err)
		}
		rec()
	}
	for i := 0; i < 3; i++ {
		bh := uint64(b.LatestCommittedHeader.GetHeight().GetRevisionHeight())
		th := clienttypes.NewHeight(rev, bh+2)
		seq, err := p.EndpointA.SendPacket(th, 0, ibctesting.MockPacketData)
		if err != nil {
			continue
		}
		pkt := channeltypes.NewPacket(ibctesting.MockPacketData, seq, p.EndpointA.ChannelConfig.PortID, p.EndpointA.ChannelID,
			p.EndpointB.ChannelConfig.PortID, p.EndpointB.ChannelID, th, 0)
		for k := 0; k < 3; k++ {
			commitB()
		}
		updateA()
		heights := []uint64{p.EndpointA.GetClientLatestHeight().GetRevisionHeight()}
		// leave a gap of B heights that A does not know yet, then let A learn a later one
		for k := 0; k < 2+r.Intn(3); k++ {
			commitB()
		}
		updateA()
		heights = append(heights, p.EndpointA.GetClientLatestHeight().GetRevisionHeight())
		done := false
		for try := 0; try < 6 && !done; try++ {
			// let some time / blocks pass on A
			for w := r.Intn(4); w > 0; w-- {
				coord.CommitBlock(a)
			}
			if r.Chance(0.25) {
				// A learns a newer B header: a freshly processed consensus state next to the old one
				updateA()
				heights = append(heights, p.EndpointA.GetClientLatestHeight().GetRevisionHeight())
			}
			H := Pick(r, heights)
			if r.Chance(0.4) {
				// fill-in: a header for a skipped PAST height is submitted now; its consensus state is processed
				// now although the client's latest consensus state was processed long ago
				lo, hi := heights[0], heights[0]
				for _, x := range heights {
					if x < lo {
						lo = x
					}
					if x > hi {
						hi = x
					}
				}
				var cand []uint64
				for hgt := range recorded {
					known := false
					for _, x := range heights {
						if x == hgt {
							known = true
						}
					}
					if !known && hgt > lo && hgt < hi {
						cand = append(cand, hgt)
					}
				}
				if len(cand) > 0 {
					// deterministic choice: smallest candidate offset by a random pick over the sorted list
					for i := range cand {
						for j := i + 1; j < len(cand); j++ {
							if cand[j] < cand[i] {
								cand[i], cand[j] = cand[j], cand[i]
							}
						}
					}
					hf := Pick(r, cand)
					hdr, err := b.IBCClientHeader(recorded[hf], clienttypes.NewHeight(rev, lo))
					if err == nil {
						msg, merr := clienttypes.NewMsgUpdateClient(p.EndpointA.ClientID, hdr, a.SenderAccount.GetAddress().String())
						if merr == nil {
							if _, serr := a.SendMsgs(msg); serr == nil {
								heights = append(heights, hf)
								H = hf
							}
						}
					}
				}
			}
			ts, okc := consTs(p.EndpointA, rev, H)
			pt, okT, ph, okH := processed(H)
			key := host.PacketReceiptKey(pkt.GetDestPort(), pkt.GetDestChannel(), pkt.GetSequence())
			proof, proofHeight := b.QueryProofAtHeight(key, int64(H))
			msg := channeltypes.NewMsgTimeout(pkt, 1, proof, proofHeight, a.SenderAccount.GetAddress().String())
			_, terr := a.SendMsgs(msg)
			now := uint64(a.LatestCommittedHeader.GetTime().UnixNano())
			self := uint64(a.LatestCommittedHeader.GetHeight().GetRevisionHeight())
			selfRev := clienttypes.ParseChainID(a.ChainID)
			in := M{"f": "world.timeoutDelayV1", "trev": U(th.RevisionNumber), "th": U(th.RevisionHeight), "tts": "0", "rev": U(rev), "H": U(H),
				"consTs": U(ts), "cons": okc, "recvAt": "0", "now": U(now), "selfRev": U(selfRev), "selfH": U(self),
				"dt": U(delay), "db": U(blockDelay), "pt": nil, "phH": nil, "phRev": "0"}
			if okT {
				in["pt"] = U(pt)
			}
			if okH {
				in["phH"], in["phRev"] = U(ph.RevisionHeight), U(ph.RevisionNumber)
			}
			emit(lib_case(in, M{"accept": terr == nil}))
			if terr == nil {
				done = true
				early := (okT && now < pt+delay) || (okH && clienttypes.NewHeight(selfRev, self).LT(clienttypes.NewHeight(ph.RevisionNumber, ph.RevisionHeight+blockDelay)))
				if early && report != nil {
					report(Violation{Property: "C19", Key: "delay-wrong-consensus-state", What: "packet proof accepted before the delay period since the consensus state used by the proof was processed",
						Input: M{"proofHeight": U(H), "processedTime": U(pt), "processedHeight": ph.String(), "delayNs": U(delay), "blockDelay": U(blockDelay), "now": U(now), "selfHeight": U(self), "storedHeights": len(heights)}})
				}
			}
		}
	}
}

func init() {
	Groups = append(Groups, purefn.Group{
		Name:  "delay",
		Props: []string{"C19"},
		Gen: func(r *Rng, n int, emit func(M)) {
			for i := 0; i < n; i++ {
				delayScenario(r, emit, nil)
			}
		},
		Monitor: func(r *Rng, n int, report func(Violation)) {
			for i := 0; i < n; i++ {
				delayScenario(r, func(M) {}, report)
			}
		},
	})
}
