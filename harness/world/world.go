// Package world: two real ibctesting chains with real 07-tendermint clients and IAVL proofs (plus the
// localhost loopback on one chain), used for the L4 properties (C04: timeout soundness).
// For every receive / timeout attempt the harness computes, from ground truth it controls (block
// heights and times of the counterparty, the block in which a receive executed, which consensus
// states the client holds), the facts the Lean World model needs, asks the real chain for its verdict,
// and emits both.  Monitors evaluate the property itself on the real chains.
package world

import (
	"fmt"
	"testing"
	"time"

	clienttypes "github.com/cosmos/ibc-go/v11/modules/core/02-client/types"
	channeltypes "github.com/cosmos/ibc-go/v11/modules/core/04-channel/types"
	channeltypesv2 "github.com/cosmos/ibc-go/v11/modules/core/04-channel/v2/types"
	host "github.com/cosmos/ibc-go/v11/modules/core/24-host"
	hostv2 "github.com/cosmos/ibc-go/v11/modules/core/24-host/v2"
	"github.com/cosmos/ibc-go/v11/modules/core/exported"
	localhost "github.com/cosmos/ibc-go/v11/modules/light-clients/09-localhost"
	ibctesting "github.com/cosmos/ibc-go/v11/testing"
	mockv2 "github.com/cosmos/ibc-go/v11/testing/mock/v2"

	. "verif/harness/lib"
	"verif/harness/purefn"
)

var Groups []purefn.Group

type env struct {
	coord  *ibctesting.Coordinator
	a, b   *ibctesting.TestChain
	path   *ibctesting.Path // v1 UNORDERED mock channel A<->B
	pathV2 *ibctesting.Path // v2 clients A<->B
	// B heights for which A's v1 / v2 client holds a consensus state
	consV1, consV2 []uint64
}

func newEnv() *env {
	t := &testing.T{}
	coord := ibctesting.NewCoordinator(t, 2)
	a, b := coord.GetChain(ibctesting.GetChainID(1)), coord.GetChain(ibctesting.GetChainID(2))
	p := ibctesting.NewPath(a, b)
	p.Setup()
	p2 := ibctesting.NewPath(a, b)
	p2.SetupV2()
	e := &env{coord: coord, a: a, b: b, path: p, pathV2: p2}
	e.record()
	return e
}

// record the latest consensus heights the two clients on A now hold
func (e *env) record() {
	h1 := e.path.EndpointA.GetClientLatestHeight().GetRevisionHeight()
	if len(e.consV1) == 0 || e.consV1[len(e.consV1)-1] != h1 {
		e.consV1 = append(e.consV1, h1)
	}
	h2 := e.pathV2.EndpointA.GetClientLatestHeight().GetRevisionHeight()
	if len(e.consV2) == 0 || e.consV2[len(e.consV2)-1] != h2 {
		e.consV2 = append(e.consV2, h2)
	}
}

func (e *env) bHeight() uint64 {
	return uint64(e.b.LatestCommittedHeader.GetHeight().GetRevisionHeight())
}
func (e *env) bRev() uint64 { return clienttypes.ParseChainID(e.b.ChainID) }

// consTs returns the timestamp (ns) of the consensus state A's client holds for B height h
func consTs(ep *ibctesting.Endpoint, rev, h uint64) (uint64, bool) {
	cs, ok := ep.Chain.GetConsensusState(ep.ClientID, clienttypes.NewHeight(rev, h))
	if !ok {
		return 0, false
	}
	return cs.GetTimestamp(), true
}

// advanceB produces k blocks on B, each dt later
func (e *env) advanceB(k int, dt time.Duration) {
	for i := 0; i < k; i++ {
		e.coord.IncrementTimeBy(dt)
		e.coord.CommitBlock(e.b)
	}
}

type pktV1 struct {
	p      channeltypes.Packet
	recvAt uint64 // B block in which the receive executed (0 = not received)
	done   bool   // commitment gone on A (timed out)
	noRecv bool   // the relayer of this history never tries to deliver it (it is left to time out)
}

type pktV2 struct {
	p      channeltypesv2.Packet
	recvAt uint64
	done   bool
	noRecv bool
}

// timeoutV1 submits MsgTimeout with the non-receipt proof taken at B version H-1 (proof height H)
func (e *env) timeoutV1(k *pktV1, H uint64) error {
	key := host.PacketReceiptKey(k.p.GetDestPort(), k.p.GetDestChannel(), k.p.GetSequence())
	proof, proofHeight := e.b.QueryProofAtHeight(key, int64(H))
	if proofHeight.RevisionHeight != H {
		panic(fmt.Sprint("harness: proof height mismatch ", proofHeight, H))
	}
	msg := channeltypes.NewMsgTimeout(k.p, 1, proof, proofHeight, e.a.SenderAccount.GetAddress().String())
	_, err := e.a.SendMsgs(msg)
	return err
}

func (e *env) recvV1(k *pktV1) error {
	// make sure B's client of A can verify the commitment: it was updated by SendPacket; update again
	if err := e.path.EndpointB.UpdateClient(); err != nil {
		return err
	}
	key := host.PacketCommitmentKey(k.p.GetSourcePort(), k.p.GetSourceChannel(), k.p.GetSequence())
	proof, proofHeight := e.a.QueryProof(key)
	msg := channeltypes.NewMsgRecvPacket(k.p, proof, proofHeight, e.b.SenderAccount.GetAddress().String())
	_, err := e.b.SendMsgs(msg)
	return err
}

func (e *env) timeoutV2(k *pktV2, H uint64) error {
	key := hostv2.PacketReceiptKey(k.p.DestinationClient, k.p.Sequence)
	storeKey := append([]byte{}, key...)
	proof, proofHeight := e.b.QueryProofAtHeight(storeKey, int64(H))
	msg := channeltypesv2.NewMsgTimeout(k.p, proof, proofHeight, e.a.SenderAccount.GetAddress().String())
	_, err := e.a.SendMsgs(msg)
	return err
}

func (e *env) recvV2(k *pktV2) error {
	if err := e.pathV2.EndpointB.UpdateClient(); err != nil {
		return err
	}
	key := hostv2.PacketCommitmentKey(k.p.SourceClient, k.p.Sequence)
	proof, proofHeight := e.a.QueryProof(key)
	msg := channeltypesv2.NewMsgRecvPacket(k.p, proof, proofHeight, e.b.SenderAccount.GetAddress().String())
	_, err := e.b.SendMsgs(msg)
	return err
}

func hasReceiptV1(e *env, k *pktV1) bool {
	_, ok := e.b.App.GetIBCKeeper().ChannelKeeper.GetPacketReceipt(e.b.GetContext(), k.p.GetDestPort(), k.p.GetDestChannel(), k.p.GetSequence())
	return ok
}

func hasCommitV1(e *env, k *pktV1) bool {
	return len(e.a.App.GetIBCKeeper().ChannelKeeper.GetPacketCommitment(e.a.GetContext(), k.p.GetSourcePort(), k.p.GetSourceChannel(), k.p.GetSequence())) > 0
}

func hasReceiptV2(e *env, k *pktV2) bool {
	return e.b.App.GetIBCKeeper().ChannelKeeperV2.HasPacketReceipt(e.b.GetContext(), k.p.DestinationClient, k.p.Sequence)
}

func hasCommitV2(e *env, k *pktV2) bool {
	return len(e.a.App.GetIBCKeeper().ChannelKeeperV2.GetPacketCommitment(e.a.GetContext(), k.p.SourceClient, k.p.Sequence)) > 0
}

// history runs one generated history on a fresh pair of chains
func history(r *Rng, steps int, emit func(M), report func(Violation)) {
	e := newEnv()
	rev := e.bRev()
	var v1s []*pktV1
	var v2s []*pktV2
	viol := func(what string, in M) {
		if report != nil {
			report(Violation{Property: "C04", What: what, Input: in})
		}
	}
	tryTimeoutV1 := func(k *pktV1, H uint64) {
		ts, okc := consTs(e.path.EndpointA, rev, H)
		err := e.timeoutV1(k, H)
		in := M{"f": "world.timeoutV1", "trev": U(k.p.TimeoutHeight.RevisionNumber), "th": U(k.p.TimeoutHeight.RevisionHeight), "tts": U(k.p.TimeoutTimestamp),
			"rev": U(rev), "H": U(H), "consTs": U(ts), "cons": okc, "recvAt": U(k.recvAt)}
		emit(lib_case(in, M{"accept": err == nil}))
		if err == nil {
			k.done = true
			if k.recvAt != 0 || hasReceiptV1(e, k) {
				viol("v1 packet both received on B and timed out on A", M{"seq": U(k.p.Sequence), "recvAt": U(k.recvAt), "proofHeight": U(H)})
			}
			// never early: B really produced block H with height/time at or past the timeout
			hdrTime := ts
			reached := (!k.p.TimeoutHeight.IsZero() && clienttypes.NewHeight(rev, H).GTE(k.p.TimeoutHeight)) || (k.p.TimeoutTimestamp != 0 && hdrTime >= k.p.TimeoutTimestamp)
			if !reached || H > e.bHeight() {
				viol("v1 timeout accepted before the destination reached the timeout", M{"seq": U(k.p.Sequence), "proofHeight": U(H), "consTs": U(ts)})
			}
		}
	}
	tryTimeoutV2 := func(k *pktV2, H uint64) {
		ts, okc := consTs(e.pathV2.EndpointA, rev, H)
		err := e.timeoutV2(k, H)
		emit(lib_case(M{"f": "world.timeoutV2", "T": U(k.p.TimeoutTimestamp), "H": U(H), "consTs": U(ts), "cons": okc, "recvAt": U(k.recvAt)}, M{"accept": err == nil}))
		if err == nil {
			k.done = true
			if k.recvAt != 0 || hasReceiptV2(e, k) {
				viol("v2 packet both received on B and timed out on A", M{"seq": U(k.p.Sequence), "recvAt": U(k.recvAt), "proofHeight": U(H)})
			}
			if ts/1_000_000_000 < k.p.TimeoutTimestamp {
				viol("v2 timeout accepted before the destination time reached the timeout", M{"seq": U(k.p.Sequence), "consTs": U(ts)})
			}
		}
	}
	for s := 0; s < steps; s++ {
		switch r.Intn(15) {
		case 10, 6: // receive attempt v1
			if len(v1s) == 0 {
				continue
			}
			k := v1s[len(v1s)-1-r.Intn(min(2, len(v1s)))]
			if k.recvAt != 0 || (k.noRecv && !r.Chance(0.1)) {
				continue
			}
			err := e.recvV1(k)
			blk := e.bHeight()
			bt := uint64(e.b.LatestCommittedHeader.GetTime().UnixNano())
			in := M{"f": "world.recvV1", "trev": U(k.p.TimeoutHeight.RevisionNumber), "th": U(k.p.TimeoutHeight.RevisionHeight), "tts": U(k.p.TimeoutTimestamp),
				"rev": U(rev), "h": U(blk), "time": U(bt)}
			emit(lib_case(in, M{"accept": err == nil}))
			if err == nil {
				k.recvAt = blk
				if k.done {
					viol("v1 packet received on B after it was timed out on A", M{"seq": U(k.p.Sequence)})
				}
			}
		case 11, 12, 8: // receive attempt v2
			if len(v2s) == 0 {
				continue
			}
			k := v2s[len(v2s)-1-r.Intn(min(2, len(v2s)))]
			if k.recvAt != 0 || (k.noRecv && !r.Chance(0.1)) {
				continue
			}
			err := e.recvV2(k)
			blk := e.bHeight()
			bt := uint64(e.b.LatestCommittedHeader.GetTime().UnixNano())
			emit(lib_case(M{"f": "world.recvV2", "T": U(k.p.TimeoutTimestamp), "time": U(bt)}, M{"accept": err == nil}))
			if err == nil {
				k.recvAt = blk
				if k.done {
					viol("v2 packet received on B after it was timed out on A", M{"seq": U(k.p.Sequence)})
				}
			}
		case 13, 14: // directed: move B's clock right next to a pending packet's timeout, then A learns about it
			var target int64 // nanoseconds
			var dk1 *pktV1
			var dk2 *pktV2
			deltas := []int64{-1_000_000_000, -600_000_000, -500_000_000, -400_000_000, -1, 0, 1, 400_000_000}
			if r.Bool() && len(v2s) > 0 {
				k := v2s[len(v2s)-1-r.Intn(min(2, len(v2s)))]
				if k.done {
					continue
				}
				target = int64(k.p.TimeoutTimestamp)*1_000_000_000 + Pick(r, deltas)
				dk2 = k
			} else if len(v1s) > 0 {
				k := v1s[len(v1s)-1-r.Intn(min(2, len(v1s)))]
				if k.done || k.p.TimeoutTimestamp == 0 {
					continue
				}
				target = int64(k.p.TimeoutTimestamp) + Pick(r, []int64{-1, 0, 1})
				dk1 = k
			} else {
				continue
			}
			if target <= e.coord.CurrentTime.UnixNano() {
				continue
			}
			// Endpoint.UpdateClient first commits one block on B — carrying the coordinator's current time —
			// and then submits exactly that header: the new latest consensus state has timestamp `target`.
			e.coord.SetTime(time.Unix(0, target))
			if dk2 != nil {
				if err := e.pathV2.EndpointA.UpdateClient(); err != nil {
					panic(err)
				}
			} else {
				if err := e.path.EndpointA.UpdateClient(); err != nil {
					panic(err)
				}
			}
			e.record()
			if dk2 != nil && hasCommitV2(e, dk2) && r.Chance(0.8) {
				tryTimeoutV2(dk2, e.consV2[len(e.consV2)-1])
			}
			if dk1 != nil && hasCommitV1(e, dk1) && r.Chance(0.8) {
				tryTimeoutV1(dk1, e.consV1[len(e.consV1)-1])
			}
		case 0, 1: // send v1 with a timeout around B's near future
			bh := e.bHeight()
			bt := uint64(e.b.LatestCommittedHeader.GetTime().UnixNano())
			var th clienttypes.Height
			var tts uint64
			switch r.Intn(3) {
			case 0:
				th = clienttypes.NewHeight(rev, bh+2+uint64(r.Intn(10)))
			case 1:
				tts = bt + uint64(10+r.Intn(120))*uint64(time.Second) + uint64(r.Intn(3))
			default:
				th = clienttypes.NewHeight(rev, bh+2+uint64(r.Intn(10)))
				tts = bt + uint64(10+r.Intn(120))*uint64(time.Second)
			}
			seq, err := e.path.EndpointA.SendPacket(th, tts, ibctesting.MockPacketData)
			if err != nil {
				continue
			}
			e.record()
			p := channeltypes.NewPacket(ibctesting.MockPacketData, seq, e.path.EndpointA.ChannelConfig.PortID, e.path.EndpointA.ChannelID,
				e.path.EndpointB.ChannelConfig.PortID, e.path.EndpointB.ChannelID, th, tts)
			v1s = append(v1s, &pktV1{p: p, noRecv: r.Chance(0.5)})
		case 2: // send v2 with a timeout in seconds
			bt := uint64(e.a.LatestCommittedHeader.GetTime().Unix())
			T := bt + uint64(8+r.Intn(120))
			if r.Chance(0.5) {
				T = uint64(e.b.LatestCommittedHeader.GetTime().Unix()) + uint64(6+r.Intn(40))
			}
			pkt, err := e.pathV2.EndpointA.MsgSendPacket(T, mockv2.NewMockPayload(mockv2.ModuleNameA, mockv2.ModuleNameB))
			if err != nil {
				continue
			}
			if err := e.pathV2.EndpointB.UpdateClient(); err != nil {
				panic(err)
			}
			v2s = append(v2s, &pktV2{p: pkt, noRecv: r.Chance(0.5)})
		case 3, 4: // time passes on B
			// sub-second block times matter: v2 compares whole seconds of nanosecond consensus times
			dt := time.Duration(1+r.Intn(30)) * time.Second
			switch r.Intn(4) {
			case 0:
				dt += time.Duration(r.Intn(1_000_000_000))
			case 1:
				dt += time.Duration(500_000_000 + r.Intn(500_000_000))
			case 2:
				dt += 999_999_999
			}
			e.advanceB(1+r.Intn(4), dt)
		case 5: // A learns about B
			if r.Bool() {
				if err := e.path.EndpointA.UpdateClient(); err != nil {
					panic(err)
				}
			} else {
				if err := e.pathV2.EndpointA.UpdateClient(); err != nil {
					panic(err)
				}
			}
			e.record()
		case 7: // timeout attempt v1 at a chosen proof height
			if len(v1s) == 0 {
				continue
			}
			k := Pick(r, v1s)
			if k.done || !hasCommitV1(e, k) {
				continue
			}
			H := Pick(r, e.consV1)
			if r.Chance(0.6) {
				H = e.consV1[len(e.consV1)-1]
			}
			if r.Chance(0.1) {
				H = e.bHeight() // maybe no consensus state for it
			}
			if H < 2 {
				continue
			}
			tryTimeoutV1(k, H)
		case 9: // timeout attempt v2
			if len(v2s) == 0 {
				continue
			}
			k := Pick(r, v2s)
			if k.done || !hasCommitV2(e, k) {
				continue
			}
			H := Pick(r, e.consV2)
			if r.Chance(0.6) {
				H = e.consV2[len(e.consV2)-1]
			}
			if H < 2 {
				continue
			}
			tryTimeoutV2(k, H)
		}
	}
}

// lib_case wraps a request and the implementation's answer in the shape the sink expects
func lib_case(in M, out M) M { return M{"in": in, "out": out} }

// localhostScenario: a loopback channel on chain A; height-only timeout in the future; the relayer
// chooses the proof height.
func localhostScenario(r *Rng, emit func(M), report func(Violation)) {
	t := &testing.T{}
	coord := ibctesting.NewCoordinator(t, 1)
	a := coord.GetChain(ibctesting.GetChainID(1))
	signer := a.SenderAccount.GetAddress().String()
	ord := channeltypes.UNORDERED
	initMsg := channeltypes.NewMsgChannelOpenInit(ibctesting.MockPort, "mock-version", ord, []string{exported.LocalhostConnectionID}, ibctesting.MockPort, signer)
	res, err := a.SendMsgs(initMsg)
	if err != nil {
		panic(err)
	}
	chA, err := ibctesting.ParseChannelIDFromEvents(res.Events)
	if err != nil {
		panic(err)
	}
	tryMsg := channeltypes.NewMsgChannelOpenTry(ibctesting.MockPort, "mock-version", ord, []string{exported.LocalhostConnectionID}, ibctesting.MockPort, chA, "mock-version", localhost.SentinelProof, clienttypes.ZeroHeight(), signer)
	res, err = a.SendMsgs(tryMsg)
	if err != nil {
		panic(err)
	}
	chB, err := ibctesting.ParseChannelIDFromEvents(res.Events)
	if err != nil {
		panic(err)
	}
	if _, err = a.SendMsgs(channeltypes.NewMsgChannelOpenAck(ibctesting.MockPort, chA, chB, "mock-version", localhost.SentinelProof, clienttypes.ZeroHeight(), signer)); err != nil {
		panic(err)
	}
	if _, err = a.SendMsgs(channeltypes.NewMsgChannelOpenConfirm(ibctesting.MockPort, chB, localhost.SentinelProof, clienttypes.ZeroHeight(), signer)); err != nil {
		panic(err)
	}
	rev := clienttypes.ParseChainID(a.ChainID)
	for i := 0; i < 6; i++ {
		cur := uint64(a.LatestCommittedHeader.GetHeight().GetRevisionHeight())
		var th clienttypes.Height
		var tts uint64
		if r.Chance(0.7) {
			th = clienttypes.NewHeight(rev, cur+3+uint64(r.Intn(6)))
		} else {
			tts = uint64(a.LatestCommittedHeader.GetTime().UnixNano()) + uint64(20+r.Intn(40))*uint64(time.Second)
		}
		seq, err := a.App.GetIBCKeeper().ChannelKeeper.SendPacket(a.GetContext(), ibctesting.MockPort, chA, th, tts, ibctesting.MockPacketData)
		if err != nil {
			panic(err)
		}
		coord.CommitBlock(a)
		pkt := channeltypes.NewPacket(ibctesting.MockPacketData, seq, ibctesting.MockPort, chA, ibctesting.MockPort, chB, th, tts)
		received := false
		for try := 0; try < 4; try++ {
			n := uint64(a.LatestCommittedHeader.GetHeight().GetRevisionHeight()) + 1 // the block the tx will run in
			var P uint64
			switch r.Intn(4) {
			case 0:
				P = 0
			case 1:
				P = n
			case 2:
				P = th.RevisionHeight + uint64(r.Intn(3)) // relayer-chosen: at or above the timeout height
			default:
				P = n - uint64(r.Intn(3))
			}
			if r.Chance(0.15) && !received {
				rm := channeltypes.NewMsgRecvPacket(pkt, localhost.SentinelProof, clienttypes.ZeroHeight(), signer)
				if _, err := a.SendMsgs(rm); err == nil {
					received = true
				}
				continue
			}
			msg := channeltypes.NewMsgTimeout(pkt, 1, localhost.SentinelProof, clienttypes.NewHeight(rev, P), signer)
			_, err := a.SendMsgs(msg)
			nowT := uint64(a.LatestCommittedHeader.GetTime().UnixNano())
			nn := uint64(a.LatestCommittedHeader.GetHeight().GetRevisionHeight())
			stillCommitted := len(a.App.GetIBCKeeper().ChannelKeeper.GetPacketCommitment(a.GetContext(), ibctesting.MockPort, chA, seq)) > 0
			accepted := err == nil && !stillCommitted
			emit(lib_case(M{"f": "world.timeoutLocalhost", "trev": U(th.RevisionNumber), "th": U(th.RevisionHeight), "tts": U(tts), "rev": U(rev),
				"n": U(nn), "P": U(P), "time": U(nowT), "received": received}, M{"accept": accepted}))
			if accepted {
				selfReached := (!th.IsZero() && clienttypes.NewHeight(rev, nn).GTE(th)) || (tts != 0 && nowT >= tts)
				if !selfReached && report != nil {
					report(Violation{Property: "C04", Key: "localhost-early-timeout", What: "localhost timeout accepted before the chain itself reached the timeout (relayer-chosen proof height)",
						Input: M{"timeoutHeight": th.String(), "timeoutTs": U(tts), "chainHeight": U(nn), "proofHeight": U(P)}})
				}
				if received && report != nil {
					report(Violation{Property: "C04", What: "localhost packet both received and timed out", Input: M{"seq": U(seq)}})
				}
				break
			}
			if r.Chance(0.5) {
				coord.IncrementTimeBy(time.Duration(5+r.Intn(20)) * time.Second)
				coord.CommitBlock(a)
			}
		}
	}
}

func init() {
	Groups = append(Groups, purefn.Group{
		Name:  "timeouts",
		Props: []string{"C04"},
		Gen: func(r *Rng, n int, emit func(M)) {
			for i := 0; i < n; i++ {
				history(r, 40, emit, nil)
			}
		},
		Monitor: func(r *Rng, n int, report func(Violation)) {
			for i := 0; i < n; i++ {
				history(r, 40, func(M) {}, report)
			}
		},
	}, purefn.Group{
		Name:  "localhost",
		Props: []string{"C04"},
		Gen: func(r *Rng, n int, emit func(M)) {
			for i := 0; i < n; i++ {
				localhostScenario(r, emit, nil)
			}
		},
		Monitor: func(r *Rng, n int, report func(Violation)) {
			for i := 0; i < n; i++ {
				localhostScenario(r, func(M) {}, report)
			}
		},
	})
}
