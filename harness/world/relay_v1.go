package world

import (
	"bytes"
	"fmt"
	"time"

	sdk "github.com/cosmos/cosmos-sdk/types"

	clienttypes "github.com/cosmos/ibc-go/v11/modules/core/02-client/types"
	connectiontypes "github.com/cosmos/ibc-go/v11/modules/core/03-connection/types"
	channeltypes "github.com/cosmos/ibc-go/v11/modules/core/04-channel/types"
	host "github.com/cosmos/ibc-go/v11/modules/core/24-host"
	"github.com/cosmos/ibc-go/v11/modules/core/exported"
	ibctesting "github.com/cosmos/ibc-go/v11/testing"

	. "verif/harness/lib"
)

// sink for cases and violations (either may be nil)
type sinks struct {
	emit   func(M)
	report func(Violation)
	n      int // attempts made
}

func (s *sinks) put(in, out M) {
	s.n++
	if s.emit != nil {
		s.emit(M{"in": in, "out": out})
	}
}

func (s *sinks) viol(prop, key, what string, in any, obs any) {
	if s.report != nil {
		s.report(Violation{Property: prop, Key: key, What: what, Input: in, Observed: obs})
	}
}

// one v1 packet message (receive, or acknowledgement when ack != nil) with the ground truth about its proof
type v1msg struct {
	pkt    channeltypes.Packet
	ack    []byte
	proof  []byte
	height clienttypes.Height
	truth  proofTruth
	signer int
}

func (m v1msg) clone() v1msg {
	m.pkt.Data = append([]byte{}, m.pkt.Data...)
	m.ack = append([]byte{}, m.ack...)
	m.proof = append([]byte{}, m.proof...)
	m.truth.key = append([]byte{}, m.truth.key...)
	return m
}

func pktV1JSON(p channeltypes.Packet) M {
	return M{"seq": U(p.Sequence), "sp": Hex([]byte(p.SourcePort)), "sc": Hex([]byte(p.SourceChannel)),
		"dp": Hex([]byte(p.DestinationPort)), "dc": Hex([]byte(p.DestinationChannel)), "data": Hex(p.Data),
		"trev": U(p.TimeoutHeight.RevisionNumber), "th": U(p.TimeoutHeight.RevisionHeight), "tts": U(p.TimeoutTimestamp)}
}

// chanConnFacts reads the channel end under (port, ch) of chain c and its connection; returns the client id
func chanConnFacts(c *ibctesting.TestChain, port, ch string, in M) (clientID string, chOpen, connOpen bool) {
	ctx := c.GetContext()
	k := c.App.GetIBCKeeper()
	in["chan"], in["conn"] = nil, nil
	chn, found := k.ChannelKeeper.GetChannel(ctx, port, ch)
	if !found {
		return "", false, false
	}
	in["chan"] = M{"state": int(chn.State), "ord": int(chn.Ordering), "cpPort": Hex([]byte(chn.Counterparty.PortId)), "cpChan": Hex([]byte(chn.Counterparty.ChannelId))}
	chOpen = chn.State == channeltypes.OPEN
	if len(chn.ConnectionHops) == 0 {
		return "", chOpen, false
	}
	conn, found := k.ConnectionKeeper.GetConnection(ctx, chn.ConnectionHops[0])
	if !found {
		return "", chOpen, false
	}
	in["conn"] = M{"state": int(conn.State), "delay": U(conn.DelayPeriod), "cpPrefix": Hex(conn.Counterparty.Prefix.KeyPrefix)}
	return conn.ClientId, chOpen, conn.State == connectiontypes.OPEN
}

func elapsedIndep(p channeltypes.Packet, selfRev, selfH, now uint64) bool {
	th := p.TimeoutHeight
	hz := th.RevisionNumber == 0 && th.RevisionHeight == 0
	he := !hz && (selfRev > th.RevisionNumber || (selfRev == th.RevisionNumber && selfH >= th.RevisionHeight))
	te := p.TimeoutTimestamp != 0 && now >= p.TimeoutTimestamp
	return he || te
}

// verdictOf turns the transaction result and the store diff into the verdict and runs the
// "no state change unless ok" monitor
func (e *renv) verdictOf(s *sinks, prop string, in M, res resT, diff []string, v2, isAck bool) (string, M) {
	if res.panicked != nil {
		return "panic", M{"panic": fmt.Sprint(res.panicked)}
	}
	if res.err != nil {
		cls := classify(res.res)
		if res.direct {
			cls = res.cls
		}
		if len(diff) > 0 {
			s.viol(prop, "state-change-on-failure", "a failed packet transaction changed IBC or application state", in, M{"keys": diff, "err": cls})
		}
		return "err", outOf("err", cls)
	}
	r := "noop"
	if len(diff) > 0 {
		r = "ok"
	}
	switch responseResult(res.res, v2, isAck) {
	case int32(channeltypes.NOOP):
		if r == "ok" {
			s.viol(prop, "noop-with-state-change", "the response says NOOP but IBC or application state changed", in, M{"keys": diff})
		}
	case int32(channeltypes.SUCCESS):
		if r == "noop" {
			r = "ok" // SUCCESS reported although nothing visible changed: let the correspondence decide
		}
	}
	return r, outOf(r, "")
}

type resT struct {
	res      *abciResult
	err      error
	panicked any
	direct   bool   // evaluated without a transaction (malformed signer)
	cls      string // class for direct evaluations
}

// deliver submits the message; a malformed signer cannot be put into a transaction by the test
// framework, so in that case the two layers a transaction would hit are evaluated directly:
// msg.ValidateBasic (baseapp runTx) and, should that pass, the message server on a discarded context.
func (e *renv) deliver(c *ibctesting.TestChain, signer int, msg sdk.Msg, server func(ctx sdk.Context) error) resT {
	if signer == signerMalformed {
		if vb, ok := msg.(sdk.HasValidateBasic); ok {
			if err := vb.ValidateBasic(); err != nil {
				return resT{err: err, direct: true, cls: classifyErr(err)}
			}
		}
		cctx, _ := c.GetContext().CacheContext()
		var err error
		p := Safe(func() any { err = server(cctx); return nil })
		if p != nil {
			return resT{panicked: p}
		}
		if err != nil {
			return resT{err: err, direct: true, cls: classifyErr(err)}
		}
		return resT{direct: true}
	}
	res, err, pan := submit(c, signer, msg)
	return resT{res: res, err: err, panicked: pan}
}

// ---------------------------------------------------------------------------------------------
// receive

func (e *renv) attemptRecvV1(s *sinks, m v1msg, label string) string {
	c, cp := e.b, e.a
	e.coord.UpdateTimeForChain(c)
	ctx := c.GetContext()
	k := c.App.GetIBCKeeper()
	p := m.pkt
	in := M{"f": "relay.recvV1", "mut": label, "pkt": pktV1JSON(p), "proofEmpty": len(m.proof) == 0, "env": envFacts(c, m.signer)}
	_, route := k.PortKeeper.Route(p.DestinationPort)
	in["route"] = route
	clientID, chOpen, connOpen := chanConnFacts(c, p.DestinationPort, p.DestinationChannel, in)
	cf := clientFacts(c, clientID, m.height, m.proof)
	in["client"] = cf
	in["proof"] = proofFacts(cp, m.height, m.truth)
	in["maxTimePerBlock"] = U(k.ConnectionKeeper.GetParams(ctx).MaxExpectedTimePerBlock)
	rs, _ := k.ChannelKeeper.GetRecvStartSequence(ctx, p.DestinationPort, p.DestinationChannel)
	in["recvStart"] = U(rs)
	_, rc := k.ChannelKeeper.GetPacketReceipt(ctx, p.DestinationPort, p.DestinationChannel, p.Sequence)
	in["receipt"] = rc
	if nr, ok := k.ChannelKeeper.GetNextSequenceRecv(ctx, p.DestinationPort, p.DestinationChannel); ok {
		in["nextRecv"] = U(nr)
	} else {
		in["nextRecv"] = nil
	}
	selfH, now := uint64(c.ProposedHeader.Height), uint64(c.ProposedHeader.Time.UnixNano())

	before := snapshot(c)
	e.pending, e.ackCalls = map[string][][]byte{}, nil
	msg := channeltypes.NewMsgRecvPacket(p, m.proof, m.height, signerString(c, m.signer))
	res := e.deliver(c, m.signer, msg, func(cc sdk.Context) error { _, err := k.RecvPacket(cc, msg); return err })
	diff := diffKeys(before, snapshot(c))
	r, out := e.verdictOf(s, "C05", in, res, diff, false, false)
	s.put(in, out)

	if r == "ok" {
		for kk, v := range e.pending {
			e.wrote[kk] = v
		}
		// the property itself, on ground truth: the counterparty committed exactly this packet at exactly
		// this sequence at the proof height; channel and connection OPEN; client Active with a consensus
		// state for the proof height; own height and time strictly before the timeout
		stored, has := storeAt(cp, int64(m.height.RevisionHeight)-1, ownKeyV1("commitments", p.SourcePort, p.SourceChannel, p.Sequence))
		if !has || !bytes.Equal(stored, ownCommitV1(p)) {
			s.viol("C05", "recv-uncommitted", "v1 packet received although the counterparty store does not hold its commitment at its sequence at the proof height", in, M{"stored": Hex(stored), "expected": Hex(ownCommitV1(p)), "mut": label})
		}
		if !chOpen || !connOpen {
			s.viol("C05", "recv-not-open", "v1 packet received on a channel / connection that is not OPEN", in, M{"mut": label})
		}
		if cf["active"] != true || cf["cons"] != true {
			s.viol("C05", "recv-client", "v1 packet received through a client that is not Active or has no consensus state at the proof height", in, M{"mut": label})
		}
		if elapsedIndep(p, clienttypes.ParseChainID(c.ChainID), selfH, now) {
			s.viol("C05", "recv-expired", "v1 packet received at or after its timeout", in, M{"selfH": U(selfH), "now": U(now), "mut": label})
		}
	}
	return r
}

// ---------------------------------------------------------------------------------------------
// acknowledgement

func (e *renv) attemptAckV1(s *sinks, m v1msg, label string) string {
	c, cp := e.a, e.b
	e.coord.UpdateTimeForChain(c)
	ctx := c.GetContext()
	k := c.App.GetIBCKeeper()
	p := m.pkt
	in := M{"f": "relay.ackV1", "mut": label, "pkt": pktV1JSON(p), "ack": Hex(m.ack), "proofEmpty": len(m.proof) == 0, "env": envFacts(c, m.signer)}
	_, route := k.PortKeeper.Route(p.SourcePort)
	in["route"] = route
	clientID, chOpen, connOpen := chanConnFacts(c, p.SourcePort, p.SourceChannel, in)
	commitment := k.ChannelKeeper.GetPacketCommitment(ctx, p.SourcePort, p.SourceChannel, p.Sequence)
	in["commitment"] = Hex(commitment)
	canon := true
	var parsed channeltypes.Acknowledgement
	if err := channeltypes.SubModuleCdc.UnmarshalJSON(m.ack, &parsed); err == nil {
		canon = bytes.Equal(parsed.Acknowledgement(), m.ack)
	}
	in["ackCanonical"] = canon
	cf := clientFacts(c, clientID, m.height, m.proof)
	in["client"] = cf
	in["proof"] = proofFacts(cp, m.height, m.truth)
	in["maxTimePerBlock"] = U(k.ConnectionKeeper.GetParams(ctx).MaxExpectedTimePerBlock)
	if na, ok := k.ChannelKeeper.GetNextSequenceAck(ctx, p.SourcePort, p.SourceChannel); ok {
		in["nextAck"] = U(na)
	} else {
		in["nextAck"] = nil
	}

	before := snapshot(c)
	e.pending, e.ackCalls = map[string][][]byte{}, nil
	msg := channeltypes.NewMsgAcknowledgement(p, m.ack, m.proof, m.height, signerString(c, m.signer))
	res := e.deliver(c, m.signer, msg, func(cc sdk.Context) error { _, err := k.Acknowledgement(cc, msg); return err })
	diff := diffKeys(before, snapshot(c))
	r, out := e.verdictOf(s, "C06", in, res, diff, false, true)
	s.put(in, out)

	if r == "ok" {
		stored, has := storeAt(cp, int64(m.height.RevisionHeight)-1, ownKeyV1("acks", p.DestinationPort, p.DestinationChannel, p.Sequence))
		if !has || !bytes.Equal(stored, sha(m.ack)) {
			s.viol("C06", "ack-unproven", "v1 acknowledgement processed although the counterparty store does not hold its hash for that packet's destination and sequence at the proof height", in, M{"stored": Hex(stored), "expected": Hex(sha(m.ack)), "mut": label})
		}
		if !bytes.Equal(commitment, ownCommitV1(p)) {
			s.viol("C06", "ack-wrong-packet", "v1 acknowledgement processed for a packet whose fields do not hash to the stored commitment", in, M{"stored": Hex(commitment), "expected": Hex(ownCommitV1(p)), "mut": label})
		}
		if cf["active"] != true || cf["cons"] != true {
			s.viol("C06", "ack-client", "v1 acknowledgement processed through a client that is not Active or has no consensus state at the proof height", in, M{"mut": label})
		}
		if !chOpen || !connOpen {
			s.viol("C06", "ack-not-open", "v1 acknowledgement processed on a channel / connection that is not OPEN", in, M{"mut": label})
		}
		if len(e.ackCalls) != 1 {
			s.viol("C06", "ack-callback-count", "OnAcknowledgementPacket invoked a number of times other than one for a processed acknowledgement", in, M{"calls": len(e.ackCalls)})
		}
	}
	if res.err == nil && res.panicked == nil {
		for _, call := range e.ackCalls {
			want := e.wrote[wroteKeyV1(call.port, call.ch, call.seq)]
			if len(want) != 1 || !bytes.Equal(want[0], call.ack) {
				w := ""
				if len(want) == 1 {
					w = Hex(want[0])
				}
				s.viol("C06", "ack-callback-arg", "OnAcknowledgementPacket invoked with an acknowledgement different from the one the destination wrote", in, M{"got": Hex(call.ack), "destinationWrote": w, "mut": label})
			}
		}
	}
	return r
}

// ---------------------------------------------------------------------------------------------
// mutations

type mutV1 struct {
	name string
	f    func(m *v1msg)
}

// context the mutations draw from
type mctxV1 struct {
	prover     *ibctesting.TestChain // chain the proofs come from
	baseKey    []byte                // key the honest proof is for
	otherSeq   uint64                // sequence of another packet sent on the same channel (0 = none)
	otherAck   []byte                // acknowledgement the destination wrote for another packet (ack flows)
	otherSrcCh string                // an existing channel id on the source chain that is not this channel
	otherDstCh string                // an existing channel id on the destination chain that is not this channel
	consHs     []uint64              // proof heights with a consensus state on the verifying chain
	gapHs      []uint64              // heights <= latest without a consensus state
	latest     uint64
	rev        uint64
	isAck      bool
}

func (x *mctxV1) reproof(m *v1msg, key []byte, h uint64, setHeight bool) {
	if proof, ok := proofFor(x.prover, key, h); ok {
		m.proof = proof
		m.truth = proofTruth{key: append([]byte{}, key...), builtAt: clienttypes.NewHeight(x.rev, h), intact: true}
		if setHeight {
			m.height = clienttypes.NewHeight(x.rev, h)
		}
	} else if setHeight {
		m.height = clienttypes.NewHeight(x.rev, h)
	}
}

func flip(r *Rng, b []byte) []byte {
	out := append([]byte{}, b...)
	if len(out) == 0 {
		return []byte{1}
	}
	i := r.Intn(len(out))
	out[i] ^= byte(1 << uint(r.Intn(8)))
	return out
}

// singleMutsV1 returns every single-field mutation of a v1 message
func (e *renv) singleMutsV1(r *Rng, x *mctxV1) []mutV1 {
	ms := []mutV1{
		{"data-flip", func(m *v1msg) { m.pkt.Data = flip(r, m.pkt.Data) }},
		{"data-append", func(m *v1msg) { m.pkt.Data = append(m.pkt.Data, 'x') }},
		{"data-trunc", func(m *v1msg) { m.pkt.Data = m.pkt.Data[:len(m.pkt.Data)-1] }},
		{"data-empty", func(m *v1msg) { m.pkt.Data = nil }},
		{"theight+1", func(m *v1msg) { m.pkt.TimeoutHeight.RevisionHeight++ }},
		{"theight-1", func(m *v1msg) { m.pkt.TimeoutHeight.RevisionHeight-- }},
		{"theight-zero", func(m *v1msg) { m.pkt.TimeoutHeight = clienttypes.ZeroHeight() }},
		{"trev+1", func(m *v1msg) { m.pkt.TimeoutHeight.RevisionNumber++ }},
		{"tts+1", func(m *v1msg) { m.pkt.TimeoutTimestamp++ }},
		{"tts-zero", func(m *v1msg) { m.pkt.TimeoutTimestamp = 0 }},
		{"tts-far", func(m *v1msg) { m.pkt.TimeoutTimestamp = 1<<63 + uint64(r.Intn(5)) }},
		{"timeout-swap", func(m *v1msg) {
			m.pkt.TimeoutHeight.RevisionHeight, m.pkt.TimeoutTimestamp = m.pkt.TimeoutTimestamp, m.pkt.TimeoutHeight.RevisionHeight
		}},
		{"seq+1", func(m *v1msg) { m.pkt.Sequence++ }},
		{"seq-1", func(m *v1msg) { m.pkt.Sequence-- }},
		{"seq-zero", func(m *v1msg) { m.pkt.Sequence = 0 }},
		{"seq-max", func(m *v1msg) { m.pkt.Sequence = ^uint64(0) }},
		{"sport-transfer", func(m *v1msg) { m.pkt.SourcePort = "transfer" }},
		{"sport-slash", func(m *v1msg) { m.pkt.SourcePort = "mo/ck" }},
		{"sport-short", func(m *v1msg) { m.pkt.SourcePort = "m" }},
		{"sport-suffix", func(m *v1msg) { m.pkt.SourcePort += "x" }},
		{"schan-other", func(m *v1msg) { m.pkt.SourceChannel = x.otherSrcCh }},
		{"schan-none", func(m *v1msg) { m.pkt.SourceChannel = "channel-77" }},
		{"schan-space", func(m *v1msg) { m.pkt.SourceChannel = "channel 0" }},
		{"schan-suffix", func(m *v1msg) { m.pkt.SourceChannel += "0" }},
		{"dport-transfer", func(m *v1msg) { m.pkt.DestinationPort = "transfer" }},
		{"dport-unrouted", func(m *v1msg) { m.pkt.DestinationPort = "zzzz" }},
		{"dport-suffix", func(m *v1msg) { m.pkt.DestinationPort += "x" }},
		{"dport-empty", func(m *v1msg) { m.pkt.DestinationPort = "" }},
		{"dchan-other", func(m *v1msg) { m.pkt.DestinationChannel = x.otherDstCh }},
		{"dchan-none", func(m *v1msg) { m.pkt.DestinationChannel = "channel-77" }},
		{"dchan-short", func(m *v1msg) { m.pkt.DestinationChannel = "chan-0" }},
		{"swap-src-dst", func(m *v1msg) {
			m.pkt.SourcePort, m.pkt.DestinationPort = m.pkt.DestinationPort, m.pkt.SourcePort
			m.pkt.SourceChannel, m.pkt.DestinationChannel = m.pkt.DestinationChannel, m.pkt.SourceChannel
		}},
		{"proof-flip", func(m *v1msg) { m.proof = flip(r, m.proof); m.truth.intact = false }},
		{"proof-trunc", func(m *v1msg) { m.proof = m.proof[:len(m.proof)-1-r.Intn(len(m.proof)/2)]; m.truth.intact = false }},
		{"proof-append", func(m *v1msg) { m.proof = append(m.proof, byte(r.Intn(256))); m.truth.intact = false }},
		{"proof-empty", func(m *v1msg) { m.proof = nil; m.truth.intact = false }},
		{"proof-random", func(m *v1msg) { m.proof = r.Bytes(40 + r.Intn(200)); m.truth.intact = false }},
		{"proof-key-receipt", func(m *v1msg) {
			x.reproof(m, host.PacketReceiptKey(m.pkt.DestinationPort, m.pkt.DestinationChannel, m.pkt.Sequence), m.height.RevisionHeight, false)
		}},
		{"proof-key-nextsend", func(m *v1msg) {
			x.reproof(m, host.NextSequenceRecvKey(m.pkt.DestinationPort, m.pkt.DestinationChannel), m.height.RevisionHeight, false)
		}},
		{"proof-key-channel", func(m *v1msg) {
			x.reproof(m, host.ChannelKey(m.pkt.SourcePort, m.pkt.SourceChannel), m.height.RevisionHeight, false)
		}},
		{"height-zero", func(m *v1msg) { m.height = clienttypes.ZeroHeight() }},
		{"height-rev+1", func(m *v1msg) { m.height.RevisionNumber++ }},
		{"height+1-stale", func(m *v1msg) { m.height.RevisionHeight++ }},
		{"height-above-latest", func(m *v1msg) {
			x.reproof(m, x.baseKey, uint64(x.prover.App.LastBlockHeight())+1, true)
		}},
		{"signer-other", func(m *v1msg) { m.signer = signerOther }},
		{"signer-mismatch", func(m *v1msg) { m.signer = signerMismatch }},
		{"signer-malformed", func(m *v1msg) { m.signer = signerMalformed }},
	}
	if x.otherSeq != 0 {
		os := x.otherSeq
		ms = append(ms, mutV1{"seq-other", func(m *v1msg) { m.pkt.Sequence = os }})
		if x.isAck {
			ms = append(ms, mutV1{"proof-key-otherseq", func(m *v1msg) {
				x.reproof(m, host.PacketAcknowledgementKey(m.pkt.DestinationPort, m.pkt.DestinationChannel, os), m.height.RevisionHeight, false)
			}})
		} else {
			ms = append(ms, mutV1{"proof-key-otherseq", func(m *v1msg) {
				x.reproof(m, host.PacketCommitmentKey(m.pkt.SourcePort, m.pkt.SourceChannel, os), m.height.RevisionHeight, false)
			}})
		}
	}
	if x.isAck {
		ms = append(ms,
			mutV1{"proof-key-commitment", func(m *v1msg) {
				x.reproof(m, host.PacketCommitmentKey(m.pkt.SourcePort, m.pkt.SourceChannel, m.pkt.Sequence), m.height.RevisionHeight, false)
			}},
			mutV1{"ack-flip", func(m *v1msg) { m.ack = flip(r, m.ack) }},
			mutV1{"ack-append", func(m *v1msg) { m.ack = append(m.ack, ' ') }},
			mutV1{"ack-trunc", func(m *v1msg) { m.ack = m.ack[:len(m.ack)-1] }},
			mutV1{"ack-empty", func(m *v1msg) { m.ack = nil }},
			mutV1{"ack-noncanonical", func(m *v1msg) { m.ack = bytes.Replace(m.ack, []byte(":"), []byte(": "), 1) }},
			mutV1{"ack-error", func(m *v1msg) { m.ack = channeltypes.NewErrorAcknowledgement(fmt.Errorf("forged")).Acknowledgement() }},
			mutV1{"ack-result", func(m *v1msg) { m.ack = channeltypes.NewResultAcknowledgement([]byte("forged")).Acknowledgement() }},
		)
		if x.otherAck != nil {
			oa := x.otherAck
			ms = append(ms, mutV1{"ack-other", func(m *v1msg) { m.ack = append([]byte{}, oa...) }})
		}
	} else {
		ms = append(ms, mutV1{"proof-key-ack", func(m *v1msg) {
			x.reproof(m, host.PacketAcknowledgementKey(m.pkt.DestinationPort, m.pkt.DestinationChannel, m.pkt.Sequence), m.height.RevisionHeight, false)
		}})
	}
	// proof heights: every other stored consensus height (proof rebuilt for it: valid iff the value was
	// already there), the same with the old proof bytes kept, and heights without a consensus state
	for i, h := range x.consHs {
		hh := h
		if i > 0 && i < len(x.consHs)-3 && !r.Chance(0.25) {
			continue // keep the earliest and the three latest, sample the rest
		}
		ms = append(ms, mutV1{fmt.Sprintf("height-cons-%d-rebuilt", i), func(m *v1msg) { x.reproof(m, x.baseKey, hh, true) }})
		ms = append(ms, mutV1{fmt.Sprintf("height-cons-%d-stale", i), func(m *v1msg) { m.height = clienttypes.NewHeight(x.rev, hh) }})
	}
	for i, h := range x.gapHs {
		hh := h
		if i >= 2 {
			break
		}
		ms = append(ms, mutV1{fmt.Sprintf("height-nocons-%d", i), func(m *v1msg) { x.reproof(m, x.baseKey, hh, true) }})
	}
	return ms
}

func applyV1(base v1msg, ms ...mutV1) (m v1msg, label string) {
	m = base.clone()
	for i, mu := range ms {
		func() {
			defer func() { recover() }() // e.g. truncating an already empty field: leave it as it is
			mu.f(&m)
		}()
		if i > 0 {
			label += "+"
		}
		label += mu.name
	}
	return m, label
}

// gaps: heights between the first and the latest consensus height that have no consensus state
func gaps(cons []uint64) []uint64 {
	if len(cons) == 0 {
		return nil
	}
	have := map[uint64]bool{}
	for _, h := range cons {
		have[h] = true
	}
	var g []uint64
	for h := cons[len(cons)-1]; h > cons[0] && len(g) < 4; h-- {
		if !have[h] {
			g = append(g, h)
		}
	}
	return g
}

// ---------------------------------------------------------------------------------------------
// chain / connection / client states

type stateVar struct {
	name    string
	apply   func()
	restore func()
}

// statesV1 returns state variations of the channel end / connection / client the message will meet on
// the endpoint's chain
func (e *renv) statesV1(ep *ibctesting.Endpoint, seq uint64, recv bool) []stateVar {
	c := ep.Chain
	k := c.App.GetIBCKeeper()
	origCh := ep.GetChannel()
	origConn := ep.GetConnection()
	setCh := func(f func(ch *channeltypes.Channel)) func() {
		return func() { ch := origCh; f(&ch); ep.SetChannel(ch) }
	}
	setConn := func(f func(cn *connectiontypes.ConnectionEnd)) func() {
		return func() { cn := origConn; f(&cn); ep.SetConnection(cn) }
	}
	restCh := func() { ep.SetChannel(origCh) }
	restConn := func() { ep.SetConnection(origConn) }
	origClient := ep.GetClientState()
	vs := []stateVar{
		{"chan-INIT", setCh(func(ch *channeltypes.Channel) { ch.State = channeltypes.INIT }), restCh},
		{"chan-TRYOPEN", setCh(func(ch *channeltypes.Channel) { ch.State = channeltypes.TRYOPEN }), restCh},
		{"chan-CLOSED", setCh(func(ch *channeltypes.Channel) { ch.State = channeltypes.CLOSED }), restCh},
		{"chan-UNINIT", setCh(func(ch *channeltypes.Channel) { ch.State = channeltypes.UNINITIALIZED }), restCh},
		{"chan-cpchan", setCh(func(ch *channeltypes.Channel) { ch.Counterparty.ChannelId = "channel-55" }), restCh},
		{"chan-cpport", setCh(func(ch *channeltypes.Channel) { ch.Counterparty.PortId = "transfer" }), restCh},
		{"chan-order-none", setCh(func(ch *channeltypes.Channel) { ch.Ordering = channeltypes.NONE }), restCh},
		{"chan-conn-missing", setCh(func(ch *channeltypes.Channel) { ch.ConnectionHops = []string{"connection-99"} }), restCh},
		{"conn-INIT", setConn(func(cn *connectiontypes.ConnectionEnd) { cn.State = connectiontypes.INIT }), restConn},
		{"conn-TRYOPEN", setConn(func(cn *connectiontypes.ConnectionEnd) { cn.State = connectiontypes.TRYOPEN }), restConn},
		{"conn-UNINIT", setConn(func(cn *connectiontypes.ConnectionEnd) { cn.State = connectiontypes.UNINITIALIZED }), restConn},
		{"conn-delay-20s", setConn(func(cn *connectiontypes.ConnectionEnd) { cn.DelayPeriod = uint64(20 * time.Second) }), restConn},
		{"conn-delay-1h", setConn(func(cn *connectiontypes.ConnectionEnd) { cn.DelayPeriod = uint64(time.Hour) }), restConn},
		{"conn-delay-1ns", setConn(func(cn *connectiontypes.ConnectionEnd) { cn.DelayPeriod = 1 }), restConn},
		{"conn-client-missing", setConn(func(cn *connectiontypes.ConnectionEnd) { cn.ClientId = "07-tendermint-99" }), restConn},
		{"conn-prefix-empty", setConn(func(cn *connectiontypes.ConnectionEnd) { cn.Counterparty.Prefix.KeyPrefix = nil }), restConn},
		{"conn-prefix-other", setConn(func(cn *connectiontypes.ConnectionEnd) { cn.Counterparty.Prefix.KeyPrefix = []byte("ibcx") }), restConn},
		{"client-frozen", func() { ep.FreezeClient() }, func() { ep.SetClientState(origClient) }},
	}
	if recv {
		rsKey := host.RecvStartSequenceKey(ep.ChannelConfig.PortID, ep.ChannelID)
		vs = append(vs, stateVar{"recvstart-above",
			func() { c.GetContext().KVStore(ibcKey(c)).Set(rsKey, sdk.Uint64ToBigEndian(seq+1)) },
			func() { c.GetContext().KVStore(ibcKey(c)).Delete(rsKey) }})
		vs = append(vs, stateVar{"recvstart-equal",
			func() { c.GetContext().KVStore(ibcKey(c)).Set(rsKey, sdk.Uint64ToBigEndian(seq)) },
			func() { c.GetContext().KVStore(ibcKey(c)).Delete(rsKey) }})
	}
	// the next-sequence counter the ORDERED branch reads is missing
	nsKey := host.NextSequenceRecvKey(ep.ChannelConfig.PortID, ep.ChannelID)
	if !recv {
		nsKey = host.NextSequenceAckKey(ep.ChannelConfig.PortID, ep.ChannelID)
	}
	if origCh.Ordering == channeltypes.ORDERED {
		var saved []byte // read when the variation is applied: earlier attempts of the phase may have moved the counter
		vs = append(vs, stateVar{"nextseq-missing",
			func() {
				st := c.GetContext().KVStore(ibcKey(c))
				saved = st.Get(nsKey)
				st.Delete(nsKey)
			},
			func() {
				if saved != nil {
					c.GetContext().KVStore(ibcKey(c)).Set(nsKey, saved)
				}
			}})
	}
	_ = k
	_ = exported.Active
	return vs
}
