// wasmstore: correspondence harness + monitor for property C29 (08-wasm ClientRecoveryStore).
//
// The real ClientRecoveryStore (re-exported by /repo/modules/light-clients/08-wasm/verifhook, build tag
// `verif`) wraps two real SDK prefix.Stores ("clients/08-wasm-0/" = subject, "clients/08-wasm-1/" =
// substitute) over one shared parent store, exactly the shape RecoverClient builds. Random histories
// of Get/Has/Set/Delete/Iterator/ReverseIterator with keys that carry the subject prefix, the
// substitute prefix, no prefix, near-miss prefixes or nested prefixes are run against it; after every
// call the complete contents of both wrapped stores (and of the rest of the parent) are observed.
//
//	wasmstore -n 300 -monitor 300 -cases cases.jsonl -violations viol.jsonl
//	wasmstore -replay requests.jsonl -cases cases.jsonl
package main

import (
	"bufio"
	"bytes"
	"encoding/hex"
	"encoding/json"
	"flag"
	"fmt"
	"os"

	dbm "github.com/cosmos/cosmos-db"

	"github.com/cosmos/cosmos-sdk/store/v2/dbadapter"
	"github.com/cosmos/cosmos-sdk/store/v2/prefix"
	storetypes "github.com/cosmos/cosmos-sdk/store/v2/types"

	"github.com/cosmos/ibc-go/modules/light-clients/08-wasm/v11/verifhook"

	. "verif/harness/lib"
)

var (
	subjectClientPrefix    = []byte("clients/08-wasm-0/")
	substituteClientPrefix = []byte("clients/08-wasm-1/")
	foreignKey             = []byte("clients/07-tendermint-0/clientState")
)

type world struct {
	parent     storetypes.KVStore
	subject    storetypes.KVStore
	substitute storetypes.KVStore
	rs         storetypes.KVStore
}

func newWorld(subj, subst [][2][]byte) *world {
	parent := dbadapter.Store{DB: dbm.NewMemDB()}
	w := &world{parent: parent}
	w.subject = prefix.NewStore(parent, subjectClientPrefix)
	w.substitute = prefix.NewStore(parent, substituteClientPrefix)
	parent.Set(foreignKey, []byte{0xAA})
	for _, p := range subj {
		w.subject.Set(p[0], p[1])
	}
	for _, p := range subst {
		w.substitute.Set(p[0], p[1])
	}
	w.rs = verifhook.NewClientRecoveryStore(w.subject, w.substitute)
	return w
}

func dump(s storetypes.KVStore) [][2]string {
	out := [][2]string{}
	it := s.Iterator(nil, nil)
	defer it.Close()
	for ; it.Valid(); it.Next() {
		out = append(out, [2]string{Hex(it.Key()), Hex(it.Value())})
	}
	return out
}

// parentOther lists every parent key outside the two client prefixes.
func (w *world) parentOther() [][2]string {
	out := [][2]string{}
	it := w.parent.Iterator(nil, nil)
	defer it.Close()
	for ; it.Valid(); it.Next() {
		if bytes.HasPrefix(it.Key(), subjectClientPrefix) || bytes.HasPrefix(it.Key(), substituteClientPrefix) {
			continue
		}
		out = append(out, [2]string{Hex(it.Key()), Hex(it.Value())})
	}
	return out
}

func drain(it storetypes.Iterator) [][2]string {
	out := [][2]string{}
	defer it.Close()
	for ; it.Valid(); it.Next() {
		out = append(out, [2]string{Hex(it.Key()), Hex(it.Value())})
	}
	return out
}

func hx(in M, k string) []byte {
	s, _ := in[k].(string)
	b, err := hex.DecodeString(s)
	if err != nil {
		panic("harness: bad hex")
	}
	if b == nil {
		b = []byte{}
	}
	return b
}

func pairsOf(v any) [][2][]byte {
	var out [][2][]byte
	switch a := v.(type) {
	case [][2]string:
		for _, p := range a {
			k, _ := hex.DecodeString(p[0])
			val, _ := hex.DecodeString(p[1])
			out = append(out, [2][]byte{k, nonNil(val)})
		}
	case []any:
		for _, e := range a {
			p, _ := e.([]any)
			if len(p) != 2 {
				continue
			}
			ks, _ := p[0].(string)
			vs, _ := p[1].(string)
			k, _ := hex.DecodeString(ks)
			val, _ := hex.DecodeString(vs)
			out = append(out, [2][]byte{k, nonNil(val)})
		}
	}
	return out
}

func nonNil(b []byte) []byte {
	if b == nil {
		return []byte{}
	}
	return b
}

// apply runs one request on the real store; the answer carries the result and both stores' contents.
func (w *world) apply(in M) M {
	f, _ := in["f"].(string)
	res := Safe(func() any {
		switch f {
		case "get":
			v := w.rs.Get(hx(in, "k"))
			if v == nil {
				return M{"r": "val", "v": nil}
			}
			return M{"r": "val", "v": Hex(v)}
		case "has":
			return M{"r": "bool", "b": w.rs.Has(hx(in, "k"))}
		case "set":
			var v []byte
			if nilv, _ := in["vnil"].(bool); !nilv {
				v = hx(in, "v")
			}
			w.rs.Set(hx(in, "k"), v)
			return M{"r": "unit"}
		case "delete":
			w.rs.Delete(hx(in, "k"))
			return M{"r": "unit"}
		case "iter":
			return M{"r": "items", "items": drain(w.rs.Iterator(hx(in, "s"), hx(in, "e")))}
		case "reviter":
			return M{"r": "items", "items": drain(w.rs.ReverseIterator(hx(in, "s"), hx(in, "e")))}
		}
		return M{"bad": "unknown op " + f}
	})
	out, _ := res.(M)
	if _, isPanic := out["panic"]; isPanic {
		out = M{"r": "panic"}
	}
	out["subject"] = dump(w.subject)
	out["substitute"] = dump(w.substitute)
	return out
}

/* ---------- generators ---------- */

var prefixes = [][]byte{
	[]byte("subject/"), []byte("substitute/"), // the two real ones
	{}, []byte("subject"), []byte("substitute"), []byte("subjec"), []byte("Subject/"), []byte("subject0"), []byte("subject."),
	[]byte("subject/substitute/"), []byte("substitute/subject/"), []byte("subject/subject/"), []byte("/subject/"), []byte("sub"),
	[]byte("substitute0"), []byte("clients/08-wasm-0/"), []byte("clients/08-wasm-1/"),
}

var tails = [][]byte{
	{}, []byte("a"), []byte("b"), []byte("c"), []byte("clientState"), []byte("consensusStates/1-5"), []byte("consensusStates/1-7"),
	{0}, {0xff}, {0xff, 0xff}, []byte("subject/"), []byte("substitute/"), []byte("a/"), []byte("ab"), {1}, []byte("z"),
}

func genPrefix(r *Rng) []byte {
	switch r.Intn(10) {
	case 0, 1, 2, 3:
		return prefixes[0]
	case 4, 5, 6:
		return prefixes[1]
	default:
		return prefixes[r.Intn(len(prefixes))]
	}
}

func genTail(r *Rng) []byte {
	switch {
	case r.Chance(0.15):
		return r.Bytes(r.Intn(4))
	case r.Chance(0.5):
		return tails[1+r.Intn(6)] // the keys most likely to be present
	}
	return tails[r.Intn(len(tails))]
}

func genKey(r *Rng) []byte { return append(append([]byte{}, genPrefix(r)...), genTail(r)...) }

func genRange(r *Rng) ([]byte, []byte) {
	p := genPrefix(r)
	q := p
	if r.Chance(0.25) {
		q = genPrefix(r)
	}
	var lo, hi []byte
	switch r.Intn(6) {
	case 0:
		lo, hi = []byte{}, []byte{0xff, 0xff, 0xff}
	case 1:
		lo, hi = []byte{0}, []byte("zzzz")
	case 2:
		lo, hi = genTail(r), genTail(r)
	case 3:
		lo, hi = []byte("a"), []byte("d")
	case 4:
		lo, hi = []byte("consensusStates/"), []byte("consensusStates0")
	default:
		lo, hi = genTail(r), []byte{0xff, 0xff, 0xff}
	}
	return append(append([]byte{}, p...), lo...), append(append([]byte{}, q...), hi...)
}

func genContents(r *Rng) [][2]string {
	n := r.Intn(7)
	seen := map[string]bool{}
	out := [][2]string{}
	for i := 0; i < n; i++ {
		k := genTail(r)
		if len(k) == 0 || seen[string(k)] {
			continue
		}
		seen[string(k)] = true
		out = append(out, [2]string{Hex(k), Hex(r.Bytes(1 + r.Intn(3)))})
	}
	return out
}

func genOp(r *Rng) M {
	switch r.Intn(12) {
	case 0, 1:
		return M{"f": "get", "k": Hex(genKey(r))}
	case 2:
		return M{"f": "has", "k": Hex(genKey(r))}
	case 3, 4, 5, 6:
		m := M{"f": "set", "k": Hex(genKey(r)), "v": Hex(r.Bytes(r.Intn(4))), "vnil": false}
		if r.Chance(0.05) {
			m["v"], m["vnil"] = "", true
		}
		return m
	case 7, 8:
		return M{"f": "delete", "k": Hex(genKey(r))}
	case 9, 10:
		s, e := genRange(r)
		return M{"f": "iter", "s": Hex(s), "e": Hex(e)}
	default:
		s, e := genRange(r)
		return M{"f": "reviter", "s": Hex(s), "e": Hex(e)}
	}
}

/* ---------- monitor: the property itself, evaluated on the implementation ---------- */

func eqPairs(a, b [][2]string) bool {
	if len(a) != len(b) {
		return false
	}
	for i := range a {
		if a[i] != b[i] {
			return false
		}
	}
	return true
}

func toMap(p [][2]string) map[string]string {
	m := map[string]string{}
	for _, e := range p {
		m[e[0]] = e[1]
	}
	return m
}

// monitorHistory runs one random history and checks C29 directly on the observed stores.
func monitorHistory(r *Rng, steps int, report func(Violation)) {
	reset := M{"f": "reset", "subject": genContents(r), "substitute": genContents(r)}
	w := newWorld(pairsOf(reset["subject"]), pairsOf(reset["substitute"]))
	subst0 := dump(w.substitute)
	other0 := w.parentOther()
	history := []M{reset}
	subjPfx, substPfx := verifhook.SubjectPrefix(), verifhook.SubstitutePrefix()
	for i := 0; i < steps; i++ {
		op := genOp(r)
		history = append(history, op)
		before := toMap(dump(w.subject))
		out := w.apply(op)
		viol := func(key, what string) {
			report(Violation{Property: "C29", What: what, Input: M{"requests": append([]M{}, history...), "key": key}, Observed: out})
		}
		if !eqPairs(dump(w.substitute), subst0) {
			viol("substitute-modified", "the substitute client's store was modified through the ClientRecoveryStore")
			return
		}
		if !eqPairs(w.parentOther(), other0) {
			viol("foreign-modified", "a key outside both client stores was modified through the ClientRecoveryStore")
			return
		}
		after := toMap(dump(w.subject))
		f := op["f"].(string)
		// which subject keys changed?
		changed := []string{}
		for k, v := range after {
			if bv, ok := before[k]; !ok || bv != v {
				changed = append(changed, k)
			}
		}
		for k := range before {
			if _, ok := after[k]; !ok {
				changed = append(changed, k)
			}
		}
		var wkey []byte
		if f == "set" || f == "delete" {
			wkey = hx(op, "k")
		}
		isSubjectKey := wkey != nil && bytes.HasPrefix(wkey, subjPfx)
		for _, ck := range changed {
			if !isSubjectKey || ck != Hex(wkey[len(subjPfx):]) {
				viol("subject-write-misrouted", "the subject store changed at a key that is not the written key stripped of \"subject/\"")
				return
			}
		}
		if isSubjectKey && out["r"] == "unit" {
			stripped := Hex(wkey[len(subjPfx):])
			if f == "set" {
				if nilv, _ := op["vnil"].(bool); !nilv && after[stripped] != op["v"].(string) {
					viol("subject-write-lost", "Set with a \"subject/\" key did not store the value in the subject store")
					return
				}
			} else if _, ok := after[stripped]; ok {
				viol("subject-delete-lost", "Delete with a \"subject/\" key did not delete from the subject store")
				return
			}
		}
		// reads: routed by prefix; anything else reads as empty
		stores := []storetypes.KVStore{nil, w.subject, w.substitute}
		route := func(k []byte) (int, []byte) {
			if bytes.HasPrefix(k, subjPfx) {
				return 1, k[len(subjPfx):]
			}
			if bytes.HasPrefix(k, substPfx) {
				return 2, k[len(substPfx):]
			}
			return 0, nil
		}
		switch f {
		case "get", "has":
			sti, k := route(hx(op, "k"))
			st := stores[sti]
			if sti == 0 {
				if (f == "get" && out["v"] != nil) || (f == "has" && out["b"] != false) {
					viol("unprefixed-read-nonempty", "a key without the subject/ or substitute/ prefix did not read as empty")
					return
				}
			} else if out["r"] != "panic" {
				if f == "get" {
					want := st.Get(k)
					got, _ := out["v"].(string)
					if (want == nil) != (out["v"] == nil) || (want != nil && Hex(want) != got) {
						viol("read-misrouted", "Get was not routed to the store named by the key prefix")
						return
					}
				} else if st.Has(k) != out["b"] {
					viol("read-misrouted", "Has was not routed to the store named by the key prefix")
					return
				}
			}
		case "iter", "reviter":
			s1, a := route(hx(op, "s"))
			s2, b := route(hx(op, "e"))
			items, _ := out["items"].([][2]string)
			if s1 == 0 || s2 == 0 || s1 != s2 {
				if out["r"] == "items" && len(items) != 0 {
					viol("inconsistent-range-nonempty", "an iteration range without one consistent prefix did not read as empty")
					return
				}
			} else if out["r"] == "items" {
				var want [][2]string
				if f == "iter" {
					want = drain(stores[s1].Iterator(a, b))
				} else {
					want = drain(stores[s1].ReverseIterator(a, b))
				}
				if !eqPairs(want, items) {
					viol("read-misrouted", "iteration was not routed to the store named by the range prefix")
					return
				}
			}
		}
	}
}

/* ---------- main ---------- */

func main() {
	_ = flag.String("groups", "", "unused (single group)")
	n := flag.Int("n", 300, "number of histories")
	mon := flag.Int("monitor", 300, "number of monitored histories")
	casesPath := flag.String("cases", "cases.jsonl", "output: correspondence cases")
	violPath := flag.String("violations", "violations.jsonl", "output: monitor violations")
	replay := flag.String("replay", "", "re-evaluate the requests of this JSON-lines file")
	flag.Parse()
	cs, err := NewSink(*casesPath)
	if err != nil {
		fmt.Fprintln(os.Stderr, err)
		os.Exit(2)
	}
	if *replay != "" {
		doReplay(*replay, cs)
		return
	}
	vs, err := NewSink(*violPath)
	if err != nil {
		fmt.Fprintln(os.Stderr, err)
		os.Exit(2)
	}
	r := NewRng(EnvSeed())
	gr := r.Fork()
	for i := 0; i < *n; i++ {
		reset := M{"f": "reset", "subject": genContents(gr), "substitute": genContents(gr)}
		w := newWorld(pairsOf(reset["subject"]), pairsOf(reset["substitute"]))
		cs.Put(Case{In: reset, Out: M{"r": "reset", "subject": dump(w.subject), "substitute": dump(w.substitute)}})
		steps := 5 + gr.Intn(40)
		for j := 0; j < steps; j++ {
			op := genOp(gr)
			cs.Put(Case{In: op, Out: w.apply(op)})
		}
	}
	mr := r.Fork()
	cnt := 0
	for i := 0; i < *mon; i++ {
		monitorHistory(mr, 5+mr.Intn(40), func(v Violation) {
			if cnt < 20 {
				vs.Put(v)
			}
			cnt++
		})
	}
	cs.Close()
	vs.Close()
	fmt.Printf("cases=%d violations=%d\n", cs.N, vs.N)
}

func doReplay(path string, cs *Sink) {
	f, err := os.Open(path)
	if err != nil {
		fmt.Fprintln(os.Stderr, err)
		os.Exit(2)
	}
	defer f.Close()
	sc := bufio.NewScanner(f)
	sc.Buffer(make([]byte, 1<<20), 1<<26)
	w := newWorld(nil, nil)
	for sc.Scan() {
		var in M
		if err := json.Unmarshal(sc.Bytes(), &in); err != nil {
			continue
		}
		if inner, ok := in["in"].(map[string]any); ok {
			in = inner
		}
		if in["f"] == "reset" {
			w = newWorld(pairsOf(in["subject"]), pairsOf(in["substitute"]))
			cs.Put(Case{In: in, Out: M{"r": "reset", "subject": dump(w.subject), "substitute": dump(w.substitute)}})
			continue
		}
		cs.Put(Case{In: in, Out: w.apply(in)})
	}
	cs.Close()
	fmt.Printf("cases=%d\n", cs.N)
}
