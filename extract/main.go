// extract: the translator half of the tie between /repo and the Lean model.
// It parses the anchored Go files of the *current working tree* with go/ast (stdlib only) and
// regenerates lean/IbcVerif/Gen/Facts.lean: constants (key prefixes, kind bytes, separators,
// sentinels, limits) and simple structural facts.  The Lean model *uses* these generated
// definitions, and the property theorems carry side conditions about them (kind bytes distinct and
// outside the identifier alphabet, prefix words '/'-free and pairwise distinct, …) that are
// re-proved by `decide` on every run — so changing a constant in /repo either leaves every proof
// intact (harmless) or breaks a named obligation at `lake build`.
package main

import (
	"encoding/json"
	"flag"
	"fmt"
	"go/ast"
	"go/parser"
	"go/token"
	"os"
	"path/filepath"
	"sort"
	"strconv"
	"strings"
)

type constSpec struct {
	File string // relative to repo
	Name string // Go identifier
	Lean string // Lean identifier
	Kind string // "bytes" (string or []byte literal -> List UInt8), "nat", "byte"
}

var specs = []constSpec{
	{"modules/core/24-host/packet_keys.go", "KeySequencePrefix", "keySequencePrefix", "bytes"},
	{"modules/core/24-host/packet_keys.go", "KeyNextSeqRecvPrefix", "keyNextSeqRecvPrefix", "bytes"},
	{"modules/core/24-host/packet_keys.go", "KeyNextSeqAckPrefix", "keyNextSeqAckPrefix", "bytes"},
	{"modules/core/24-host/packet_keys.go", "KeyPacketCommitmentPrefix", "keyPacketCommitmentPrefix", "bytes"},
	{"modules/core/24-host/packet_keys.go", "KeyPacketAckPrefix", "keyPacketAckPrefix", "bytes"},
	{"modules/core/24-host/packet_keys.go", "KeyPacketReceiptPrefix", "keyPacketReceiptPrefix", "bytes"},
	{"modules/core/24-host/packet_keys.go", "KeyRecvStartSequence", "keyRecvStartSequence", "bytes"},
	{"modules/core/24-host/channel_keys.go", "KeyChannelEndPrefix", "keyChannelEndPrefix", "bytes"},
	{"modules/core/24-host/channel_keys.go", "KeyChannelPrefix", "keyChannelPrefix", "bytes"},
	{"modules/core/24-host/port_keys.go", "KeyPortPrefix", "keyPortPrefix", "bytes"},
	{"modules/core/24-host/connection_keys.go", "KeyConnectionPrefix", "keyConnectionPrefix", "bytes"},
	{"modules/core/24-host/client_keys.go", "KeyClientStorePrefix", "keyClientStorePrefix", "bytes"},
	{"modules/core/24-host/client_keys.go", "KeyClientState", "keyClientState", "bytes"},
	{"modules/core/24-host/client_keys.go", "KeyConsensusStatePrefix", "keyConsensusStatePrefix", "bytes"},
	{"modules/core/24-host/v2/packet_keys.go", "PacketCommitmentBasePrefix", "v2CommitmentKind", "byte"},
	{"modules/core/24-host/v2/packet_keys.go", "PacketReceiptBasePrefix", "v2ReceiptKind", "byte"},
	{"modules/core/24-host/v2/packet_keys.go", "PacketAcknowledgementBasePrefix", "v2AckKind", "byte"},
	{"modules/core/24-host/v2/packet_keys.go", "KeyNextSeqSendPrefix", "v2KeyNextSeqSendPrefix", "bytes"},
	{"modules/core/04-channel/v2/types/keys.go", "KeyAsyncPacket", "v2KeyAsyncPacket", "bytes"},
	{"modules/core/04-channel/v2/types/keys.go", "KeyAlias", "v2KeyAlias", "bytes"},
	{"modules/core/24-host/validate.go", "DefaultMaxCharacterLength", "defaultMaxCharacterLength", "nat"},
	{"modules/core/24-host/validate.go", "DefaultMaxPortCharacterLength", "defaultMaxPortCharacterLength", "nat"},
	{"modules/core/02-client/types/keys.go", "KeyNextClientSequence", "keyNextClientSequence", "bytes"},
	{"modules/core/04-channel/v2/types/msgs.go", "MaxTimeoutDelta", "maxTimeoutDeltaExpr", "expr"},
	{"modules/apps/transfer/types/keys.go", "escrowAddressVersion", "escrowAddressVersion", "bytes"},
	{"modules/apps/transfer/types/keys.go", "DenomPrefix", "denomPrefix", "bytes"},
}

// funcSrc records the normalised source text of functions whose exact shape the model mirrors;
// a change is not a violation by itself but is surfaced in the evidence as `skeleton_changed`.
var funcSrc = []struct{ File, Func string }{
	{"modules/core/04-channel/types/packet.go", "CommitPacket"},
	{"modules/core/04-channel/v2/types/commitment.go", "CommitPacket"},
	{"modules/core/04-channel/v2/types/commitment.go", "hashPayload"},
	{"modules/core/04-channel/v2/types/commitment.go", "CommitAcknowledgement"},
	{"modules/core/02-client/types/height.go", "Compare"},
	{"modules/core/04-channel/types/timeout.go", "heightElapsed"},
	{"modules/core/04-channel/types/timeout.go", "timestampElapsed"},
	{"modules/core/03-connection/keeper/verify.go", "getBlockDelay"},
}

func main() {
	repo := flag.String("repo", "/repo", "repository root")
	out := flag.String("out", "", "output directory for Gen/*.lean")
	jsonOut := flag.String("json", "", "facts.json path")
	flag.Parse()
	fset := token.NewFileSet()
	files := map[string]*ast.File{}
	parse := func(rel string) *ast.File {
		if f, ok := files[rel]; ok {
			return f
		}
		f, err := parser.ParseFile(fset, filepath.Join(*repo, rel), nil, 0)
		if err != nil {
			fmt.Fprintln(os.Stderr, "extract:", err)
			files[rel] = nil
			return nil
		}
		files[rel] = f
		return f
	}
	facts := map[string]any{}
	var lean strings.Builder
	lean.WriteString("/-\n  GENERATED by /verif/extract from /repo's working tree — do not edit.\n  Constants of ibc-go that the Lean model uses directly.\n-/\nnamespace IbcVerif.Gen\n\n")
	missing := []string{}
	for _, s := range specs {
		f := parse(s.File)
		var val ast.Expr
		if f != nil {
			val = findValue(f, s.Name)
		}
		if val == nil {
			missing = append(missing, s.File+":"+s.Name)
			// emit a poison definition so that dependants fail loudly rather than silently keep an old value
			lean.WriteString(fmt.Sprintf("-- MISSING: %s in %s\n", s.Name, s.File))
			continue
		}
		switch s.Kind {
		case "bytes":
			str, ok := evalString(f, val)
			if !ok {
				missing = append(missing, s.File+":"+s.Name+" (not a string literal)")
				continue
			}
			facts[s.Lean] = str
			lean.WriteString(fmt.Sprintf("/-- %s:%s = %q -/\ndef %s : List UInt8 := %s\n\n", s.File, s.Name, str, s.Lean, byteList([]byte(str))))
		case "byte", "nat":
			n, ok := evalInt(val)
			if !ok {
				missing = append(missing, s.File+":"+s.Name+" (not an integer literal)")
				continue
			}
			facts[s.Lean] = n
			ty := "Nat"
			if s.Kind == "byte" {
				ty = "UInt8"
			}
			lean.WriteString(fmt.Sprintf("/-- %s:%s -/\ndef %s : %s := %d\n\n", s.File, s.Name, s.Lean, ty, n))
		case "expr":
			src := exprString(fset, val)
			facts[s.Lean] = src
			lean.WriteString(fmt.Sprintf("/-- %s:%s (source expression) -/\ndef %s : String := %q\n\n", s.File, s.Name, s.Lean, src))
		}
	}
	lean.WriteString("end IbcVerif.Gen\n")
	skel := map[string]string{}
	for _, fs := range funcSrc {
		f := parse(fs.File)
		if f == nil {
			continue
		}
		for _, d := range f.Decls {
			if fd, ok := d.(*ast.FuncDecl); ok && fd.Name.Name == fs.Func && fd.Body != nil {
				skel[fs.File+":"+fs.Func] = normalise(fset, *repo, fd)
			}
		}
	}
	facts["_skeletons"] = skel
	facts["_missing"] = missing
	if *out != "" {
		os.MkdirAll(*out, 0o755)
		writeIfChanged(filepath.Join(*out, "Facts.lean"), lean.String())
	}
	if *jsonOut != "" {
		b, _ := json.MarshalIndent(facts, "", " ")
		os.WriteFile(*jsonOut, b, 0o644)
	}
	if len(missing) > 0 {
		sort.Strings(missing)
		fmt.Fprintln(os.Stderr, "extract: constants not found:", strings.Join(missing, ", "))
		os.Exit(3)
	}
}

func writeIfChanged(path, content string) {
	if old, err := os.ReadFile(path); err == nil && string(old) == content {
		return
	}
	os.WriteFile(path, []byte(content), 0o644)
}

func findValue(f *ast.File, name string) ast.Expr {
	for _, d := range f.Decls {
		gd, ok := d.(*ast.GenDecl)
		if !ok || (gd.Tok != token.CONST && gd.Tok != token.VAR) {
			continue
		}
		for _, sp := range gd.Specs {
			vs := sp.(*ast.ValueSpec)
			for i, n := range vs.Names {
				if n.Name == name && i < len(vs.Values) {
					return vs.Values[i]
				}
			}
		}
	}
	return nil
}

func evalString(f *ast.File, e ast.Expr) (string, bool) {
	switch v := e.(type) {
	case *ast.Ident: // another constant of the same file
		if w := findValue(f, v.Name); w != nil && w != e {
			return evalString(f, w)
		}
	case *ast.BasicLit:
		if v.Kind == token.STRING {
			s, err := strconv.Unquote(v.Value)
			return s, err == nil
		}
	case *ast.CallExpr: // []byte("x")
		if len(v.Args) == 1 {
			return evalString(f, v.Args[0])
		}
	case *ast.ParenExpr:
		return evalString(f, v.X)
	case *ast.BinaryExpr:
		if v.Op == token.ADD {
			a, ok1 := evalString(f, v.X)
			b, ok2 := evalString(f, v.Y)
			return a + b, ok1 && ok2
		}
	}
	return "", false
}

func evalInt(e ast.Expr) (int64, bool) {
	switch v := e.(type) {
	case *ast.BasicLit:
		if v.Kind == token.INT {
			n, err := strconv.ParseInt(v.Value, 0, 64)
			return n, err == nil
		}
	case *ast.CallExpr: // byte(1)
		if len(v.Args) == 1 {
			return evalInt(v.Args[0])
		}
	case *ast.ParenExpr:
		return evalInt(v.X)
	}
	return 0, false
}

func exprString(fset *token.FileSet, e ast.Expr) string {
	var sb strings.Builder
	ast.Inspect(e, func(n ast.Node) bool {
		switch v := n.(type) {
		case *ast.Ident:
			sb.WriteString(v.Name + " ")
		case *ast.BasicLit:
			sb.WriteString(v.Value + " ")
		case *ast.BinaryExpr:
			sb.WriteString("(" + v.Op.String() + ") ")
		}
		return true
	})
	return strings.TrimSpace(sb.String())
}

func byteList(b []byte) string {
	parts := make([]string, len(b))
	for i, x := range b {
		parts[i] = strconv.Itoa(int(x))
	}
	return "[" + strings.Join(parts, ", ") + "]"
}

// normalise renders a function body as a token stream without comments/positions.
func normalise(fset *token.FileSet, repo string, fd *ast.FuncDecl) string {
	start, end := fset.Position(fd.Pos()), fset.Position(fd.End())
	src, err := os.ReadFile(start.Filename)
	if err != nil {
		return ""
	}
	text := string(src[start.Offset:end.Offset])
	var out []string
	for _, line := range strings.Split(text, "\n") {
		if i := strings.Index(line, "//"); i >= 0 {
			line = line[:i]
		}
		line = strings.TrimSpace(line)
		if line != "" {
			out = append(out, line)
		}
	}
	return strings.Join(out, " ")
}
